package kvql

import (
	"strings"
	"testing"
)

// viol2C17v3Render parses query (which must be erroneous), binds the query
// text to the error and returns the offset it carries, the whole rendered
// message, the line directly above the caret, and the column of the caret.
func viol2C17v3Render(t *testing.T, query string, pad int) (pos int, msg string, aboveCaret string, caretCol int) {
	t.Helper()
	_, err := NewParser(query).Parse()
	if err == nil {
		t.Fatalf("query %q: expected an error", query)
	}
	serr, ok := err.(*SyntaxError)
	if !ok {
		t.Fatalf("query %q: expected a *SyntaxError, got %T", query, err)
	}
	serr.BindQuery(query)
	serr.SetPadding(pad)
	msg = serr.Error()
	lines := strings.Split(msg, "\n")
	for i := 1; i < len(lines); i++ {
		if strings.TrimLeft(lines[i], " ") == "^--" {
			return serr.Pos, msg, lines[i-1], len(lines[i]) - len("^--") - pad
		}
	}
	t.Fatalf("query %q: no caret line in %q", query, msg)
	return 0, "", "", 0
}

func TestViolation3_C17_v3(t *testing.T) {
	// A statement written on two lines (the lexer takes a line break as a
	// blank like any other). The stray x at the end is the fault.
	query := "select key\nwhere key = 'a' x"
	pos, msg, above, col := viol2C17v3Render(t, query, 0)
	if want := strings.LastIndex(query, "x"); pos != want {
		t.Fatalf("offset = %d, want %d (the offset of x)", pos, want)
	}
	if col < 0 || col >= len(above) {
		t.Fatalf("the caret stands at column %d, the line above it %q has only %d characters:\n%s", col, above, len(above), msg)
	}
	if above[col] != 'x' {
		t.Errorf("the caret stands under %q, want under the x at offset %d:\n%s", above[col], pos, msg)
	}
}
