package kvql

import (
	"bytes"
	"fmt"
	"reflect"
	"sort"
	"testing"
)

// Minimal in-memory sorted storage for the demo.
type violC03v3Store struct{ kvs []KVPair }

func violC03v3NewStore(kvs ...KVPair) *violC03v3Store {
	sort.Slice(kvs, func(i, j int) bool { return bytes.Compare(kvs[i].Key, kvs[j].Key) < 0 })
	return &violC03v3Store{kvs: kvs}
}

func (s *violC03v3Store) Get(key []byte) ([]byte, error) {
	for _, kv := range s.kvs {
		if bytes.Equal(kv.Key, key) {
			return kv.Value, nil
		}
	}
	return nil, nil
}
func (s *violC03v3Store) Put(key []byte, value []byte) error { return nil }
func (s *violC03v3Store) BatchPut(kvs []KVPair) error        { return nil }
func (s *violC03v3Store) Delete(key []byte) error            { return nil }
func (s *violC03v3Store) BatchDelete(keys [][]byte) error    { return nil }
func (s *violC03v3Store) Cursor() (Cursor, error)            { return &violC03v3Cursor{s: s}, nil }

type violC03v3Cursor struct {
	s   *violC03v3Store
	idx int
}

func (c *violC03v3Cursor) Seek(prefix []byte) error {
	c.idx = sort.Search(len(c.s.kvs), func(i int) bool { return bytes.Compare(c.s.kvs[i].Key, prefix) >= 0 })
	return nil
}

func (c *violC03v3Cursor) Next() ([]byte, []byte, error) {
	if c.idx >= len(c.s.kvs) {
		return nil, nil, nil
	}
	kv := c.s.kvs[c.idx]
	c.idx++
	return kv.Key, kv.Value, nil
}

func violC03v3Show(rows [][]Column) []string {
	ret := make([]string, len(rows))
	for i, row := range rows {
		cols := make([]string, len(row))
		for j, col := range row {
			if b, ok := col.([]byte); ok {
				cols[j] = string(b)
			} else {
				cols[j] = fmt.Sprintf("%v", col)
			}
		}
		ret[i] = fmt.Sprint(cols)
	}
	return ret
}

// One plan is drained a row at a time, re-initialised with Init() and then
// drained in batches: both passes must give the same rows.
func TestViolation_C03_v3(t *testing.T) {
	store := violC03v3NewStore(NewKVPStr("k1", "v1"), NewKVPStr("k2", "v2"))
	cases := []struct {
		query string
		want  []string
	}{
		// multi-get scan
		{"select key, value where key in ('k1', 'k2')", []string{"[k1 v1]", "[k2 v2]"}},
		// aggregation
		{"select count(1) where true", []string{"[2]"}},
	}
	for _, c := range cases {
		plan, err := NewOptimizer(c.query).BuildPlan(store)
		if err != nil {
			t.Fatal(err)
		}
		ctx := NewExecuteCtx()

		var rowRows [][]Column
		for {
			row, err := plan.Next(ctx)
			if err != nil {
				t.Fatal(err)
			}
			if row == nil {
				break
			}
			rowRows = append(rowRows, row)
		}
		if got := violC03v3Show(rowRows); !reflect.DeepEqual(got, c.want) {
			t.Fatalf("%s: row mode: got %v, want %v", c.query, got, c.want)
		}

		if err := plan.Init(); err != nil {
			t.Fatal(err)
		}

		var batchRows [][]Column
		for {
			rows, err := plan.Batch(ctx)
			if err != nil {
				t.Fatal(err)
			}
			if len(rows) == 0 {
				break
			}
			batchRows = append(batchRows, rows...)
		}
		if got := violC03v3Show(batchRows); !reflect.DeepEqual(got, c.want) {
			t.Errorf("%s: batch mode after Init(): got %v, want (as row mode) %v", c.query, got, c.want)
		}
	}
}
