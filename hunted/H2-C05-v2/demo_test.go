package kvql

import (
	"bytes"
	"fmt"
	"sort"
	"testing"
)

// minimal in-memory sorted storage

type viol2C05v2Store struct{ kvs []KVPair }

func viol2C05v2NewStore(kvs []KVPair) *viol2C05v2Store {
	s := &viol2C05v2Store{kvs: append([]KVPair{}, kvs...)}
	sort.Slice(s.kvs, func(i, j int) bool { return bytes.Compare(s.kvs[i].Key, s.kvs[j].Key) < 0 })
	return s
}

func (s *viol2C05v2Store) Get(key []byte) ([]byte, error) {
	for _, kv := range s.kvs {
		if bytes.Equal(kv.Key, key) {
			return kv.Value, nil
		}
	}
	return nil, nil
}
func (s *viol2C05v2Store) Put(k, v []byte) error           { return nil }
func (s *viol2C05v2Store) BatchPut(kvs []KVPair) error     { return nil }
func (s *viol2C05v2Store) Delete(k []byte) error           { return nil }
func (s *viol2C05v2Store) BatchDelete(keys [][]byte) error { return nil }
func (s *viol2C05v2Store) Cursor() (Cursor, error)         { return &viol2C05v2Cursor{s: s}, nil }

type viol2C05v2Cursor struct {
	s   *viol2C05v2Store
	idx int
}

func (c *viol2C05v2Cursor) Seek(p []byte) error {
	c.idx = sort.Search(len(c.s.kvs), func(i int) bool { return bytes.Compare(c.s.kvs[i].Key, p) >= 0 })
	return nil
}

func (c *viol2C05v2Cursor) Next() ([]byte, []byte, error) {
	if c.idx >= len(c.s.kvs) {
		return nil, nil, nil
	}
	kv := c.s.kvs[c.idx]
	c.idx++
	return kv.Key, kv.Value, nil
}

func viol2C05v2Run(s Storage, query string, batch bool) (string, error) {
	plan, err := NewOptimizer(query).BuildPlan(s)
	if err != nil {
		return "", fmt.Errorf("build: %v", err)
	}
	ctx := NewExecuteCtx()
	out := fmt.Sprintf("%v", plan.FieldNameList())
	for {
		var rows [][]Column
		if batch {
			rows, err = plan.Batch(ctx)
		} else {
			var row []Column
			row, err = plan.Next(ctx)
			if row != nil {
				rows = [][]Column{row}
			}
		}
		if err != nil {
			return out, err
		}
		if len(rows) == 0 {
			return out, nil
		}
		for _, row := range rows {
			out += " ["
			for i, col := range row {
				if i > 0 {
					out += " "
				}
				switch v := col.(type) {
				case []byte:
					out += string(v)
				default:
					out += fmt.Sprintf("%v", v)
				}
			}
			out += "]"
		}
	}
}

// The select field w is defined as the name of another field: value as v, v as w.
// Using w in WHERE (inside a function argument) must be the same as using its
// definition v there, and the column w must show the value of the pair.
func TestViolation2_C05_v2(t *testing.T) {
	s := viol2C05v2NewStore([]KVPair{
		NewKVPStr("k1", "5"), NewKVPStr("k2", "x"), NewKVPStr("k3", "x"),
	})
	withName := "select key, value as v, v as w where upper(w) = 'X'"
	replaced := "select key, value as v, v as w where upper(v) = 'X'"
	for _, batch := range []bool{false, true} {
		// rows selected: w in WHERE replaced by its defining expression v
		ref, err := viol2C05v2Run(s, replaced, batch)
		if err != nil {
			t.Fatalf("batch=%v: reference query: %v", batch, err)
		}
		got, err := viol2C05v2Run(s, withName, batch)
		if err != nil {
			t.Fatalf("batch=%v: %v", batch, err)
		}
		if got != ref {
			t.Errorf("batch=%v: where upper(w) = 'X' returned %q, where upper(v) = 'X' returned %q", batch, got, ref)
		}
		// and the column w is the value of its expression (v, that is value) on the pair
		const want = "[KEY v w] [k2 x x] [k3 x x]"
		if ref != want {
			t.Errorf("batch=%v: %s: got %q, want %q", batch, replaced, ref, want)
		}
	}
}
