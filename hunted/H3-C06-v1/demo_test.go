package kvql

import (
	"bytes"
	"fmt"
	"os"
	"os/exec"
	"sort"
	"strings"
	"syscall"
	"testing"
)

// A minimal in-memory sorted storage.
type viol2C06v1Store struct {
	keys []string
	vals map[string][]byte
}

func (s *viol2C06v1Store) Get(key []byte) ([]byte, error) {
	if v, ok := s.vals[string(key)]; ok {
		return v, nil
	}
	return nil, nil
}
func (s *viol2C06v1Store) Put(key []byte, value []byte) error {
	if _, ok := s.vals[string(key)]; !ok {
		s.keys = append(s.keys, string(key))
		sort.Strings(s.keys)
	}
	s.vals[string(key)] = value
	return nil
}
func (s *viol2C06v1Store) BatchPut(kvs []KVPair) error {
	for _, kv := range kvs {
		s.Put(kv.Key, kv.Value)
	}
	return nil
}
func (s *viol2C06v1Store) Delete(key []byte) error      { return nil }
func (s *viol2C06v1Store) BatchDelete(k [][]byte) error { return nil }
func (s *viol2C06v1Store) Cursor() (Cursor, error)      { return &viol2C06v1Cursor{s: s}, nil }

type viol2C06v1Cursor struct {
	s *viol2C06v1Store
	i int
}

func (c *viol2C06v1Cursor) Seek(prefix []byte) error {
	c.i = sort.SearchStrings(c.s.keys, string(prefix))
	return nil
}
func (c *viol2C06v1Cursor) Next() ([]byte, []byte, error) {
	if c.i >= len(c.s.keys) {
		return nil, nil, nil
	}
	k := c.s.keys[c.i]
	c.i++
	return []byte(k), c.s.vals[k], nil
}

// viol2C06v1Query is a 650-byte statement: every field is the one before it,
// twice. Field a40 is the one-byte key repeated 2^40 times.
func viol2C06v1Query() string {
	fields := []string{"key as a0"}
	for i := 1; i <= 40; i++ {
		fields = append(fields, fmt.Sprintf("a%d+a%d as a%d", i-1, i-1, i))
	}
	return "select " + strings.Join(fields, ", ") + " where key = 'k'"
}

const viol2C06v1Env = "VIOL2C06V1_CHILD"

// viol2C06v1Child runs the statement the way the property describes (plan,
// row mode to exhaustion, render the error) in a process whose address space
// is limited to 2 GiB, so that the machine running the test is not harmed.
func viol2C06v1Child() {
	lim := &syscall.Rlimit{Cur: 2 << 30, Max: 2 << 30}
	if err := syscall.Setrlimit(syscall.RLIMIT_AS, lim); err != nil {
		fmt.Println("VIOL2C06V1 SETRLIMIT FAILED", err)
		os.Exit(3)
	}
	store := &viol2C06v1Store{vals: map[string][]byte{}}
	store.Put([]byte("k"), []byte("v"))
	query := viol2C06v1Query()
	plan, err := NewOptimizer(query).BuildPlan(store)
	if err != nil {
		fmt.Println("VIOL2C06V1 RESULT plan error:", err)
		return
	}
	ctx := NewExecuteCtx()
	rows := 0
	for {
		row, err := plan.Next(ctx)
		if err != nil {
			if b, ok := err.(QueryBinder); ok {
				b.BindQuery(query)
			}
			fmt.Println("VIOL2C06V1 RESULT execute error:", err.Error())
			return
		}
		if row == nil {
			break
		}
		rows++
	}
	fmt.Println("VIOL2C06V1 RESULT rows:", rows)
}

func TestViolation3_C06_v1(t *testing.T) {
	if os.Getenv(viol2C06v1Env) == "1" {
		viol2C06v1Child()
		return
	}
	query := viol2C06v1Query()
	if len(query) > 1024 {
		t.Fatalf("the query is meant to be small, it has %d bytes", len(query))
	}
	cmd := exec.Command(os.Args[0], "-test.run=^TestViolation3_C06_v1$", "-test.count=1")
	cmd.Env = append(os.Environ(), viol2C06v1Env+"=1")
	out, err := cmd.CombinedOutput()
	if bytes.Contains(out, []byte("VIOL2C06V1 SETRLIMIT FAILED")) {
		t.Skipf("cannot limit the address space of the child process: %s", out)
	}
	// Expected: the statement ends with rows or with an error value.
	// Actual: the process is killed by the Go runtime (fatal error: out of memory).
	if err != nil || !bytes.Contains(out, []byte("VIOL2C06V1 RESULT")) {
		head := out
		if len(head) > 600 {
			head = head[:600]
		}
		t.Fatalf("a %d-byte query over a store with one pair did not end with rows or an error value: the process died (%v):\n%s", len(query), err, head)
	}
	t.Logf("child: %s", out)
}
