package kvql

import (
	"bytes"
	"fmt"
	"sort"
	"testing"
)

// Minimal in-memory sorted storage for the demo.
type viol2C10v2Store struct {
	kvs []KVPair
}

func viol2C10v2NewStore(pairs ...string) *viol2C10v2Store {
	s := &viol2C10v2Store{}
	for i := 0; i+1 < len(pairs); i += 2 {
		s.kvs = append(s.kvs, NewKVPStr(pairs[i], pairs[i+1]))
	}
	sort.Slice(s.kvs, func(i, j int) bool { return bytes.Compare(s.kvs[i].Key, s.kvs[j].Key) < 0 })
	return s
}

func (s *viol2C10v2Store) Get(key []byte) ([]byte, error) {
	for _, kv := range s.kvs {
		if bytes.Equal(kv.Key, key) {
			return kv.Value, nil
		}
	}
	return nil, nil
}
func (s *viol2C10v2Store) Put(key []byte, value []byte) error { return nil }
func (s *viol2C10v2Store) BatchPut(kvs []KVPair) error        { return nil }
func (s *viol2C10v2Store) Delete(key []byte) error            { return nil }
func (s *viol2C10v2Store) BatchDelete(keys [][]byte) error    { return nil }
func (s *viol2C10v2Store) Cursor() (Cursor, error)            { return &viol2C10v2Cursor{s: s}, nil }

type viol2C10v2Cursor struct {
	s   *viol2C10v2Store
	idx int
}

func (c *viol2C10v2Cursor) Seek(prefix []byte) error {
	c.idx = sort.Search(len(c.s.kvs), func(i int) bool { return bytes.Compare(c.s.kvs[i].Key, prefix) >= 0 })
	return nil
}

func (c *viol2C10v2Cursor) Next() ([]byte, []byte, error) {
	if c.idx >= len(c.s.kvs) {
		return nil, nil, nil
	}
	kv := c.s.kvs[c.idx]
	c.idx++
	return kv.Key, kv.Value, nil
}

func viol2C10v2Run(s Storage, query string, batch bool) ([][]Column, error) {
	plan, err := NewOptimizer(query).BuildPlan(s)
	if err != nil {
		return nil, err
	}
	ctx := NewExecuteCtx()
	var rows [][]Column
	for {
		if batch {
			rs, err := plan.Batch(ctx)
			if err != nil {
				return rows, err
			}
			if len(rs) == 0 {
				return rows, nil
			}
			rows = append(rows, rs...)
		} else {
			r, err := plan.Next(ctx)
			if err != nil {
				return rows, err
			}
			if r == nil {
				return rows, nil
			}
			rows = append(rows, r)
		}
	}
}

// README: "is_float(value: any): bool | return is value can be converted into float" and
// "float(value: any): float | convert value into float". Every integer can be converted
// into a float: float(12) is 12.0, and is_float of the TEXT '12' is true. So is_float of the
// INTEGER 12 has to be true as well, whether the integer is a constant or computed from the row.
func TestViolation3_C10_v2(t *testing.T) {
	s := viol2C10v2NewStore("k1", "12")
	query := "select is_float(value), float(int(value)), is_float(int(value)), is_float(strlen(value)), is_float(12) where key = 'k1'"
	for _, batch := range []bool{false, true} {
		mode := "row"
		if batch {
			mode = "batch"
		}
		rows, err := viol2C10v2Run(s, query, batch)
		if err != nil {
			t.Fatalf("%s mode: unexpected error: %v", mode, err)
		}
		if len(rows) != 1 {
			t.Fatalf("%s mode: expected one row, got %v", mode, rows)
		}
		got := fmt.Sprint(rows[0])
		// the text '12' is a float; the integer 12 converts to the float 12; so the
		// integers int('12') = 12, strlen('12') = 2 and the literal 12 are floats too
		want := "[true 12 true true true]"
		if got != want {
			t.Errorf("%s mode: %s\n expected %s\n got      %s", mode, query, want, got)
		}
	}
}
