package kvql

import (
	"bytes"
	"errors"
	"fmt"
	"sort"
	"testing"
)

// A sorted in-memory store that logs its operations and lets exactly one of
// them (the one with index failAt) return violC13v2Err.
type violC13v2Store struct {
	kvs    []KVPair
	log    []string
	failAt int
}

var violC13v2Err = errors.New("violC13v2: injected storage error")

func (s *violC13v2Store) op(name string) error {
	idx := len(s.log)
	s.log = append(s.log, name)
	if idx == s.failAt {
		return violC13v2Err
	}
	return nil
}

func (s *violC13v2Store) find(key []byte) int {
	return sort.Search(len(s.kvs), func(i int) bool { return bytes.Compare(s.kvs[i].Key, key) >= 0 })
}

func (s *violC13v2Store) Get(key []byte) ([]byte, error) {
	if err := s.op("Get " + string(key)); err != nil {
		return nil, err
	}
	if i := s.find(key); i < len(s.kvs) && bytes.Equal(s.kvs[i].Key, key) {
		return s.kvs[i].Value, nil
	}
	return nil, nil
}
func (s *violC13v2Store) Put(key, value []byte) error { return errors.New("violC13v2: unexpected Put") }
func (s *violC13v2Store) BatchPut(kvs []KVPair) error {
	return errors.New("violC13v2: unexpected BatchPut")
}
func (s *violC13v2Store) Delete(key []byte) error { return errors.New("violC13v2: unexpected Delete") }
func (s *violC13v2Store) BatchDelete(k [][]byte) error {
	return errors.New("violC13v2: unexpected BatchDelete")
}
func (s *violC13v2Store) Cursor() (Cursor, error) {
	if err := s.op("Cursor"); err != nil {
		return nil, err
	}
	return &violC13v2Cursor{s: s}, nil
}

type violC13v2Cursor struct {
	s   *violC13v2Store
	pos int
}

func (c *violC13v2Cursor) Seek(prefix []byte) error {
	if err := c.s.op("Seek " + string(prefix)); err != nil {
		return err
	}
	c.pos = c.s.find(prefix)
	return nil
}

func (c *violC13v2Cursor) Next() ([]byte, []byte, error) {
	if err := c.s.op("Next"); err != nil {
		return nil, nil, err
	}
	if c.pos >= len(c.s.kvs) {
		return nil, nil, nil
	}
	kv := c.s.kvs[c.pos]
	c.pos++
	return kv.Key, kv.Value, nil
}

func violC13v2Run(t *testing.T, batch bool) {
	// Fault-free sequence of storage calls of the statement: Get a, Get b, Get c.
	// The error is injected at the second one.
	store := &violC13v2Store{
		kvs:    []KVPair{NewKVPStr("a", "1"), NewKVPStr("b", "1"), NewKVPStr("c", "1")},
		failAt: 1,
	}
	plan, err := NewOptimizer("select count(1) where key in ('a', 'b', 'c')").BuildPlan(store)
	if err != nil {
		t.Fatalf("BuildPlan: %v", err)
	}
	ctx := NewExecuteCtx()
	poll := func() ([]Column, error) {
		if batch {
			rows, err := plan.Batch(ctx)
			if len(rows) == 0 {
				return nil, err
			}
			return rows[0], err
		}
		return plan.Next(ctx)
	}

	// The first poll reads the three keys: it meets the error at the second and reports it (this holds)
	if row, err := poll(); !errors.Is(err, violC13v2Err) || row != nil {
		t.Fatalf("first poll: row = %v, err = %v; want the injected error", row, err)
	}
	if got := fmt.Sprint(store.log); got != "[Get a Get b]" {
		t.Fatalf("storage calls up to the error: %s, want [Get a Get b]", got)
	}

	// The statement has failed at `Get b`: it stops there. Polled again it must
	// neither go on reading the store nor answer with a count that leaves b out.
	row, err := poll()
	if err == nil && row != nil {
		t.Errorf("second poll: row = %v with a nil error; want no result from a statement that met a storage error (the count of all three keys is 3)", row)
	}
	if len(store.log) != 2 {
		t.Errorf("storage operations issued after the one that failed: %v", store.log[2:])
	}
}

func TestViolation_C13_v2(t *testing.T) {
	t.Run("row", func(t *testing.T) { violC13v2Run(t, false) })
	t.Run("batch", func(t *testing.T) { violC13v2Run(t, true) })
}
