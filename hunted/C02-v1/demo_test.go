package kvql

import (
	"reflect"
	"sort"
	"testing"
)

// Minimal sorted in-memory storage.
type violC02v1Store struct {
	keys []string
	vals map[string]string
}

func violC02v1NewStore(kvs map[string]string) *violC02v1Store {
	s := &violC02v1Store{vals: kvs}
	for k := range kvs {
		s.keys = append(s.keys, k)
	}
	sort.Strings(s.keys)
	return s
}

func (s *violC02v1Store) Get(key []byte) ([]byte, error) {
	v, ok := s.vals[string(key)]
	if !ok {
		return nil, nil
	}
	return []byte(v), nil
}
func (s *violC02v1Store) Put(key []byte, value []byte) error { return nil }
func (s *violC02v1Store) BatchPut(kvs []KVPair) error        { return nil }
func (s *violC02v1Store) Delete(key []byte) error            { return nil }
func (s *violC02v1Store) BatchDelete(keys [][]byte) error    { return nil }
func (s *violC02v1Store) Cursor() (Cursor, error)            { return &violC02v1Cursor{s: s}, nil }

type violC02v1Cursor struct {
	s   *violC02v1Store
	idx int
}

// Seek positions the cursor on the first key >= the argument.
func (c *violC02v1Cursor) Seek(key []byte) error {
	c.idx = sort.SearchStrings(c.s.keys, string(key))
	return nil
}

func (c *violC02v1Cursor) Next() ([]byte, []byte, error) {
	if c.idx >= len(c.s.keys) {
		return nil, nil, nil
	}
	k := c.s.keys[c.idx]
	c.idx++
	return []byte(k), []byte(c.s.vals[k]), nil
}

func TestViolation_C02_v1(t *testing.T) {
	store := violC02v1NewStore(map[string]string{"": "v0", "b": "v1", "c": "v2"})
	// `key ^= ''` is true for every key, so the clause is `key = '' | key > 'a'`.
	query := "select key where key ^= '' & (key = '' | key > 'a')"

	// Reference: the same WHERE clause evaluated pair by pair over every stored key.
	stmt, err := NewParser(query).Parse()
	if err != nil {
		t.Fatal(err)
	}
	filter := &FilterExec{Ast: stmt.(*SelectStmt).Where}
	want := []string{}
	for _, k := range store.keys {
		ok, err := filter.Filter(NewKVP([]byte(k), []byte(store.vals[k])), NewExecuteCtx())
		if err != nil {
			t.Fatal(err)
		}
		if ok {
			want = append(want, k)
		}
	}
	if !reflect.DeepEqual(want, []string{"", "b", "c"}) {
		t.Fatalf("reference filter is wrong: %q", want)
	}

	plan, err := NewOptimizer(query).BuildPlan(store)
	if err != nil {
		t.Fatal(err)
	}
	ctx := NewExecuteCtx()
	got := []string{}
	for {
		cols, err := plan.Next(ctx)
		if err != nil {
			t.Fatal(err)
		}
		if cols == nil {
			break
		}
		got = append(got, string(cols[0].([]byte)))
	}
	if !reflect.DeepEqual(got, want) {
		t.Fatalf("query %q\n want keys %q\n got keys  %q\n plan %v", query, want, got, plan.Explain())
	}
}
