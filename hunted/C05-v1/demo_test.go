package kvql

import (
	"bytes"
	"fmt"
	"reflect"
	"sort"
	"strings"
	"testing"
)

// Two select fields may carry the same name. The name resolves to the first of
// them, but the field cache is looked up by name for every field: with the
// cache on, the second column shows the first field's value.
func TestViolation_C05_v1(t *testing.T) {
	s := violC05v1NewStore("k1", "v1", "k2", "v2", "k3", "v3")
	query := "select key as a, value as a where a = 'k2'"
	expected := []string{"k2,v2"}
	for _, batch := range []bool{false, true} {
		off := violC05v1Run(t, s, query, false, batch)
		if !reflect.DeepEqual(off, expected) {
			t.Errorf("batch=%v cache off: expected %v, got %v", batch, expected, off)
		}
		on := violC05v1Run(t, s, query, true, batch)
		if !reflect.DeepEqual(on, expected) {
			t.Errorf("batch=%v cache on: expected %v (column 2 is `value`), got %v", batch, expected, on)
		}
	}
}

type violC05v1Store struct {
	kvs []KVPair // sorted by key
}

func violC05v1NewStore(pairs ...string) *violC05v1Store {
	s := &violC05v1Store{}
	for i := 0; i+1 < len(pairs); i += 2 {
		s.kvs = append(s.kvs, NewKVPStr(pairs[i], pairs[i+1]))
	}
	sort.Slice(s.kvs, func(i, j int) bool { return bytes.Compare(s.kvs[i].Key, s.kvs[j].Key) < 0 })
	return s
}

func (s *violC05v1Store) Get(key []byte) ([]byte, error) {
	for _, kv := range s.kvs {
		if bytes.Equal(kv.Key, key) {
			return kv.Value, nil
		}
	}
	return nil, nil
}
func (s *violC05v1Store) Put(key []byte, value []byte) error { return nil }
func (s *violC05v1Store) BatchPut(kvs []KVPair) error        { return nil }
func (s *violC05v1Store) Delete(key []byte) error            { return nil }
func (s *violC05v1Store) BatchDelete(keys [][]byte) error    { return nil }
func (s *violC05v1Store) Cursor() (Cursor, error)            { return &violC05v1Cursor{s: s}, nil }

type violC05v1Cursor struct {
	s   *violC05v1Store
	idx int
}

func (c *violC05v1Cursor) Seek(prefix []byte) error {
	c.idx = sort.Search(len(c.s.kvs), func(i int) bool { return bytes.Compare(c.s.kvs[i].Key, prefix) >= 0 })
	return nil
}

func (c *violC05v1Cursor) Next() ([]byte, []byte, error) {
	if c.idx >= len(c.s.kvs) {
		return nil, nil, nil
	}
	kv := c.s.kvs[c.idx]
	c.idx++
	return kv.Key, kv.Value, nil
}

// violC05v1Run executes the query and renders every row as "col,col,..."
// (byte slices and strings as text, everything else with %v)
func violC05v1Run(t *testing.T, s Storage, query string, cache bool, batch bool) []string {
	t.Helper()
	plan, err := NewOptimizer(query).BuildPlan(s)
	if err != nil {
		t.Fatalf("query %q is not accepted: %v", query, err)
	}
	ctx := NewExecuteCtx()
	ctx.EnableCache = cache
	var rows [][]Column
	for {
		if batch {
			rs, err := plan.Batch(ctx)
			if err != nil {
				t.Fatalf("query %q: %v", query, err)
			}
			if len(rs) == 0 {
				break
			}
			rows = append(rows, rs...)
		} else {
			r, err := plan.Next(ctx)
			if err != nil {
				t.Fatalf("query %q: %v", query, err)
			}
			if r == nil {
				break
			}
			rows = append(rows, r)
		}
	}
	ret := []string{}
	for _, r := range rows {
		cols := []string{}
		for _, c := range r {
			switch v := c.(type) {
			case []byte:
				cols = append(cols, string(v))
			default:
				cols = append(cols, fmt.Sprintf("%v", v))
			}
		}
		ret = append(ret, strings.Join(cols, ","))
	}
	return ret
}
