package kvql

import (
	"strings"
	"testing"
	"unicode/utf8"
)

// A text literal with two non-ASCII letters in front of the fault. The type
// error is reported at the second `=`; the caret of the rendered message has
// to stand under that `=`, i.e. as many characters from the left as there are
// characters in front of it in the query.
func TestViolation2_C17_v2(t *testing.T) {
	const viol2C17v2Pad = 0
	query := "where key = 'héé' & value = 1"
	_, err := NewParser(query).Parse()
	if err == nil {
		t.Fatalf("query %q: expected a type error", query)
	}
	serr, ok := err.(*SyntaxError)
	if !ok {
		t.Fatalf("query %q: expected *SyntaxError, got %T", query, err)
	}
	wantPos := strings.LastIndex(query, "=")
	if serr.Pos != wantPos {
		t.Fatalf("query %q: error position %d, want %d (the second `=`)", query, serr.Pos, wantPos)
	}
	serr.BindQuery(query)
	serr.SetPadding(viol2C17v2Pad)
	msg := serr.Error()

	lines := strings.Split(msg, "\n")
	if len(lines) < 3 || lines[0] != query || strings.TrimLeft(lines[1], " ") != "^--" {
		t.Fatalf("unexpected message layout:\n%s", msg)
	}
	// column of the caret = number of characters (all blanks) in front of it
	col := utf8.RuneCountInString(lines[1][:strings.Index(lines[1], "^")]) - viol2C17v2Pad
	text := []rune(lines[0])
	wantCol := utf8.RuneCountInString(query[:serr.Pos])
	if col >= len(text) {
		t.Fatalf("caret at column %d is beyond the query text (%d characters); message:\n%s", col, len(text), msg)
	}
	if col != wantCol || text[col] != '=' {
		t.Fatalf("caret at column %d stands under %q, want column %d under %q; message:\n%s",
			col, string(text[col]), wantCol, "=", msg)
	}
}
