package kvql

import (
	"bytes"
	"fmt"
	"sort"
	"testing"
)

// Minimal in-memory sorted storage for the demo.
type viol2C10v1Store struct {
	kvs []KVPair
}

func viol2C10v1NewStore(pairs ...string) *viol2C10v1Store {
	s := &viol2C10v1Store{}
	for i := 0; i+1 < len(pairs); i += 2 {
		s.kvs = append(s.kvs, NewKVPStr(pairs[i], pairs[i+1]))
	}
	sort.Slice(s.kvs, func(i, j int) bool { return bytes.Compare(s.kvs[i].Key, s.kvs[j].Key) < 0 })
	return s
}

func (s *viol2C10v1Store) Get(key []byte) ([]byte, error) {
	for _, kv := range s.kvs {
		if bytes.Equal(kv.Key, key) {
			return kv.Value, nil
		}
	}
	return nil, nil
}
func (s *viol2C10v1Store) Put(key []byte, value []byte) error { return nil }
func (s *viol2C10v1Store) BatchPut(kvs []KVPair) error        { return nil }
func (s *viol2C10v1Store) Delete(key []byte) error            { return nil }
func (s *viol2C10v1Store) BatchDelete(keys [][]byte) error    { return nil }
func (s *viol2C10v1Store) Cursor() (Cursor, error)            { return &viol2C10v1Cursor{s: s}, nil }

type viol2C10v1Cursor struct {
	s   *viol2C10v1Store
	idx int
}

func (c *viol2C10v1Cursor) Seek(prefix []byte) error {
	c.idx = sort.Search(len(c.s.kvs), func(i int) bool { return bytes.Compare(c.s.kvs[i].Key, prefix) >= 0 })
	return nil
}

func (c *viol2C10v1Cursor) Next() ([]byte, []byte, error) {
	if c.idx >= len(c.s.kvs) {
		return nil, nil, nil
	}
	kv := c.s.kvs[c.idx]
	c.idx++
	return kv.Key, kv.Value, nil
}

func viol2C10v1Run(s Storage, query string, batch bool) ([][]Column, error) {
	plan, err := NewOptimizer(query).BuildPlan(s)
	if err != nil {
		return nil, err
	}
	ctx := NewExecuteCtx()
	var rows [][]Column
	for {
		if batch {
			rs, err := plan.Batch(ctx)
			if err != nil {
				return rows, err
			}
			if len(rs) == 0 {
				return rows, nil
			}
			rows = append(rows, rs...)
		} else {
			r, err := plan.Next(ctx)
			if err != nil {
				return rows, err
			}
			if r == nil {
				return rows, nil
			}
			rows = append(rows, r)
		}
	}
}

// The README shows, as THE way to compare with an embedding stored as JSON:
//
//	select key, value, l2_distance(list(1,2,3,4), json(value)) as l2_dis where key ^= 'embedding_json' ...
//
// The value of such a pair is a JSON array. json() of a JSON array document
// is a list value: len() has to count its elements and the distance functions
// have to compute their formulas on it. Here the stored vector is [1,2,3,6]:
//
//	l2_distance((1,2,3,4), (1,2,3,6)) = sqrt(0+0+0+4) = 2
//	len([1,2,3,6])                    = 4
func TestViolation3_C10_v1(t *testing.T) {
	s := viol2C10v1NewStore("embedding_json1", "[1,2,3,6]")
	for _, batch := range []bool{false, true} {
		mode := "row"
		if batch {
			mode = "batch"
		}
		rows, err := viol2C10v1Run(s, "select key, l2_distance(list(1,2,3,4), json(value)) as l2_dis where key ^= 'embedding_json'", batch)
		if err != nil {
			t.Errorf("%s mode: l2_distance(list(1,2,3,4), json('[1,2,3,6]')): expected 2, got error: %v", mode, err)
		} else if len(rows) != 1 || fmt.Sprint(rows[0][1]) != "2" {
			t.Errorf("%s mode: l2_distance(list(1,2,3,4), json('[1,2,3,6]')): expected one row with 2, got %v", mode, rows)
		}

		rows, err = viol2C10v1Run(s, "select key, len(json(value)) where key ^= 'embedding_json'", batch)
		if err != nil {
			t.Errorf("%s mode: len(json('[1,2,3,6]')): expected 4, got error: %v", mode, err)
		} else if len(rows) != 1 || fmt.Sprint(rows[0][1]) != "4" {
			t.Errorf("%s mode: len(json('[1,2,3,6]')): expected one row with 4, got %v", mode, rows)
		}
	}
}
