package kvql

import (
	"bytes"
	"sort"
	"strings"
	"testing"
)

// A sorted in-memory store that records every key it hands out.
type viol2C18v2Store struct {
	keys  []string
	reads []string
}

func (s *viol2C18v2Store) Get(key []byte) ([]byte, error) {
	s.reads = append(s.reads, string(key))
	i := sort.SearchStrings(s.keys, string(key))
	if i < len(s.keys) && s.keys[i] == string(key) {
		return []byte("v"), nil
	}
	return nil, nil
}
func (s *viol2C18v2Store) Put(key []byte, value []byte) error { return nil }
func (s *viol2C18v2Store) BatchPut(kvs []KVPair) error        { return nil }
func (s *viol2C18v2Store) Delete(key []byte) error            { return nil }
func (s *viol2C18v2Store) BatchDelete(keys [][]byte) error    { return nil }
func (s *viol2C18v2Store) Cursor() (Cursor, error)            { return &viol2C18v2Cursor{s: s}, nil }

type viol2C18v2Cursor struct {
	s   *viol2C18v2Store
	idx int
}

func (c *viol2C18v2Cursor) Seek(prefix []byte) error {
	c.idx = sort.Search(len(c.s.keys), func(i int) bool {
		return bytes.Compare([]byte(c.s.keys[i]), prefix) >= 0
	})
	return nil
}

func (c *viol2C18v2Cursor) Next() ([]byte, []byte, error) {
	if c.idx >= len(c.s.keys) {
		return nil, nil, nil
	}
	k := c.s.keys[c.idx]
	c.idx++
	c.s.reads = append(c.s.reads, k)
	return []byte(k), []byte("v"), nil
}

func TestViolation2_C18_v2(t *testing.T) {
	store := &viol2C18v2Store{keys: []string{"a", "ab", "aba", "ac", "b", "c", "d", "e"}}
	query := "where key ^= 'a' & (key = 'ab' | key >= 'b')"
	plan, err := NewOptimizer(query).BuildPlan(store)
	if err != nil {
		t.Fatal(err)
	}
	ctx := NewExecuteCtx()
	rows := []string{}
	for {
		row, err := plan.Next(ctx)
		if err != nil {
			t.Fatal(err)
		}
		if row == nil {
			break
		}
		rows = append(rows, string(row[0].([]byte)))
	}
	if len(rows) != 1 || rows[0] != "ab" {
		t.Fatalf("rows %v, expected [ab]", rows)
	}

	// The two conjuncts and the keys each of them pins
	inPrefix := func(k string) bool { return strings.HasPrefix(k, "a") }
	inOr := func(k string) bool { return k == "ab" || k >= "b" }
	outsidePrefix, outsideOr := []string{}, []string{}
	for _, k := range store.reads {
		if !inPrefix(k) {
			outsidePrefix = append(outsidePrefix, k)
		}
		if !inOr(k) {
			outsideOr = append(outsideOr, k)
		}
	}
	// Reading inside either region (and one key past its end) is fine
	if len(outsidePrefix) > 1 && len(outsideOr) > 1 {
		t.Fatalf("keys read: %v\n  outside the region of key ^= 'a' : %v\n  outside the region of (key = 'ab' | key >= 'b'): %v\n"+
			"expected the reads to stay inside the region of one conjunct (plus at most one key past its end)",
			store.reads, outsidePrefix, outsideOr)
	}
}
