package kvql

import (
	"fmt"
	"reflect"
	"sort"
	"testing"
)

// violC08v1Store is a minimal in-memory sorted key-value store. Its cursor is
// positioned by key, so it stays valid whatever is written in between.
type violC08v1Store struct {
	keys []string
	data map[string][]byte
}

func violC08v1NewStore(kvs ...string) *violC08v1Store {
	s := &violC08v1Store{data: map[string][]byte{}}
	for i := 0; i+1 < len(kvs); i += 2 {
		s.Put([]byte(kvs[i]), []byte(kvs[i+1]))
	}
	return s
}

func (s *violC08v1Store) Get(key []byte) ([]byte, error) {
	if v, ok := s.data[string(key)]; ok {
		return v, nil
	}
	return nil, nil
}

func (s *violC08v1Store) Put(key []byte, value []byte) error {
	k := string(key)
	if _, ok := s.data[k]; !ok {
		s.keys = append(s.keys, k)
		sort.Strings(s.keys)
	}
	s.data[k] = value
	return nil
}

func (s *violC08v1Store) BatchPut(kvs []KVPair) error {
	for _, kv := range kvs {
		s.Put(kv.Key, kv.Value)
	}
	return nil
}

func (s *violC08v1Store) Delete(key []byte) error {
	k := string(key)
	if _, ok := s.data[k]; ok {
		delete(s.data, k)
		i := sort.SearchStrings(s.keys, k)
		s.keys = append(s.keys[:i:i], s.keys[i+1:]...)
	}
	return nil
}

func (s *violC08v1Store) BatchDelete(keys [][]byte) error {
	for _, k := range keys {
		s.Delete(k)
	}
	return nil
}

func (s *violC08v1Store) Cursor() (Cursor, error) { return &violC08v1Cursor{s: s}, nil }

type violC08v1Cursor struct {
	s       *violC08v1Store
	from    string
	started bool
	last    string
}

func (c *violC08v1Cursor) Seek(prefix []byte) error {
	c.from, c.started = string(prefix), false
	return nil
}

func (c *violC08v1Cursor) Next() ([]byte, []byte, error) {
	var i int
	if !c.started {
		i = sort.SearchStrings(c.s.keys, c.from)
	} else {
		i = sort.Search(len(c.s.keys), func(j int) bool { return c.s.keys[j] > c.last })
	}
	if i >= len(c.s.keys) {
		return nil, nil, nil
	}
	c.started, c.last = true, c.s.keys[i]
	return []byte(c.last), c.s.data[c.last], nil
}

// violC08v1Render renders rows as "col|col|" strings.
func violC08v1Render(rows [][]Column) []string {
	out := []string{}
	for _, r := range rows {
		s := ""
		for _, c := range r {
			if b, ok := c.([]byte); ok {
				s += string(b) + "|"
			} else {
				s += fmt.Sprintf("%v|", c)
			}
		}
		out = append(out, s)
	}
	return out
}

// violC08v1DrainRows reads the plan row by row until it reports the end.
func violC08v1DrainRows(t *testing.T, plan FinalPlan) []string {
	ctx := NewExecuteCtx()
	var rows [][]Column
	for {
		row, err := plan.Next(ctx)
		if err != nil {
			t.Fatalf("unexpected error: %v", err)
		}
		if row == nil {
			return violC08v1Render(rows)
		}
		rows = append(rows, row)
	}
}

// A point-read statement (key in (...)) with `limit 0, 2`, executed, re-initialised
// with Init() and executed again must again yield rows 0..1 of the unlimited
// result. It yields rows 2..3 instead.
func TestViolation_C08_v1(t *testing.T) {
	store := violC08v1NewStore("a", "1", "b", "2", "c", "3", "d", "4")
	plan, err := NewOptimizer("select key where key in ('a', 'b', 'c', 'd') limit 0, 2").BuildPlan(store)
	if err != nil {
		t.Fatal(err)
	}
	want := []string{"a|", "b|"} // rows 0..1 of a|, b|, c|, d|
	first := violC08v1DrainRows(t, plan)
	if !reflect.DeepEqual(first, want) {
		t.Fatalf("first execution: got %v, want %v", first, want)
	}
	if err := plan.Init(); err != nil {
		t.Fatal(err)
	}
	second := violC08v1DrainRows(t, plan)
	if !reflect.DeepEqual(second, want) {
		t.Fatalf("after Init(): `limit 0, 2` yields %v, want rows 0..1 = %v", second, want)
	}
}
