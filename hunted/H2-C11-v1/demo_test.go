package kvql

import (
	"bytes"
	"fmt"
	"sort"
	"testing"
)

// in-memory sorted storage, every cursor is a snapshot of the store at the
// time it is opened
type viol2C11v1Store struct {
	m      map[string]string
	writes int
}

func (s *viol2C11v1Store) Get(key []byte) ([]byte, error) {
	v, ok := s.m[string(key)]
	if !ok {
		return nil, nil
	}
	return []byte(v), nil
}
func (s *viol2C11v1Store) Put(key []byte, value []byte) error {
	s.writes++
	s.m[string(key)] = string(value)
	return nil
}
func (s *viol2C11v1Store) BatchPut(kvs []KVPair) error {
	for _, kv := range kvs {
		s.Put(kv.Key, kv.Value)
	}
	return nil
}
func (s *viol2C11v1Store) Delete(key []byte) error {
	delete(s.m, string(key))
	return nil
}
func (s *viol2C11v1Store) BatchDelete(keys [][]byte) error {
	for _, k := range keys {
		delete(s.m, string(k))
	}
	return nil
}
func (s *viol2C11v1Store) Cursor() (Cursor, error) {
	c := &viol2C11v1Cursor{}
	for k, v := range s.m {
		c.kvs = append(c.kvs, NewKVPStr(k, v))
	}
	sort.Slice(c.kvs, func(i, j int) bool { return bytes.Compare(c.kvs[i].Key, c.kvs[j].Key) < 0 })
	return c, nil
}

type viol2C11v1Cursor struct {
	kvs []KVPair
	idx int
}

func (c *viol2C11v1Cursor) Seek(start []byte) error {
	c.idx = sort.Search(len(c.kvs), func(i int) bool { return bytes.Compare(c.kvs[i].Key, start) >= 0 })
	return nil
}
func (c *viol2C11v1Cursor) Next() ([]byte, []byte, error) {
	if c.idx >= len(c.kvs) {
		return nil, nil, nil
	}
	kv := c.kvs[c.idx]
	c.idx++
	return kv.Key, kv.Value, nil
}

// runs a statement to its end (in batches, or row by row) and returns the
// keys of the rows it produced and the first error
func viol2C11v1Run(s Storage, query string, batch bool) ([]string, error) {
	plan, err := NewOptimizer(query).BuildPlan(s)
	if err != nil {
		return nil, err
	}
	ctx := NewExecuteCtx()
	keys := []string{}
	for {
		var rows [][]Column
		if batch {
			rows, err = plan.Batch(ctx)
		} else {
			var row []Column
			row, err = plan.Next(ctx)
			if row != nil {
				rows = [][]Column{row}
			}
		}
		if err != nil {
			return keys, err
		}
		if len(rows) == 0 {
			return keys, nil
		}
		for _, r := range rows {
			if k, ok := r[0].([]byte); ok {
				keys = append(keys, string(k))
			}
		}
	}
}

func TestViolation2_C11_v1(t *testing.T) {
	// PlanBatchSize + 8 pairs; every value is 5, except the last one: 0
	n := PlanBatchSize + 8
	prior := map[string]string{}
	for i := 0; i < n; i++ {
		prior[fmt.Sprintf("k%03d", i)] = "5"
	}
	prior[fmt.Sprintf("k%03d", n-1)] = "0"

	const where = "where 100 / int(value) > 10"

	for _, batch := range []bool{true, false} {
		// the select statement fails on the prior state (in both modes):
		// it does not select a set of pairs
		s := &viol2C11v1Store{m: map[string]string{}}
		for k, v := range prior {
			s.m[k] = v
		}
		if _, err := viol2C11v1Run(s, "select * "+where, batch); err == nil {
			t.Fatalf("batch=%v: select is expected to fail with Divide by zero", batch)
		}

		// so does the delete statement ...
		_, err := viol2C11v1Run(s, "delete "+where, batch)
		if err == nil {
			t.Fatalf("batch=%v: delete is expected to fail with Divide by zero", batch)
		}
		// ... and a delete whose selection failed must not have removed anything
		if s.writes != 0 {
			t.Fatalf("batch=%v: delete wrote %d pairs", batch, s.writes)
		}
		missing := []string{}
		for k := range prior {
			if _, have := s.m[k]; !have {
				missing = append(missing, k)
			}
		}
		sort.Strings(missing)
		if len(missing) > 0 {
			t.Fatalf("batch=%v: delete failed with %q, but it removed %d of the %d pairs before it failed (%s .. %s)",
				batch, err.Error(), len(missing), n, missing[0], missing[len(missing)-1])
		}
	}
}
