package kvql

import (
	"bytes"
	"fmt"
	"sort"
	"strings"
	"testing"
)

// ---- minimal sorted in-memory storage --------------------------------------

type viol2C15v1Store struct{ kvs []KVPair }

func viol2C15v1NewStore(kvs ...KVPair) *viol2C15v1Store {
	sort.Slice(kvs, func(i, j int) bool { return bytes.Compare(kvs[i].Key, kvs[j].Key) < 0 })
	return &viol2C15v1Store{kvs: kvs}
}

func (s *viol2C15v1Store) Get(key []byte) ([]byte, error) {
	for _, kv := range s.kvs {
		if bytes.Equal(kv.Key, key) {
			return kv.Value, nil
		}
	}
	return nil, nil
}
func (s *viol2C15v1Store) Put(key []byte, value []byte) error { return nil }
func (s *viol2C15v1Store) BatchPut(kvs []KVPair) error        { return nil }
func (s *viol2C15v1Store) Delete(key []byte) error            { return nil }
func (s *viol2C15v1Store) BatchDelete(keys [][]byte) error    { return nil }
func (s *viol2C15v1Store) Cursor() (Cursor, error)            { return &viol2C15v1Cursor{s: s}, nil }

type viol2C15v1Cursor struct {
	s   *viol2C15v1Store
	idx int
}

func (c *viol2C15v1Cursor) Seek(prefix []byte) error {
	c.idx = sort.Search(len(c.s.kvs), func(i int) bool { return bytes.Compare(c.s.kvs[i].Key, prefix) >= 0 })
	return nil
}

func (c *viol2C15v1Cursor) Next() ([]byte, []byte, error) {
	if c.idx >= len(c.s.kvs) {
		return nil, nil, nil
	}
	kv := c.s.kvs[c.idx]
	c.idx++
	return kv.Key, kv.Value, nil
}

// ---- helpers ----------------------------------------------------------------

// viol2C15v1Shape lists the nodes of a tree in pre-order (node type, and the
// text of the leaves), positions left out
func viol2C15v1Shape(e Expression) string {
	var sb strings.Builder
	e.Walk(func(n Expression) bool {
		switch v := n.(type) {
		case *BinaryOpExpr:
			fmt.Fprintf(&sb, "Binary(%s) ", OperatorToString[v.Op])
		case *NotExpr, *FunctionCallExpr, *ListExpr, *FieldAccessExpr, *FieldReferenceExpr:
			fmt.Fprintf(&sb, "%T ", n)
		default:
			fmt.Fprintf(&sb, "%T(%s) ", n, n.String())
		}
		return true
	})
	return strings.TrimSpace(sb.String())
}

// viol2C15v1Run runs a query and returns the keys it selects, and the filter
// text that EXPLAIN shows for it
func viol2C15v1Run(t *testing.T, s Storage, query string) (keys []string, filter string, where Expression) {
	opt := NewOptimizer(query)
	plan, err := opt.BuildPlan(s)
	if err != nil {
		t.Fatalf("query %q: %v", query, err)
	}
	ctx := NewExecuteCtx()
	for {
		row, err := plan.Next(ctx)
		if err != nil {
			t.Fatalf("query %q: %v", query, err)
		}
		if row == nil {
			break
		}
		keys = append(keys, string(row[0].([]byte)))
	}
	return keys, opt.filter.Explain(), opt.filter.Ast.Expr
}

// A name written in backticks that is not a plain lower case word (`KEY`) is
// accepted as a function argument and stays a name (its value is its own
// text). The canonical form prints it bare, KEY, which reads back as the key
// field: the printed filter is another filter than the one executed.
func TestViolation2_C15_v1(t *testing.T) {
	store := viol2C15v1NewStore(NewKVPStr("key", "v1"), NewKVPStr("other", "v2"))
	query := "where lower(`KEY`) = 'key'"

	// lower(`KEY`) is lower of the text KEY = 'key' on every row
	keys, filter, where := viol2C15v1Run(t, store, query)
	if fmt.Sprint(keys) != "[key other]" {
		t.Fatalf("query %q: got rows %v, want [key other]", query, keys)
	}

	// The filter shown by EXPLAIN, read again, is the same tree ...
	requery := "where " + filter
	keys2, _, where2 := viol2C15v1Run(t, store, requery)
	if got, want := viol2C15v1Shape(where2), viol2C15v1Shape(where); got != want {
		t.Errorf("filter of %q is printed as %q, which parses to another tree\nexecuted: %s\nprinted : %s", query, filter, want, got)
	}
	// ... and so selects the same rows
	if fmt.Sprint(keys2) != fmt.Sprint(keys) {
		t.Errorf("query %q selects %v, the filter EXPLAIN shows for it (%s) selects %v", query, keys, filter, keys2)
	}
}
