package kvql

import (
	"strings"
	"testing"
	"unicode/utf8"
)

// viol2C17v2Render parses query (which must be erroneous), binds the query
// text to the error and returns the offset it carries, the whole rendered
// message, the rendered query line, and the column of the caret below it.
func viol2C17v2Render(t *testing.T, query string, pad int) (pos int, msg string, queryLine string, caretCol int) {
	t.Helper()
	_, err := NewParser(query).Parse()
	if err == nil {
		t.Fatalf("query %q: expected an error", query)
	}
	serr, ok := err.(*SyntaxError)
	if !ok {
		t.Fatalf("query %q: expected a *SyntaxError, got %T", query, err)
	}
	serr.BindQuery(query)
	serr.SetPadding(pad)
	msg = serr.Error()
	lines := strings.Split(msg, "\n")
	for i := 1; i < len(lines); i++ {
		if strings.TrimLeft(lines[i], " ") == "^--" {
			return serr.Pos, msg, lines[i-1], len(lines[i]) - len("^--") - pad
		}
	}
	t.Fatalf("query %q: no caret line in %q", query, msg)
	return 0, "", "", 0
}

func TestViolation3_C17_v2(t *testing.T) {
	// The stray x is the fault. The text literal in front of it holds a
	// character of two bytes (short query) or of three bytes (long query).
	short := "where key = 'héllo' x"
	long := "select key, value where key ^= '你好你好你好你好你好你好你好你好你好你好你好你好你好' & value = 'abc' x"
	for _, query := range []string{short, long} {
		pos, msg, line, col := viol2C17v2Render(t, query, 0)
		if want := strings.LastIndex(query, "x"); pos != want {
			t.Fatalf("query %q: offset = %d, want %d (the byte offset of x)", query, pos, want)
		}
		if !utf8.ValidString(msg) {
			t.Errorf("query %q: the rendered message cuts a character in two: %q", query, msg)
		}
		// the caret is a run of blanks, one column each: it stands under the
		// col-th character of the line above
		runes := []rune(line)
		if col < 0 || col >= len(runes) {
			t.Errorf("query %q: the caret stands at column %d, the rendered query line %q has only %d characters (x is character %d)",
				query, col, line, len(runes), len(runes)-1)
			continue
		}
		if runes[col] != 'x' {
			t.Errorf("query %q: the caret stands under %q, want under the x at offset %d (rendered query line %q)",
				query, runes[col], pos, line)
		}
	}
}
