package kvql

import (
	"bytes"
	"errors"
	"sort"
	"testing"
)

// A sorted in-memory store that counts its operations and lets exactly one of
// them (the one with index failAt) return violC13v1Err.
type violC13v1Store struct {
	kvs    []KVPair
	ops    int
	failAt int
}

var violC13v1Err = errors.New("violC13v1: injected storage error")

func (s *violC13v1Store) op() error {
	idx := s.ops
	s.ops++
	if idx == s.failAt {
		return violC13v1Err
	}
	return nil
}

func (s *violC13v1Store) find(key []byte) int {
	return sort.Search(len(s.kvs), func(i int) bool { return bytes.Compare(s.kvs[i].Key, key) >= 0 })
}

func (s *violC13v1Store) Get(key []byte) ([]byte, error) {
	if err := s.op(); err != nil {
		return nil, err
	}
	if i := s.find(key); i < len(s.kvs) && bytes.Equal(s.kvs[i].Key, key) {
		return s.kvs[i].Value, nil
	}
	return nil, nil
}
func (s *violC13v1Store) Put(key, value []byte) error { return errors.New("violC13v1: unexpected Put") }
func (s *violC13v1Store) BatchPut(kvs []KVPair) error {
	return errors.New("violC13v1: unexpected BatchPut")
}
func (s *violC13v1Store) Delete(key []byte) error { return errors.New("violC13v1: unexpected Delete") }
func (s *violC13v1Store) BatchDelete(k [][]byte) error {
	return errors.New("violC13v1: unexpected BatchDelete")
}
func (s *violC13v1Store) Cursor() (Cursor, error) {
	if err := s.op(); err != nil {
		return nil, err
	}
	return &violC13v1Cursor{s: s}, nil
}

type violC13v1Cursor struct {
	s   *violC13v1Store
	pos int
}

func (c *violC13v1Cursor) Seek(prefix []byte) error {
	if err := c.s.op(); err != nil {
		return err
	}
	c.pos = c.s.find(prefix)
	return nil
}

func (c *violC13v1Cursor) Next() ([]byte, []byte, error) {
	if err := c.s.op(); err != nil {
		return nil, nil, err
	}
	if c.pos >= len(c.s.kvs) {
		return nil, nil, nil
	}
	kv := c.s.kvs[c.pos]
	c.pos++
	return kv.Key, kv.Value, nil
}

func violC13v1Run(t *testing.T, batch bool) {
	// One pair per chunk, so that batch mode reads the store in the same steps as row mode
	defer func(old int) { PlanBatchSize = old }(PlanBatchSize)
	PlanBatchSize = 1

	// Fault-free sequence of storage calls of the statement:
	//   0 Cursor, 1 Seek (buildPlan), 2 Cursor, 3 Seek (BuildPlan inits again),
	//   4 Next -> a, 5 Next -> b, 6 Next -> c, 7 Next -> end
	// The error is injected at call 6: two of the three rows have been read.
	store := &violC13v1Store{
		kvs:    []KVPair{NewKVPStr("a", "3"), NewKVPStr("b", "1"), NewKVPStr("c", "2")},
		failAt: 6,
	}
	plan, err := NewOptimizer("select key, value where true order by value").BuildPlan(store)
	if err != nil {
		t.Fatalf("BuildPlan: %v", err)
	}
	ctx := NewExecuteCtx()
	poll := func() (int, error) {
		if batch {
			rows, err := plan.Batch(ctx)
			return len(rows), err
		}
		row, err := plan.Next(ctx)
		if row == nil {
			return 0, err
		}
		return 1, err
	}

	// The first poll sorts the whole input: it meets the error and reports it (this holds)
	if n, err := poll(); !errors.Is(err, violC13v1Err) || n != 0 {
		t.Fatalf("first poll: got %d rows, err = %v; want the injected error", n, err)
	}
	opsAtError := store.ops

	// The statement has failed. Whatever is polled from it now must not be
	// handed out as its result: the sorted input is incomplete.
	got := 0
	for i := 0; i < 5; i++ {
		n, err := poll()
		if err != nil {
			break
		}
		if n == 0 {
			break
		}
		got += n
	}
	if got != 0 {
		t.Errorf("after the storage error the ORDER BY plan returned %d rows with a nil error: "+
			"a shortened result (2 of 3 rows) instead of the error", got)
	}
	if store.ops != opsAtError {
		t.Errorf("%d storage operations were issued after the one that failed", store.ops-opsAtError)
	}
}

func TestViolation_C13_v1(t *testing.T) {
	t.Run("row", func(t *testing.T) { violC13v1Run(t, false) })
	t.Run("batch", func(t *testing.T) { violC13v1Run(t, true) })
}
