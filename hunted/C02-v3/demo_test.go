package kvql

import (
	"reflect"
	"sort"
	"testing"
)

// Minimal sorted in-memory storage.
type violC02v3Store struct {
	keys []string
	vals map[string]string
}

func violC02v3NewStore(kvs map[string]string) *violC02v3Store {
	s := &violC02v3Store{vals: kvs}
	for k := range kvs {
		s.keys = append(s.keys, k)
	}
	sort.Strings(s.keys)
	return s
}

func (s *violC02v3Store) Get(key []byte) ([]byte, error) {
	v, ok := s.vals[string(key)]
	if !ok {
		return nil, nil
	}
	return []byte(v), nil
}
func (s *violC02v3Store) Put(key []byte, value []byte) error { return nil }
func (s *violC02v3Store) BatchPut(kvs []KVPair) error        { return nil }
func (s *violC02v3Store) Delete(key []byte) error            { return nil }
func (s *violC02v3Store) BatchDelete(keys [][]byte) error    { return nil }
func (s *violC02v3Store) Cursor() (Cursor, error)            { return &violC02v3Cursor{s: s}, nil }

type violC02v3Cursor struct {
	s   *violC02v3Store
	idx int
}

// Seek positions the cursor on the first key >= the argument.
func (c *violC02v3Cursor) Seek(key []byte) error {
	c.idx = sort.SearchStrings(c.s.keys, string(key))
	return nil
}

func (c *violC02v3Cursor) Next() ([]byte, []byte, error) {
	if c.idx >= len(c.s.keys) {
		return nil, nil, nil
	}
	k := c.s.keys[c.idx]
	c.idx++
	return []byte(k), []byte(c.s.vals[k]), nil
}

func violC02v3Drain(t *testing.T, plan FinalPlan) []string {
	ctx := NewExecuteCtx()
	got := []string{}
	for {
		cols, err := plan.Next(ctx)
		if err != nil {
			t.Fatal(err)
		}
		if cols == nil {
			break
		}
		got = append(got, string(cols[0].([]byte)))
	}
	return got
}

// Runs the statement to the end, re-initialises the plan and runs it again.
func violC02v3RunTwice(t *testing.T, store Storage, query string) (first, second []string, explain []string) {
	plan, err := NewOptimizer(query).BuildPlan(store)
	if err != nil {
		t.Fatal(err)
	}
	first = violC02v3Drain(t, plan)
	if err := plan.Init(); err != nil {
		t.Fatal(err)
	}
	second = violC02v3Drain(t, plan)
	return first, second, plan.Explain()
}

func TestViolation_C02_v3(t *testing.T) {
	store := violC02v3NewStore(map[string]string{"a": "v0", "b": "v1", "c": "v2"})
	want := []string{"a", "b"}

	// Control: the same key predicate or-ed with an opaque predicate that never
	// holds is answered by a full scan; after Init() the statement runs again.
	first, second, explain := violC02v3RunTwice(t, store, "select key where key in ('a', 'b') | value = 'nomatch'")
	if !reflect.DeepEqual(first, want) || !reflect.DeepEqual(second, want) {
		t.Fatalf("control (full scan) is wrong: first %q, after Init %q, plan %v", first, second, explain)
	}

	// The same predicate answered with point reads.
	query := "select key where key in ('a', 'b')"
	first, second, explain = violC02v3RunTwice(t, store, query)
	if !reflect.DeepEqual(first, want) {
		t.Fatalf("query %q first run: want %q got %q", query, want, first)
	}
	if !reflect.DeepEqual(second, want) {
		t.Fatalf("query %q after Init(): want keys %q (what the full scan returns), got %q\n plan %v", query, want, second, explain)
	}
}
