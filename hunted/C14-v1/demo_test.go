package kvql

import (
	"bytes"
	"sort"
	"testing"
)

// Minimal in-memory sorted storage that counts every storage call.
type violC14v1Store struct {
	kvs   []KVPair
	calls int
}

func (s *violC14v1Store) find(key []byte) int {
	return sort.Search(len(s.kvs), func(i int) bool { return bytes.Compare(s.kvs[i].Key, key) >= 0 })
}

func (s *violC14v1Store) Get(key []byte) ([]byte, error) {
	s.calls++
	if i := s.find(key); i < len(s.kvs) && bytes.Equal(s.kvs[i].Key, key) {
		return s.kvs[i].Value, nil
	}
	return nil, nil
}

func (s *violC14v1Store) Put(key []byte, value []byte) error {
	s.calls++
	i := s.find(key)
	if i < len(s.kvs) && bytes.Equal(s.kvs[i].Key, key) {
		s.kvs[i].Value = value
		return nil
	}
	s.kvs = append(s.kvs, KVPair{})
	copy(s.kvs[i+1:], s.kvs[i:])
	s.kvs[i] = KVPair{Key: key, Value: value}
	return nil
}

func (s *violC14v1Store) BatchPut(kvs []KVPair) error {
	for _, kv := range kvs {
		s.Put(kv.Key, kv.Value)
	}
	return nil
}

func (s *violC14v1Store) Delete(key []byte) error {
	s.calls++
	if i := s.find(key); i < len(s.kvs) && bytes.Equal(s.kvs[i].Key, key) {
		s.kvs = append(s.kvs[:i], s.kvs[i+1:]...)
	}
	return nil
}

func (s *violC14v1Store) BatchDelete(keys [][]byte) error {
	for _, k := range keys {
		s.Delete(k)
	}
	return nil
}

func (s *violC14v1Store) Cursor() (Cursor, error) {
	s.calls++
	return &violC14v1Cursor{s: s}, nil
}

type violC14v1Cursor struct {
	s   *violC14v1Store
	pos int
}

func (c *violC14v1Cursor) Seek(prefix []byte) error {
	c.s.calls++
	c.pos = c.s.find(prefix)
	return nil
}

func (c *violC14v1Cursor) Next() ([]byte, []byte, error) {
	c.s.calls++
	if c.pos >= len(c.s.kvs) {
		return nil, nil, nil
	}
	kv := c.s.kvs[c.pos]
	c.pos++
	return kv.Key, kv.Value, nil
}

// A wrong argument count (or an unknown function that sits where no type is
// demanded from it) is a statically detectable fault: the plan must not be
// built and the storage must not be touched.
func TestViolation_C14_v1(t *testing.T) {
	queries := []string{
		// wrong argument count: upper takes exactly one argument
		"where upper(key, value) = 'K1'",
		// unknown function in a select field
		"select nosuchfunc(key) where key ^= 'k'",
	}
	for _, query := range queries {
		store := &violC14v1Store{kvs: []KVPair{NewKVPStr("k1", "v1")}}
		plan, err := NewOptimizer(query).BuildPlan(store)
		if err != nil {
			if store.calls != 0 {
				t.Errorf("%q: rejected (%v) but only after %d storage calls", query, err, store.calls)
			}
			continue
		}
		// Not rejected: show what happens instead.
		buildCalls := store.calls
		_, runErr := plan.Next(NewExecuteCtx())
		t.Errorf("%q: expected BuildPlan to reject the statement before any storage access; "+
			"got a plan (%d storage calls while building), the fault only surfaces at execution: %v",
			query, buildCalls, runErr)
	}

	// Consequence: on an empty store the faulty statement is never reported at all.
	empty := &violC14v1Store{}
	plan, err := NewOptimizer("where upper(key, value) = 'K1'").BuildPlan(empty)
	if err == nil {
		row, runErr := plan.Next(NewExecuteCtx())
		if runErr == nil {
			t.Errorf("empty store: statement with a wrong argument count ran to completion without any error (row=%v)", row)
		}
	}
}
