package kvql

import (
	"fmt"
	"math"
	"sort"
	"testing"
)

// Minimal in-memory sorted storage for the demo.
type viol2C07v1Store struct {
	keys []string
	data map[string][]byte
}

func viol2C07v1NewStore(kvs ...string) *viol2C07v1Store {
	s := &viol2C07v1Store{data: map[string][]byte{}}
	for i := 0; i+1 < len(kvs); i += 2 {
		s.Put([]byte(kvs[i]), []byte(kvs[i+1]))
	}
	return s
}

func (s *viol2C07v1Store) Get(key []byte) ([]byte, error) {
	v, ok := s.data[string(key)]
	if !ok {
		return nil, nil
	}
	return v, nil
}

func (s *viol2C07v1Store) Put(key []byte, value []byte) error {
	if _, ok := s.data[string(key)]; !ok {
		s.keys = append(s.keys, string(key))
		sort.Strings(s.keys)
	}
	s.data[string(key)] = append([]byte{}, value...)
	return nil
}

func (s *viol2C07v1Store) BatchPut(kvs []KVPair) error {
	for _, kv := range kvs {
		s.Put(kv.Key, kv.Value)
	}
	return nil
}

func (s *viol2C07v1Store) Delete(key []byte) error {
	if _, ok := s.data[string(key)]; ok {
		delete(s.data, string(key))
		i := sort.SearchStrings(s.keys, string(key))
		s.keys = append(s.keys[:i], s.keys[i+1:]...)
	}
	return nil
}

func (s *viol2C07v1Store) BatchDelete(keys [][]byte) error {
	for _, k := range keys {
		s.Delete(k)
	}
	return nil
}

func (s *viol2C07v1Store) Cursor() (Cursor, error) {
	return &viol2C07v1Cursor{s: s}, nil
}

type viol2C07v1Cursor struct {
	s   *viol2C07v1Store
	idx int
}

func (c *viol2C07v1Cursor) Seek(prefix []byte) error {
	c.idx = sort.SearchStrings(c.s.keys, string(prefix))
	return nil
}

func (c *viol2C07v1Cursor) Next() ([]byte, []byte, error) {
	if c.idx >= len(c.s.keys) {
		return nil, nil, nil
	}
	k := c.s.keys[c.idx]
	c.idx++
	return []byte(k), append([]byte{}, c.s.data[k]...), nil
}

func viol2C07v1Run(t *testing.T, s Storage, query string, batch bool) [][]Column {
	plan, err := NewOptimizer(query).BuildPlan(s)
	if err != nil {
		t.Fatalf("build %q: %v", query, err)
	}
	ctx := NewExecuteCtx()
	var out [][]Column
	for {
		if batch {
			rows, err := plan.Batch(ctx)
			if err != nil {
				t.Fatalf("batch %q: %v", query, err)
			}
			if len(rows) == 0 {
				return out
			}
			out = append(out, rows...)
		} else {
			row, err := plan.Next(ctx)
			if err != nil {
				t.Fatalf("next %q: %v", query, err)
			}
			if row == nil {
				return out
			}
			out = append(out, row)
		}
	}
}

// One NaN among the order values disorders the rows that are ordinary numbers.
func TestViolation3_C07_v1(t *testing.T) {
	store := viol2C07v1NewStore("k0", "2", "k1", "NaN", "k2", "3", "k3", "1")
	base := "select key, float(value) as f where true"
	for _, batch := range []bool{false, true} {
		unordered := viol2C07v1Run(t, store, base, batch)
		ordered := viol2C07v1Run(t, store, base+" order by f", batch)

		// a permutation of the unordered result
		ukeys, okeys := []string{}, []string{}
		for _, r := range unordered {
			ukeys = append(ukeys, string(r[0].([]byte)))
		}
		for _, r := range ordered {
			okeys = append(okeys, string(r[0].([]byte)))
		}
		sort.Strings(ukeys)
		sort.Strings(okeys)
		if fmt.Sprint(ukeys) != fmt.Sprint(okeys) {
			t.Fatalf("batch=%v: not a permutation: %v vs %v", batch, ukeys, okeys)
		}

		// every adjacent pair of ordinary numbers must be non-decreasing, and
		// so must the numbers as a whole (wherever the NaN row is put)
		var shown []string
		var numbers []float64
		for _, r := range ordered {
			f := r[1].(float64)
			shown = append(shown, fmt.Sprintf("%s=%v", r[0], f))
			if !math.IsNaN(f) {
				numbers = append(numbers, f)
			}
		}
		for i := 0; i+1 < len(ordered); i++ {
			a, b := ordered[i][1].(float64), ordered[i+1][1].(float64)
			if !math.IsNaN(a) && !math.IsNaN(b) && a > b {
				t.Errorf("batch=%v: `order by f` returned %v: adjacent rows %d,%d are decreasing (%v before %v)", batch, shown, i, i+1, a, b)
			}
		}
		if !sort.Float64sAreSorted(numbers) {
			t.Errorf("batch=%v: `order by f` returned %v: the numbers %v are not in ascending order, want [1 2 3]", batch, shown, numbers)
		}
	}
}
