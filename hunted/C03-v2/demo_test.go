package kvql

import (
	"bytes"
	"fmt"
	"reflect"
	"sort"
	"testing"
)

// Minimal in-memory sorted storage for the demo.
type violC03v2Store struct{ kvs []KVPair }

func violC03v2NewStore(kvs ...KVPair) *violC03v2Store {
	sort.Slice(kvs, func(i, j int) bool { return bytes.Compare(kvs[i].Key, kvs[j].Key) < 0 })
	return &violC03v2Store{kvs: kvs}
}

func (s *violC03v2Store) Get(key []byte) ([]byte, error) {
	for _, kv := range s.kvs {
		if bytes.Equal(kv.Key, key) {
			return kv.Value, nil
		}
	}
	return nil, nil
}
func (s *violC03v2Store) Put(key []byte, value []byte) error { return nil }
func (s *violC03v2Store) BatchPut(kvs []KVPair) error        { return nil }
func (s *violC03v2Store) Delete(key []byte) error            { return nil }
func (s *violC03v2Store) BatchDelete(keys [][]byte) error    { return nil }
func (s *violC03v2Store) Cursor() (Cursor, error)            { return &violC03v2Cursor{s: s}, nil }

type violC03v2Cursor struct {
	s   *violC03v2Store
	idx int
}

func (c *violC03v2Cursor) Seek(prefix []byte) error {
	c.idx = sort.Search(len(c.s.kvs), func(i int) bool { return bytes.Compare(c.s.kvs[i].Key, prefix) >= 0 })
	return nil
}

func (c *violC03v2Cursor) Next() ([]byte, []byte, error) {
	if c.idx >= len(c.s.kvs) {
		return nil, nil, nil
	}
	kv := c.s.kvs[c.idx]
	c.idx++
	return kv.Key, kv.Value, nil
}

func violC03v2Show(rows [][]Column) []string {
	ret := make([]string, len(rows))
	for i, row := range rows {
		ret[i] = fmt.Sprintf("%s|%s", row[0], row[1])
	}
	return ret
}

func TestViolation_C03_v2(t *testing.T) {
	store := violC03v2NewStore(NewKVPStr("k1", "v1"))
	// Two fields share the name `a`; in the where clause `a` resolves to the
	// first one (key). The row matches through the left arm of the `|`.
	query := "select key as a, value as a where key = 'k1' | a = 'zz'"
	want := []string{"k1|v1"}

	// Row at a time
	plan, err := NewOptimizer(query).BuildPlan(store)
	if err != nil {
		t.Fatal(err)
	}
	var rowRows [][]Column
	ctx := NewExecuteCtx()
	for {
		row, err := plan.Next(ctx)
		if err != nil {
			t.Fatal(err)
		}
		if row == nil {
			break
		}
		rowRows = append(rowRows, row)
	}
	if got := violC03v2Show(rowRows); !reflect.DeepEqual(got, want) {
		t.Fatalf("row mode: got %v, want %v", got, want)
	}

	// In batches
	oldSize := PlanBatchSize
	defer func() { PlanBatchSize = oldSize }()
	for _, size := range []int{1, 2, 32} {
		PlanBatchSize = size
		plan, err := NewOptimizer(query).BuildPlan(store)
		if err != nil {
			t.Fatal(err)
		}
		var batchRows [][]Column
		ctx := NewExecuteCtx()
		for {
			rows, err := plan.Batch(ctx)
			if err != nil {
				t.Fatal(err)
			}
			if len(rows) == 0 {
				break
			}
			batchRows = append(batchRows, rows...)
		}
		if got := violC03v2Show(batchRows); !reflect.DeepEqual(got, want) {
			t.Errorf("batch size %d: got %v, want (as row mode) %v", size, got, want)
		}
	}
}
