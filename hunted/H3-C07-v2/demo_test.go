package kvql

import (
	"fmt"
	"sort"
	"testing"
)

// Minimal in-memory sorted storage for the demo.
type viol2C07v2Store struct {
	keys []string
	data map[string][]byte
}

func viol2C07v2NewStore(kvs ...string) *viol2C07v2Store {
	s := &viol2C07v2Store{data: map[string][]byte{}}
	for i := 0; i+1 < len(kvs); i += 2 {
		s.Put([]byte(kvs[i]), []byte(kvs[i+1]))
	}
	return s
}

func (s *viol2C07v2Store) Get(key []byte) ([]byte, error) {
	v, ok := s.data[string(key)]
	if !ok {
		return nil, nil
	}
	return v, nil
}

func (s *viol2C07v2Store) Put(key []byte, value []byte) error {
	if _, ok := s.data[string(key)]; !ok {
		s.keys = append(s.keys, string(key))
		sort.Strings(s.keys)
	}
	s.data[string(key)] = append([]byte{}, value...)
	return nil
}

func (s *viol2C07v2Store) BatchPut(kvs []KVPair) error {
	for _, kv := range kvs {
		s.Put(kv.Key, kv.Value)
	}
	return nil
}

func (s *viol2C07v2Store) Delete(key []byte) error {
	if _, ok := s.data[string(key)]; ok {
		delete(s.data, string(key))
		i := sort.SearchStrings(s.keys, string(key))
		s.keys = append(s.keys[:i], s.keys[i+1:]...)
	}
	return nil
}

func (s *viol2C07v2Store) BatchDelete(keys [][]byte) error {
	for _, k := range keys {
		s.Delete(k)
	}
	return nil
}

func (s *viol2C07v2Store) Cursor() (Cursor, error) {
	return &viol2C07v2Cursor{s: s}, nil
}

type viol2C07v2Cursor struct {
	s   *viol2C07v2Store
	idx int
}

func (c *viol2C07v2Cursor) Seek(prefix []byte) error {
	c.idx = sort.SearchStrings(c.s.keys, string(prefix))
	return nil
}

func (c *viol2C07v2Cursor) Next() ([]byte, []byte, error) {
	if c.idx >= len(c.s.keys) {
		return nil, nil, nil
	}
	k := c.s.keys[c.idx]
	c.idx++
	return []byte(k), append([]byte{}, c.s.data[k]...), nil
}

func viol2C07v2Run(t *testing.T, s Storage, query string, batch bool) [][]Column {
	plan, err := NewOptimizer(query).BuildPlan(s)
	if err != nil {
		t.Fatalf("build %q: %v", query, err)
	}
	ctx := NewExecuteCtx()
	var out [][]Column
	for {
		if batch {
			rows, err := plan.Batch(ctx)
			if err != nil {
				t.Fatalf("batch %q: %v", query, err)
			}
			if len(rows) == 0 {
				return out
			}
			out = append(out, rows...)
		} else {
			row, err := plan.Next(ctx)
			if err != nil {
				t.Fatalf("next %q: %v", query, err)
			}
			if row == nil {
				return out
			}
			out = append(out, row)
		}
	}
}

// An integer and a float in one number column (sum() is an integer for the
// groups that only hold integers) are compared after rounding the integer to a
// float: above 2^53 the larger number can come first.
func TestViolation3_C07_v2(t *testing.T) {
	// group a: sum = 9007199254740993 (int64), group b: sum = 9007199254740992 (float64)
	store := viol2C07v2NewStore("a1", "9007199254740993", "b1", "9007199254740992.0")
	base := "select substr(key, 0, 1) as g, sum(value) as s where true group by g"
	for _, batch := range []bool{false, true} {
		unordered := viol2C07v2Run(t, store, base, batch)
		ordered := viol2C07v2Run(t, store, base+" order by s", batch)
		if len(unordered) != 2 || len(ordered) != 2 {
			t.Fatalf("batch=%v: want 2 groups, got %d without and %d with order by", batch, len(unordered), len(ordered))
		}
		var shown []string
		for _, r := range ordered {
			shown = append(shown, fmt.Sprintf("%s=%v(%T)", r[0], r[1], r[1]))
		}
		// the sums are what they are said to be
		bySum := map[string]Column{}
		for _, r := range ordered {
			bySum[string(r[0].([]byte))] = r[1]
		}
		if v, ok := bySum["a"].(int64); !ok || v != 9007199254740993 {
			t.Fatalf("batch=%v: sum of group a is %v (%T), want int64 9007199254740993", batch, bySum["a"], bySum["a"])
		}
		if v, ok := bySum["b"].(float64); !ok || v != 9007199254740992 {
			t.Fatalf("batch=%v: sum of group b is %v (%T), want float64 9007199254740992", batch, bySum["b"], bySum["b"])
		}
		// 9007199254740992 < 9007199254740993: ascending order is b, a
		got := string(ordered[0][0].([]byte)) + "," + string(ordered[1][0].([]byte))
		if got != "b,a" {
			t.Errorf("batch=%v: `order by s` returned %v: groups in order %s, want b,a (9007199254740992 before 9007199254740993)", batch, shown, got)
		}
	}
}
