package kvql

import (
	"bytes"
	"fmt"
	"sort"
	"testing"
)

// A plain in-memory Storage: the pairs are kept sorted by key (byte-wise),
// a new cursor stands on the first pair, Seek moves to the first key >= the
// given one.
type viol2C01v2Storage struct{ data []KVPair }

func viol2C01v2NewStorage(pairs ...[2]string) *viol2C01v2Storage {
	s := &viol2C01v2Storage{}
	for _, p := range pairs {
		s.data = append(s.data, KVPair{Key: []byte(p[0]), Value: []byte(p[1])})
	}
	sort.Slice(s.data, func(i, j int) bool { return bytes.Compare(s.data[i].Key, s.data[j].Key) < 0 })
	return s
}

func (s *viol2C01v2Storage) Get(key []byte) ([]byte, error) {
	for _, kv := range s.data {
		if bytes.Equal(kv.Key, key) {
			return append([]byte{}, kv.Value...), nil
		}
	}
	return nil, nil
}
func (s *viol2C01v2Storage) Put(key []byte, value []byte) error { return nil }
func (s *viol2C01v2Storage) BatchPut(kvs []KVPair) error        { return nil }
func (s *viol2C01v2Storage) Delete(key []byte) error            { return nil }
func (s *viol2C01v2Storage) BatchDelete(keys [][]byte) error    { return nil }
func (s *viol2C01v2Storage) Cursor() (Cursor, error)            { return &viol2C01v2Cursor{s: s}, nil }

type viol2C01v2Cursor struct {
	s   *viol2C01v2Storage
	idx int
}

func (c *viol2C01v2Cursor) Seek(key []byte) error {
	c.idx = sort.Search(len(c.s.data), func(i int) bool { return bytes.Compare(c.s.data[i].Key, key) >= 0 })
	return nil
}

func (c *viol2C01v2Cursor) Next() ([]byte, []byte, error) {
	if c.idx >= len(c.s.data) {
		return nil, nil, nil
	}
	kv := c.s.data[c.idx]
	c.idx++
	return append([]byte{}, kv.Key...), append([]byte{}, kv.Value...), nil
}

// viol2C01v2Run runs the query to the end, with Next (batch == false) or with Batch
func viol2C01v2Run(s Storage, query string, batch bool) ([]string, error) {
	plan, err := NewOptimizer(query).BuildPlan(s)
	if err != nil {
		return nil, fmt.Errorf("build: %v", err)
	}
	ctx := NewExecuteCtx()
	rows := []string{}
	for {
		if batch {
			chunk, err := plan.Batch(ctx)
			if err != nil {
				return rows, err
			}
			if len(chunk) == 0 {
				return rows, nil
			}
			for _, r := range chunk {
				rows = append(rows, fmt.Sprintf("%q=%q", r[0], r[1]))
			}
		} else {
			r, err := plan.Next(ctx)
			if err != nil {
				return rows, err
			}
			if r == nil {
				return rows, nil
			}
			rows = append(rows, fmt.Sprintf("%q=%q", r[0], r[1]))
		}
	}
}

// float(value) * 10 * 10 reads ((float(value) * 10) * 10). For the value 1.1
// that is 11 and then 110: the pair satisfies "= 110". The optimizer rewrites
// the filter to float(value) * 100, which is 110.00000000000001.
func TestViolation2_C01_v2(t *testing.T) {
	if x := 1.1; (x*10)*10 != 110 {
		t.Fatalf("the test's own arithmetic is wrong")
	}
	s := viol2C01v2NewStorage([2]string{"p1", "1.1"}, [2]string{"p2", "2.5"})
	query := "select * where float(value) * 10 * 10 = 110"
	want := fmt.Sprint([]string{`"p1"="1.1"`})
	for _, batch := range []bool{false, true} {
		got, err := viol2C01v2Run(s, query, batch)
		if err != nil {
			t.Errorf("batch=%v: %s: expected rows %s, got error: %v", batch, query, want, err)
			continue
		}
		if fmt.Sprint(got) != want {
			t.Errorf("batch=%v: %s: expected rows %s, got %v", batch, query, want, got)
		}
	}
}
