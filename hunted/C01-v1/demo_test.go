package kvql

import (
	"bytes"
	"fmt"
	"sort"
	"testing"
)

// substr(value, start, end) is documented as the substring from position start
// to position end (spec.md: "substr(value, 2, 3) ... one char"), so
// substr('k_ab', 2, 4) is 'ab' and the pair k_ab must be selected. The engine
// clamps end to len-start instead of len and computes ''.

// violC01v1Store is a minimal in-memory Storage whose cursor yields the
// pairs in ascending byte-wise key order.
type violC01v1Store struct {
	kvs []KVPair
}

func violC01v1NewStore(pairs ...string) *violC01v1Store {
	s := &violC01v1Store{}
	for i := 0; i+1 < len(pairs); i += 2 {
		s.kvs = append(s.kvs, NewKVPStr(pairs[i], pairs[i+1]))
	}
	sort.Slice(s.kvs, func(a, b int) bool { return bytes.Compare(s.kvs[a].Key, s.kvs[b].Key) < 0 })
	return s
}

func (s *violC01v1Store) Get(key []byte) ([]byte, error) {
	for _, kv := range s.kvs {
		if bytes.Equal(kv.Key, key) {
			return kv.Value, nil
		}
	}
	return nil, nil
}
func (s *violC01v1Store) Put(key []byte, value []byte) error { return nil }
func (s *violC01v1Store) BatchPut(kvs []KVPair) error        { return nil }
func (s *violC01v1Store) Delete(key []byte) error            { return nil }
func (s *violC01v1Store) BatchDelete(keys [][]byte) error    { return nil }
func (s *violC01v1Store) Cursor() (Cursor, error) {
	return &violC01v1Cursor{s: s}, nil
}

type violC01v1Cursor struct {
	s   *violC01v1Store
	idx int
}

func (c *violC01v1Cursor) Seek(prefix []byte) error {
	c.idx = sort.Search(len(c.s.kvs), func(i int) bool { return bytes.Compare(c.s.kvs[i].Key, prefix) >= 0 })
	return nil
}

func (c *violC01v1Cursor) Next() ([]byte, []byte, error) {
	if c.idx >= len(c.s.kvs) {
		return nil, nil, nil
	}
	kv := c.s.kvs[c.idx]
	c.idx++
	return kv.Key, kv.Value, nil
}

// violC01v1Run executes the query row by row (batch == false) or in batches
// and renders the returned rows as "key=value;".
func violC01v1Run(s Storage, query string, batch bool) (string, error) {
	plan, err := NewOptimizer(query).BuildPlan(s)
	if err != nil {
		return "", err
	}
	ctx := NewExecuteCtx()
	out := ""
	for {
		var rows [][]Column
		if batch {
			rows, err = plan.Batch(ctx)
		} else {
			var row []Column
			row, err = plan.Next(ctx)
			if row != nil {
				rows = [][]Column{row}
			}
		}
		if err != nil {
			return out, err
		}
		if len(rows) == 0 {
			return out, nil
		}
		for _, cols := range rows {
			out += fmt.Sprintf("%s=%s;", cols[0], cols[1])
		}
	}
}

func TestViolation_C01_v1(t *testing.T) {
	store := violC01v1NewStore("k_ab", "v1", "k_cd", "v2")
	query := "select * where substr(key, 2, 4) = 'ab'"
	want := "k_ab=v1;"
	for _, batch := range []bool{false, true} {
		got, err := violC01v1Run(store, query, batch)
		if err != nil {
			t.Errorf("batch=%v: %s: unexpected error: %v", batch, query, err)
			continue
		}
		if got != want {
			t.Errorf("batch=%v: %s: got rows %q, want %q", batch, query, got, want)
		}
	}
}
