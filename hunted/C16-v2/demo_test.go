package kvql

import (
	"strings"
	"testing"
)

// A query written on two lines is accepted by the parser, but the first word
// of the second line reports the offset of the line break, not of its text.
func TestViolation_C16_v2(t *testing.T) {
	q := "select *\nwhere key = 'k1'\nlimit 1"
	if _, err := NewParser(q).Parse(); err != nil {
		t.Fatalf("query should parse: %v", err)
	}
	for _, tk := range NewLexer(q).Split() {
		if tk.Tp == STRING {
			continue
		}
		end := tk.Pos + len(tk.Data)
		if end > len(q) || strings.ToLower(q[tk.Pos:end]) != tk.Data {
			got := q[tk.Pos:]
			if len(got) > len(tk.Data) {
				got = got[:len(tk.Data)]
			}
			t.Errorf("token %q reports offset %d, but the query has %q there (its text begins at %d)",
				tk.Data, tk.Pos, got, strings.Index(strings.ToLower(q), tk.Data))
		}
	}
}
