package kvql

import (
	"bytes"
	"sort"
	"testing"
)

// Minimal sorted in-memory storage with snapshot cursors.
type violC11v1Store struct {
	data   map[string]string
	writes int
}

func (s *violC11v1Store) Get(key []byte) ([]byte, error) {
	v, ok := s.data[string(key)]
	if !ok {
		return nil, nil
	}
	return []byte(v), nil
}

func (s *violC11v1Store) Put(key []byte, value []byte) error {
	s.writes++
	s.data[string(key)] = string(value)
	return nil
}

func (s *violC11v1Store) BatchPut(kvs []KVPair) error {
	for _, kv := range kvs {
		s.Put(kv.Key, kv.Value)
	}
	return nil
}

func (s *violC11v1Store) Delete(key []byte) error {
	delete(s.data, string(key))
	return nil
}

func (s *violC11v1Store) BatchDelete(keys [][]byte) error {
	for _, k := range keys {
		delete(s.data, string(k))
	}
	return nil
}

func (s *violC11v1Store) Cursor() (Cursor, error) {
	keys := make([]string, 0, len(s.data))
	for k := range s.data {
		keys = append(keys, k)
	}
	sort.Strings(keys)
	kvs := make([]KVPair, len(keys))
	for i, k := range keys {
		kvs[i] = NewKVPStr(k, s.data[k])
	}
	return &violC11v1Cursor{kvs: kvs}, nil
}

type violC11v1Cursor struct {
	kvs []KVPair
	idx int
}

func (c *violC11v1Cursor) Seek(prefix []byte) error {
	c.idx = sort.Search(len(c.kvs), func(i int) bool {
		return bytes.Compare(c.kvs[i].Key, prefix) >= 0
	})
	return nil
}

func (c *violC11v1Cursor) Next() ([]byte, []byte, error) {
	if c.idx >= len(c.kvs) {
		return nil, nil, nil
	}
	kv := c.kvs[c.idx]
	c.idx++
	return kv.Key, kv.Value, nil
}

func violC11v1SelectKeys(t *testing.T, st Storage, query string) []string {
	plan, err := NewOptimizer(query).BuildPlan(st)
	if err != nil {
		t.Fatal(err)
	}
	ctx := NewExecuteCtx()
	var keys []string
	for {
		row, err := plan.Next(ctx)
		if err != nil {
			t.Fatal(err)
		}
		if row == nil {
			return keys
		}
		keys = append(keys, string(row[0].([]byte)))
	}
}

// A delete plan whose WHERE is planned as point reads (MultiGetPlan) is
// executed, the store is put back into its prior state, the plan is
// re-initialised with Init() and executed again. The second execution must
// again remove exactly what `select * where P` returns on that prior state.
func TestViolation_C11_v1(t *testing.T) {
	const where = "key = 'a' & value = 'x'"
	st := &violC11v1Store{data: map[string]string{"a": "x", "b": "x"}}

	plan, err := NewOptimizer("delete where " + where).BuildPlan(st)
	if err != nil {
		t.Fatal(err)
	}
	ctx := NewExecuteCtx()

	// First execution: works.
	if _, err := plan.Batch(ctx); err != nil {
		t.Fatal(err)
	}
	if _, have := st.data["a"]; have || len(st.data) != 1 {
		t.Fatalf("first execution: expected only 'b' to remain, got %v", st.data)
	}

	// Prior state of the second execution: 'a' is back.
	st.data["a"] = "x"
	st.writes = 0
	selected := violC11v1SelectKeys(t, st, "select * where "+where)
	if len(selected) != 1 || selected[0] != "a" {
		t.Fatalf("select on the prior state should return [a], got %v", selected)
	}

	// Re-initialise (DeletePlan.Init re-arms the plan and its child) and execute again.
	if err := plan.Init(); err != nil {
		t.Fatal(err)
	}
	if _, err := plan.Batch(ctx); err != nil {
		t.Fatal(err)
	}

	if st.writes != 0 {
		t.Fatalf("delete wrote %d pairs", st.writes)
	}
	if v, have := st.data["b"]; !have || v != "x" {
		t.Fatalf("pair b=x must be kept, store is %v", st.data)
	}
	if _, have := st.data["a"]; have {
		t.Fatalf("re-initialised `delete where %s` removed nothing: select returns %v on the prior state, "+
			"expected store {b:x}, got %v", where, selected, st.data)
	}
}
