package kvql

import (
	"bytes"
	"fmt"
	"sort"
	"strings"
	"testing"
)

// ---- minimal sorted in-memory storage --------------------------------------

type viol2C15v2Store struct{ kvs []KVPair }

func viol2C15v2NewStore(kvs ...KVPair) *viol2C15v2Store {
	sort.Slice(kvs, func(i, j int) bool { return bytes.Compare(kvs[i].Key, kvs[j].Key) < 0 })
	return &viol2C15v2Store{kvs: kvs}
}

func (s *viol2C15v2Store) Get(key []byte) ([]byte, error) {
	for _, kv := range s.kvs {
		if bytes.Equal(kv.Key, key) {
			return kv.Value, nil
		}
	}
	return nil, nil
}
func (s *viol2C15v2Store) Put(key []byte, value []byte) error { return nil }
func (s *viol2C15v2Store) BatchPut(kvs []KVPair) error        { return nil }
func (s *viol2C15v2Store) Delete(key []byte) error            { return nil }
func (s *viol2C15v2Store) BatchDelete(keys [][]byte) error    { return nil }
func (s *viol2C15v2Store) Cursor() (Cursor, error)            { return &viol2C15v2Cursor{s: s}, nil }

type viol2C15v2Cursor struct {
	s   *viol2C15v2Store
	idx int
}

func (c *viol2C15v2Cursor) Seek(prefix []byte) error {
	c.idx = sort.Search(len(c.s.kvs), func(i int) bool { return bytes.Compare(c.s.kvs[i].Key, prefix) >= 0 })
	return nil
}

func (c *viol2C15v2Cursor) Next() ([]byte, []byte, error) {
	if c.idx >= len(c.s.kvs) {
		return nil, nil, nil
	}
	kv := c.s.kvs[c.idx]
	c.idx++
	return kv.Key, kv.Value, nil
}

// ---- helpers ----------------------------------------------------------------

// viol2C15v2Shape lists the nodes of a tree in pre-order (node type, and the
// text of the leaves), positions left out
func viol2C15v2Shape(e Expression) string {
	var sb strings.Builder
	e.Walk(func(n Expression) bool {
		switch v := n.(type) {
		case *BinaryOpExpr:
			fmt.Fprintf(&sb, "Binary(%s) ", OperatorToString[v.Op])
		case *NotExpr, *FunctionCallExpr, *ListExpr, *FieldAccessExpr, *FieldReferenceExpr:
			fmt.Fprintf(&sb, "%T ", n)
		default:
			fmt.Fprintf(&sb, "%T(%s) ", n, n.String())
		}
		return true
	})
	return strings.TrimSpace(sb.String())
}

// viol2C15v2Run builds and runs a query. It returns the keys the query
// selects, the filter text that EXPLAIN shows for it and the filter tree that
// is executed
func viol2C15v2Run(s Storage, query string) (keys []string, filter string, where Expression, err error) {
	opt := NewOptimizer(query)
	plan, err := opt.BuildPlan(s)
	if err != nil {
		return nil, "", nil, err
	}
	ctx := NewExecuteCtx()
	for {
		row, err := plan.Next(ctx)
		if err != nil {
			return nil, "", nil, err
		}
		if row == nil {
			break
		}
		keys = append(keys, string(row[0].([]byte)))
	}
	return keys, opt.filter.Explain(), opt.filter.Ast.Expr, nil
}

// The constant 1 - 2 is folded into a number node with the text -1. The
// language has no negative literal (- is a binary operator only), so the
// filter that EXPLAIN shows, (int(VALUE) = -1), is not a statement of the
// language: it cannot be read back at all.
func TestViolation2_C15_v2(t *testing.T) {
	store := viol2C15v2NewStore(NewKVPStr("a", "-1"), NewKVPStr("b", "1"))
	query := "where int(value) = 1 - 2"

	keys, filter, where, err := viol2C15v2Run(store, query)
	if err != nil {
		t.Fatalf("query %q: %v", query, err)
	}
	if fmt.Sprint(keys) != "[a]" {
		t.Fatalf("query %q: got rows %v, want [a]", query, keys)
	}

	// The filter shown by EXPLAIN is accepted again, is the same tree as the
	// one that was executed, and selects the same rows
	requery := "where " + filter
	keys2, _, where2, err := viol2C15v2Run(store, requery)
	if err != nil {
		t.Fatalf("filter of %q is printed as %q, which is not accepted: %v", query, filter, err)
	}
	if got, want := viol2C15v2Shape(where2), viol2C15v2Shape(where); got != want {
		t.Errorf("filter of %q is printed as %q, which parses to another tree\nexecuted: %s\nprinted : %s", query, filter, want, got)
	}
	if fmt.Sprint(keys2) != fmt.Sprint(keys) {
		t.Errorf("query %q selects %v, the filter EXPLAIN shows for it (%s) selects %v", query, keys, filter, keys2)
	}
}
