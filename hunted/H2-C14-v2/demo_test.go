package kvql

import (
	"bytes"
	"sort"
	"testing"
)

// viol2C14v2Store is a sorted in-memory Storage that counts every call made to it
// (and to its cursors).
type viol2C14v2Store struct {
	kvs   []KVPair
	calls int
}

func (s *viol2C14v2Store) find(key []byte) (int, bool) {
	i := sort.Search(len(s.kvs), func(i int) bool { return bytes.Compare(s.kvs[i].Key, key) >= 0 })
	return i, i < len(s.kvs) && bytes.Equal(s.kvs[i].Key, key)
}

func (s *viol2C14v2Store) set(key, value []byte) {
	i, have := s.find(key)
	if have {
		s.kvs[i].Value = value
		return
	}
	s.kvs = append(s.kvs, KVPair{})
	copy(s.kvs[i+1:], s.kvs[i:])
	s.kvs[i] = KVPair{Key: key, Value: value}
}

func (s *viol2C14v2Store) del(key []byte) {
	if i, have := s.find(key); have {
		s.kvs = append(s.kvs[:i], s.kvs[i+1:]...)
	}
}

func (s *viol2C14v2Store) Get(key []byte) ([]byte, error) {
	s.calls++
	if i, have := s.find(key); have {
		return s.kvs[i].Value, nil
	}
	return nil, nil
}

func (s *viol2C14v2Store) Put(key []byte, value []byte) error {
	s.calls++
	s.set(key, value)
	return nil
}

func (s *viol2C14v2Store) BatchPut(kvs []KVPair) error {
	s.calls++
	for _, kv := range kvs {
		s.set(kv.Key, kv.Value)
	}
	return nil
}

func (s *viol2C14v2Store) Delete(key []byte) error {
	s.calls++
	s.del(key)
	return nil
}

func (s *viol2C14v2Store) BatchDelete(keys [][]byte) error {
	s.calls++
	for _, k := range keys {
		s.del(k)
	}
	return nil
}

func (s *viol2C14v2Store) Cursor() (Cursor, error) {
	s.calls++
	return &viol2C14v2Cursor{s: s}, nil
}

type viol2C14v2Cursor struct {
	s   *viol2C14v2Store
	idx int
}

func (c *viol2C14v2Cursor) Seek(prefix []byte) error {
	c.s.calls++
	c.idx, _ = c.s.find(prefix)
	return nil
}

func (c *viol2C14v2Cursor) Next() ([]byte, []byte, error) {
	c.s.calls++
	if c.idx >= len(c.s.kvs) {
		return nil, nil, nil
	}
	kv := c.s.kvs[c.idx]
	c.idx++
	return kv.Key, kv.Value, nil
}

// An aggregate function is typed (through the aggregate registry) wherever it
// is written, but only a select field can evaluate it: elsewhere it is accepted
// when the plan is built and fails as an unknown function at execution.
func TestViolation2_C14_v2(t *testing.T) {
	queries := []string{
		"where count(1) > 0",
		"remove count(1)",
	}
	for _, q := range queries {
		store := &viol2C14v2Store{}
		store.set([]byte("k1"), []byte("v1"))
		plan, err := NewOptimizer(q).BuildPlan(store)
		if err != nil {
			// expected: rejected when the plan is built, without storage access
			if store.calls != 0 {
				t.Errorf("%s: rejected (%v) but after %d storage calls", q, err, store.calls)
			}
			continue
		}
		buildCalls := store.calls
		_, runErr := plan.Next(NewExecuteCtx())
		t.Errorf("%s:\n  expected: BuildPlan rejects the statement, zero storage calls\n  actual:   BuildPlan accepted it (storage calls while building: %d); first Next returned error %q after %d storage calls",
			q, buildCalls, runErr, store.calls)
	}
}
