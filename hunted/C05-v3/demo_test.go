package kvql

import (
	"bytes"
	"fmt"
	"reflect"
	"sort"
	"strings"
	"testing"
)

// The field types are taken while the select list is parsed, before the alias
// names inside the fields are resolved: `a + '0'` with a still unresolved `a`
// is typed as a number, and ORDER BY compares the strings of that column as
// numbers.
func TestViolation_C05_v3(t *testing.T) {
	s := violC05v3NewStore("k1", "10", "k2", "9")
	query := "select value as a, a + '0' as b where key ^= 'k' order by b"
	inlined := "select value as a, value + '0' as b where key ^= 'k' order by b"
	// b is a string: '100' sorts before '90'
	expected := []string{"10,100", "9,90"}
	for _, batch := range []bool{false, true} {
		for _, cache := range []bool{false, true} {
			ref := violC05v3Run(t, s, inlined, cache, batch)
			if !reflect.DeepEqual(ref, expected) {
				t.Errorf("batch=%v cache=%v alias replaced by its expression: expected %v, got %v", batch, cache, expected, ref)
			}
			got := violC05v3Run(t, s, query, cache, batch)
			if !reflect.DeepEqual(got, expected) {
				t.Errorf("batch=%v cache=%v: expected %v, got %v", batch, cache, expected, got)
			}
		}
	}
}

type violC05v3Store struct {
	kvs []KVPair // sorted by key
}

func violC05v3NewStore(pairs ...string) *violC05v3Store {
	s := &violC05v3Store{}
	for i := 0; i+1 < len(pairs); i += 2 {
		s.kvs = append(s.kvs, NewKVPStr(pairs[i], pairs[i+1]))
	}
	sort.Slice(s.kvs, func(i, j int) bool { return bytes.Compare(s.kvs[i].Key, s.kvs[j].Key) < 0 })
	return s
}

func (s *violC05v3Store) Get(key []byte) ([]byte, error) {
	for _, kv := range s.kvs {
		if bytes.Equal(kv.Key, key) {
			return kv.Value, nil
		}
	}
	return nil, nil
}
func (s *violC05v3Store) Put(key []byte, value []byte) error { return nil }
func (s *violC05v3Store) BatchPut(kvs []KVPair) error        { return nil }
func (s *violC05v3Store) Delete(key []byte) error            { return nil }
func (s *violC05v3Store) BatchDelete(keys [][]byte) error    { return nil }
func (s *violC05v3Store) Cursor() (Cursor, error)            { return &violC05v3Cursor{s: s}, nil }

type violC05v3Cursor struct {
	s   *violC05v3Store
	idx int
}

func (c *violC05v3Cursor) Seek(prefix []byte) error {
	c.idx = sort.Search(len(c.s.kvs), func(i int) bool { return bytes.Compare(c.s.kvs[i].Key, prefix) >= 0 })
	return nil
}

func (c *violC05v3Cursor) Next() ([]byte, []byte, error) {
	if c.idx >= len(c.s.kvs) {
		return nil, nil, nil
	}
	kv := c.s.kvs[c.idx]
	c.idx++
	return kv.Key, kv.Value, nil
}

// violC05v3Run executes the query and renders every row as "col,col,..."
// (byte slices and strings as text, everything else with %v)
func violC05v3Run(t *testing.T, s Storage, query string, cache bool, batch bool) []string {
	t.Helper()
	plan, err := NewOptimizer(query).BuildPlan(s)
	if err != nil {
		t.Fatalf("query %q is not accepted: %v", query, err)
	}
	ctx := NewExecuteCtx()
	ctx.EnableCache = cache
	var rows [][]Column
	for {
		if batch {
			rs, err := plan.Batch(ctx)
			if err != nil {
				t.Fatalf("query %q: %v", query, err)
			}
			if len(rs) == 0 {
				break
			}
			rows = append(rows, rs...)
		} else {
			r, err := plan.Next(ctx)
			if err != nil {
				t.Fatalf("query %q: %v", query, err)
			}
			if r == nil {
				break
			}
			rows = append(rows, r)
		}
	}
	ret := []string{}
	for _, r := range rows {
		cols := []string{}
		for _, c := range r {
			switch v := c.(type) {
			case []byte:
				cols = append(cols, string(v))
			default:
				cols = append(cols, fmt.Sprintf("%v", v))
			}
		}
		ret = append(ret, strings.Join(cols, ","))
	}
	return ret
}
