package kvql

import (
	"bytes"
	"fmt"
	"reflect"
	"sort"
	"testing"
)

// Minimal in-memory sorted storage.
type violC10v3Store struct{ data []KVPair }

func (s *violC10v3Store) Get(key []byte) ([]byte, error) {
	for _, kv := range s.data {
		if bytes.Equal(kv.Key, key) {
			return kv.Value, nil
		}
	}
	return nil, nil
}
func (s *violC10v3Store) Put(k, v []byte) error        { return nil }
func (s *violC10v3Store) BatchPut(kvs []KVPair) error  { return nil }
func (s *violC10v3Store) Delete(k []byte) error        { return nil }
func (s *violC10v3Store) BatchDelete(k [][]byte) error { return nil }
func (s *violC10v3Store) Cursor() (Cursor, error)      { return &violC10v3Cursor{s: s}, nil }

type violC10v3Cursor struct {
	s   *violC10v3Store
	idx int
}

func (c *violC10v3Cursor) Seek(prefix []byte) error {
	c.idx = sort.Search(len(c.s.data), func(i int) bool {
		return bytes.Compare(c.s.data[i].Key, prefix) >= 0
	})
	return nil
}

func (c *violC10v3Cursor) Next() ([]byte, []byte, error) {
	if c.idx >= len(c.s.data) {
		return nil, nil, nil
	}
	kv := c.s.data[c.idx]
	c.idx++
	return kv.Key, kv.Value, nil
}

// violC10v3Render renders a scalar or a list value, whatever its representation
// (text as string or []byte, lists as any slice), for comparison.
func violC10v3Render(v any) string {
	switch val := v.(type) {
	case []byte:
		return fmt.Sprintf("%q", string(val))
	case string:
		return fmt.Sprintf("%q", val)
	}
	rv := reflect.ValueOf(v)
	if rv.IsValid() && rv.Kind() == reflect.Slice {
		ret := "["
		for i := 0; i < rv.Len(); i++ {
			if i > 0 {
				ret += " "
			}
			ret += violC10v3Render(rv.Index(i).Interface())
		}
		return ret + "]"
	}
	return fmt.Sprintf("%v", v)
}

// README: "list(elem1: any, elem2: any...): list - convert many elements into a
// list, list elements' type must be same, the list type support int, str, float
// types". A list of texts must hold its arguments in order; the library turns
// every text into the number 0.
func TestViolation_C10_v3(t *testing.T) {
	store := &violC10v3Store{data: []KVPair{
		NewKVPStr("k", "v"),
	}}
	query := "select list('a', 'b'), list('a', 'b')[1], list(key, value) where key >= 'k'"
	want := `["a" "b"] | "b" | ["k" "v"]`

	render := func(row []Column) string {
		return violC10v3Render(row[0]) + " | " + violC10v3Render(row[1]) + " | " + violC10v3Render(row[2])
	}

	// row mode
	plan, err := NewOptimizer(query).BuildPlan(store)
	if err != nil {
		t.Fatal(err)
	}
	row, err := plan.Next(NewExecuteCtx())
	if err != nil {
		t.Fatal(err)
	}
	if row == nil {
		t.Fatal("row mode: no row")
	}
	if got := render(row); got != want {
		t.Errorf("row mode:\n got  %s\n want %s", got, want)
	}

	// batch mode
	plan, err = NewOptimizer(query).BuildPlan(store)
	if err != nil {
		t.Fatal(err)
	}
	rows, err := plan.Batch(NewExecuteCtx())
	if err != nil {
		t.Fatal(err)
	}
	if len(rows) != 1 {
		t.Fatalf("batch mode: %d rows, want 1", len(rows))
	}
	if got := render(rows[0]); got != want {
		t.Errorf("batch mode:\n got  %s\n want %s", got, want)
	}
}
