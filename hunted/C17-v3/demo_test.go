package kvql

import (
	"strings"
	"testing"
)

func TestViolation_C17_v3(t *testing.T) {
	queries := []string{
		// a two-line statement (accepted by the lexer: the line break follows `*`)
		"select *\nwhere key = 'k' & valu = 'x'",
		// a line break inside a string literal
		"where value = 'a\nb' & valu = 'x'",
	}
	for _, query := range queries {
		_, err := NewParser(query).Parse()
		if err == nil {
			t.Fatalf("query %q: expected an error", query)
		}
		serr, ok := err.(*SyntaxError)
		if !ok {
			t.Fatalf("query %q: expected *SyntaxError, got %T", query, err)
		}
		if want := strings.Index(query, "valu "); serr.Pos != want {
			t.Fatalf("query %q: offset %d, want %d", query, serr.Pos, want)
		}
		serr.BindQuery(query)
		serr.SetPadding(0)
		msg := serr.Error()
		lines := strings.Split(msg, "\n")
		caret := -1
		for i, l := range lines {
			if strings.HasSuffix(l, "^--") && strings.Trim(l[:len(l)-3], " ") == "" {
				caret = i
			}
		}
		if caret < 1 {
			t.Fatalf("query %q: no caret line in %q", query, msg)
		}
		col := len(lines[caret]) - 3
		above := lines[caret-1]
		// the caret has to stand under the character at the reported offset (`v` of valu)
		if col >= len(above) || !strings.HasPrefix(above[col:], "valu ") {
			t.Errorf("query %q: the caret (column %d) is not under the character at offset %d; the line above it is %q (%d characters):\n%s",
				query, col, serr.Pos, above, len(above), msg)
		}
	}
}
