package kvql

import (
	"bytes"
	"sort"
	"testing"
)

// Minimal in-memory sorted storage for the demo.
type viol2C04v1Store struct {
	kvs []KVPair
}

type viol2C04v1Cursor struct {
	s   *viol2C04v1Store
	idx int
}

func newViol2C04v1Store(kvs ...KVPair) *viol2C04v1Store {
	s := &viol2C04v1Store{kvs: kvs}
	sort.Slice(s.kvs, func(i, j int) bool { return bytes.Compare(s.kvs[i].Key, s.kvs[j].Key) < 0 })
	return s
}

func (s *viol2C04v1Store) Get(key []byte) ([]byte, error) {
	for _, kv := range s.kvs {
		if bytes.Equal(kv.Key, key) {
			return kv.Value, nil
		}
	}
	return nil, nil
}
func (s *viol2C04v1Store) Put(key []byte, value []byte) error { return nil }
func (s *viol2C04v1Store) BatchPut(kvs []KVPair) error        { return nil }
func (s *viol2C04v1Store) Delete(key []byte) error            { return nil }
func (s *viol2C04v1Store) BatchDelete(keys [][]byte) error    { return nil }
func (s *viol2C04v1Store) Cursor() (Cursor, error)            { return &viol2C04v1Cursor{s: s}, nil }

func (c *viol2C04v1Cursor) Seek(prefix []byte) error {
	c.idx = len(c.s.kvs)
	for i, kv := range c.s.kvs {
		if bytes.Compare(kv.Key, prefix) >= 0 {
			c.idx = i
			break
		}
	}
	return nil
}

func (c *viol2C04v1Cursor) Next() ([]byte, []byte, error) {
	if c.idx >= len(c.s.kvs) {
		return nil, nil, nil
	}
	kv := c.s.kvs[c.idx]
	c.idx++
	return kv.Key, kv.Value, nil
}

// float(value) + 1 + 1 is ((float(value) + 1) + 1). The expression optimizer
// re-associates it into float(value) + (1 + 1) = float(value) + 2. Float
// addition is not associative: with value = 2^53 (exactly representable) the
// original is 2^53 (each +1 is rounded away), the rewritten one is 2^53 + 2.
func TestViolation2_C04_v1(t *testing.T) {
	store := newViol2C04v1Store(NewKVPStr("k", "9007199254740992"))

	// What the expression means, evaluated left to right in float64
	x := float64(9007199254740992)
	one := float64(1)
	want := (x + one) + one

	// 1. The un-rewritten expression, evaluated by the library itself
	query := "select float(value) + 1 + 1 as f where key = 'k'"
	stmt, err := NewParser(query).Parse()
	if err != nil {
		t.Fatal(err)
	}
	orig, err := stmt.(*SelectStmt).Fields[0].Execute(store.kvs[0], nil)
	if err != nil {
		t.Fatal(err)
	}
	if orig != any(want) {
		t.Fatalf("un-rewritten expression: got %v (%T), want %v", orig, orig, want)
	}

	// 2. The same query through the optimizer
	plan, err := NewOptimizer(query).BuildPlan(store)
	if err != nil {
		t.Fatal(err)
	}
	row, err := plan.Next(NewExecuteCtx())
	if err != nil {
		t.Fatal(err)
	}
	if row == nil {
		t.Fatal("no row")
	}
	got, ok := row[0].(float64)
	if !ok {
		t.Fatalf("field is %T, want float64", row[0])
	}
	if got != want {
		t.Errorf("select field: got %.1f, want %.1f (value of the un-rewritten expression); plan: %v", got, want, plan.Explain())
	}

	// 3. The same in a where clause: the row satisfies the original condition
	query = "select key where float(value) + 1 + 1 = float(value)"
	plan, err = NewOptimizer(query).BuildPlan(store)
	if err != nil {
		t.Fatal(err)
	}
	row, err = plan.Next(NewExecuteCtx())
	if err != nil {
		t.Fatal(err)
	}
	if row == nil {
		t.Errorf("where float(value) + 1 + 1 = float(value): row not selected, but (2^53 + 1) + 1 == 2^53 in float64; plan: %v", plan.Explain())
	}
}
