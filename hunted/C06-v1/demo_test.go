package kvql

import (
	"bytes"
	"fmt"
	"sort"
	"testing"
)

// Minimal in-memory sorted storage for the demo.
type violC06v1Storage struct {
	kvs []KVPair
}

func violC06v1NewStorage(kvs ...KVPair) *violC06v1Storage {
	s := &violC06v1Storage{kvs: append([]KVPair{}, kvs...)}
	sort.Slice(s.kvs, func(i, j int) bool { return bytes.Compare(s.kvs[i].Key, s.kvs[j].Key) < 0 })
	return s
}

func (s *violC06v1Storage) Get(key []byte) ([]byte, error) {
	for _, kv := range s.kvs {
		if bytes.Equal(kv.Key, key) {
			return kv.Value, nil
		}
	}
	return nil, nil
}
func (s *violC06v1Storage) Put(key []byte, value []byte) error { return nil }
func (s *violC06v1Storage) BatchPut(kvs []KVPair) error        { return nil }
func (s *violC06v1Storage) Delete(key []byte) error            { return nil }
func (s *violC06v1Storage) BatchDelete(keys [][]byte) error    { return nil }
func (s *violC06v1Storage) Cursor() (Cursor, error)            { return &violC06v1Cursor{s: s}, nil }

type violC06v1Cursor struct {
	s   *violC06v1Storage
	pos int
}

func (c *violC06v1Cursor) Seek(prefix []byte) error {
	c.pos = sort.Search(len(c.s.kvs), func(i int) bool { return bytes.Compare(c.s.kvs[i].Key, prefix) >= 0 })
	return nil
}

func (c *violC06v1Cursor) Next() ([]byte, []byte, error) {
	if c.pos >= len(c.s.kvs) {
		return nil, nil, nil
	}
	kv := c.s.kvs[c.pos]
	c.pos++
	return kv.Key, kv.Value, nil
}

// violC06v1Run plans the query and drains it; a panic is turned into a string.
func violC06v1Run(query string, batch bool) (rows [][]Column, err error, panicked string) {
	defer func() {
		if r := recover(); r != nil {
			panicked = fmt.Sprint(r)
		}
	}()
	store := violC06v1NewStorage(NewKVPStr("k1", "1"), NewKVPStr("k2", "2"), NewKVPStr("k3", "3"))
	plan, err := NewOptimizer(query).BuildPlan(store)
	if err != nil {
		return nil, err, ""
	}
	ctx := NewExecuteCtx()
	for {
		if batch {
			chunk, err := plan.Batch(ctx)
			if err != nil {
				return rows, err, ""
			}
			if len(chunk) == 0 {
				return rows, nil, ""
			}
			rows = append(rows, chunk...)
		} else {
			row, err := plan.Next(ctx)
			if err != nil {
				return rows, err, ""
			}
			if row == nil {
				return rows, nil, ""
			}
			rows = append(rows, row)
		}
	}
}

// quantile() only rejects a second argument above 1. A negative one (or NaN,
// `nan` is lexed as a float literal) is handed to the quantile stream, whose
// Query computes the index ceil(n*q) < 0 into its sample buffer.
func TestViolation_C06_v1(t *testing.T) {
	for _, query := range []string{
		"select quantile(int(value), 0.0 - 0.5) where key ^= 'k'",
	} {
		for _, batch := range []bool{false, true} {
			rows, err, panicked := violC06v1Run(query, batch)
			if panicked != "" {
				t.Errorf("query %q (batch=%v): expected rows or an error value, got panic: %s", query, batch, panicked)
				continue
			}
			t.Logf("query %q (batch=%v): rows=%v err=%v", query, batch, rows, err)
		}
	}
}
