package kvql

import (
	"bytes"
	"fmt"
	"sort"
	"testing"
)

type viol2C09v3Store struct{ kvs []KVPair }

func (s *viol2C09v3Store) Get(key []byte) ([]byte, error) {
	for _, kv := range s.kvs {
		if bytes.Equal(kv.Key, key) {
			return kv.Value, nil
		}
	}
	return nil, nil
}
func (s *viol2C09v3Store) Put(key []byte, value []byte) error { return nil }
func (s *viol2C09v3Store) BatchPut(kvs []KVPair) error        { return nil }
func (s *viol2C09v3Store) Delete(key []byte) error            { return nil }
func (s *viol2C09v3Store) BatchDelete(keys [][]byte) error    { return nil }
func (s *viol2C09v3Store) Cursor() (Cursor, error)            { return &viol2C09v3Cursor{s: s}, nil }

type viol2C09v3Cursor struct {
	s   *viol2C09v3Store
	idx int
}

func (c *viol2C09v3Cursor) Seek(prefix []byte) error {
	c.idx = sort.Search(len(c.s.kvs), func(i int) bool { return bytes.Compare(c.s.kvs[i].Key, prefix) >= 0 })
	return nil
}

func (c *viol2C09v3Cursor) Next() ([]byte, []byte, error) {
	if c.idx >= len(c.s.kvs) {
		return nil, nil, nil
	}
	kv := c.s.kvs[c.idx]
	c.idx++
	return kv.Key, kv.Value, nil
}

// Two pairs whose float values are 0.0 and -0.0. These are equal numbers: the
// library's own `=` says so (both pairs pass `f = 0`), so there is one distinct
// GROUP BY value and one group of two pairs is expected. The library emits two
// groups, "0" and "-0", of one pair each.
func TestViolation2_C09_v3(t *testing.T) {
	store := &viol2C09v3Store{kvs: []KVPair{
		NewKVPStr("a", "0.0"),
		NewKVPStr("b", "-0.0"),
	}}
	query := "select float(value) as f, count(1) where f = 0 group by f"
	for _, mode := range []string{"row", "batch"} {
		plan, err := NewOptimizer(query).BuildPlan(store)
		if err != nil {
			t.Fatal(err)
		}
		ctx := NewExecuteCtx()
		var rows [][]Column
		if mode == "row" {
			for {
				row, err := plan.Next(ctx)
				if err != nil {
					t.Fatal(err)
				}
				if row == nil {
					break
				}
				rows = append(rows, row)
			}
		} else {
			for {
				rs, err := plan.Batch(ctx)
				if err != nil {
					t.Fatal(err)
				}
				if len(rs) == 0 {
					break
				}
				rows = append(rows, rs...)
			}
		}
		// both pairs pass the filter: the counts add up to 2 in any case
		total := int64(0)
		for _, row := range rows {
			if len(row) != 2 {
				t.Fatalf("%s: row %v", mode, row)
			}
			total += row[1].(int64)
		}
		if total != 2 {
			t.Fatalf("%s: %d pairs counted, want 2: %v", mode, total, rows)
		}
		if len(rows) != 1 {
			shown := ""
			for _, row := range rows {
				shown += fmt.Sprintf(" (f = %s, count = %v)", row[0], row[1])
			}
			t.Errorf("%s: %d groups for the equal values 0.0 and -0.0, want 1 group of 2 pairs; got%s", mode, len(rows), shown)
		}
	}
}
