package kvql

import (
	"strings"
	"testing"
	"unicode/utf8"
)

// violC17v1Caret renders the error of query (padding pad) and returns the
// query line, and the column (counted in characters) at which the caret is
// printed relative to the start of the query line.
func violC17v1Render(t *testing.T, query string, pad int) (qline string, caretCol int, msg string, pos int) {
	_, err := NewParser(query).Parse()
	if err == nil {
		t.Fatalf("query %q: expected an error", query)
	}
	serr, ok := err.(*SyntaxError)
	if !ok {
		t.Fatalf("query %q: expected *SyntaxError, got %T", query, err)
	}
	serr.BindQuery(query)
	serr.SetPadding(pad)
	msg = serr.Error()
	lines := strings.Split(msg, "\n")
	if len(lines) != 3 {
		t.Fatalf("query %q: expected 3 lines, got %q", query, msg)
	}
	idx := strings.Index(lines[1], "^--")
	if idx < 0 || strings.Trim(lines[1][:idx], " ") != "" {
		t.Fatalf("query %q: bad caret line %q", query, lines[1])
	}
	// the query line is meant to be printed after a prompt of pad characters
	return lines[0], utf8.RuneCountInString(lines[1][:idx]) - pad, msg, serr.Pos
}

func TestViolation_C17_v1(t *testing.T) {
	// short query, one two-byte character in a literal in front of the fault
	query := "where key = 'é' & valu = 'x'"
	qline, caretCol, msg, pos := violC17v1Render(t, query, 0)
	if want := strings.Index(query, "valu"); pos != want {
		t.Fatalf("offset: got %d, want %d", pos, want)
	}
	// column (in characters) of the character at the reported offset
	wantCol := utf8.RuneCountInString(qline[:strings.Index(qline, "valu")])
	if caretCol != wantCol {
		t.Errorf("caret is printed in column %d, the character at offset %d (`v` of valu) is in column %d:\n%s", caretCol, pos, wantCol, msg)
	}

	// long query: the shown stretch is cut by byte count, in the middle of a character
	query = "where key = '" + strings.Repeat("é", 40) + "' & valu = 'x'"
	qline, caretCol, msg, pos = violC17v1Render(t, query, 7)
	if !utf8.ValidString(msg) {
		t.Errorf("rendered message is not valid UTF-8 (a character of the query was cut in two): %q", msg)
	}
	i := strings.Index(qline, "valu")
	if i < 0 {
		t.Fatalf("query line %q does not show the fault", qline)
	}
	wantCol = utf8.RuneCountInString(qline[:i])
	if caretCol != wantCol {
		t.Errorf("long query: caret is printed in column %d, the character at offset %d is in column %d:\n%s", caretCol, pos, wantCol, msg)
	}
}
