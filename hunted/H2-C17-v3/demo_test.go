package kvql

import (
	"strings"
	"testing"
)

// A no-break space (U+00A0, what a query copied from a web page or a chat
// typically contains) directly in front of a word. The lexer strips it off the
// word (buildToken trims with strings.TrimSpace) and the statement is read as
// `where key = 'a' & foo`; the error about `foo` has to be reported at the
// offset where `foo` starts.
func TestViolation2_C17_v3(t *testing.T) {
	query := "where key = 'a' & \u00a0foo"

	// the token itself
	toks := NewLexer(query).Split()
	last := toks[len(toks)-1]
	if last.Tp != NAME || last.Data != "foo" {
		t.Fatalf("last token is %s, want the name foo", last)
	}
	wantPos := strings.Index(query, "foo")
	if got := query[last.Pos : last.Pos+len(last.Data)]; got != last.Data {
		t.Errorf("token %q has Pos %d, but the query has %q there (the token starts at %d)", last.Data, last.Pos, got, wantPos)
	}

	// the error raised for it
	_, err := NewParser(query).Parse()
	if err == nil {
		t.Fatalf("query %q: expected an error about foo", query)
	}
	serr, ok := err.(*SyntaxError)
	if !ok {
		t.Fatalf("query %q: expected *SyntaxError, got %T", query, err)
	}
	if !strings.Contains(serr.Message, "foo") {
		t.Fatalf("unexpected error %q", serr.Message)
	}
	if serr.Pos != wantPos {
		t.Fatalf("error %q reported at offset %d (the no-break space in front of the word), want %d (start of the token foo)",
			serr.Message, serr.Pos, wantPos)
	}
}
