package kvql

import (
	"fmt"
	"sort"
	"testing"
)

// In-memory sorted store with snapshot cursors.
type viol2C11v1Store struct {
	m      map[string]string
	writes int
}

func (s *viol2C11v1Store) Get(key []byte) ([]byte, error) {
	v, ok := s.m[string(key)]
	if !ok {
		return nil, nil
	}
	return append([]byte{}, v...), nil
}
func (s *viol2C11v1Store) Put(key []byte, value []byte) error {
	s.writes++
	s.m[string(key)] = string(value)
	return nil
}
func (s *viol2C11v1Store) BatchPut(kvs []KVPair) error {
	for _, kv := range kvs {
		s.Put(kv.Key, kv.Value)
	}
	return nil
}
func (s *viol2C11v1Store) Delete(key []byte) error {
	delete(s.m, string(key))
	return nil
}
func (s *viol2C11v1Store) BatchDelete(keys [][]byte) error {
	for _, k := range keys {
		delete(s.m, string(k))
	}
	return nil
}

type viol2C11v1Cursor struct {
	keys []string
	vals []string
	idx  int
}

// Cursor copies the content: a snapshot of the store at this moment
func (s *viol2C11v1Store) Cursor() (Cursor, error) {
	c := &viol2C11v1Cursor{}
	for k := range s.m {
		c.keys = append(c.keys, k)
	}
	sort.Strings(c.keys)
	for _, k := range c.keys {
		c.vals = append(c.vals, s.m[k])
	}
	return c, nil
}
func (c *viol2C11v1Cursor) Seek(prefix []byte) error {
	c.idx = sort.SearchStrings(c.keys, string(prefix))
	return nil
}
func (c *viol2C11v1Cursor) Next() ([]byte, []byte, error) {
	if c.idx >= len(c.keys) {
		return nil, nil, nil
	}
	k, v := append([]byte{}, c.keys[c.idx]...), append([]byte{}, c.vals[c.idx]...)
	c.idx++
	return k, v, nil
}

func TestViolation3_C11_v1(t *testing.T) {
	// The left operand guards the division: the pair with value 0 never
	// reaches it when the predicate is evaluated pair by pair
	pred := "int(value) != 0 & 10 / int(value) = 2"
	prior := map[string]string{"a": "0", "b": "5", "c": "7"}
	newStore := func() *viol2C11v1Store {
		s := &viol2C11v1Store{m: map[string]string{}}
		for k, v := range prior {
			s.m[k] = v
		}
		return s
	}

	// What select * where P returns on the prior state
	sel, err := NewOptimizer("select * where " + pred).BuildPlan(newStore())
	if err != nil {
		t.Fatal(err)
	}
	selected := []string{}
	ctx := NewExecuteCtx()
	for {
		row, err := sel.Next(ctx)
		if err != nil {
			t.Fatalf("select: %v", err)
		}
		if row == nil {
			break
		}
		selected = append(selected, string(row[0].([]byte)))
	}
	if fmt.Sprint(selected) != "[b]" {
		t.Fatalf("select * where %s returned %v, expected [b]", pred, selected)
	}

	// delete where P must remove exactly these keys
	store := newStore()
	del, err := NewOptimizer("delete where " + pred).BuildPlan(store)
	if err != nil {
		t.Fatal(err)
	}
	_, err = del.Next(NewExecuteCtx())
	if err != nil {
		t.Errorf("delete where %s failed: %v (select on the same state returned %v)", pred, err, selected)
	}
	want := map[string]string{"a": "0", "c": "7"}
	if fmt.Sprint(store.m) != fmt.Sprint(want) {
		t.Errorf("store after delete where %s:\n got  %v\n want %v (prior state minus %v)", pred, store.m, want, selected)
	}
	if store.writes != 0 {
		t.Errorf("delete wrote %d pairs", store.writes)
	}
}
