package kvql

import (
	"fmt"
	"testing"
)

func violC16v1Render(q string) string {
	s := ""
	for _, tk := range NewLexer(q).Split() {
		s += fmt.Sprintf("[%s %q]", TokenTypeToString[tk.Tp], tk.Data)
	}
	return s
}

// The tokens `*` and `=` (likewise `-`,`+`,`/` followed by `=`) must lex the
// same whether or not a space separates them: none of them forms a
// two-character operator with `=`.
func TestViolation_C16_v1(t *testing.T) {
	for _, op := range []string{"*", "-", "+", "/"} {
		spaced := "where key " + op + " = 'k1'"
		tight := "where key " + op + "= 'k1'"
		want := violC16v1Render(spaced)
		got := violC16v1Render(tight)
		if got != want {
			t.Errorf("removing the optional space between %q and \"=\" changed the tokens:\n  %q -> %s\n  %q -> %s", op, spaced, want, tight, got)
		}
		// every non-space byte outside of tokens is lost text: the operator vanished
		found := false
		for _, tk := range NewLexer(tight).Split() {
			if tk.Tp == OPERATOR && tk.Data == op && tk.Pos == 10 {
				found = true
			}
		}
		if !found {
			t.Errorf("%q: no OPERATOR token %q at offset 10", tight, op)
		}
	}
	// consequence: the spaced query is a syntax error, the tight one is silently read as key = 'k1'
	_, errSpaced := NewParser("where key * = 'k1'").Parse()
	_, errTight := NewParser("where key *= 'k1'").Parse()
	if (errSpaced == nil) != (errTight == nil) {
		t.Errorf("parse differs with spacing only: `where key * = 'k1'` -> %v ; `where key *= 'k1'` -> %v", errSpaced, errTight)
	}
}
