package kvql

import (
	"bytes"
	"fmt"
	"sort"
	"testing"
)

// A plain in-memory Storage: the pairs are kept sorted by key (byte-wise),
// a new cursor stands on the first pair, Seek moves to the first key >= the
// given one.
type viol2C01v3Storage struct{ data []KVPair }

func viol2C01v3NewStorage(pairs ...[2]string) *viol2C01v3Storage {
	s := &viol2C01v3Storage{}
	for _, p := range pairs {
		s.data = append(s.data, KVPair{Key: []byte(p[0]), Value: []byte(p[1])})
	}
	sort.Slice(s.data, func(i, j int) bool { return bytes.Compare(s.data[i].Key, s.data[j].Key) < 0 })
	return s
}

func (s *viol2C01v3Storage) Get(key []byte) ([]byte, error) {
	for _, kv := range s.data {
		if bytes.Equal(kv.Key, key) {
			return append([]byte{}, kv.Value...), nil
		}
	}
	return nil, nil
}
func (s *viol2C01v3Storage) Put(key []byte, value []byte) error { return nil }
func (s *viol2C01v3Storage) BatchPut(kvs []KVPair) error        { return nil }
func (s *viol2C01v3Storage) Delete(key []byte) error            { return nil }
func (s *viol2C01v3Storage) BatchDelete(keys [][]byte) error    { return nil }
func (s *viol2C01v3Storage) Cursor() (Cursor, error)            { return &viol2C01v3Cursor{s: s}, nil }

type viol2C01v3Cursor struct {
	s   *viol2C01v3Storage
	idx int
}

func (c *viol2C01v3Cursor) Seek(key []byte) error {
	c.idx = sort.Search(len(c.s.data), func(i int) bool { return bytes.Compare(c.s.data[i].Key, key) >= 0 })
	return nil
}

func (c *viol2C01v3Cursor) Next() ([]byte, []byte, error) {
	if c.idx >= len(c.s.data) {
		return nil, nil, nil
	}
	kv := c.s.data[c.idx]
	c.idx++
	return append([]byte{}, kv.Key...), append([]byte{}, kv.Value...), nil
}

// viol2C01v3Run runs the query to the end, with Next (batch == false) or with Batch
func viol2C01v3Run(s Storage, query string, batch bool) ([]string, error) {
	plan, err := NewOptimizer(query).BuildPlan(s)
	if err != nil {
		return nil, fmt.Errorf("build: %v", err)
	}
	ctx := NewExecuteCtx()
	rows := []string{}
	for {
		if batch {
			chunk, err := plan.Batch(ctx)
			if err != nil {
				return rows, err
			}
			if len(chunk) == 0 {
				return rows, nil
			}
			for _, r := range chunk {
				rows = append(rows, fmt.Sprintf("%q=%q", r[0], r[1]))
			}
		} else {
			r, err := plan.Next(ctx)
			if err != nil {
				return rows, err
			}
			if r == nil {
				return rows, nil
			}
			rows = append(rows, fmt.Sprintf("%q=%q", r[0], r[1]))
		}
	}
}

// The value "ABC\xff" has no lower-case letter: its upper case is itself (the
// byte 0xff is not a letter, it is not even text). upper() hands back
// "ABC\xef\xbf\xbd" instead, so the pair does not satisfy upper(value) = value.
func TestViolation2_C01_v3(t *testing.T) {
	s := viol2C01v3NewStorage([2]string{"k1", "ABC\xff"}, [2]string{"k2", "abc"})
	query := "select * where upper(value) = value"
	want := fmt.Sprint([]string{`"k1"="ABC\xff"`})
	for _, batch := range []bool{false, true} {
		got, err := viol2C01v3Run(s, query, batch)
		if err != nil {
			t.Errorf("batch=%v: %s: expected rows %s, got error: %v", batch, query, want, err)
			continue
		}
		if fmt.Sprint(got) != want {
			t.Errorf("batch=%v: %s: expected rows %s, got %v", batch, query, want, got)
		}
	}
}
