package kvql

import (
	"bytes"
	"math"
	"sort"
	"testing"
)

// Minimal in-memory sorted storage for the demo.
type viol2C09v1Store struct {
	kvs []KVPair
}

func viol2C09v1NewStore(pairs ...string) *viol2C09v1Store {
	s := &viol2C09v1Store{}
	for i := 0; i+1 < len(pairs); i += 2 {
		s.kvs = append(s.kvs, NewKVPStr(pairs[i], pairs[i+1]))
	}
	sort.SliceStable(s.kvs, func(i, j int) bool { return bytes.Compare(s.kvs[i].Key, s.kvs[j].Key) < 0 })
	return s
}

func (s *viol2C09v1Store) Get(key []byte) ([]byte, error) {
	for _, kv := range s.kvs {
		if bytes.Equal(kv.Key, key) {
			return kv.Value, nil
		}
	}
	return nil, nil
}
func (s *viol2C09v1Store) Put(key []byte, value []byte) error { return nil }
func (s *viol2C09v1Store) BatchPut(kvs []KVPair) error        { return nil }
func (s *viol2C09v1Store) Delete(key []byte) error            { return nil }
func (s *viol2C09v1Store) BatchDelete(keys [][]byte) error    { return nil }
func (s *viol2C09v1Store) Cursor() (Cursor, error)            { return &viol2C09v1Cursor{s: s}, nil }

type viol2C09v1Cursor struct {
	s   *viol2C09v1Store
	idx int
}

func (c *viol2C09v1Cursor) Seek(prefix []byte) error {
	c.idx = sort.Search(len(c.s.kvs), func(i int) bool { return bytes.Compare(c.s.kvs[i].Key, prefix) >= 0 })
	return nil
}

func (c *viol2C09v1Cursor) Next() ([]byte, []byte, error) {
	if c.idx >= len(c.s.kvs) {
		return nil, nil, nil
	}
	kv := c.s.kvs[c.idx]
	c.idx++
	return kv.Key, kv.Value, nil
}

func viol2C09v1Run(t *testing.T, s Storage, query string, batch bool) [][]Column {
	t.Helper()
	plan, err := NewOptimizer(query).BuildPlan(s)
	if err != nil {
		t.Fatalf("build plan: %v", err)
	}
	ctx := NewExecuteCtx()
	var rows [][]Column
	for {
		if batch {
			rs, err := plan.Batch(ctx)
			if err != nil {
				t.Fatalf("batch: %v", err)
			}
			if len(rs) == 0 {
				return rows
			}
			rows = append(rows, rs...)
		} else {
			r, err := plan.Next(ctx)
			if err != nil {
				t.Fatalf("next: %v", err)
			}
			if r == nil {
				return rows
			}
			rows = append(rows, r)
		}
	}
}

// avg() over two integer values whose sum does not fit an int64: the average
// of 9223372036854775807 and 9223372036854775807 is 9223372036854775807
// (about 9.22e18, a float avg() can return); the library answers -1.
func TestViolation3_C09_v1(t *testing.T) {
	s := viol2C09v1NewStore(
		"a", "9223372036854775807",
		"b", "9223372036854775807",
	)
	query := "select avg(int(value)) where true"
	want := float64(math.MaxInt64) // 9.223372036854775807e18
	for _, batch := range []bool{false, true} {
		rows := viol2C09v1Run(t, s, query, batch)
		if len(rows) != 1 || len(rows[0]) != 1 {
			t.Fatalf("batch=%v: expect one row with one column, got %v", batch, rows)
		}
		got, ok := rows[0][0].(float64)
		if !ok {
			t.Fatalf("batch=%v: avg is %T(%v), expect a float64", batch, rows[0][0], rows[0][0])
		}
		if math.Abs(got-want) > want*1e-12 {
			t.Errorf("batch=%v: %s over {9223372036854775807, 9223372036854775807}: got %v, want %v", batch, query, got, want)
		}
	}
}
