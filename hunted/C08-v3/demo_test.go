package kvql

import (
	"fmt"
	"reflect"
	"sort"
	"testing"
)

// violC08v3Store is a minimal in-memory sorted key-value store. Its cursor is
// positioned by key, so it stays valid whatever is written in between.
type violC08v3Store struct {
	keys []string
	data map[string][]byte
}

func violC08v3NewStore(kvs ...string) *violC08v3Store {
	s := &violC08v3Store{data: map[string][]byte{}}
	for i := 0; i+1 < len(kvs); i += 2 {
		s.Put([]byte(kvs[i]), []byte(kvs[i+1]))
	}
	return s
}

func (s *violC08v3Store) Get(key []byte) ([]byte, error) {
	if v, ok := s.data[string(key)]; ok {
		return v, nil
	}
	return nil, nil
}

func (s *violC08v3Store) Put(key []byte, value []byte) error {
	k := string(key)
	if _, ok := s.data[k]; !ok {
		s.keys = append(s.keys, k)
		sort.Strings(s.keys)
	}
	s.data[k] = value
	return nil
}

func (s *violC08v3Store) BatchPut(kvs []KVPair) error {
	for _, kv := range kvs {
		s.Put(kv.Key, kv.Value)
	}
	return nil
}

func (s *violC08v3Store) Delete(key []byte) error {
	k := string(key)
	if _, ok := s.data[k]; ok {
		delete(s.data, k)
		i := sort.SearchStrings(s.keys, k)
		s.keys = append(s.keys[:i:i], s.keys[i+1:]...)
	}
	return nil
}

func (s *violC08v3Store) BatchDelete(keys [][]byte) error {
	for _, k := range keys {
		s.Delete(k)
	}
	return nil
}

func (s *violC08v3Store) Cursor() (Cursor, error) { return &violC08v3Cursor{s: s}, nil }

type violC08v3Cursor struct {
	s       *violC08v3Store
	from    string
	started bool
	last    string
}

func (c *violC08v3Cursor) Seek(prefix []byte) error {
	c.from, c.started = string(prefix), false
	return nil
}

func (c *violC08v3Cursor) Next() ([]byte, []byte, error) {
	var i int
	if !c.started {
		i = sort.SearchStrings(c.s.keys, c.from)
	} else {
		i = sort.Search(len(c.s.keys), func(j int) bool { return c.s.keys[j] > c.last })
	}
	if i >= len(c.s.keys) {
		return nil, nil, nil
	}
	c.started, c.last = true, c.s.keys[i]
	return []byte(c.last), c.s.data[c.last], nil
}

// violC08v3Render renders rows as "col|col|" strings.
func violC08v3Render(rows [][]Column) []string {
	out := []string{}
	for _, r := range rows {
		s := ""
		for _, c := range r {
			if b, ok := c.([]byte); ok {
				s += string(b) + "|"
			} else {
				s += fmt.Sprintf("%v|", c)
			}
		}
		out = append(out, s)
	}
	return out
}

// violC08v3DrainRows reads the plan row by row until it reports the end.
func violC08v3DrainRows(t *testing.T, plan FinalPlan) []string {
	ctx := NewExecuteCtx()
	var rows [][]Column
	for {
		row, err := plan.Next(ctx)
		if err != nil {
			t.Fatalf("unexpected error: %v", err)
		}
		if row == nil {
			return violC08v3Render(rows)
		}
		rows = append(rows, row)
	}
}

// An aggregated statement with `limit 1, 2`, executed, re-initialised with
// Init() and executed again must again yield rows 1..2 of the unlimited result
// (three groups). It yields no row at all.
func TestViolation_C08_v3(t *testing.T) {
	store := violC08v3NewStore("k0", "x", "k1", "y", "k2", "z", "k3", "x", "k4", "y")
	plan, err := NewOptimizer("select value, count(1) where key ^= 'k' group by value limit 1, 2").BuildPlan(store)
	if err != nil {
		t.Fatal(err)
	}
	want := []string{"y|2|", "z|1|"} // rows 1..2 of x|2|, y|2|, z|1|
	first := violC08v3DrainRows(t, plan)
	if !reflect.DeepEqual(first, want) {
		t.Fatalf("first execution: got %v, want %v", first, want)
	}
	if err := plan.Init(); err != nil {
		t.Fatal(err)
	}
	second := violC08v3DrainRows(t, plan)
	if !reflect.DeepEqual(second, want) {
		t.Fatalf("after Init(): `limit 1, 2` yields %v, want rows 1..2 = %v", second, want)
	}
}
