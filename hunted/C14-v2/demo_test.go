package kvql

import (
	"bytes"
	"fmt"
	"sort"
	"testing"
)

// Minimal in-memory sorted storage that counts every storage call.
type violC14v2Store struct {
	kvs   []KVPair
	calls int
}

func (s *violC14v2Store) find(key []byte) int {
	return sort.Search(len(s.kvs), func(i int) bool { return bytes.Compare(s.kvs[i].Key, key) >= 0 })
}

func (s *violC14v2Store) Get(key []byte) ([]byte, error) {
	s.calls++
	if i := s.find(key); i < len(s.kvs) && bytes.Equal(s.kvs[i].Key, key) {
		return s.kvs[i].Value, nil
	}
	return nil, nil
}

func (s *violC14v2Store) Put(key []byte, value []byte) error {
	s.calls++
	i := s.find(key)
	if i < len(s.kvs) && bytes.Equal(s.kvs[i].Key, key) {
		s.kvs[i].Value = value
		return nil
	}
	s.kvs = append(s.kvs, KVPair{})
	copy(s.kvs[i+1:], s.kvs[i:])
	s.kvs[i] = KVPair{Key: key, Value: value}
	return nil
}

func (s *violC14v2Store) BatchPut(kvs []KVPair) error {
	for _, kv := range kvs {
		s.Put(kv.Key, kv.Value)
	}
	return nil
}

func (s *violC14v2Store) Delete(key []byte) error {
	s.calls++
	if i := s.find(key); i < len(s.kvs) && bytes.Equal(s.kvs[i].Key, key) {
		s.kvs = append(s.kvs[:i], s.kvs[i+1:]...)
	}
	return nil
}

func (s *violC14v2Store) BatchDelete(keys [][]byte) error {
	for _, k := range keys {
		s.Delete(k)
	}
	return nil
}

func (s *violC14v2Store) Cursor() (Cursor, error) {
	s.calls++
	return &violC14v2Cursor{s: s}, nil
}

type violC14v2Cursor struct {
	s   *violC14v2Store
	pos int
}

func (c *violC14v2Cursor) Seek(prefix []byte) error {
	c.s.calls++
	c.pos = c.s.find(prefix)
	return nil
}

func (c *violC14v2Cursor) Next() ([]byte, []byte, error) {
	c.s.calls++
	if c.pos >= len(c.s.kvs) {
		return nil, nil, nil
	}
	kv := c.s.kvs[c.pos]
	c.pos++
	return kv.Key, kv.Value, nil
}

func violC14v2Str(v any) string {
	if b, ok := v.([]byte); ok {
		return string(b)
	}
	return fmt.Sprintf("%v", v)
}

// The select field b is a string (a + 'x' with a = key), but it is defined in
// terms of another field name. The where clause is typed while that inner name
// is still unresolved, and `+` on an unresolved name is taken for a number.
func TestViolation_C14_v2(t *testing.T) {
	// 1. Ill-typed: string field compared with a number. Must be rejected when
	//    the plan is built, with no storage access.
	store := &violC14v2Store{kvs: []KVPair{NewKVPStr("k1", "v1")}}
	bad := "select key as a, a + 'x' as b where b = 1"
	plan, err := NewOptimizer(bad).BuildPlan(store)
	if err == nil {
		buildCalls := store.calls
		_, runErr := plan.Next(NewExecuteCtx())
		t.Errorf("%q: expected a type error from BuildPlan and zero storage calls; got a plan (%d storage calls), and execution fails with: %v",
			bad, buildCalls, runErr)
	} else if store.calls != 0 {
		t.Errorf("%q: rejected (%v) but after %d storage calls", bad, err, store.calls)
	}

	// 2. Well-typed twin: string field compared with a string. Must be accepted
	//    and return the row (k1, k1x).
	store = &violC14v2Store{kvs: []KVPair{NewKVPStr("k1", "v1")}}
	good := "select key as a, a + 'x' as b where b = 'k1x'"
	plan, err = NewOptimizer(good).BuildPlan(store)
	if err != nil {
		t.Fatalf("%q: well-typed statement rejected: %v", good, err)
	}
	row, err := plan.Next(NewExecuteCtx())
	if err != nil {
		t.Fatalf("%q: execution failed: %v", good, err)
	}
	if len(row) != 2 || violC14v2Str(row[0]) != "k1" || violC14v2Str(row[1]) != "k1x" {
		t.Fatalf("%q: expected row [k1 k1x], got %v", good, row)
	}
}
