package kvql

import (
	"fmt"
	"sort"
	"testing"
)

// In-memory sorted store with snapshot cursors.
type viol2C11v2Store struct {
	m      map[string]string
	writes int
}

func (s *viol2C11v2Store) Get(key []byte) ([]byte, error) {
	v, ok := s.m[string(key)]
	if !ok {
		return nil, nil
	}
	return append([]byte{}, v...), nil
}
func (s *viol2C11v2Store) Put(key []byte, value []byte) error {
	s.writes++
	s.m[string(key)] = string(value)
	return nil
}
func (s *viol2C11v2Store) BatchPut(kvs []KVPair) error {
	for _, kv := range kvs {
		s.Put(kv.Key, kv.Value)
	}
	return nil
}
func (s *viol2C11v2Store) Delete(key []byte) error {
	delete(s.m, string(key))
	return nil
}
func (s *viol2C11v2Store) BatchDelete(keys [][]byte) error {
	for _, k := range keys {
		delete(s.m, string(k))
	}
	return nil
}

type viol2C11v2Cursor struct {
	keys []string
	vals []string
	idx  int
}

// Cursor copies the content: a snapshot of the store at this moment
func (s *viol2C11v2Store) Cursor() (Cursor, error) {
	c := &viol2C11v2Cursor{}
	for k := range s.m {
		c.keys = append(c.keys, k)
	}
	sort.Strings(c.keys)
	for _, k := range c.keys {
		c.vals = append(c.vals, s.m[k])
	}
	return c, nil
}
func (c *viol2C11v2Cursor) Seek(prefix []byte) error {
	c.idx = sort.SearchStrings(c.keys, string(prefix))
	return nil
}
func (c *viol2C11v2Cursor) Next() ([]byte, []byte, error) {
	if c.idx >= len(c.keys) {
		return nil, nil, nil
	}
	k, v := append([]byte{}, c.keys[c.idx]...), append([]byte{}, c.vals[c.idx]...)
	c.idx++
	return k, v, nil
}

// viol2C11v2Run builds the plan of every statement first, then executes the
// plans one after the other, and returns the store
func viol2C11v2Run(t *testing.T, prior map[string]string, stmts ...string) map[string]string {
	store := &viol2C11v2Store{m: map[string]string{}}
	for k, v := range prior {
		store.m[k] = v
	}
	plans := []FinalPlan{}
	for _, q := range stmts {
		plan, err := NewOptimizer(q).BuildPlan(store)
		if err != nil {
			t.Fatalf("%s: %v", q, err)
		}
		plans = append(plans, plan)
	}
	for i, plan := range plans {
		ctx := NewExecuteCtx()
		for {
			rows, err := plan.Batch(ctx)
			if err != nil {
				t.Fatalf("%s: %v", stmts[i], err)
			}
			if len(rows) == 0 {
				break
			}
		}
	}
	return store.m
}

func TestViolation3_C11_v2(t *testing.T) {
	prior := map[string]string{"k1": "x", "k2": "x", "k3": "x"}

	// Two plans on one storage, the second is executed after the first. When
	// the second delete is executed the store is {k2, k3}: select * where P
	// limit 1 returns k2 there, so {k3} must be left.
	want := map[string]string{"k3": "x"}

	// P as a literal key set (point reads): holds
	q := "delete where key in ('k1', 'k2', 'k3') limit 1"
	got := viol2C11v2Run(t, prior, q, q)
	if fmt.Sprint(got) != fmt.Sprint(want) {
		t.Errorf("twice %s:\n got  %v\n want %v", q, got, want)
	}

	// The same P as a prefix (scan and delete): the second delete removes
	// k1 again, which is not in the store it is executed on
	q = "delete where key ^= 'k' limit 1"
	got = viol2C11v2Run(t, prior, q, q)
	if fmt.Sprint(got) != fmt.Sprint(want) {
		t.Errorf("twice %s:\n got  %v\n want %v", q, got, want)
	}

	// A pair that stopped matching before the delete is executed is removed
	// all the same: put ('k2', 'y') is executed first, k2 -> y is not selected
	// by value = 'x' on the state the delete is executed on
	got = viol2C11v2Run(t, prior, "put ('k2', 'y')", "delete where value = 'x'")
	want = map[string]string{"k2": "y"}
	if fmt.Sprint(got) != fmt.Sprint(want) {
		t.Errorf("put ('k2', 'y') then delete where value = 'x':\n got  %v\n want %v", got, want)
	}
}
