package kvql

import (
	"bytes"
	"fmt"
	"sort"
	"testing"
)

// Minimal in-memory sorted storage for the demo.
type viol2C06v1Storage struct {
	kvs []KVPair
}

func viol2C06v1NewStorage(kvs []KVPair) *viol2C06v1Storage {
	cp := make([]KVPair, len(kvs))
	copy(cp, kvs)
	sort.Slice(cp, func(i, j int) bool { return bytes.Compare(cp[i].Key, cp[j].Key) < 0 })
	return &viol2C06v1Storage{kvs: cp}
}

func (s *viol2C06v1Storage) Get(key []byte) ([]byte, error) {
	for _, kv := range s.kvs {
		if bytes.Equal(kv.Key, key) {
			return kv.Value, nil
		}
	}
	return nil, nil
}
func (s *viol2C06v1Storage) Put(key []byte, value []byte) error { return nil }
func (s *viol2C06v1Storage) BatchPut(kvs []KVPair) error         { return nil }
func (s *viol2C06v1Storage) Delete(key []byte) error             { return nil }
func (s *viol2C06v1Storage) BatchDelete(keys [][]byte) error     { return nil }
func (s *viol2C06v1Storage) Cursor() (Cursor, error) {
	return &viol2C06v1Cursor{s: s}, nil
}

type viol2C06v1Cursor struct {
	s   *viol2C06v1Storage
	idx int
}

func (c *viol2C06v1Cursor) Seek(prefix []byte) error {
	c.idx = len(c.s.kvs)
	for i, kv := range c.s.kvs {
		if bytes.Compare(kv.Key, prefix) >= 0 {
			c.idx = i
			break
		}
	}
	return nil
}

func (c *viol2C06v1Cursor) Next() ([]byte, []byte, error) {
	if c.idx >= len(c.s.kvs) {
		return nil, nil, nil
	}
	kv := c.s.kvs[c.idx]
	c.idx++
	return kv.Key, kv.Value, nil
}

// An aggregate query fails in the middle of a Batch call (10 / a divides by
// zero for k3 while the group keys are computed). The plan is re-initialised
// and polled again with the same context. The second run has to end like the
// first one, with the error value; instead it panics with an index out of
// range inside the where filter.
func TestViolation2_C06_v1(t *testing.T) {
	store := viol2C06v1NewStorage([]KVPair{
		NewKVPStr("k1", "1"), // passes the filter
		NewKVPStr("k2", "3"), // rejected by the filter
		NewKVPStr("k3", "0"), // passes the filter, 10 / a fails
	})
	query := "select int(value) as a, 10 / a as q, count(1) as c where a != 3 group by a, q"

	plan, err := NewOptimizer(query).BuildPlan(store)
	if err != nil {
		t.Fatalf("build plan: %v", err)
	}
	ctx := NewExecuteCtx()

	poll := func() (rows [][]Column, err error, panicked any) {
		defer func() {
			if r := recover(); r != nil {
				panicked = r
			}
		}()
		rows, err = plan.Batch(ctx)
		return rows, err, nil
	}

	_, err1, p1 := poll()
	if p1 != nil {
		t.Fatalf("first Batch panicked: %v", p1)
	}
	if err1 == nil {
		t.Fatalf("first Batch: expected the divide by zero error, got none")
	}

	if err := plan.Init(); err != nil {
		t.Fatalf("re-init: %v", err)
	}

	_, err2, p2 := poll()
	if p2 != nil {
		t.Fatalf("Batch after error + Init panicked: %v (expected the error value %q again)", p2, err1.Error())
	}
	if err2 == nil || err2.Error() != err1.Error() {
		t.Fatalf("Batch after error + Init: expected error %q, got %v", err1.Error(), fmt.Sprint(err2))
	}
}
