package kvql

import (
	"bytes"
	"fmt"
	"sort"
	"strings"
	"testing"
)

// minimal in-memory sorted storage
type viol2C15v2Store struct {
	keys []string
	vals map[string]string
}

type viol2C15v2Cursor struct {
	s   *viol2C15v2Store
	pos int
}

func (s *viol2C15v2Store) Get(key []byte) ([]byte, error) {
	if v, ok := s.vals[string(key)]; ok {
		return []byte(v), nil
	}
	return nil, nil
}
func (s *viol2C15v2Store) Put(key []byte, value []byte) error {
	if _, ok := s.vals[string(key)]; !ok {
		s.keys = append(s.keys, string(key))
		sort.Strings(s.keys)
	}
	s.vals[string(key)] = string(value)
	return nil
}
func (s *viol2C15v2Store) BatchPut(kvs []KVPair) error {
	for _, kv := range kvs {
		s.Put(kv.Key, kv.Value)
	}
	return nil
}
func (s *viol2C15v2Store) Delete(key []byte) error         { return nil }
func (s *viol2C15v2Store) BatchDelete(keys [][]byte) error { return nil }
func (s *viol2C15v2Store) Cursor() (Cursor, error)         { return &viol2C15v2Cursor{s: s}, nil }
func (c *viol2C15v2Cursor) Seek(prefix []byte) error {
	c.pos = sort.Search(len(c.s.keys), func(i int) bool {
		return bytes.Compare([]byte(c.s.keys[i]), prefix) >= 0
	})
	return nil
}
func (c *viol2C15v2Cursor) Next() ([]byte, []byte, error) {
	if c.pos >= len(c.s.keys) {
		return nil, nil, nil
	}
	k := c.s.keys[c.pos]
	c.pos++
	return []byte(k), []byte(c.s.vals[k]), nil
}

// viol2C15v2Filter cuts the filter text out of the scan line of EXPLAIN
func viol2C15v2Filter(t *testing.T, lines []string) string {
	last := lines[len(lines)-1]
	const mark = "Filter = '"
	i := strings.Index(last, mark)
	if i < 0 || !strings.HasSuffix(last, "'}") {
		t.Fatalf("no filter in the scan line of EXPLAIN: %q", last)
	}
	return last[i+len(mark) : len(last)-2]
}

func viol2C15v2Keys(t *testing.T, store Storage, query string) []string {
	plan, err := NewOptimizer(query).BuildPlan(store)
	if err != nil {
		t.Fatalf("%q: build plan: %v", query, err)
	}
	var keys []string
	ctx := NewExecuteCtx()
	for {
		row, err := plan.Next(ctx)
		if err != nil {
			t.Fatalf("%q: next: %v", query, err)
		}
		if row == nil {
			return keys
		}
		keys = append(keys, string(row[0].([]byte)))
		ctx.Clear()
	}
}

func TestViolation3_C15_v2(t *testing.T) {
	store := &viol2C15v2Store{vals: map[string]string{}}
	store.Put([]byte("a1"), []byte("x"))
	store.Put([]byte("k1"), []byte("x"))
	store.Put([]byte("k2"), []byte("y"))

	fields := "select key, key ^= 'k' as b where "
	query := fields + "b & true"
	opt := NewOptimizer(query)
	plan, err := opt.BuildPlan(store)
	if err != nil {
		t.Fatalf("the statement must be accepted: %v", err)
	}
	executed := opt.filter.Ast.Expr
	shown := viol2C15v2Filter(t, plan.Explain())
	t.Logf("filter shown by EXPLAIN: %s", shown)
	want := viol2C15v2Keys(t, store, query)
	if strings.Join(want, ",") != "k1,k2" {
		t.Fatalf("%q returned %v, expected k1 k2", query, want)
	}

	// The filter EXPLAIN shows is the canonical text of the tree that is
	// executed: written in place of the filter it has to give that tree again
	stmt, err := NewParser(fields + shown).Parse()
	if err != nil {
		t.Fatalf("the filter shown by EXPLAIN, %s, does not parse in the statement it was taken from: %v", shown, err)
	}
	expr := stmt.(*SelectStmt).Where.Expr
	if fmt.Sprintf("%T", expr) != fmt.Sprintf("%T", executed) || expr.String() != shown {
		t.Fatalf("the filter shown by EXPLAIN, %s (a %T), reads back as %T %s", shown, executed, expr, expr.String())
	}
	if got := viol2C15v2Keys(t, store, fields+shown); strings.Join(got, ",") != "k1,k2" {
		t.Fatalf("%q returned %v, expected k1 k2", fields+shown, got)
	}
}
