package kvql

import (
	"fmt"
	"os"
	"os/exec"
	"runtime/debug"
	"strings"
	"testing"
)

const violC06v2Query = "select a + 1 as a where true group by a"

// A stack overflow is a fatal error that recover() cannot catch, so the query
// is parsed in a child process (this same test binary, re-run with an
// environment variable set) and the parent looks at how the child ended.
func TestViolation_C06_v2(t *testing.T) {
	if os.Getenv("VIOLC06V2_CHILD") == "1" {
		// Child: a small stack limit only makes the crash quick, a correct
		// library needs a few frames here.
		debug.SetMaxStack(16 << 20)
		_, err := NewParser(violC06v2Query).Parse()
		if err != nil {
			if b, ok := err.(QueryBinder); ok {
				b.BindQuery(violC06v2Query)
			}
			fmt.Printf("VIOLC06V2 RESULT: error: %s\n", strings.ReplaceAll(err.Error(), "\n", " / "))
		} else {
			fmt.Printf("VIOLC06V2 RESULT: parsed\n")
		}
		return
	}

	cmd := exec.Command(os.Args[0], "-test.run=^TestViolation_C06_v2$", "-test.v")
	cmd.Env = append(os.Environ(), "VIOLC06V2_CHILD=1")
	out, err := cmd.CombinedOutput()
	text := string(out)
	if strings.Contains(text, "stack overflow") {
		first := text
		if len(first) > 400 {
			first = first[:400] + " ..."
		}
		t.Fatalf("query %q: expected a syntax error (field a refers to itself), the parser exhausted the stack instead (child: %v):\n%s",
			violC06v2Query, err, first)
	}
	if err != nil {
		t.Fatalf("query %q: child process failed: %v\n%s", violC06v2Query, err, text)
	}
	if !strings.Contains(text, "VIOLC06V2 RESULT: error:") {
		t.Fatalf("query %q: expected a syntax error for the self-referencing field, got:\n%s", violC06v2Query, text)
	}
	for _, line := range strings.Split(text, "\n") {
		if strings.HasPrefix(line, "VIOLC06V2 RESULT:") {
			t.Log(line)
		}
	}
}
