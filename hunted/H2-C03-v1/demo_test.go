package kvql

import (
	"bytes"
	"fmt"
	"sort"
	"strings"
	"testing"
)

// A minimal sorted in-memory store.
type viol2C03v1Store struct{ kvs []KVPair }

func viol2C03v1NewStore(pairs ...string) *viol2C03v1Store {
	s := &viol2C03v1Store{}
	for i := 0; i+1 < len(pairs); i += 2 {
		s.kvs = append(s.kvs, NewKVPStr(pairs[i], pairs[i+1]))
	}
	sort.Slice(s.kvs, func(i, j int) bool { return bytes.Compare(s.kvs[i].Key, s.kvs[j].Key) < 0 })
	return s
}

func (s *viol2C03v1Store) Get(key []byte) ([]byte, error) {
	for _, kv := range s.kvs {
		if bytes.Equal(kv.Key, key) {
			return kv.Value, nil
		}
	}
	return nil, nil
}
func (s *viol2C03v1Store) Put(key []byte, value []byte) error { return nil }
func (s *viol2C03v1Store) BatchPut(kvs []KVPair) error        { return nil }
func (s *viol2C03v1Store) Delete(key []byte) error            { return nil }
func (s *viol2C03v1Store) BatchDelete(keys [][]byte) error    { return nil }
func (s *viol2C03v1Store) Cursor() (Cursor, error)            { return &viol2C03v1Cursor{s: s}, nil }

type viol2C03v1Cursor struct {
	s   *viol2C03v1Store
	idx int
}

func (c *viol2C03v1Cursor) Seek(prefix []byte) error {
	c.idx = sort.Search(len(c.s.kvs), func(i int) bool { return bytes.Compare(c.s.kvs[i].Key, prefix) >= 0 })
	return nil
}

func (c *viol2C03v1Cursor) Next() ([]byte, []byte, error) {
	if c.idx >= len(c.s.kvs) {
		return nil, nil, nil
	}
	kv := c.s.kvs[c.idx]
	c.idx++
	return kv.Key, kv.Value, nil
}

func viol2C03v1Row(cols []Column) string {
	parts := make([]string, len(cols))
	for i, c := range cols {
		switch v := c.(type) {
		case []byte:
			parts[i] = string(v)
		default:
			parts[i] = fmt.Sprintf("%v", v)
		}
	}
	return strings.Join(parts, "|")
}

// drains query on a fresh plan over a fresh store, row at a time or in batches,
// with the execution context handed in by the caller
func viol2C03v1Drain(t *testing.T, query string, ctx *ExecuteCtx, batch bool) []string {
	store := viol2C03v1NewStore("k1", "v", "k2", "v", "k3", "v")
	plan, err := NewOptimizer(query).BuildPlan(store)
	if err != nil {
		t.Fatalf("build %q: %v", query, err)
	}
	rows := []string{}
	for {
		if batch {
			chunk, err := plan.Batch(ctx)
			if err != nil {
				t.Fatalf("batch %q: %v", query, err)
			}
			if len(chunk) == 0 {
				return rows
			}
			for _, r := range chunk {
				rows = append(rows, viol2C03v1Row(r))
			}
		} else {
			r, err := plan.Next(ctx)
			if err != nil {
				t.Fatalf("next %q: %v", query, err)
			}
			if r == nil {
				return rows
			}
			rows = append(rows, viol2C03v1Row(r))
		}
	}
}

// Two statements are run one after the other with one execution context (the
// context is made to be cleared and used again: every plan clears it before it
// uses it). The first one is drained to its end; its LIMIT is reached inside
// the first chunk. The second one is an aggregate statement that happens to use
// the same field name.
func TestViolation2_C03_v1(t *testing.T) {
	first := "select upper(key) as a, lower(a) as b where a != '' limit 1"
	second := "select lower(key) as a, count(1) as c where a != 'k2' group by a"
	want := []string{"k1|1", "k3|1"}

	rowCtx := NewExecuteCtx()
	if got := viol2C03v1Drain(t, first, rowCtx, false); fmt.Sprint(got) != "[K1|k1]" {
		t.Fatalf("row mode, first statement: got %v", got)
	}
	rowRows := viol2C03v1Drain(t, second, rowCtx, false)

	batchCtx := NewExecuteCtx()
	if got := viol2C03v1Drain(t, first, batchCtx, true); fmt.Sprint(got) != "[K1|k1]" {
		t.Fatalf("batch mode, first statement: got %v", got)
	}
	batchRows := viol2C03v1Drain(t, second, batchCtx, true)

	if fmt.Sprint(rowRows) != fmt.Sprint(want) {
		t.Errorf("row mode: got %v, want %v", rowRows, want)
	}
	if fmt.Sprint(batchRows) != fmt.Sprint(want) {
		t.Errorf("batch mode: got %v, want %v (row mode gave %v)", batchRows, want, rowRows)
	}
}
