package kvql

import (
	"strings"
	"testing"
	"unicode/utf8"
)

// viol2C17v1Render parses query (which must be erroneous), binds the query
// text to the error and returns the offset it carries, the rendered query
// line, and the column of the caret on the line below it.
func viol2C17v1Render(t *testing.T, query string, pad int) (pos int, queryLine string, caretCol int) {
	t.Helper()
	_, err := NewParser(query).Parse()
	if err == nil {
		t.Fatalf("query %q: expected an error", query)
	}
	serr, ok := err.(*SyntaxError)
	if !ok {
		t.Fatalf("query %q: expected a *SyntaxError, got %T", query, err)
	}
	serr.BindQuery(query)
	serr.SetPadding(pad)
	lines := strings.Split(serr.Error(), "\n")
	for i := 1; i < len(lines); i++ {
		if strings.TrimLeft(lines[i], " ") == "^--" {
			return serr.Pos, lines[i-1], len(lines[i]) - len("^--") - pad
		}
	}
	t.Fatalf("query %q: no caret line in %q", query, serr.Error())
	return 0, "", 0
}

func TestViolation3_C17_v1(t *testing.T) {
	// U+00A0 (no-break space, what a copy from a web page or a word processor
	// puts in front of a statement) is a word character for the lexer: the
	// first token is the name "\u00a0where" at offset 0, and that is where the
	// error is reported.
	query := "\u00a0where key = 'a'"
	pos, line, col := viol2C17v1Render(t, query, 0)
	if pos != 0 {
		t.Fatalf("offset = %d, want 0 (the start of the token \"\\u00a0where\")", pos)
	}
	want, _ := utf8.DecodeRuneInString(query[pos:])
	runes := []rune(line)
	if col < 0 || col >= len(runes) {
		t.Fatalf("caret column %d is outside the rendered query line %q", col, line)
	}
	if got := runes[col]; got != want {
		t.Errorf("the caret is under %q, but the character at the reported offset %d is %q (rendered query line: %q)",
			got, pos, want, line)
	}
	if !strings.Contains(line, "\u00a0where") {
		t.Errorf("the rendered query line %q does not contain the offending token %q", line, "\u00a0where")
	}
}
