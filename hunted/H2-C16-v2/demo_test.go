package kvql

import (
	"testing"
)

// A token that begins at a quote character is a quoted literal: it carries
// the bytes that follow the quote exactly as they are written (no case
// folding, no trimming, never a keyword or a number).
func viol2C16v2CheckLiterals(t *testing.T, q string) {
	t.Helper()
	for _, tk := range NewLexer(q).Split() {
		if tk.Pos >= len(q) {
			continue
		}
		c := q[tk.Pos]
		if c != '\'' && c != '"' && c != '`' {
			continue
		}
		want := STRING
		if c == '`' {
			want = NAME
		}
		end := tk.Pos + 1 + len(tk.Data)
		if tk.Tp != want || end > len(q) || q[tk.Pos+1:end] != tk.Data {
			t.Errorf("query %q: the token at the quote at offset %d is %s %q; a literal there can only carry %q byte for byte",
				q, tk.Pos, TokenTypeToString[tk.Tp], tk.Data, q[tk.Pos+1:])
		}
	}
}

func TestViolation2_C16_v2(t *testing.T) {
	// The closing quote is missing. What follows the opening quote is then
	// sent through buildToken like a bare word: lower-cased, trimmed, and
	// looked up as a keyword or a number, with the offset of the quote.
	viol2C16v2CheckLiterals(t, "where value = 'KEY")        // KEY keyword "key" at 14
	viol2C16v2CheckLiterals(t, "where key = 'k1' limit '1") // NUMBER 1 at 23
	viol2C16v2CheckLiterals(t, "where key = 'Ab  Cd ")      // NAME "ab  cd" (blanks inside a word, end trimmed)
	viol2C16v2CheckLiterals(t, "where key = `Ab")           // NAME "ab"

	// Consequence one level up: the query is accepted and means something
	// else. Either a syntax error or the literal 'KEY' would be right.
	stmt, err := NewParser("where value = 'KEY").Parse()
	if err == nil {
		got := stmt.(*SelectStmt).Where.Expr.String()
		if got != "(VALUE = 'KEY')" {
			t.Errorf("where value = 'KEY  was parsed without an error as %s; expected a syntax error or (VALUE = 'KEY')", got)
		}
	}
	stmt, err = NewParser("where key = 'k1' limit '1").Parse()
	if err == nil && stmt.(*SelectStmt).Limit != nil {
		t.Errorf("where key = 'k1' limit '1  was accepted with limit %d; the text after the quote is not a number token", stmt.(*SelectStmt).Limit.Count)
	}
}
