package kvql

import (
	"fmt"
	"sort"
	"strings"
	"sync"
	"testing"
)

// viol2C02v1MemKV is the storage of examples/memkv/memkv.go (the "full
// example" the README points to for "How to use this library"), copied as it
// is; only the identifiers are renamed.
type viol2C02v1MemKV struct {
	data        map[string][]byte
	orderedKeys []string
	mu          sync.RWMutex
}

type viol2C02v1MemKVCursor struct {
	keys  []string
	index int
	data  map[string][]byte
}

func viol2C02v1NewMemKV() *viol2C02v1MemKV {
	return &viol2C02v1MemKV{
		data:        make(map[string][]byte),
		orderedKeys: make([]string, 0),
	}
}

func (m *viol2C02v1MemKV) Get(key []byte) (value []byte, err error) {
	m.mu.RLock()
	defer m.mu.RUnlock()
	value, ok := m.data[string(key)]
	if !ok {
		return nil, nil // Return nil if the key does not exist
	}
	return value, nil
}

func (m *viol2C02v1MemKV) Put(key []byte, value []byte) error {
	m.mu.Lock()
	defer m.mu.Unlock()
	strKey := string(key)
	if _, exists := m.data[strKey]; !exists {
		m.orderedKeys = append(m.orderedKeys, strKey)
		sort.Strings(m.orderedKeys) // Maintain order after insertion
	}
	m.data[strKey] = value
	return nil
}

func (m *viol2C02v1MemKV) Delete(key []byte) error {
	m.mu.Lock()
	defer m.mu.Unlock()
	strKey := string(key)
	if _, exists := m.data[strKey]; exists {
		delete(m.data, strKey)
		i := sort.SearchStrings(m.orderedKeys, strKey)
		m.orderedKeys = append(m.orderedKeys[:i], m.orderedKeys[i+1:]...)
	}
	return nil
}

func (m *viol2C02v1MemKV) BatchPut(kvs []KVPair) error {
	for _, kv := range kvs {
		m.Put(kv.Key, kv.Value)
	}
	return nil
}

func (m *viol2C02v1MemKV) BatchDelete(keys [][]byte) error {
	for _, key := range keys {
		m.Delete(key)
	}
	return nil
}

func (m *viol2C02v1MemKV) Cursor() (cursor Cursor, err error) {
	m.mu.RLock()
	defer m.mu.RUnlock()
	return &viol2C02v1MemKVCursor{data: m.data, keys: m.orderedKeys, index: -1}, nil
}

// Seek is a prefix seek, as the parameter name of Cursor.Seek says: it stands
// on the first key that has the prefix, or at the end when there is none.
func (c *viol2C02v1MemKVCursor) Seek(prefix []byte) error {
	c.index = sort.SearchStrings(c.keys, string(prefix))
	if c.index < len(c.keys) && strings.HasPrefix(c.keys[c.index], string(prefix)) {
		return nil
	}
	c.index = len(c.keys)
	return nil
}

func (c *viol2C02v1MemKVCursor) Next() (key []byte, value []byte, err error) {
	if c.index < 0 || c.index >= len(c.keys) {
		return nil, nil, nil
	}
	keyStr := c.keys[c.index]
	value = c.data[keyStr]
	c.index++
	return []byte(keyStr), value, nil
}

func viol2C02v1Keys(t *testing.T, plan FinalPlan, batch bool) []string {
	ctx := NewExecuteCtx()
	keys := []string{}
	for {
		if batch {
			rows, err := plan.Batch(ctx)
			if err != nil {
				t.Fatal(err)
			}
			if len(rows) == 0 {
				return keys
			}
			for _, row := range rows {
				keys = append(keys, string(row[0].([]byte)))
			}
		} else {
			row, err := plan.Next(ctx)
			if err != nil {
				t.Fatal(err)
			}
			if row == nil {
				return keys
			}
			keys = append(keys, string(row[0].([]byte)))
		}
	}
}

func TestViolation3_C02_v1(t *testing.T) {
	// the data of the example's main()
	kv := viol2C02v1NewMemKV()
	kv.Put([]byte("a"), []byte("1"))
	kv.Put([]byte("a1"), []byte("2"))
	kv.Put([]byte("a2"), []byte("3"))
	kv.Put([]byte("a3"), []byte("4"))
	kv.Put([]byte("b"), []byte("2"))
	kv.Put([]byte("c"), []byte("3"))

	query := "select * where key > 'a0'"
	want := "[a1 a2 a3 b c]"

	for _, batch := range []bool{false, true} {
		// a full scan filtered pair by pair, with the statement's own filter
		opt := NewOptimizer(query)
		if err := opt.init(); err != nil {
			t.Fatal(err)
		}
		full, err := opt.buildFinalPlan(kv, NewFullScanPlan(kv, opt.filter), opt.stmt.(*SelectStmt))
		if err != nil {
			t.Fatal(err)
		}
		if err := full.Init(); err != nil {
			t.Fatal(err)
		}
		if ref := fmt.Sprint(viol2C02v1Keys(t, full, batch)); ref != want {
			t.Fatalf("full scan (batch=%v) returned %s, want %s", batch, ref, want)
		}

		// the access path the planner picks
		plan, err := NewOptimizer(query).BuildPlan(kv)
		if err != nil {
			t.Fatal(err)
		}
		if got := fmt.Sprint(viol2C02v1Keys(t, plan, batch)); got != want {
			t.Errorf("%s (batch=%v)\nplan: %v\nreturned %s, the full scan returns %s", query, batch, plan.Explain(), got, want)
		}
	}
}
