package kvql

import (
	"testing"
)

func TestViolation2_C16_v3(t *testing.T) {
	// A word with a byte that is not valid UTF-8 (the lexer works on bytes and
	// takes every byte >= 0x80 as a word character). The word token must carry
	// the text found at its offset, case-folded: "\xffab" for "\xffAb".
	// buildToken lower-cases with strings.ToLower, which rewrites every
	// invalid byte to U+FFFD (3 bytes), so the token carries text that is not
	// in the query and is longer than the word it stands for.
	q := "select \xffAb, \xfeAb where true"
	toks := NewLexer(q).Split()
	if len(toks) != 6 {
		t.Fatalf("expected 6 tokens, got %d: %v", len(toks), toks)
	}
	a, b := toks[1], toks[3]
	if a.Tp != NAME || a.Pos != 7 || a.Data != "\xffab" {
		t.Errorf("word \"\\xffAb\" at 7: expected NAME \"\\xffab\", got %s %q at %d",
			TokenTypeToString[a.Tp], a.Data, a.Pos)
	}
	if b.Tp != NAME || b.Pos != 12 || b.Data != "\xfeab" {
		t.Errorf("word \"\\xfeAb\" at 12: expected NAME \"\\xfeab\", got %s %q at %d",
			TokenTypeToString[b.Tp], b.Data, b.Pos)
	}
	// Two different words of the query end up as the same token text
	if a.Data == b.Data {
		t.Errorf("the different words \"\\xffAb\" and \"\\xfeAb\" both became %q", a.Data)
	}
	// The same bytes inside a quoted literal or a back-quoted name are kept
	for _, tk := range NewLexer("'\xffAb' `\xffAb`").Split() {
		if tk.Data != "\xffAb" {
			t.Errorf("quoted %q changed", tk.Data)
		}
	}
}
