package kvql

import (
	"bytes"
	"fmt"
	"sort"
	"strings"
	"testing"
)

// Minimal in-memory sorted storage for the demo.
type violC09v1Store struct {
	kvs []KVPair
}

func violC09v1NewStore(pairs ...string) *violC09v1Store {
	s := &violC09v1Store{}
	for i := 0; i+1 < len(pairs); i += 2 {
		s.kvs = append(s.kvs, NewKVPStr(pairs[i], pairs[i+1]))
	}
	sort.SliceStable(s.kvs, func(i, j int) bool {
		return bytes.Compare(s.kvs[i].Key, s.kvs[j].Key) < 0
	})
	return s
}

func (s *violC09v1Store) Get(key []byte) ([]byte, error) {
	for _, kv := range s.kvs {
		if bytes.Equal(kv.Key, key) {
			return kv.Value, nil
		}
	}
	return nil, nil
}
func (s *violC09v1Store) Put(key []byte, value []byte) error { return nil }
func (s *violC09v1Store) BatchPut(kvs []KVPair) error        { return nil }
func (s *violC09v1Store) Delete(key []byte) error            { return nil }
func (s *violC09v1Store) BatchDelete(keys [][]byte) error    { return nil }
func (s *violC09v1Store) Cursor() (Cursor, error) {
	return &violC09v1Cursor{s: s}, nil
}

type violC09v1Cursor struct {
	s   *violC09v1Store
	idx int
}

func (c *violC09v1Cursor) Seek(prefix []byte) error {
	c.idx = sort.Search(len(c.s.kvs), func(i int) bool {
		return bytes.Compare(c.s.kvs[i].Key, prefix) >= 0
	})
	return nil
}

func (c *violC09v1Cursor) Next() ([]byte, []byte, error) {
	if c.idx >= len(c.s.kvs) {
		return nil, nil, nil
	}
	kv := c.s.kvs[c.idx]
	c.idx++
	return kv.Key, kv.Value, nil
}

func violC09v1Col(c Column) string {
	switch v := c.(type) {
	case []byte:
		return string(v)
	case string:
		return v
	default:
		return fmt.Sprint(v)
	}
}

// violC09v1Run executes the query in row mode (Next) or batch mode (Batch)
// and renders every row as "col, col, ...".
func violC09v1Run(s Storage, query string, batch bool) ([]string, error) {
	plan, err := NewOptimizer(query).BuildPlan(s)
	if err != nil {
		return nil, err
	}
	ctx := NewExecuteCtx()
	var rows [][]Column
	for {
		if batch {
			rs, err := plan.Batch(ctx)
			if err != nil {
				return nil, err
			}
			if len(rs) == 0 {
				break
			}
			rows = append(rows, rs...)
		} else {
			r, err := plan.Next(ctx)
			if err != nil {
				return nil, err
			}
			if r == nil {
				break
			}
			rows = append(rows, r)
		}
	}
	out := make([]string, 0, len(rows))
	for _, r := range rows {
		cols := make([]string, 0, len(r))
		for _, c := range r {
			cols = append(cols, violC09v1Col(c))
		}
		out = append(out, strings.Join(cols, ", "))
	}
	return out, nil
}

// min / max over a numeric column whose first value is written as an integer
// ("0") and whose later values have a fractional part ("-0.5", "0.5").
// Mathematically min = -0.5 and max = 0.5.
func TestViolation_C09_v1(t *testing.T) {
	s := violC09v1NewStore(
		"k1", "0",
		"k2", "-0.5",
		"k3", "0.5",
	)
	query := "select min(value), max(value) where key ^= 'k'"
	want := []string{"-0.5, 0.5"}
	for _, batch := range []bool{false, true} {
		got, err := violC09v1Run(s, query, batch)
		if err != nil {
			t.Fatalf("batch=%v: unexpected error: %v", batch, err)
		}
		if strings.Join(got, "\n") != strings.Join(want, "\n") {
			t.Errorf("batch=%v: %s\n  want rows %q\n  got  rows %q", batch, query, want, got)
		}
	}
}
