package kvql

import (
	"sort"
	"strings"
	"testing"
)

// ORDER BY on a JSON field that holds numbers is ignored: the column is typed
// as text (every field access is), the values are float64, and the text
// comparator of the order plan answers "equal" for every pair of them.
func TestViolation2_C07_v1(t *testing.T) {
	s := newViol2C07v1Store([][2]string{
		{"a", `{"n":2}`},
		{"b", `{"n":4}`},
		{"c", `{"n":3}`},
		{"d", `{"n":1}`},
	})
	query := "select key, json(value)['n'] as n where true order by n"
	// n = 1, 2, 3, 4 (the same order numerically and as text)
	want := "d a c b"
	for _, batch := range []bool{false, true} {
		rows := viol2C07v1Run(t, s, query, batch)
		keys := []string{}
		for _, r := range rows {
			keys = append(keys, string(r[0].([]byte)))
		}
		if got := strings.Join(keys, " "); got != want {
			t.Errorf("batch=%v %s:\n keys in result order: %s\n want:                 %s\n rows: %v", batch, query, got, want, rows)
		}
	}
}

// ---- minimal in-memory sorted storage ----

type viol2C07v1Store struct {
	keys []string
	vals map[string]string
}

func newViol2C07v1Store(kvs [][2]string) *viol2C07v1Store {
	s := &viol2C07v1Store{vals: map[string]string{}}
	for _, kv := range kvs {
		s.keys = append(s.keys, kv[0])
		s.vals[kv[0]] = kv[1]
	}
	sort.Strings(s.keys)
	return s
}

func (s *viol2C07v1Store) Get(key []byte) ([]byte, error) {
	if v, ok := s.vals[string(key)]; ok {
		return []byte(v), nil
	}
	return nil, nil
}
func (s *viol2C07v1Store) Put(key []byte, value []byte) error { return nil }
func (s *viol2C07v1Store) BatchPut(kvs []KVPair) error        { return nil }
func (s *viol2C07v1Store) Delete(key []byte) error            { return nil }
func (s *viol2C07v1Store) BatchDelete(keys [][]byte) error    { return nil }
func (s *viol2C07v1Store) Cursor() (Cursor, error) {
	return &viol2C07v1Cursor{s: s}, nil
}

type viol2C07v1Cursor struct {
	s   *viol2C07v1Store
	idx int
}

func (c *viol2C07v1Cursor) Seek(prefix []byte) error {
	c.idx = sort.SearchStrings(c.s.keys, string(prefix))
	return nil
}

func (c *viol2C07v1Cursor) Next() ([]byte, []byte, error) {
	if c.idx >= len(c.s.keys) {
		return nil, nil, nil
	}
	k := c.s.keys[c.idx]
	c.idx++
	return []byte(k), []byte(c.s.vals[k]), nil
}

// viol2C07v1Run runs the query to the end, row by row (Next) or in batches (Batch)
func viol2C07v1Run(t *testing.T, s Storage, query string, batch bool) [][]Column {
	t.Helper()
	plan, err := NewOptimizer(query).BuildPlan(s)
	if err != nil {
		t.Fatalf("%s: %v", query, err)
	}
	ctx := NewExecuteCtx()
	var rows [][]Column
	for {
		if batch {
			rs, err := plan.Batch(ctx)
			if err != nil {
				t.Fatalf("%s: %v", query, err)
			}
			if len(rs) == 0 {
				return rows
			}
			rows = append(rows, rs...)
		} else {
			r, err := plan.Next(ctx)
			if err != nil {
				t.Fatalf("%s: %v", query, err)
			}
			if r == nil {
				return rows
			}
			rows = append(rows, r)
		}
	}
}
