package kvql

import (
	"sort"
	"testing"
)

// viol2C18v2Store is a sorted in-memory store that records every key it hands
// out: the keys of point reads (Get) and the keys a cursor returns (Next).
type viol2C18v2Store struct {
	keys  []string
	vals  map[string]string
	gets  []string
	nexts []string
}

func viol2C18v2NewStore(keys ...string) *viol2C18v2Store {
	s := &viol2C18v2Store{vals: map[string]string{}}
	for _, k := range keys {
		s.keys = append(s.keys, k)
		s.vals[k] = "v"
	}
	sort.Strings(s.keys)
	return s
}

func (s *viol2C18v2Store) Get(key []byte) ([]byte, error) {
	s.gets = append(s.gets, string(key))
	if v, ok := s.vals[string(key)]; ok {
		return []byte(v), nil
	}
	return nil, nil
}
func (s *viol2C18v2Store) Put(key []byte, value []byte) error { return nil }
func (s *viol2C18v2Store) BatchPut(kvs []KVPair) error        { return nil }
func (s *viol2C18v2Store) Delete(key []byte) error            { return nil }
func (s *viol2C18v2Store) BatchDelete(keys [][]byte) error    { return nil }
func (s *viol2C18v2Store) Cursor() (Cursor, error)            { return &viol2C18v2Cursor{s: s}, nil }

type viol2C18v2Cursor struct {
	s   *viol2C18v2Store
	idx int
}

// Seek positions the cursor on the first key >= prefix
func (c *viol2C18v2Cursor) Seek(prefix []byte) error {
	c.idx = sort.SearchStrings(c.s.keys, string(prefix))
	return nil
}

func (c *viol2C18v2Cursor) Next() ([]byte, []byte, error) {
	if c.idx >= len(c.s.keys) {
		return nil, nil, nil
	}
	k := c.s.keys[c.idx]
	c.idx++
	c.s.nexts = append(c.s.nexts, k)
	return []byte(k), []byte(c.s.vals[k]), nil
}

// key > 'b' and key < 'b' are two disjoint ranges: the clause is unsatisfiable
// on its face and must not read anything. The optimizer drops the strictness
// of both bounds, takes the two ranges for [b, +inf) and (-inf, b], and plans
// a point read of their "common" key 'b'.
func TestViolation3_C18_v2(t *testing.T) {
	query := "where key > 'b' & key < 'b'"
	store := viol2C18v2NewStore("a", "b", "c")
	plan, err := NewOptimizer(query).BuildPlan(store)
	if err != nil {
		t.Fatalf("build plan: %v", err)
	}
	ctx := NewExecuteCtx()
	rows := 0
	for {
		row, err := plan.Next(ctx)
		if err != nil {
			t.Fatalf("next: %v", err)
		}
		if row == nil {
			break
		}
		rows++
	}
	if rows != 0 {
		t.Fatalf("expected no rows, got %d", rows)
	}
	if len(store.gets) != 0 || len(store.nexts) != 0 {
		t.Fatalf("`%s` holds two disjoint ranges and must read nothing, but it read: point reads %q, cursor reads %q (plan: %v)",
			query, store.gets, store.nexts, plan.Explain())
	}
}
