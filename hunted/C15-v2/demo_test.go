package kvql

import (
	"bytes"
	"sort"
	"strings"
	"testing"
)

// minimal sorted in-memory storage

type violC15v2Store struct{ data []KVPair }

func violC15v2NewStore(kvs ...KVPair) *violC15v2Store {
	sort.Slice(kvs, func(i, j int) bool { return bytes.Compare(kvs[i].Key, kvs[j].Key) < 0 })
	return &violC15v2Store{data: kvs}
}

func (s *violC15v2Store) Get(key []byte) ([]byte, error) {
	for _, kv := range s.data {
		if bytes.Equal(kv.Key, key) {
			return kv.Value, nil
		}
	}
	return nil, nil
}
func (s *violC15v2Store) Put(key []byte, value []byte) error { return nil }
func (s *violC15v2Store) BatchPut(kvs []KVPair) error        { return nil }
func (s *violC15v2Store) Delete(key []byte) error            { return nil }
func (s *violC15v2Store) BatchDelete(keys [][]byte) error    { return nil }
func (s *violC15v2Store) Cursor() (Cursor, error)            { return &violC15v2Cursor{data: s.data}, nil }

type violC15v2Cursor struct {
	data []KVPair
	idx  int
}

func (c *violC15v2Cursor) Seek(prefix []byte) error {
	c.idx = sort.Search(len(c.data), func(i int) bool { return bytes.Compare(c.data[i].Key, prefix) >= 0 })
	return nil
}

func (c *violC15v2Cursor) Next() ([]byte, []byte, error) {
	if c.idx >= len(c.data) {
		return nil, nil, nil
	}
	kv := c.data[c.idx]
	c.idx++
	return kv.Key, kv.Value, nil
}

func TestViolation_C15_v2(t *testing.T) {
	store := violC15v2NewStore(NewKVPStr("a", "1"), NewKVPStr("b", "2"), NewKVPStr("c", "3"), NewKVPStr("d", "4"))

	// BETWEEN takes its two bounds separated by the word AND. OR binds weakest
	// of all, = binds at the level of BETWEEN itself (left-associative): in
	// neither text is there a second bound for BETWEEN, so neither is an
	// expression of the language. Both are accepted, with the operator taken
	// for the AND of BETWEEN.
	for _, query := range []string{
		"select * where key between 'b' or 'c'",
		"select * where key between 'b' = 'c'",
	} {
		opt := NewOptimizer(query)
		plan, err := opt.BuildPlan(store)
		if err == nil {
			var keys []string
			ctx := NewExecuteCtx()
			for {
				row, err := plan.Next(ctx)
				if err != nil {
					t.Fatalf("%q: %v", query, err)
				}
				if row == nil {
					break
				}
				keys = append(keys, string(row[0].([]byte)))
			}
			t.Errorf("%q: want a syntax error (no AND after the lower bound), got it accepted as %s, rows %v",
				query, opt.filter.Explain(), keys)
		}
	}

	// control: the documented form is accepted, in any letter case
	query := "select * where key BeTwEeN 'b' AnD 'c'"
	opt := NewOptimizer(query)
	if _, err := opt.BuildPlan(store); err != nil {
		t.Fatalf("%q: %v", query, err)
	}
	if got := opt.filter.Explain(); !strings.EqualFold(got, "(KEY BETWEEN 'b' AND 'c')") {
		t.Fatalf("%q: parsed as %s", query, got)
	}
}
