package kvql

import (
	"sort"
	"strings"
	"testing"
)

// One NaN in a number column puts the other rows out of order: compareFloat
// answers "greater" for (NaN, x) and for (x, NaN), so NaN is neither less nor
// greater than anything, the relation is not transitive and the heap of the
// order plan hands out 2 before 1.
func TestViolation2_C07_v2(t *testing.T) {
	s := newViol2C07v2Store([][2]string{
		{"a", "2"},
		{"b", "NaN"},
		{"c", "3"},
		{"d", "1"},
	})
	query := "select key, float(value) as f where true order by f"
	for _, batch := range []bool{false, true} {
		rows := viol2C07v2Run(t, s, query, batch)
		if len(rows) != 4 {
			t.Fatalf("batch=%v %s: %d rows, want 4", batch, query, len(rows))
		}
		// wherever the NaN row is put, the rows that hold numbers have to
		// come out as 1, 2, 3
		keys := []string{}
		for _, r := range rows {
			if f := r[1].(float64); f == f {
				keys = append(keys, string(r[0].([]byte)))
			}
		}
		if got, want := strings.Join(keys, " "), "d a c"; got != want {
			t.Errorf("batch=%v %s:\n keys of the numeric rows in result order: %s\n want: %s\n rows: %v", batch, query, got, want, rows)
		}
	}
}

// ---- minimal in-memory sorted storage ----

type viol2C07v2Store struct {
	keys []string
	vals map[string]string
}

func newViol2C07v2Store(kvs [][2]string) *viol2C07v2Store {
	s := &viol2C07v2Store{vals: map[string]string{}}
	for _, kv := range kvs {
		s.keys = append(s.keys, kv[0])
		s.vals[kv[0]] = kv[1]
	}
	sort.Strings(s.keys)
	return s
}

func (s *viol2C07v2Store) Get(key []byte) ([]byte, error) {
	if v, ok := s.vals[string(key)]; ok {
		return []byte(v), nil
	}
	return nil, nil
}
func (s *viol2C07v2Store) Put(key []byte, value []byte) error { return nil }
func (s *viol2C07v2Store) BatchPut(kvs []KVPair) error        { return nil }
func (s *viol2C07v2Store) Delete(key []byte) error            { return nil }
func (s *viol2C07v2Store) BatchDelete(keys [][]byte) error    { return nil }
func (s *viol2C07v2Store) Cursor() (Cursor, error) {
	return &viol2C07v2Cursor{s: s}, nil
}

type viol2C07v2Cursor struct {
	s   *viol2C07v2Store
	idx int
}

func (c *viol2C07v2Cursor) Seek(prefix []byte) error {
	c.idx = sort.SearchStrings(c.s.keys, string(prefix))
	return nil
}

func (c *viol2C07v2Cursor) Next() ([]byte, []byte, error) {
	if c.idx >= len(c.s.keys) {
		return nil, nil, nil
	}
	k := c.s.keys[c.idx]
	c.idx++
	return []byte(k), []byte(c.s.vals[k]), nil
}

// viol2C07v2Run runs the query to the end, row by row (Next) or in batches (Batch)
func viol2C07v2Run(t *testing.T, s Storage, query string, batch bool) [][]Column {
	t.Helper()
	plan, err := NewOptimizer(query).BuildPlan(s)
	if err != nil {
		t.Fatalf("%s: %v", query, err)
	}
	ctx := NewExecuteCtx()
	var rows [][]Column
	for {
		if batch {
			rs, err := plan.Batch(ctx)
			if err != nil {
				t.Fatalf("%s: %v", query, err)
			}
			if len(rs) == 0 {
				return rows
			}
			rows = append(rows, rs...)
		} else {
			r, err := plan.Next(ctx)
			if err != nil {
				t.Fatalf("%s: %v", query, err)
			}
			if r == nil {
				return rows
			}
			rows = append(rows, r)
		}
	}
}
