package kvql

import (
	"bytes"
	"fmt"
	"sort"
	"strings"
	"testing"
)

// ---- minimal in-memory sorted storage -------------------------------------

type viol2C05v1Store struct {
	kvs []KVPair
}

func viol2C05v1NewStore(pairs ...string) *viol2C05v1Store {
	s := &viol2C05v1Store{}
	for i := 0; i+1 < len(pairs); i += 2 {
		s.kvs = append(s.kvs, NewKVPStr(pairs[i], pairs[i+1]))
	}
	sort.Slice(s.kvs, func(i, j int) bool { return bytes.Compare(s.kvs[i].Key, s.kvs[j].Key) < 0 })
	return s
}

func (s *viol2C05v1Store) Get(key []byte) ([]byte, error) {
	for _, kv := range s.kvs {
		if bytes.Equal(kv.Key, key) {
			return kv.Value, nil
		}
	}
	return nil, nil
}
func (s *viol2C05v1Store) Put(key []byte, value []byte) error { return nil }
func (s *viol2C05v1Store) BatchPut(kvs []KVPair) error        { return nil }
func (s *viol2C05v1Store) Delete(key []byte) error            { return nil }
func (s *viol2C05v1Store) BatchDelete(keys [][]byte) error    { return nil }
func (s *viol2C05v1Store) Cursor() (Cursor, error)            { return &viol2C05v1Cursor{s: s}, nil }

type viol2C05v1Cursor struct {
	s   *viol2C05v1Store
	idx int
}

func (c *viol2C05v1Cursor) Seek(prefix []byte) error {
	c.idx = sort.Search(len(c.s.kvs), func(i int) bool { return bytes.Compare(c.s.kvs[i].Key, prefix) >= 0 })
	return nil
}

func (c *viol2C05v1Cursor) Next() ([]byte, []byte, error) {
	if c.idx >= len(c.s.kvs) {
		return nil, nil, nil
	}
	kv := c.s.kvs[c.idx]
	c.idx++
	return kv.Key, kv.Value, nil
}

// viol2C05v1Run returns the rows of the query, one text per row, columns joined by "|"
func viol2C05v1Run(t *testing.T, s Storage, query string, batch bool) []string {
	t.Helper()
	plan, err := NewOptimizer(query).BuildPlan(s)
	if err != nil {
		t.Fatalf("query %q is not accepted: %v", query, err)
	}
	ctx := NewExecuteCtx()
	render := func(row []Column) string {
		cols := make([]string, len(row))
		for i, c := range row {
			switch v := c.(type) {
			case []byte:
				cols[i] = string(v)
			default:
				cols[i] = fmt.Sprintf("%v", v)
			}
		}
		return strings.Join(cols, "|")
	}
	ret := []string{}
	for {
		if batch {
			rows, err := plan.Batch(ctx)
			if err != nil {
				t.Fatalf("query %q: %v", query, err)
			}
			if len(rows) == 0 {
				return ret
			}
			for _, row := range rows {
				ret = append(ret, render(row))
			}
		} else {
			row, err := plan.Next(ctx)
			if err != nil {
				t.Fatalf("query %q: %v", query, err)
			}
			if row == nil {
				return ret
			}
			ret = append(ret, render(row))
		}
	}
}

// A select field that is just the name of another field (`a as b`) is an
// abbreviation of that field: b is key here. The library evaluates the bare
// name to its own spelling: column b is the text "a" on every row, and
// upper(b) is "A" whatever the key is.
func TestViolation3_C05_v1(t *testing.T) {
	s := viol2C05v1NewStore("a1", "x", "a2", "y", "b1", "z")

	// b replaced by its defining expression (a): the reference query
	inlined := "select key as a, a as b where upper(a) = 'A1'"
	aliased := "select key as a, a as b where upper(b) = 'A1'"

	for _, batch := range []bool{false, true} {
		want := []string{"a1|a1"}
		gotAliased := viol2C05v1Run(t, s, aliased, batch)
		if strings.Join(gotAliased, ";") != strings.Join(want, ";") {
			t.Errorf("batch=%v %q\n  expected rows: %v\n  actual rows:   %v", batch, aliased, want, gotAliased)
		}
		// the same query with the name b replaced by what it stands for
		// finds the row, but shows the spelling of the name in column b
		gotInlined := viol2C05v1Run(t, s, inlined, batch)
		if strings.Join(gotInlined, ";") != strings.Join(want, ";") {
			t.Errorf("batch=%v %q\n  expected rows: %v\n  actual rows:   %v", batch, inlined, want, gotInlined)
		}
	}
}
