package kvql

import (
	"bytes"
	"sort"
	"strings"
	"testing"
)

// A small sorted in-memory store that counts every storage call.
type viol2C14v1Store struct {
	kvs   []KVPair
	calls int
}

func (s *viol2C14v1Store) find(key []byte) int {
	return sort.Search(len(s.kvs), func(i int) bool { return bytes.Compare(s.kvs[i].Key, key) >= 0 })
}

func (s *viol2C14v1Store) Get(key []byte) ([]byte, error) {
	s.calls++
	if i := s.find(key); i < len(s.kvs) && bytes.Equal(s.kvs[i].Key, key) {
		return s.kvs[i].Value, nil
	}
	return nil, nil
}

func (s *viol2C14v1Store) Put(key []byte, value []byte) error {
	s.calls++
	i := s.find(key)
	if i < len(s.kvs) && bytes.Equal(s.kvs[i].Key, key) {
		s.kvs[i].Value = value
		return nil
	}
	s.kvs = append(s.kvs, KVPair{})
	copy(s.kvs[i+1:], s.kvs[i:])
	s.kvs[i] = KVPair{Key: key, Value: value}
	return nil
}

func (s *viol2C14v1Store) BatchPut(kvs []KVPair) error {
	for _, kv := range kvs {
		s.Put(kv.Key, kv.Value)
	}
	return nil
}

func (s *viol2C14v1Store) Delete(key []byte) error {
	s.calls++
	if i := s.find(key); i < len(s.kvs) && bytes.Equal(s.kvs[i].Key, key) {
		s.kvs = append(s.kvs[:i], s.kvs[i+1:]...)
	}
	return nil
}

func (s *viol2C14v1Store) BatchDelete(keys [][]byte) error {
	for _, k := range keys {
		s.Delete(k)
	}
	return nil
}

func (s *viol2C14v1Store) Cursor() (Cursor, error) {
	s.calls++
	return &viol2C14v1Cursor{s: s}, nil
}

type viol2C14v1Cursor struct {
	s   *viol2C14v1Store
	idx int
}

func (c *viol2C14v1Cursor) Seek(prefix []byte) error {
	c.s.calls++
	c.idx = c.s.find(prefix)
	return nil
}

func (c *viol2C14v1Cursor) Next() ([]byte, []byte, error) {
	c.s.calls++
	if c.idx >= len(c.s.kvs) {
		return nil, nil, nil
	}
	kv := c.s.kvs[c.idx]
	c.idx++
	return kv.Key, kv.Value, nil
}

func viol2C14v1NewStore() *viol2C14v1Store {
	s := &viol2C14v1Store{}
	s.Put([]byte("k1"), []byte("v1"))
	s.Put([]byte("k2"), []byte("v2"))
	s.calls = 0
	return s
}

// viol2C14v1Run builds the plan and drains it row by row. It returns the
// error of BuildPlan, the number of storage calls made while building, and
// the error of the execution (nil when the plan was not built).
func viol2C14v1Run(q string) (buildErr error, buildCalls int, execErr error, rows [][]Column) {
	s := viol2C14v1NewStore()
	plan, err := NewOptimizer(q).BuildPlan(s)
	if err != nil {
		return err, s.calls, nil, nil
	}
	buildCalls = s.calls
	ctx := NewExecuteCtx()
	for {
		row, err := plan.Next(ctx)
		if err != nil {
			return nil, buildCalls, err, rows
		}
		if row == nil {
			return nil, buildCalls, nil, rows
		}
		rows = append(rows, row)
	}
}

func TestViolation3_C14_v1(t *testing.T) {
	// b is the text a + 'x' (a is the key). Field c multiplies that text by 2:
	// `*` does not support a text operand, the statement must be rejected
	// when the plan is built, before any storage access.
	faulty := "select b * 2 as c, a + 'x' as b, key as a where key ^= 'k'"
	// The same three fields listed the other way round ARE rejected:
	control := "select key as a, a + 'x' as b, b * 2 as c where key ^= 'k'"

	berr, calls, _, _ := viol2C14v1Run(control)
	if berr == nil || calls != 0 {
		t.Fatalf("control %q: expected a rejection without storage access, got err=%v calls=%d", control, berr, calls)
	}

	berr, calls, xerr, rows := viol2C14v1Run(faulty)
	if berr == nil {
		t.Errorf("%q: text * number in a select field was accepted when the plan was built (%d storage calls); execution then gave rows=%v err=%v",
			faulty, calls, rows, xerr)
	} else if calls != 0 {
		t.Errorf("%q: rejected, but after %d storage calls", faulty, calls)
	}

	// The converse: c = b + 'y' concatenates two texts and is well typed. It is
	// accepted with the fields in definition order, and must be accepted in
	// any order.
	okInOrder := "select key as a, a + 'x' as b, b + 'y' as c where key ^= 'k'"
	okReversed := "select b + 'y' as c, a + 'x' as b, key as a where key ^= 'k'"
	if berr, _, xerr, rows := viol2C14v1Run(okInOrder); berr != nil || xerr != nil || len(rows) != 2 {
		t.Fatalf("control %q: build err=%v exec err=%v rows=%v", okInOrder, berr, xerr, rows)
	}
	berr, _, xerr, rows = viol2C14v1Run(okReversed)
	if berr != nil {
		t.Errorf("%q: a well-typed statement was rejected: %v", okReversed, berr)
	} else if xerr != nil || len(rows) != 2 {
		t.Errorf("%q: exec err=%v rows=%v", okReversed, xerr, rows)
	} else if got := strings.TrimSpace(string(viol2C14v1Text(rows[0][0]))); got != "k1xy" {
		t.Errorf("%q: first row c = %q, want k1xy", okReversed, got)
	}
}

func viol2C14v1Text(c Column) []byte {
	switch v := c.(type) {
	case []byte:
		return v
	case string:
		return []byte(v)
	}
	return nil
}
