package kvql

import (
	"bytes"
	"fmt"
	"sort"
	"testing"
)

// ---- minimal in-memory sorted storage -------------------------------------

type violC07v3Store struct {
	kvs []KVPair
}

func violC07v3NewStore(pairs ...string) *violC07v3Store {
	s := &violC07v3Store{}
	for i := 0; i+1 < len(pairs); i += 2 {
		s.kvs = append(s.kvs, NewKVPStr(pairs[i], pairs[i+1]))
	}
	sort.Slice(s.kvs, func(i, j int) bool { return bytes.Compare(s.kvs[i].Key, s.kvs[j].Key) < 0 })
	return s
}

func (s *violC07v3Store) Get(key []byte) ([]byte, error) {
	for _, kv := range s.kvs {
		if bytes.Equal(kv.Key, key) {
			return kv.Value, nil
		}
	}
	return nil, nil
}
func (s *violC07v3Store) Put(key []byte, value []byte) error { return nil }
func (s *violC07v3Store) BatchPut(kvs []KVPair) error         { return nil }
func (s *violC07v3Store) Delete(key []byte) error             { return nil }
func (s *violC07v3Store) BatchDelete(keys [][]byte) error     { return nil }
func (s *violC07v3Store) Cursor() (Cursor, error)             { return &violC07v3Cursor{s: s}, nil }

type violC07v3Cursor struct {
	s   *violC07v3Store
	idx int
}

func (c *violC07v3Cursor) Seek(prefix []byte) error {
	c.idx = sort.Search(len(c.s.kvs), func(i int) bool { return bytes.Compare(c.s.kvs[i].Key, prefix) >= 0 })
	return nil
}

func (c *violC07v3Cursor) Next() ([]byte, []byte, error) {
	if c.idx >= len(c.s.kvs) {
		return nil, nil, nil
	}
	kv := c.s.kvs[c.idx]
	c.idx++
	return kv.Key, kv.Value, nil
}

// violC07v3Col renders one column independent of its Go representation
func violC07v3Col(c Column) string {
	switch v := c.(type) {
	case []byte:
		return string(v)
	default:
		return fmt.Sprintf("%v", v)
	}
}

// violC07v3Run executes the query in row mode (Next) or batch mode (Batch) and
// returns every row rendered as "col|col|..."
func violC07v3Run(t *testing.T, s Storage, query string, batch bool) []string {
	t.Helper()
	plan, err := NewOptimizer(query).BuildPlan(s)
	if err != nil {
		t.Fatalf("build plan for %q: %v", query, err)
	}
	ctx := NewExecuteCtx()
	var rows [][]Column
	for {
		if batch {
			rs, err := plan.Batch(ctx)
			if err != nil {
				t.Fatalf("batch %q: %v", query, err)
			}
			if len(rs) == 0 {
				break
			}
			rows = append(rows, rs...)
		} else {
			r, err := plan.Next(ctx)
			if err != nil {
				t.Fatalf("next %q: %v", query, err)
			}
			if r == nil {
				break
			}
			rows = append(rows, r)
		}
	}
	ret := make([]string, 0, len(rows))
	for _, r := range rows {
		line := ""
		for i, c := range r {
			if i > 0 {
				line += "|"
			}
			line += violC07v3Col(c)
		}
		ret = append(ret, line)
	}
	return ret
}

func violC07v3SameMultiset(a, b []string) bool {
	if len(a) != len(b) {
		return false
	}
	ac := append([]string{}, a...)
	bc := append([]string{}, b...)
	sort.Strings(ac)
	sort.Strings(bc)
	for i := range ac {
		if ac[i] != bc[i] {
			return false
		}
	}
	return true
}

// A NaN among the values of a numeric order field must not disturb the order
// of the other rows: wherever the NaN row is placed, the remaining rows have
// to come out in non-decreasing order.
func TestViolation_C07_v3(t *testing.T) {
	store := violC07v3NewStore(
		"a", "1",
		"b", "NaN",
		"c", "3",
		"d", "0",
	)
	base := "select key, float(value) as f where key > ''"
	query := base + " order by f asc"
	want := []string{"d|0", "a|1", "c|3"} // the rows with a real number, in order
	for _, batch := range []bool{false, true} {
		unordered := violC07v3Run(t, store, base, batch)
		got := violC07v3Run(t, store, query, batch)
		if !violC07v3SameMultiset(unordered, got) {
			t.Errorf("batch=%v: ordered result %v is not a permutation of the unordered result %v", batch, got, unordered)
		}
		numbers := []string{}
		for _, row := range got {
			if row != "b|NaN" {
				numbers = append(numbers, row)
			}
		}
		if fmt.Sprint(numbers) != fmt.Sprint(want) {
			t.Errorf("batch=%v: %q\n  got  %v\n  rows with a real number: %v\n  want them as %v (0 <= 1 <= 3)", batch, query, got, numbers, want)
		}
	}
}
