package kvql

import (
	"bytes"
	"fmt"
	"sort"
	"testing"
)

// Minimal in-memory sorted storage for the demo.
type viol2C09v2Store struct {
	kvs []KVPair
}

func viol2C09v2NewStore(pairs ...string) *viol2C09v2Store {
	s := &viol2C09v2Store{}
	for i := 0; i+1 < len(pairs); i += 2 {
		s.kvs = append(s.kvs, NewKVPStr(pairs[i], pairs[i+1]))
	}
	sort.SliceStable(s.kvs, func(i, j int) bool { return bytes.Compare(s.kvs[i].Key, s.kvs[j].Key) < 0 })
	return s
}

func (s *viol2C09v2Store) Get(key []byte) ([]byte, error) {
	for _, kv := range s.kvs {
		if bytes.Equal(kv.Key, key) {
			return kv.Value, nil
		}
	}
	return nil, nil
}
func (s *viol2C09v2Store) Put(key []byte, value []byte) error { return nil }
func (s *viol2C09v2Store) BatchPut(kvs []KVPair) error        { return nil }
func (s *viol2C09v2Store) Delete(key []byte) error            { return nil }
func (s *viol2C09v2Store) BatchDelete(keys [][]byte) error    { return nil }
func (s *viol2C09v2Store) Cursor() (Cursor, error)            { return &viol2C09v2Cursor{s: s}, nil }

type viol2C09v2Cursor struct {
	s   *viol2C09v2Store
	idx int
}

func (c *viol2C09v2Cursor) Seek(prefix []byte) error {
	c.idx = sort.Search(len(c.s.kvs), func(i int) bool { return bytes.Compare(c.s.kvs[i].Key, prefix) >= 0 })
	return nil
}

func (c *viol2C09v2Cursor) Next() ([]byte, []byte, error) {
	if c.idx >= len(c.s.kvs) {
		return nil, nil, nil
	}
	kv := c.s.kvs[c.idx]
	c.idx++
	return kv.Key, kv.Value, nil
}

// viol2C09v2Run returns the rows as text, or the error of the first failing poll.
func viol2C09v2Run(s Storage, query string, batch bool) (string, error) {
	plan, err := NewOptimizer(query).BuildPlan(s)
	if err != nil {
		return "", err
	}
	ctx := NewExecuteCtx()
	out := ""
	add := func(row []Column) {
		for i, c := range row {
			if i > 0 {
				out += "|"
			}
			if b, ok := c.([]byte); ok {
				out += string(b)
			} else {
				out += fmt.Sprint(c)
			}
		}
		out += ";"
	}
	for {
		if batch {
			rs, err := plan.Batch(ctx)
			if err != nil {
				return out, err
			}
			if len(rs) == 0 {
				return out, nil
			}
			for _, r := range rs {
				add(r)
			}
		} else {
			r, err := plan.Next(ctx)
			if err != nil {
				return out, err
			}
			if r == nil {
				return out, nil
			}
			add(r)
		}
	}
}

// A grouping expression (and a WHERE) that guards a division with `&`:
//
//	int(value) != 0 & 10 / int(value) > 2
//
// Row mode evaluates the right operand only where the left one is true and
// answers; batch mode evaluates both operands for every pair of the chunk and
// fails with "Divide by zero" on the pairs the guard excludes.
func TestViolation3_C09_v2(t *testing.T) {
	s := viol2C09v2NewStore("a", "0", "b", "2", "c", "5", "d", "0")
	cases := []struct{ query, want string }{
		// a, c, d -> false (a and d by the guard alone), b -> true (10/2 = 5 > 2)
		{"select int(value) != 0 & 10 / int(value) > 2 as g, count(1), group_concat(key, ',') where true group by g", "false|3|a,c,d;true|1|b;"},
		// the same guard in WHERE: only b passes
		{"select count(1), sum(int(value)) where int(value) != 0 & 10 / int(value) > 2", "1|2;"},
		// and with `|`: a, b, d pass
		{"select count(1) where int(value) = 0 | 10 / int(value) > 2", "3;"},
	}
	for _, c := range cases {
		for _, batch := range []bool{false, true} {
			got, err := viol2C09v2Run(s, c.query, batch)
			if err != nil {
				t.Errorf("batch=%v: %s\n  got error %v (rows so far %q), want %q", batch, c.query, err, got, c.want)
				continue
			}
			if got != c.want {
				t.Errorf("batch=%v: %s\n  got %q, want %q", batch, c.query, got, c.want)
			}
		}
	}
}
