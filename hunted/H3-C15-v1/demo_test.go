package kvql

import (
	"bytes"
	"sort"
	"strings"
	"testing"
)

// minimal in-memory sorted storage
type viol2C15v1Store struct {
	keys []string
	vals map[string]string
}

type viol2C15v1Cursor struct {
	s   *viol2C15v1Store
	pos int
}

func (s *viol2C15v1Store) Get(key []byte) ([]byte, error) {
	if v, ok := s.vals[string(key)]; ok {
		return []byte(v), nil
	}
	return nil, nil
}
func (s *viol2C15v1Store) Put(key []byte, value []byte) error {
	if _, ok := s.vals[string(key)]; !ok {
		s.keys = append(s.keys, string(key))
		sort.Strings(s.keys)
	}
	s.vals[string(key)] = string(value)
	return nil
}
func (s *viol2C15v1Store) BatchPut(kvs []KVPair) error {
	for _, kv := range kvs {
		s.Put(kv.Key, kv.Value)
	}
	return nil
}
func (s *viol2C15v1Store) Delete(key []byte) error         { return nil }
func (s *viol2C15v1Store) BatchDelete(keys [][]byte) error { return nil }
func (s *viol2C15v1Store) Cursor() (Cursor, error)         { return &viol2C15v1Cursor{s: s}, nil }
func (c *viol2C15v1Cursor) Seek(prefix []byte) error {
	c.pos = sort.Search(len(c.s.keys), func(i int) bool {
		return bytes.Compare([]byte(c.s.keys[i]), prefix) >= 0
	})
	return nil
}
func (c *viol2C15v1Cursor) Next() ([]byte, []byte, error) {
	if c.pos >= len(c.s.keys) {
		return nil, nil, nil
	}
	k := c.s.keys[c.pos]
	c.pos++
	return []byte(k), []byte(c.s.vals[k]), nil
}

// viol2C15v1Filter cuts the filter text out of the scan line of EXPLAIN
func viol2C15v1Filter(t *testing.T, lines []string) string {
	last := lines[len(lines)-1]
	const mark = "Filter = '"
	i := strings.Index(last, mark)
	if i < 0 || !strings.HasSuffix(last, "'}") {
		t.Fatalf("no filter in the scan line of EXPLAIN: %q", last)
	}
	return last[i+len(mark) : len(last)-2]
}

func TestViolation3_C15_v1(t *testing.T) {
	store := &viol2C15v1Store{vals: map[string]string{}}
	store.Put([]byte("k1"), []byte("10"))

	// The statement is accepted: the divisor is not a literal zero
	query := "where int(value) / (2 - 2) > 0"
	if _, err := NewParser(query).Parse(); err != nil {
		t.Fatalf("the statement must be accepted: %v", err)
	}
	plan, err := NewOptimizer(query).BuildPlan(store)
	if err != nil {
		t.Fatalf("build plan: %v", err)
	}
	shown := viol2C15v1Filter(t, plan.Explain())
	t.Logf("filter shown by EXPLAIN: %s", shown)

	// The filter EXPLAIN shows is the canonical text of the tree that is
	// executed: read again it has to give that tree
	stmt, err := NewParser("where " + shown).Parse()
	if err != nil {
		t.Fatalf("the filter shown by EXPLAIN, %q, does not parse: %v", shown, err)
	}
	if got := stmt.(*SelectStmt).Where.Expr.String(); got != shown {
		t.Fatalf("the filter shown by EXPLAIN, %q, reads back as %q", shown, got)
	}
}
