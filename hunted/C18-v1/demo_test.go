package kvql

import (
	"sort"
	"testing"
)

// violC18v1Store is a sorted in-memory store that records every key handed
// out by Get and by its cursors.
type violC18v1Store struct {
	keys  []string
	gets  []string // keys asked for with Get
	nexts []string // keys returned by a cursor
}

func (s *violC18v1Store) Get(key []byte) ([]byte, error) {
	s.gets = append(s.gets, string(key))
	i := sort.SearchStrings(s.keys, string(key))
	if i < len(s.keys) && s.keys[i] == string(key) {
		return []byte("v"), nil
	}
	return nil, nil
}
func (s *violC18v1Store) Put(key []byte, value []byte) error { return nil }
func (s *violC18v1Store) BatchPut(kvs []KVPair) error        { return nil }
func (s *violC18v1Store) Delete(key []byte) error            { return nil }
func (s *violC18v1Store) BatchDelete(keys [][]byte) error    { return nil }
func (s *violC18v1Store) Cursor() (Cursor, error)            { return &violC18v1Cursor{s: s}, nil }

type violC18v1Cursor struct {
	s   *violC18v1Store
	idx int
}

func (c *violC18v1Cursor) Seek(k []byte) error {
	c.idx = sort.SearchStrings(c.s.keys, string(k))
	return nil
}

func (c *violC18v1Cursor) Next() ([]byte, []byte, error) {
	if c.idx >= len(c.s.keys) {
		return nil, nil, nil
	}
	k := c.s.keys[c.idx]
	c.idx++
	c.s.nexts = append(c.s.nexts, k)
	return []byte(k), []byte("v"), nil
}

func violC18v1Run(t *testing.T, query string) *violC18v1Store {
	s := &violC18v1Store{keys: []string{"a", "b", "c", "d"}}
	plan, err := NewOptimizer(query).BuildPlan(s)
	if err != nil {
		t.Fatalf("%s: %v", query, err)
	}
	ctx := NewExecuteCtx()
	for {
		row, err := plan.Next(ctx)
		if err != nil {
			t.Fatalf("%s: %v", query, err)
		}
		if row == nil {
			break
		}
	}
	return s
}

func TestViolation_C18_v1(t *testing.T) {
	// (1) The region pinned by key < 'b' is {a}. The scan may read it plus ONE
	// key beyond its end (b) to detect the end. It must not read c.
	s := violC18v1Run(t, "where key < 'b'")
	beyond := 0
	for _, k := range s.nexts {
		if !(k < "b") {
			beyond++
		}
	}
	if beyond > 1 || len(s.gets) > 0 {
		t.Errorf("where key < 'b': read %q from the cursor, %d keys beyond the end of the region key < 'b' (at most 1 allowed)", s.nexts, beyond)
	}

	// (2) key > 'b' & key < 'b' is a pair of disjoint ranges: unsatisfiable on
	// its face, nothing may be read.
	s = violC18v1Run(t, "where key > 'b' & key < 'b'")
	if len(s.gets)+len(s.nexts) != 0 {
		t.Errorf("where key > 'b' & key < 'b': unsatisfiable, expected no read, got Get%q cursor%q", s.gets, s.nexts)
	}

	// (3) the same for an equality and a range that excludes it
	s = violC18v1Run(t, "where key = 'b' & key > 'b'")
	if len(s.gets)+len(s.nexts) != 0 {
		t.Errorf("where key = 'b' & key > 'b': unsatisfiable, expected no read, got Get%q cursor%q", s.gets, s.nexts)
	}
}
