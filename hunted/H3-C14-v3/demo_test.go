package kvql

import (
	"bytes"
	"sort"
	"testing"
)

// A small sorted in-memory store that counts every storage call.
type viol2C14v3Store struct {
	kvs   []KVPair
	calls int
}

func (s *viol2C14v3Store) find(key []byte) int {
	return sort.Search(len(s.kvs), func(i int) bool { return bytes.Compare(s.kvs[i].Key, key) >= 0 })
}

func (s *viol2C14v3Store) Get(key []byte) ([]byte, error) {
	s.calls++
	if i := s.find(key); i < len(s.kvs) && bytes.Equal(s.kvs[i].Key, key) {
		return s.kvs[i].Value, nil
	}
	return nil, nil
}

func (s *viol2C14v3Store) Put(key []byte, value []byte) error {
	s.calls++
	i := s.find(key)
	if i < len(s.kvs) && bytes.Equal(s.kvs[i].Key, key) {
		s.kvs[i].Value = value
		return nil
	}
	s.kvs = append(s.kvs, KVPair{})
	copy(s.kvs[i+1:], s.kvs[i:])
	s.kvs[i] = KVPair{Key: key, Value: value}
	return nil
}

func (s *viol2C14v3Store) BatchPut(kvs []KVPair) error {
	for _, kv := range kvs {
		s.Put(kv.Key, kv.Value)
	}
	return nil
}

func (s *viol2C14v3Store) Delete(key []byte) error {
	s.calls++
	if i := s.find(key); i < len(s.kvs) && bytes.Equal(s.kvs[i].Key, key) {
		s.kvs = append(s.kvs[:i], s.kvs[i+1:]...)
	}
	return nil
}

func (s *viol2C14v3Store) BatchDelete(keys [][]byte) error {
	for _, k := range keys {
		s.Delete(k)
	}
	return nil
}

func (s *viol2C14v3Store) Cursor() (Cursor, error) {
	s.calls++
	return &viol2C14v3Cursor{s: s}, nil
}

type viol2C14v3Cursor struct {
	s   *viol2C14v3Store
	idx int
}

func (c *viol2C14v3Cursor) Seek(prefix []byte) error {
	c.s.calls++
	c.idx = c.s.find(prefix)
	return nil
}

func (c *viol2C14v3Cursor) Next() ([]byte, []byte, error) {
	c.s.calls++
	if c.idx >= len(c.s.kvs) {
		return nil, nil, nil
	}
	kv := c.s.kvs[c.idx]
	c.idx++
	return kv.Key, kv.Value, nil
}

func viol2C14v3NewStore() *viol2C14v3Store {
	s := &viol2C14v3Store{}
	s.Put([]byte("k1"), []byte("v1"))
	s.Put([]byte("k2"), []byte("v2"))
	s.calls = 0
	return s
}


func TestViolation3_C14_v3(t *testing.T) {
	for _, q := range []string{
		// a wrong argument count, in the filter
		"select key where lower(key, 'x') = 'k1'",
		// an unknown function, in a select field
		"select nosuchfunc(key) where key ^= 'k'",
		// another statement form
		"remove upper('k1', 'k2')",
	} {
		s := viol2C14v3NewStore()
		plan, err := NewOptimizer(q).BuildPlan(s)
		if err != nil {
			if s.calls != 0 {
				t.Errorf("%q: rejected, but after %d storage calls", q, s.calls)
			}
			continue
		}
		buildCalls := s.calls
		// (what happens instead: the fault is reported by the execution)
		_, xerr := plan.Next(NewExecuteCtx())
		t.Errorf("%q: accepted when the plan was built (%d storage calls so far, %d pairs left in the store); the first Next returned: %v",
			q, buildCalls, len(s.kvs), xerr)
	}
}
