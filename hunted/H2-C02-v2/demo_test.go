package kvql

import (
	"bytes"
	"sort"
	"testing"
)

// A plain sorted in-memory store (cursor starts at the first key, Seek goes to
// the first key >= the given one, Get answers nil for a key that is not stored)
type viol2C02v2Store struct {
	data []KVPair // sorted by key
}

func (s *viol2C02v2Store) Get(key []byte) ([]byte, error) {
	for _, kv := range s.data {
		if bytes.Equal(kv.Key, key) {
			return kv.Value, nil
		}
	}
	return nil, nil
}
func (s *viol2C02v2Store) Put(key []byte, value []byte) error {
	s.Delete(key)
	s.data = append(s.data, NewKVP(key, value))
	sort.Slice(s.data, func(i, j int) bool { return bytes.Compare(s.data[i].Key, s.data[j].Key) < 0 })
	return nil
}
func (s *viol2C02v2Store) BatchPut(kvs []KVPair) error {
	for _, kv := range kvs {
		s.Put(kv.Key, kv.Value)
	}
	return nil
}
func (s *viol2C02v2Store) Delete(key []byte) error {
	for i, kv := range s.data {
		if bytes.Equal(kv.Key, key) {
			s.data = append(append([]KVPair{}, s.data[:i]...), s.data[i+1:]...)
			return nil
		}
	}
	return nil
}
func (s *viol2C02v2Store) BatchDelete(keys [][]byte) error {
	for _, k := range keys {
		s.Delete(k)
	}
	return nil
}
func (s *viol2C02v2Store) Cursor() (Cursor, error) {
	return &viol2C02v2Cursor{data: s.data}, nil
}

type viol2C02v2Cursor struct {
	data []KVPair
	idx  int
}

func (c *viol2C02v2Cursor) Seek(key []byte) error {
	c.idx = 0
	for c.idx < len(c.data) && bytes.Compare(c.data[c.idx].Key, key) < 0 {
		c.idx++
	}
	return nil
}

func (c *viol2C02v2Cursor) Next() ([]byte, []byte, error) {
	if c.idx >= len(c.data) {
		return nil, nil, nil
	}
	kv := c.data[c.idx]
	c.idx++
	return kv.Key, kv.Value, nil
}

// runs a delete statement on a fresh store {a, b} and gives back what the
// statement returned (its Rows column) and the keys left in the store
func viol2C02v2Delete(t *testing.T, query string) (int, string) {
	s := &viol2C02v2Store{data: []KVPair{NewKVPStr("a", "1"), NewKVPStr("b", "2")}}
	plan, err := NewOptimizer(query).BuildPlan(s)
	if err != nil {
		t.Fatalf("%s: %v", query, err)
	}
	cols, err := plan.Next(NewExecuteCtx())
	if err != nil {
		t.Fatalf("%s: %v", query, err)
	}
	left := ""
	for _, kv := range s.data {
		left += string(kv.Key)
	}
	return cols[0].(int), left
}

func TestViolation2_C02_v2(t *testing.T) {
	// Reference: the same clauses evaluated pair by pair on a full scan (the
	// or-ed value test matches no pair, it only keeps the planner from
	// narrowing). No stored key is named: nothing is deleted, 0 rows.
	n, left := viol2C02v2Delete(t, "delete where key = 'nope' | value = 'none'")
	if n != 0 || left != "ab" {
		t.Fatalf("full scan: expect 0 rows and ab left, got %d rows and %q left", n, left)
	}
	n, left = viol2C02v2Delete(t, "delete where key in ('a', 'x', 'y') | value = 'none'")
	if n != 1 || left != "b" {
		t.Fatalf("full scan: expect 1 row and b left, got %d rows and %q left", n, left)
	}
	// Point reads with a residual filter agree with it
	n, left = viol2C02v2Delete(t, "delete where key in ('a', 'x', 'y') & value != 'none'")
	if n != 1 || left != "b" {
		t.Fatalf("point reads: expect 1 row and b left, got %d rows and %q left", n, left)
	}

	// The narrowed statements
	n, left = viol2C02v2Delete(t, "delete where key = 'nope'")
	if n != 0 || left != "ab" {
		t.Errorf("delete where key = 'nope': expect 0 rows and ab left, got %d rows and %q left", n, left)
	}
	n, left = viol2C02v2Delete(t, "delete where key in ('a', 'x', 'y')")
	if n != 1 || left != "b" {
		t.Errorf("delete where key in ('a', 'x', 'y'): expect 1 row and b left, got %d rows and %q left", n, left)
	}
}
