package kvql

import (
	"bytes"
	"sort"
	"testing"
)

// Minimal in-memory sorted storage that counts every storage call.
type violC14v3Store struct {
	kvs   []KVPair
	calls int
}

func (s *violC14v3Store) find(key []byte) int {
	return sort.Search(len(s.kvs), func(i int) bool { return bytes.Compare(s.kvs[i].Key, key) >= 0 })
}

func (s *violC14v3Store) Get(key []byte) ([]byte, error) {
	s.calls++
	if i := s.find(key); i < len(s.kvs) && bytes.Equal(s.kvs[i].Key, key) {
		return s.kvs[i].Value, nil
	}
	return nil, nil
}

func (s *violC14v3Store) Put(key []byte, value []byte) error {
	s.calls++
	i := s.find(key)
	if i < len(s.kvs) && bytes.Equal(s.kvs[i].Key, key) {
		s.kvs[i].Value = value
		return nil
	}
	s.kvs = append(s.kvs, KVPair{})
	copy(s.kvs[i+1:], s.kvs[i:])
	s.kvs[i] = KVPair{Key: key, Value: value}
	return nil
}

func (s *violC14v3Store) BatchPut(kvs []KVPair) error {
	for _, kv := range kvs {
		s.Put(kv.Key, kv.Value)
	}
	return nil
}

func (s *violC14v3Store) Delete(key []byte) error {
	s.calls++
	if i := s.find(key); i < len(s.kvs) && bytes.Equal(s.kvs[i].Key, key) {
		s.kvs = append(s.kvs[:i], s.kvs[i+1:]...)
	}
	return nil
}

func (s *violC14v3Store) BatchDelete(keys [][]byte) error {
	for _, k := range keys {
		s.Delete(k)
	}
	return nil
}

func (s *violC14v3Store) Cursor() (Cursor, error) {
	s.calls++
	return &violC14v3Cursor{s: s}, nil
}

type violC14v3Cursor struct {
	s   *violC14v3Store
	pos int
}

func (c *violC14v3Cursor) Seek(prefix []byte) error {
	c.s.calls++
	c.pos = c.s.find(prefix)
	return nil
}

func (c *violC14v3Cursor) Next() ([]byte, []byte, error) {
	c.s.calls++
	if c.pos >= len(c.s.kvs) {
		return nil, nil, nil
	}
	kv := c.s.kvs[c.pos]
	c.pos++
	return kv.Key, kv.Value, nil
}

// `<number> in <function returning a list>` passes the type checker whatever
// the list holds. With a list of strings the element comparison has
// incomparable operands: row mode treats that as "not in the list", batch mode
// fails with an operand-type error.
func TestViolation_C14_v3(t *testing.T) {
	query := "where int(value) in split(value, ',')"

	// Row mode
	store := &violC14v3Store{kvs: []KVPair{NewKVPStr("k1", "10")}}
	plan, err := NewOptimizer(query).BuildPlan(store)
	if err != nil {
		// Rejecting the statement statically would be fine too, as long as
		// the storage was not touched.
		if store.calls != 0 {
			t.Fatalf("%q: rejected (%v) but after %d storage calls", query, err, store.calls)
		}
		return
	}
	nrows := 0
	ctx := NewExecuteCtx()
	for {
		row, err := plan.Next(ctx)
		if err != nil {
			t.Fatalf("%q: accepted by the type checker but Next fails: %v", query, err)
		}
		if row == nil {
			break
		}
		nrows++
	}

	// Batch mode, same statement, same data
	store = &violC14v3Store{kvs: []KVPair{NewKVPStr("k1", "10")}}
	plan, err = NewOptimizer(query).BuildPlan(store)
	if err != nil {
		t.Fatalf("%q: second build failed: %v", query, err)
	}
	nbatch := 0
	ctx = NewExecuteCtx()
	for {
		rows, err := plan.Batch(ctx)
		if err != nil {
			t.Fatalf("%q: accepted by the type checker and Next returned %d rows without error, but Batch fails with an operand-type error: %v",
				query, nrows, err)
		}
		if len(rows) == 0 {
			break
		}
		nbatch += len(rows)
	}
	if nbatch != nrows {
		t.Fatalf("%q: Next returned %d rows, Batch %d", query, nrows, nbatch)
	}
}
