package kvql

import (
	"bytes"
	"fmt"
	"sort"
	"testing"
)

// Every key has the empty prefix, so the predicate is just key = '' | key >= 'b':
// both stored pairs satisfy it. The scan-range optimizer turns the query into a
// point read of the empty key and nothing is returned.

// violC01v2Store is a minimal in-memory Storage whose cursor yields the
// pairs in ascending byte-wise key order.
type violC01v2Store struct {
	kvs []KVPair
}

func violC01v2NewStore(pairs ...string) *violC01v2Store {
	s := &violC01v2Store{}
	for i := 0; i+1 < len(pairs); i += 2 {
		s.kvs = append(s.kvs, NewKVPStr(pairs[i], pairs[i+1]))
	}
	sort.Slice(s.kvs, func(a, b int) bool { return bytes.Compare(s.kvs[a].Key, s.kvs[b].Key) < 0 })
	return s
}

func (s *violC01v2Store) Get(key []byte) ([]byte, error) {
	for _, kv := range s.kvs {
		if bytes.Equal(kv.Key, key) {
			return kv.Value, nil
		}
	}
	return nil, nil
}
func (s *violC01v2Store) Put(key []byte, value []byte) error { return nil }
func (s *violC01v2Store) BatchPut(kvs []KVPair) error        { return nil }
func (s *violC01v2Store) Delete(key []byte) error            { return nil }
func (s *violC01v2Store) BatchDelete(keys [][]byte) error    { return nil }
func (s *violC01v2Store) Cursor() (Cursor, error) {
	return &violC01v2Cursor{s: s}, nil
}

type violC01v2Cursor struct {
	s   *violC01v2Store
	idx int
}

func (c *violC01v2Cursor) Seek(prefix []byte) error {
	c.idx = sort.Search(len(c.s.kvs), func(i int) bool { return bytes.Compare(c.s.kvs[i].Key, prefix) >= 0 })
	return nil
}

func (c *violC01v2Cursor) Next() ([]byte, []byte, error) {
	if c.idx >= len(c.s.kvs) {
		return nil, nil, nil
	}
	kv := c.s.kvs[c.idx]
	c.idx++
	return kv.Key, kv.Value, nil
}

// violC01v2Run executes the query row by row (batch == false) or in batches
// and renders the returned rows as "key=value;".
func violC01v2Run(s Storage, query string, batch bool) (string, error) {
	plan, err := NewOptimizer(query).BuildPlan(s)
	if err != nil {
		return "", err
	}
	ctx := NewExecuteCtx()
	out := ""
	for {
		var rows [][]Column
		if batch {
			rows, err = plan.Batch(ctx)
		} else {
			var row []Column
			row, err = plan.Next(ctx)
			if row != nil {
				rows = [][]Column{row}
			}
		}
		if err != nil {
			return out, err
		}
		if len(rows) == 0 {
			return out, nil
		}
		for _, cols := range rows {
			out += fmt.Sprintf("%s=%s;", cols[0], cols[1])
		}
	}
}

func TestViolation_C01_v2(t *testing.T) {
	store := violC01v2NewStore("b", "1", "c", "2")
	query := "select * where (key = '' | key >= 'b') & key ^= ''"
	want := "b=1;c=2;"
	for _, batch := range []bool{false, true} {
		got, err := violC01v2Run(store, query, batch)
		if err != nil {
			t.Errorf("batch=%v: %s: unexpected error: %v", batch, query, err)
			continue
		}
		if got != want {
			t.Errorf("batch=%v: %s: got rows %q, want %q", batch, query, got, want)
		}
	}
}
