package kvql

import (
	"strings"
	"testing"
)

func TestViolation_C17_v2(t *testing.T) {
	for _, lead := range []string{"  \n", " \t", "\n \r\n"} {
		// `select` without fields: the error is reported at the select keyword
		query := lead + "select where key = 'k1'"
		_, err := NewParser(query).Parse()
		if err == nil {
			t.Fatalf("query %q: expected an error", query)
		}
		serr, ok := err.(*SyntaxError)
		if !ok {
			t.Fatalf("query %q: expected *SyntaxError, got %T", query, err)
		}
		if !strings.Contains(serr.Message, "Empty fields in select statement") {
			t.Fatalf("query %q: unexpected error %q", query, serr.Message)
		}
		tokStart := strings.Index(query, "select")
		if serr.Pos != 0 && serr.Pos != tokStart {
			t.Errorf("query %q: offset %d (character %q) is neither 0 nor the start of the token `select` (%d)",
				query, serr.Pos, query[serr.Pos], tokStart)
		}
	}
}
