package kvql

import (
	"bytes"
	"fmt"
	"sort"
	"testing"
)

// A plain in-memory Storage: the pairs are kept sorted by key (byte-wise),
// a new cursor stands on the first pair, Seek moves to the first key >= the
// given one.
type viol2C01v1Storage struct{ data []KVPair }

func viol2C01v1NewStorage(pairs ...[2]string) *viol2C01v1Storage {
	s := &viol2C01v1Storage{}
	for _, p := range pairs {
		s.data = append(s.data, KVPair{Key: []byte(p[0]), Value: []byte(p[1])})
	}
	sort.Slice(s.data, func(i, j int) bool { return bytes.Compare(s.data[i].Key, s.data[j].Key) < 0 })
	return s
}

func (s *viol2C01v1Storage) Get(key []byte) ([]byte, error) {
	for _, kv := range s.data {
		if bytes.Equal(kv.Key, key) {
			return append([]byte{}, kv.Value...), nil
		}
	}
	return nil, nil
}
func (s *viol2C01v1Storage) Put(key []byte, value []byte) error { return nil }
func (s *viol2C01v1Storage) BatchPut(kvs []KVPair) error        { return nil }
func (s *viol2C01v1Storage) Delete(key []byte) error            { return nil }
func (s *viol2C01v1Storage) BatchDelete(keys [][]byte) error    { return nil }
func (s *viol2C01v1Storage) Cursor() (Cursor, error)            { return &viol2C01v1Cursor{s: s}, nil }

type viol2C01v1Cursor struct {
	s   *viol2C01v1Storage
	idx int
}

func (c *viol2C01v1Cursor) Seek(key []byte) error {
	c.idx = sort.Search(len(c.s.data), func(i int) bool { return bytes.Compare(c.s.data[i].Key, key) >= 0 })
	return nil
}

func (c *viol2C01v1Cursor) Next() ([]byte, []byte, error) {
	if c.idx >= len(c.s.data) {
		return nil, nil, nil
	}
	kv := c.s.data[c.idx]
	c.idx++
	return append([]byte{}, kv.Key...), append([]byte{}, kv.Value...), nil
}

// viol2C01v1Run runs the query to the end, with Next (batch == false) or with Batch
func viol2C01v1Run(s Storage, query string, batch bool) ([]string, error) {
	plan, err := NewOptimizer(query).BuildPlan(s)
	if err != nil {
		return nil, fmt.Errorf("build: %v", err)
	}
	ctx := NewExecuteCtx()
	rows := []string{}
	for {
		if batch {
			chunk, err := plan.Batch(ctx)
			if err != nil {
				return rows, err
			}
			if len(chunk) == 0 {
				return rows, nil
			}
			for _, r := range chunk {
				rows = append(rows, fmt.Sprintf("%q=%q", r[0], r[1]))
			}
		} else {
			r, err := plan.Next(ctx)
			if err != nil {
				return rows, err
			}
			if r == nil {
				return rows, nil
			}
			rows = append(rows, fmt.Sprintf("%q=%q", r[0], r[1]))
		}
	}
}

// BETWEEN x AND y is documented as ">= x and <= y". With the boundaries
// key .. 'k5' the pair k9=k3 has a lower boundary above the upper one: nothing
// lies between them, the predicate is false on that pair and true on k1=k3.
func TestViolation2_C01_v1(t *testing.T) {
	s := viol2C01v1NewStorage([2]string{"k1", "k3"}, [2]string{"k9", "k3"})
	query := "select * where value between key and 'k5'"
	want := fmt.Sprint([]string{`"k1"="k3"`})
	for _, batch := range []bool{false, true} {
		got, err := viol2C01v1Run(s, query, batch)
		if err != nil {
			t.Errorf("batch=%v: %s: expected rows %s, got error: %v", batch, query, want, err)
			continue
		}
		if fmt.Sprint(got) != want {
			t.Errorf("batch=%v: %s: expected rows %s, got %v", batch, query, want, got)
		}
	}
}
