package kvql

import "testing"

// A word keeps its own bytes (only letter case is folded). A byte that is not
// valid UTF-8 is not a letter: it must come through unchanged, and two words
// that differ in such a byte must stay different.
func TestViolation3_C16_v1(t *testing.T) {
	// 1. the token does not carry the text found at its offset
	query := "where n\xffm = 'x'"
	toks := NewLexer(query).Split()
	if len(toks) != 4 {
		t.Fatalf("expected 4 tokens, got %d", len(toks))
	}
	viol2C16v1tok := toks[1]
	if viol2C16v1tok.Tp != NAME || viol2C16v1tok.Pos != 6 {
		t.Fatalf("expected NAME at 6, got %s", viol2C16v1tok.String())
	}
	want := query[6:9] // "n\xffm", 3 bytes, nothing to case-fold
	if viol2C16v1tok.Data != want {
		t.Errorf("token at offset 6: expected text %q (%d bytes), got %q (%d bytes)",
			want, len(want), viol2C16v1tok.Data, len(viol2C16v1tok.Data))
	}

	// 2. two different words become the same token text
	a := NewLexer("n\xfe").Split()[0].Data
	b := NewLexer("n\xff").Split()[0].Data
	if a == b {
		t.Errorf("words %q and %q are different, both tokens carry %q", "n\xfe", "n\xff", a)
	}

	// 3. the same name written between backticks is kept byte for byte, so
	// the bare word and the quoted name no longer agree; and the parser takes
	// `order by n\xff` for the alias n\xfe
	p := NewParser("select key as n\xfe where true order by n\xff")
	if _, err := p.Parse(); err == nil {
		t.Errorf("order by n\\xff was resolved to the field named n\\xfe: expected `Cannot find field`")
	}
}
