package kvql

import (
	"bytes"
	"math"
	"sort"
	"testing"
)

// Minimal in-memory sorted storage.
type violC10v2Store struct{ data []KVPair }

func (s *violC10v2Store) Get(key []byte) ([]byte, error) {
	for _, kv := range s.data {
		if bytes.Equal(kv.Key, key) {
			return kv.Value, nil
		}
	}
	return nil, nil
}
func (s *violC10v2Store) Put(k, v []byte) error        { return nil }
func (s *violC10v2Store) BatchPut(kvs []KVPair) error  { return nil }
func (s *violC10v2Store) Delete(k []byte) error        { return nil }
func (s *violC10v2Store) BatchDelete(k [][]byte) error { return nil }
func (s *violC10v2Store) Cursor() (Cursor, error)      { return &violC10v2Cursor{s: s}, nil }

type violC10v2Cursor struct {
	s   *violC10v2Store
	idx int
}

func (c *violC10v2Cursor) Seek(prefix []byte) error {
	c.idx = sort.Search(len(c.s.data), func(i int) bool {
		return bytes.Compare(c.s.data[i].Key, prefix) >= 0
	})
	return nil
}

func (c *violC10v2Cursor) Next() ([]byte, []byte, error) {
	if c.idx >= len(c.s.data) {
		return nil, nil, nil
	}
	kv := c.s.data[c.idx]
	c.idx++
	return kv.Key, kv.Value, nil
}

// A JSON array is a list value: len() counts it and [n] indexes it. The distance
// functions however refuse it ("Cannot convert to float list"), although the
// README's own example feeds json(...) to l2_distance.
//   l2_distance([3,4], (0,0))     = sqrt(9+16)            = 5
//   cosine_distance([3,4], (4,3)) = 1 - 24/(5*5)          = 0.04
func TestViolation_C10_v2(t *testing.T) {
	store := &violC10v2Store{data: []KVPair{
		NewKVPStr("k", `{"v":[3,4]}`),
	}}
	query := "select len(json(value)['v']), json(value)['v'][1], " +
		"l2_distance(json(value)['v'], list(0, 0)), " +
		"cosine_distance(json(value)['v'], list(4, 3)) where key >= 'k'"

	check := func(mode string, row []Column) {
		if n, ok := row[0].(int); !ok || n != 2 {
			t.Errorf("%s: len of the JSON array = %v, want 2", mode, row[0])
		}
		if e, ok := row[1].(float64); !ok || e != 4 {
			t.Errorf("%s: element 1 of the JSON array = %v, want 4", mode, row[1])
		}
		if d, ok := row[2].(float64); !ok || d != 5 {
			t.Errorf("%s: l2_distance = %v, want 5", mode, row[2])
		}
		if d, ok := row[3].(float64); !ok || math.Abs(d-0.04) > 1e-12 {
			t.Errorf("%s: cosine_distance = %v, want 0.04", mode, row[3])
		}
	}

	// row mode
	plan, err := NewOptimizer(query).BuildPlan(store)
	if err != nil {
		t.Fatal(err)
	}
	row, err := plan.Next(NewExecuteCtx())
	if err != nil {
		t.Errorf("row mode: distance over a JSON array failed: %v", err)
	} else if row == nil {
		t.Errorf("row mode: no row")
	} else {
		check("row mode", row)
	}

	// batch mode
	plan, err = NewOptimizer(query).BuildPlan(store)
	if err != nil {
		t.Fatal(err)
	}
	rows, err := plan.Batch(NewExecuteCtx())
	if err != nil {
		t.Errorf("batch mode: distance over a JSON array failed: %v", err)
	} else if len(rows) != 1 {
		t.Errorf("batch mode: %d rows, want 1", len(rows))
	} else {
		check("batch mode", rows[0])
	}
}
