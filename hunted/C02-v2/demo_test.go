package kvql

import (
	"reflect"
	"sort"
	"testing"
)

// Minimal sorted in-memory storage.
type violC02v2Store struct {
	keys []string
	vals map[string]string
}

func violC02v2NewStore(kvs map[string]string) *violC02v2Store {
	s := &violC02v2Store{vals: kvs}
	for k := range kvs {
		s.keys = append(s.keys, k)
	}
	sort.Strings(s.keys)
	return s
}

func (s *violC02v2Store) Get(key []byte) ([]byte, error) {
	v, ok := s.vals[string(key)]
	if !ok {
		return nil, nil
	}
	return []byte(v), nil
}
func (s *violC02v2Store) Put(key []byte, value []byte) error { return nil }
func (s *violC02v2Store) BatchPut(kvs []KVPair) error        { return nil }
func (s *violC02v2Store) Delete(key []byte) error            { return nil }
func (s *violC02v2Store) BatchDelete(keys [][]byte) error    { return nil }
func (s *violC02v2Store) Cursor() (Cursor, error)            { return &violC02v2Cursor{s: s}, nil }

type violC02v2Cursor struct {
	s   *violC02v2Store
	idx int
}

// Seek positions the cursor on the first key >= the argument.
func (c *violC02v2Cursor) Seek(key []byte) error {
	c.idx = sort.SearchStrings(c.s.keys, string(key))
	return nil
}

func (c *violC02v2Cursor) Next() ([]byte, []byte, error) {
	if c.idx >= len(c.s.keys) {
		return nil, nil, nil
	}
	k := c.s.keys[c.idx]
	c.idx++
	return []byte(k), []byte(c.s.vals[k]), nil
}

func TestViolation_C02_v2(t *testing.T) {
	store := violC02v2NewStore(map[string]string{"a": "v0", "ab": "v1", "abc": "v2"})
	// Every stored key has the prefix 'a', so the left operand of `|` is true for
	// every pair and the (ill-ordered) BETWEEN on the right is never evaluated:
	// filtering pair by pair keeps all three keys, without any error.
	query := "select key where key ^= 'a' | key between 'z' and 'a'"

	// Reference: the same WHERE clause evaluated pair by pair over every stored key.
	stmt, err := NewParser(query).Parse()
	if err != nil {
		t.Fatal(err)
	}
	filter := &FilterExec{Ast: stmt.(*SelectStmt).Where}
	want := []string{}
	for _, k := range store.keys {
		ok, err := filter.Filter(NewKVP([]byte(k), []byte(store.vals[k])), NewExecuteCtx())
		if err != nil {
			t.Fatal(err)
		}
		if ok {
			want = append(want, k)
		}
	}
	if !reflect.DeepEqual(want, []string{"a", "ab", "abc"}) {
		t.Fatalf("reference filter is wrong: %q", want)
	}

	plan, err := NewOptimizer(query).BuildPlan(store)
	if err != nil {
		t.Fatal(err)
	}
	ctx := NewExecuteCtx()
	got := []string{}
	for {
		cols, err := plan.Next(ctx)
		if err != nil {
			t.Fatal(err)
		}
		if cols == nil {
			break
		}
		got = append(got, string(cols[0].([]byte)))
	}
	if !reflect.DeepEqual(got, want) {
		t.Fatalf("query %q\n want keys %q\n got keys  %q\n plan %v", query, want, got, plan.Explain())
	}
}
