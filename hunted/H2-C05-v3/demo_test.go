package kvql

import (
	"bytes"
	"fmt"
	"sort"
	"testing"
)

// minimal in-memory sorted storage

type viol2C05v3Store struct{ kvs []KVPair }

func viol2C05v3NewStore(kvs []KVPair) *viol2C05v3Store {
	s := &viol2C05v3Store{kvs: append([]KVPair{}, kvs...)}
	sort.Slice(s.kvs, func(i, j int) bool { return bytes.Compare(s.kvs[i].Key, s.kvs[j].Key) < 0 })
	return s
}

func (s *viol2C05v3Store) Get(key []byte) ([]byte, error) {
	for _, kv := range s.kvs {
		if bytes.Equal(kv.Key, key) {
			return kv.Value, nil
		}
	}
	return nil, nil
}
func (s *viol2C05v3Store) Put(k, v []byte) error           { return nil }
func (s *viol2C05v3Store) BatchPut(kvs []KVPair) error     { return nil }
func (s *viol2C05v3Store) Delete(k []byte) error           { return nil }
func (s *viol2C05v3Store) BatchDelete(keys [][]byte) error { return nil }
func (s *viol2C05v3Store) Cursor() (Cursor, error)         { return &viol2C05v3Cursor{s: s}, nil }

type viol2C05v3Cursor struct {
	s   *viol2C05v3Store
	idx int
}

func (c *viol2C05v3Cursor) Seek(p []byte) error {
	c.idx = sort.Search(len(c.s.kvs), func(i int) bool { return bytes.Compare(c.s.kvs[i].Key, p) >= 0 })
	return nil
}

func (c *viol2C05v3Cursor) Next() ([]byte, []byte, error) {
	if c.idx >= len(c.s.kvs) {
		return nil, nil, nil
	}
	kv := c.s.kvs[c.idx]
	c.idx++
	return kv.Key, kv.Value, nil
}

func viol2C05v3Poll(plan FinalPlan, ctx *ExecuteCtx) (string, error) {
	out := fmt.Sprintf("%v", plan.FieldNameList())
	for {
		rows, err := plan.Batch(ctx)
		if err != nil {
			return out, err
		}
		if len(rows) == 0 {
			return out, nil
		}
		for _, row := range rows {
			out += " ["
			for i, col := range row {
				if i > 0 {
					out += " "
				}
				switch v := col.(type) {
				case []byte:
					out += string(v)
				default:
					out += fmt.Sprintf("%v", v)
				}
			}
			out += "]"
		}
	}
}

// Two statements are run one after the other in batch mode with the same
// execution context, each polled until it returns no more rows. The second one
// must return the same rows with the field cache switched on as with the cache
// switched off.
func viol2C05v3TwoStatements(t *testing.T, cache bool) string {
	s := viol2C05v3NewStore([]KVPair{
		NewKVPStr("k1", "5"), NewKVPStr("k2", "x"), NewKVPStr("k3", "7"), NewKVPStr("k4", "5"),
	})
	ctx := NewExecuteCtx()
	ctx.EnableCache = cache

	first, err := NewOptimizer("select key as a, upper(a) as b where key ^= 'k' limit 1").BuildPlan(s)
	if err != nil {
		t.Fatal(err)
	}
	got, err := viol2C05v3Poll(first, ctx)
	if err != nil || got != "[a b] [k1 K1]" {
		t.Fatalf("cache=%v: first statement: got %q, err %v", cache, got, err)
	}

	second, err := NewOptimizer("select value as a, count(1) as c where a = '5' group by a").BuildPlan(s)
	if err != nil {
		t.Fatal(err)
	}
	got, err = viol2C05v3Poll(second, ctx)
	if err != nil {
		t.Fatalf("cache=%v: second statement: %v", cache, err)
	}
	return got
}

func TestViolation2_C05_v3(t *testing.T) {
	const want = "[a c] [5 2]"
	off := viol2C05v3TwoStatements(t, false)
	if off != want {
		t.Fatalf("cache off: got %q, want %q", off, want)
	}
	on := viol2C05v3TwoStatements(t, true)
	if on != want {
		t.Errorf("cache on: got %q, want %q (as with the cache off): the filter a = '5' was evaluated on the column that the first statement cached under the name a", on, want)
	}
}
