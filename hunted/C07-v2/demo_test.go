package kvql

import (
	"bytes"
	"fmt"
	"sort"
	"testing"
)

// ---- minimal in-memory sorted storage -------------------------------------

type violC07v2Store struct {
	kvs []KVPair
}

func violC07v2NewStore(pairs ...string) *violC07v2Store {
	s := &violC07v2Store{}
	for i := 0; i+1 < len(pairs); i += 2 {
		s.kvs = append(s.kvs, NewKVPStr(pairs[i], pairs[i+1]))
	}
	sort.Slice(s.kvs, func(i, j int) bool { return bytes.Compare(s.kvs[i].Key, s.kvs[j].Key) < 0 })
	return s
}

func (s *violC07v2Store) Get(key []byte) ([]byte, error) {
	for _, kv := range s.kvs {
		if bytes.Equal(kv.Key, key) {
			return kv.Value, nil
		}
	}
	return nil, nil
}
func (s *violC07v2Store) Put(key []byte, value []byte) error { return nil }
func (s *violC07v2Store) BatchPut(kvs []KVPair) error         { return nil }
func (s *violC07v2Store) Delete(key []byte) error             { return nil }
func (s *violC07v2Store) BatchDelete(keys [][]byte) error     { return nil }
func (s *violC07v2Store) Cursor() (Cursor, error)             { return &violC07v2Cursor{s: s}, nil }

type violC07v2Cursor struct {
	s   *violC07v2Store
	idx int
}

func (c *violC07v2Cursor) Seek(prefix []byte) error {
	c.idx = sort.Search(len(c.s.kvs), func(i int) bool { return bytes.Compare(c.s.kvs[i].Key, prefix) >= 0 })
	return nil
}

func (c *violC07v2Cursor) Next() ([]byte, []byte, error) {
	if c.idx >= len(c.s.kvs) {
		return nil, nil, nil
	}
	kv := c.s.kvs[c.idx]
	c.idx++
	return kv.Key, kv.Value, nil
}

// violC07v2Col renders one column independent of its Go representation
func violC07v2Col(c Column) string {
	switch v := c.(type) {
	case []byte:
		return string(v)
	default:
		return fmt.Sprintf("%v", v)
	}
}

// violC07v2Run executes the query in row mode (Next) or batch mode (Batch) and
// returns every row rendered as "col|col|..."
func violC07v2Run(t *testing.T, s Storage, query string, batch bool) []string {
	t.Helper()
	plan, err := NewOptimizer(query).BuildPlan(s)
	if err != nil {
		t.Fatalf("build plan for %q: %v", query, err)
	}
	ctx := NewExecuteCtx()
	var rows [][]Column
	for {
		if batch {
			rs, err := plan.Batch(ctx)
			if err != nil {
				t.Fatalf("batch %q: %v", query, err)
			}
			if len(rs) == 0 {
				break
			}
			rows = append(rows, rs...)
		} else {
			r, err := plan.Next(ctx)
			if err != nil {
				t.Fatalf("next %q: %v", query, err)
			}
			if r == nil {
				break
			}
			rows = append(rows, r)
		}
	}
	ret := make([]string, 0, len(rows))
	for _, r := range rows {
		line := ""
		for i, c := range r {
			if i > 0 {
				line += "|"
			}
			line += violC07v2Col(c)
		}
		ret = append(ret, line)
	}
	return ret
}

func violC07v2SameMultiset(a, b []string) bool {
	if len(a) != len(b) {
		return false
	}
	ac := append([]string{}, a...)
	bc := append([]string{}, b...)
	sort.Strings(ac)
	sort.Strings(bc)
	for i := range ac {
		if ac[i] != bc[i] {
			return false
		}
	}
	return true
}

// ORDER BY on a text expression built from an alias (`v + '!'`, v being an
// alias of a text field) must order the text byte-wise.
func TestViolation_C07_v2(t *testing.T) {
	store := violC07v2NewStore(
		"k1", "pear",
		"k2", "apple",
		"k3", "fig",
	)
	base := "select key, value as v, v + '!' as w where key > ''"
	query := base + " order by w asc"
	want := []string{"k2|apple|apple!", "k3|fig|fig!", "k1|pear|pear!"}
	for _, batch := range []bool{false, true} {
		unordered := violC07v2Run(t, store, base, batch)
		got := violC07v2Run(t, store, query, batch)
		if !violC07v2SameMultiset(unordered, got) {
			t.Errorf("batch=%v: ordered result %v is not a permutation of the unordered result %v", batch, got, unordered)
		}
		if fmt.Sprint(got) != fmt.Sprint(want) {
			t.Errorf("batch=%v: %q\n  got  %v\n  want %v (w non-decreasing byte-wise)", batch, query, got, want)
		}
	}
}
