package kvql

import (
	"bytes"
	"strings"
	"testing"
)

// A sorted in-memory store whose cursor is not positioned until Seek is
// called, exactly like the cursor of the library's own reference storage
// (examples/memkv/memkv.go: index -1 until Seek). Seek(k) goes to the first
// key >= k.
type viol2C02v1Store struct {
	data []KVPair // sorted by key
}

func (s *viol2C02v1Store) Get(key []byte) ([]byte, error) {
	for _, kv := range s.data {
		if bytes.Equal(kv.Key, key) {
			return kv.Value, nil
		}
	}
	return nil, nil
}
func (s *viol2C02v1Store) Put(key []byte, value []byte) error { return nil }
func (s *viol2C02v1Store) BatchPut(kvs []KVPair) error        { return nil }
func (s *viol2C02v1Store) Delete(key []byte) error            { return nil }
func (s *viol2C02v1Store) BatchDelete(keys [][]byte) error    { return nil }
func (s *viol2C02v1Store) Cursor() (Cursor, error) {
	return &viol2C02v1Cursor{data: s.data, idx: -1}, nil
}

type viol2C02v1Cursor struct {
	data []KVPair
	idx  int // -1: not positioned yet
}

func (c *viol2C02v1Cursor) Seek(key []byte) error {
	c.idx = 0
	for c.idx < len(c.data) && bytes.Compare(c.data[c.idx].Key, key) < 0 {
		c.idx++
	}
	return nil
}

func (c *viol2C02v1Cursor) Next() ([]byte, []byte, error) {
	if c.idx < 0 || c.idx >= len(c.data) {
		return nil, nil, nil
	}
	kv := c.data[c.idx]
	c.idx++
	return kv.Key, kv.Value, nil
}

func viol2C02v1Keys(t *testing.T, s Storage, query string) string {
	plan, err := NewOptimizer(query).BuildPlan(s)
	if err != nil {
		t.Fatalf("%s: %v", query, err)
	}
	ctx := NewExecuteCtx()
	keys := []string{}
	for {
		cols, err := plan.Next(ctx)
		if err != nil {
			t.Fatalf("%s: %v", query, err)
		}
		if cols == nil {
			break
		}
		keys = append(keys, string(cols[0].([]byte)))
	}
	return strings.Join(keys, ",")
}

func TestViolation2_C02_v1(t *testing.T) {
	s := &viol2C02v1Store{data: []KVPair{
		NewKVPStr("a", "1"), NewKVPStr("b", "2"), NewKVPStr("c", "3"),
	}}
	// The same clause through a full scan (the or-ed value test matches no
	// pair, it only keeps the planner from narrowing): a and b
	full := viol2C02v1Keys(t, s, "select key, value where key < 'c' | value = 'none'")
	if full != "a,b" {
		t.Fatalf("full scan: expect a,b got %q", full)
	}
	// The other narrowed paths read this store properly
	if got := viol2C02v1Keys(t, s, "select key, value where key ^= 'b'"); got != "b" {
		t.Fatalf("prefix scan: expect b got %q", got)
	}
	if got := viol2C02v1Keys(t, s, "select key, value where key >= 'b'"); got != "b,c" {
		t.Fatalf("range scan with a start: expect b,c got %q", got)
	}
	// The range scan that is open below reads nothing at all
	for _, q := range []string{
		"select key, value where key < 'c'",
		"select key, value where key <= 'b'",
		"select key, value where 'c' > key",
	} {
		if got := viol2C02v1Keys(t, s, q); got != full {
			t.Errorf("%s: expect %q (as the full scan), got %q", q, full, got)
		}
	}
}
