package kvql

import (
	"sort"
	"testing"
)

// Minimal sorted in-memory storage.
type viol2C02v2Store struct {
	keys []string
	vals map[string][]byte
}

func viol2C02v2NewStore(kvs map[string]string) *viol2C02v2Store {
	s := &viol2C02v2Store{vals: map[string][]byte{}}
	for k, v := range kvs {
		s.keys = append(s.keys, k)
		s.vals[k] = []byte(v)
	}
	sort.Strings(s.keys)
	return s
}

func (s *viol2C02v2Store) Get(key []byte) ([]byte, error) {
	v, ok := s.vals[string(key)]
	if !ok {
		return nil, nil
	}
	return v, nil
}

func (s *viol2C02v2Store) Put(key []byte, value []byte) error {
	if _, ok := s.vals[string(key)]; !ok {
		s.keys = append(s.keys, string(key))
		sort.Strings(s.keys)
	}
	s.vals[string(key)] = value
	return nil
}

func (s *viol2C02v2Store) BatchPut(kvs []KVPair) error {
	for _, kv := range kvs {
		s.Put(kv.Key, kv.Value)
	}
	return nil
}

func (s *viol2C02v2Store) Delete(key []byte) error {
	if _, ok := s.vals[string(key)]; !ok {
		return nil
	}
	delete(s.vals, string(key))
	i := sort.SearchStrings(s.keys, string(key))
	s.keys = append(s.keys[:i:i], s.keys[i+1:]...)
	return nil
}

func (s *viol2C02v2Store) BatchDelete(keys [][]byte) error {
	for _, k := range keys {
		s.Delete(k)
	}
	return nil
}

func (s *viol2C02v2Store) Cursor() (Cursor, error) {
	return &viol2C02v2Cursor{s: s}, nil
}

// The cursor remembers the last key it returned, so it is not disturbed by
// deletes between two calls.
type viol2C02v2Cursor struct {
	s    *viol2C02v2Store
	from string
	incl bool
}

func (c *viol2C02v2Cursor) Seek(k []byte) error {
	c.from = string(k)
	c.incl = true
	return nil
}

func (c *viol2C02v2Cursor) Next() ([]byte, []byte, error) {
	i := sort.SearchStrings(c.s.keys, c.from)
	if i < len(c.s.keys) && c.s.keys[i] == c.from && !c.incl {
		i++
	}
	if i >= len(c.s.keys) {
		return nil, nil, nil
	}
	k := c.s.keys[i]
	c.from = k
	c.incl = false
	return []byte(k), c.s.vals[k], nil
}

func TestViolation3_C02_v2(t *testing.T) {
	data := map[string]string{"a": "1", "b": "2"}
	query := "delete where key in ('a', 'zz')"

	// What a full scan filtered pair by pair deletes and returns: the same
	// statement, its own filter, over a FullScanPlan
	ref := viol2C02v2NewStore(data)
	refOpt := NewOptimizer(query)
	if err := refOpt.init(); err != nil {
		t.Fatal(err)
	}
	full := &DeletePlan{Storage: ref, ChildPlan: NewFullScanPlan(ref, refOpt.filter)}
	if err := full.Init(); err != nil {
		t.Fatal(err)
	}
	wantRow, err := full.Next(NewExecuteCtx())
	if err != nil {
		t.Fatal(err)
	}
	want := wantRow[0].(int)
	if want != 1 || len(ref.keys) != 1 || ref.keys[0] != "b" {
		t.Fatalf("reference run is wrong: rows=%d keys=%v", want, ref.keys)
	}

	// The statement as the planner runs it
	store := viol2C02v2NewStore(data)
	plan, err := NewOptimizer(query).BuildPlan(store)
	if err != nil {
		t.Fatal(err)
	}
	gotRow, err := plan.Next(NewExecuteCtx())
	if err != nil {
		t.Fatal(err)
	}
	got := gotRow[0].(int)
	if len(store.keys) != 1 || store.keys[0] != "b" {
		t.Fatalf("wrong pairs deleted: left %v, want [b]", store.keys)
	}
	if got != want {
		t.Fatalf("%s\nplan: %v\nreturned Rows = %d, a full scan filtered pair by pair returns Rows = %d (only the pair 'a' matches, 'zz' is not stored)",
			query, plan.Explain(), got, want)
	}
}
