package kvql

import (
	"bytes"
	"fmt"
	"sort"
	"testing"
)

// Minimal in-memory sorted storage for the demo.
type violC06v3Storage struct {
	kvs []KVPair
}

func violC06v3NewStorage(kvs ...KVPair) *violC06v3Storage {
	s := &violC06v3Storage{kvs: append([]KVPair{}, kvs...)}
	sort.Slice(s.kvs, func(i, j int) bool { return bytes.Compare(s.kvs[i].Key, s.kvs[j].Key) < 0 })
	return s
}

func (s *violC06v3Storage) Get(key []byte) ([]byte, error) {
	for _, kv := range s.kvs {
		if bytes.Equal(kv.Key, key) {
			return kv.Value, nil
		}
	}
	return nil, nil
}
func (s *violC06v3Storage) Put(key []byte, value []byte) error { return nil }
func (s *violC06v3Storage) BatchPut(kvs []KVPair) error        { return nil }
func (s *violC06v3Storage) Delete(key []byte) error            { return nil }
func (s *violC06v3Storage) BatchDelete(keys [][]byte) error    { return nil }
func (s *violC06v3Storage) Cursor() (Cursor, error)            { return &violC06v3Cursor{s: s}, nil }

type violC06v3Cursor struct {
	s   *violC06v3Storage
	pos int
}

func (c *violC06v3Cursor) Seek(prefix []byte) error {
	c.pos = sort.Search(len(c.s.kvs), func(i int) bool { return bytes.Compare(c.s.kvs[i].Key, prefix) >= 0 })
	return nil
}

func (c *violC06v3Cursor) Next() ([]byte, []byte, error) {
	if c.pos >= len(c.s.kvs) {
		return nil, nil, nil
	}
	kv := c.s.kvs[c.pos]
	c.pos++
	return kv.Key, kv.Value, nil
}

// violC06v3Run plans the query and drains it; a panic is turned into a string.
func violC06v3Run(query string, batch bool) (rows [][]Column, err error, panicked string) {
	defer func() {
		if r := recover(); r != nil {
			panicked = fmt.Sprint(r)
		}
	}()
	store := violC06v3NewStorage(NewKVPStr("a-b", "1"), NewKVPStr("a-c", "2"), NewKVPStr("b", "3"))
	plan, err := NewOptimizer(query).BuildPlan(store)
	if err != nil {
		return nil, err, ""
	}
	ctx := NewExecuteCtx()
	for {
		if batch {
			chunk, err := plan.Batch(ctx)
			if err != nil {
				return rows, err, ""
			}
			if len(chunk) == 0 {
				return rows, nil, ""
			}
			rows = append(rows, chunk...)
		} else {
			row, err := plan.Next(ctx)
			if err != nil {
				return rows, err, ""
			}
			if row == nil {
				return rows, nil, ""
			}
			rows = append(rows, row)
		}
	}
}

// The per-chunk alias cache is keyed by "<alias>-<first key of the chunk>".
// With batch size 2 the scan filters the chunks [a-b a-c] and [b] in one Batch
// call (the first chunk yields one match only). Alias `n` on the chunk starting
// at key "a-b" and alias `n-a` on the chunk starting at key "b" both get the
// cache key "n-a-b": the filter takes the two values cached for `n` on the first
// chunk as the values of `n-a` on the one-row second chunk, answers with two
// booleans for one row, and the scan indexes its one-row chunk with 1.
func TestViolation_C06_v3(t *testing.T) {
	old := PlanBatchSize
	PlanBatchSize = 2
	defer func() { PlanBatchSize = old }()

	query := "select key = 'a-c' as n, value = 'zzz' as `n-a` where `n-a` | n"
	want := "[[true false]]" // only key a-c passes the filter

	rows, err, panicked := violC06v3Run(query, false)
	if panicked != "" || err != nil || fmt.Sprint(rows) != want {
		t.Fatalf("row mode: expected %s, got rows=%v err=%v panic=%q", want, rows, err, panicked)
	}

	rows, err, panicked = violC06v3Run(query, true)
	if panicked != "" {
		t.Fatalf("batch mode (PlanBatchSize=2): expected %s as in row mode, got panic: %s", want, panicked)
	}
	if err != nil || fmt.Sprint(rows) != want {
		t.Fatalf("batch mode (PlanBatchSize=2): expected %s as in row mode, got rows=%v err=%v", want, rows, err)
	}
}
