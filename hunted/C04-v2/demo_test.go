package kvql

import (
	"bytes"
	"sort"
	"testing"
)

// minimal in-memory sorted storage

type violC04v2Store struct {
	kvs []KVPair
}

func (s *violC04v2Store) find(key []byte) int {
	return sort.Search(len(s.kvs), func(i int) bool { return bytes.Compare(s.kvs[i].Key, key) >= 0 })
}

func (s *violC04v2Store) Get(key []byte) ([]byte, error) {
	i := s.find(key)
	if i < len(s.kvs) && bytes.Equal(s.kvs[i].Key, key) {
		return s.kvs[i].Value, nil
	}
	return nil, nil
}

func (s *violC04v2Store) Put(key []byte, value []byte) error {
	i := s.find(key)
	if i < len(s.kvs) && bytes.Equal(s.kvs[i].Key, key) {
		s.kvs[i].Value = value
		return nil
	}
	s.kvs = append(s.kvs, KVPair{})
	copy(s.kvs[i+1:], s.kvs[i:])
	s.kvs[i] = KVPair{Key: key, Value: value}
	return nil
}

func (s *violC04v2Store) BatchPut(kvs []KVPair) error {
	for _, kv := range kvs {
		s.Put(kv.Key, kv.Value)
	}
	return nil
}

func (s *violC04v2Store) Delete(key []byte) error {
	i := s.find(key)
	if i < len(s.kvs) && bytes.Equal(s.kvs[i].Key, key) {
		s.kvs = append(s.kvs[:i], s.kvs[i+1:]...)
	}
	return nil
}

func (s *violC04v2Store) BatchDelete(keys [][]byte) error {
	for _, k := range keys {
		s.Delete(k)
	}
	return nil
}

func (s *violC04v2Store) Cursor() (Cursor, error) {
	return &violC04v2Cursor{s: s}, nil
}

type violC04v2Cursor struct {
	s   *violC04v2Store
	pos int
}

func (c *violC04v2Cursor) Seek(prefix []byte) error {
	c.pos = c.s.find(prefix)
	return nil
}

func (c *violC04v2Cursor) Next() ([]byte, []byte, error) {
	if c.pos >= len(c.s.kvs) {
		return nil, nil, nil
	}
	kv := c.s.kvs[c.pos]
	c.pos++
	return kv.Key, kv.Value, nil
}

func violC04v2Rows(t *testing.T, query string, store Storage, batch bool) [][]Column {
	plan, err := NewOptimizer(query).BuildPlan(store)
	if err != nil {
		t.Fatalf("query %s: %v", query, err)
	}
	ctx := NewExecuteCtx()
	var rows [][]Column
	for {
		if batch {
			rs, err := plan.Batch(ctx)
			if err != nil {
				t.Fatalf("query %s: %v", query, err)
			}
			if len(rs) == 0 {
				return rows
			}
			rows = append(rows, rs...)
		} else {
			r, err := plan.Next(ctx)
			if err != nil {
				t.Fatalf("query %s: %v", query, err)
			}
			if r == nil {
				return rows
			}
			rows = append(rows, r)
		}
	}
}

// (count(1) > 0) | (1 = 1) is an aggregate select field: over the three pairs
// of the store it is evaluated once, on the whole group, and shows one row
// [true] (this is what the same field shows when 1 = 1 is spelled so that it
// is not folded, see the control below). The expression optimizer folds 1 = 1
// to true and simplifies `Expr | true` to the constant true: the count(1) call
// disappears from the field, the planner does not find an aggregate any more
// and builds a projection, the field is shown once per pair (three rows).
func TestViolation_C04_v2(t *testing.T) {
	store := &violC04v2Store{}
	store.Put([]byte("k1"), []byte("1"))
	store.Put([]byte("k2"), []byte("2"))
	store.Put([]byte("k3"), []byte("3"))

	for _, batch := range []bool{false, true} {
		// control: the same field with a constant the optimizer does not fold
		// (`in` is never folded): one aggregated row [true]
		control := violC04v2Rows(t, "select (count(1) > 0) | (1 in (1)) where key ^= 'k'", store, batch)
		if len(control) != 1 || len(control[0]) != 1 || control[0][0] != true {
			t.Fatalf("batch=%v control: expect one row [true], got %v", batch, control)
		}

		rows := violC04v2Rows(t, "select (count(1) > 0) | (1 = 1) where key ^= 'k'", store, batch)
		if len(rows) != 1 {
			t.Errorf("batch=%v: select (count(1) > 0) | (1 = 1): expect one aggregated row [true], got %d rows %v", batch, len(rows), rows)
		} else if len(rows[0]) != 1 || rows[0][0] != true {
			t.Errorf("batch=%v: select (count(1) > 0) | (1 = 1): expect [true], got %v", batch, rows[0])
		}

		rows = violC04v2Rows(t, "select (count(1) > 5) & (1 = 2) where key ^= 'k'", store, batch)
		if len(rows) != 1 {
			t.Errorf("batch=%v: select (count(1) > 5) & (1 = 2): expect one aggregated row [false], got %d rows %v", batch, len(rows), rows)
		} else if len(rows[0]) != 1 || rows[0][0] != false {
			t.Errorf("batch=%v: select (count(1) > 5) & (1 = 2): expect [false], got %v", batch, rows[0])
		}
	}
}
