package kvql

import (
	"bytes"
	"fmt"
	"sort"
	"testing"
)

// Minimal in-memory sorted storage for the demo.
type viol2C09v3Store struct {
	kvs []KVPair
}

func viol2C09v3NewStore(pairs ...string) *viol2C09v3Store {
	s := &viol2C09v3Store{}
	for i := 0; i+1 < len(pairs); i += 2 {
		s.kvs = append(s.kvs, NewKVPStr(pairs[i], pairs[i+1]))
	}
	sort.SliceStable(s.kvs, func(i, j int) bool { return bytes.Compare(s.kvs[i].Key, s.kvs[j].Key) < 0 })
	return s
}

func (s *viol2C09v3Store) Get(key []byte) ([]byte, error) {
	for _, kv := range s.kvs {
		if bytes.Equal(kv.Key, key) {
			return kv.Value, nil
		}
	}
	return nil, nil
}
func (s *viol2C09v3Store) Put(key []byte, value []byte) error { return nil }
func (s *viol2C09v3Store) BatchPut(kvs []KVPair) error        { return nil }
func (s *viol2C09v3Store) Delete(key []byte) error            { return nil }
func (s *viol2C09v3Store) BatchDelete(keys [][]byte) error    { return nil }
func (s *viol2C09v3Store) Cursor() (Cursor, error)            { return &viol2C09v3Cursor{s: s}, nil }

type viol2C09v3Cursor struct {
	s   *viol2C09v3Store
	idx int
}

func (c *viol2C09v3Cursor) Seek(prefix []byte) error {
	c.idx = sort.Search(len(c.s.kvs), func(i int) bool { return bytes.Compare(c.s.kvs[i].Key, prefix) >= 0 })
	return nil
}

func (c *viol2C09v3Cursor) Next() ([]byte, []byte, error) {
	if c.idx >= len(c.s.kvs) {
		return nil, nil, nil
	}
	kv := c.s.kvs[c.idx]
	c.idx++
	return kv.Key, kv.Value, nil
}

// viol2C09v3Run returns the rows as text, or the error of the first failing poll.
func viol2C09v3Run(s Storage, query string, batch bool) (string, error) {
	plan, err := NewOptimizer(query).BuildPlan(s)
	if err != nil {
		return "", err
	}
	ctx := NewExecuteCtx()
	out := ""
	add := func(row []Column) {
		for i, c := range row {
			if i > 0 {
				out += "|"
			}
			if b, ok := c.([]byte); ok {
				out += string(b)
			} else {
				out += fmt.Sprint(c)
			}
		}
		out += ";"
	}
	for {
		if batch {
			rs, err := plan.Batch(ctx)
			if err != nil {
				return out, err
			}
			if len(rs) == 0 {
				return out, nil
			}
			for _, r := range rs {
				add(r)
			}
		} else {
			r, err := plan.Next(ctx)
			if err != nil {
				return out, err
			}
			if r == nil {
				return out, nil
			}
			add(r)
		}
	}
}

// A JSON field is a text in one pair and a number (or a Boolean) in another:
// the text "1" and the number 1 are different values (ORDER BY sorts them
// apart by kind, `=` refuses to compare them), but GROUP BY puts them into one
// group because both render to the bytes "1" in the group key.
func TestViolation3_C09_v3(t *testing.T) {
	s := viol2C09v3NewStore(
		"a", `{"x":"1"}`,
		"b", `{"x":1}`,
		"c", `{"x":"true"}`,
		"d", `{"x":true}`,
		"e", `{"x":1.0}`,
	)
	query := "select json(value)['x'] as x, count(1), group_concat(key, ',') where true group by x"
	// four different values, in order of their first pair: text "1", number 1
	// (b and e: 1 and 1.0 are the same number), text "true", Boolean true
	want := "1|1|a;1|2|b,e;true|1|c;true|1|d;"
	for _, batch := range []bool{false, true} {
		got, err := viol2C09v3Run(s, query, batch)
		if err != nil {
			t.Errorf("batch=%v: %s\n  got error %v", batch, query, err)
			continue
		}
		if got != want {
			t.Errorf("batch=%v: %s\n  got  %q\n  want %q", batch, query, got, want)
		}
	}
}
