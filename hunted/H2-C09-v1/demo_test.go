package kvql

import (
	"bytes"
	"sort"
	"testing"
)

type viol2C09v1Store struct{ kvs []KVPair }

func (s *viol2C09v1Store) Get(key []byte) ([]byte, error) {
	for _, kv := range s.kvs {
		if bytes.Equal(kv.Key, key) {
			return kv.Value, nil
		}
	}
	return nil, nil
}
func (s *viol2C09v1Store) Put(key []byte, value []byte) error { return nil }
func (s *viol2C09v1Store) BatchPut(kvs []KVPair) error        { return nil }
func (s *viol2C09v1Store) Delete(key []byte) error            { return nil }
func (s *viol2C09v1Store) BatchDelete(keys [][]byte) error    { return nil }
func (s *viol2C09v1Store) Cursor() (Cursor, error)            { return &viol2C09v1Cursor{s: s}, nil }

type viol2C09v1Cursor struct {
	s   *viol2C09v1Store
	idx int
}

func (c *viol2C09v1Cursor) Seek(prefix []byte) error {
	c.idx = sort.Search(len(c.s.kvs), func(i int) bool { return bytes.Compare(c.s.kvs[i].Key, prefix) >= 0 })
	return nil
}

func (c *viol2C09v1Cursor) Next() ([]byte, []byte, error) {
	if c.idx >= len(c.s.kvs) {
		return nil, nil, nil
	}
	kv := c.s.kvs[c.idx]
	c.idx++
	return kv.Key, kv.Value, nil
}

// Two pairs whose integer values are both the largest int64: their average is
// that same number (9223372036854775807, as a float64 9.223372036854775808e18).
// The library answers -1.
func TestViolation2_C09_v1(t *testing.T) {
	store := &viol2C09v1Store{kvs: []KVPair{
		NewKVPStr("a", "9223372036854775807"),
		NewKVPStr("b", "9223372036854775807"),
	}}
	query := "select avg(int(value)), min(int(value)), max(int(value)) where key >= 'a'"
	for _, mode := range []string{"row", "batch"} {
		plan, err := NewOptimizer(query).BuildPlan(store)
		if err != nil {
			t.Fatal(err)
		}
		var row []Column
		if mode == "row" {
			row, err = plan.Next(NewExecuteCtx())
		} else {
			var rows [][]Column
			rows, err = plan.Batch(NewExecuteCtx())
			if err == nil && len(rows) == 1 {
				row = rows[0]
			}
		}
		if err != nil || len(row) != 3 {
			t.Fatalf("%s: row %v, err %v", mode, row, err)
		}
		// sanity: the values were read as the integers they are
		if row[1] != int64(9223372036854775807) || row[2] != int64(9223372036854775807) {
			t.Fatalf("%s: min/max = %v/%v", mode, row[1], row[2])
		}
		avg, ok := row[0].(float64)
		if !ok {
			t.Fatalf("%s: avg is %T(%v)", mode, row[0], row[0])
		}
		// min <= avg <= max must hold for any average
		want := float64(9223372036854775807)
		if avg != want {
			t.Errorf("%s: avg(int(value)) over {9223372036854775807, 9223372036854775807} = %v, want %v", mode, avg, want)
		}
	}
}
