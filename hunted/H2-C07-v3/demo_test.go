package kvql

import (
	"sort"
	"testing"
)

// A number column that mixes integers and floats (max(value) is an integer for
// the groups that hold an integer, a float for the others) compares an integer
// with a float after converting the integer to float64. Above 2^53 that
// rounds: 9007199254740993 "equals" 9007199254740992.0, which "equals"
// 9007199254740992, while the two integers are compared exactly with each
// other. The relation is not transitive and the heap of the order plan hands
// out ...993 before ...992.
func TestViolation2_C07_v3(t *testing.T) {
	s := newViol2C07v3Store([][2]string{
		{"a", "9007199254740993"},
		{"b", "9007199254740992.0"},
		{"c", "9007199254740999"},
		{"d", "9007199254740992"},
	})
	query := "select key, max(value) as m where true group by key order by m"
	for _, batch := range []bool{false, true} {
		rows := viol2C07v3Run(t, s, query, batch)
		if len(rows) != 4 {
			t.Fatalf("batch=%v %s: %d rows, want 4", batch, query, len(rows))
		}
		pos := map[string]int{}
		for i, r := range rows {
			pos[string(r[0].([]byte))] = i
		}
		// d = b = 2^53 < a = 2^53+1 < c = 2^53+7
		if !(pos["d"] < pos["a"] && pos["b"] < pos["a"] && pos["a"] < pos["c"]) {
			t.Errorf("batch=%v %s:\n rows: %v\n want d and b (2^53) first, then a (2^53+1), then c (2^53+7)", batch, query, rows)
		}
	}
}

// ---- minimal in-memory sorted storage ----

type viol2C07v3Store struct {
	keys []string
	vals map[string]string
}

func newViol2C07v3Store(kvs [][2]string) *viol2C07v3Store {
	s := &viol2C07v3Store{vals: map[string]string{}}
	for _, kv := range kvs {
		s.keys = append(s.keys, kv[0])
		s.vals[kv[0]] = kv[1]
	}
	sort.Strings(s.keys)
	return s
}

func (s *viol2C07v3Store) Get(key []byte) ([]byte, error) {
	if v, ok := s.vals[string(key)]; ok {
		return []byte(v), nil
	}
	return nil, nil
}
func (s *viol2C07v3Store) Put(key []byte, value []byte) error { return nil }
func (s *viol2C07v3Store) BatchPut(kvs []KVPair) error        { return nil }
func (s *viol2C07v3Store) Delete(key []byte) error            { return nil }
func (s *viol2C07v3Store) BatchDelete(keys [][]byte) error    { return nil }
func (s *viol2C07v3Store) Cursor() (Cursor, error) {
	return &viol2C07v3Cursor{s: s}, nil
}

type viol2C07v3Cursor struct {
	s   *viol2C07v3Store
	idx int
}

func (c *viol2C07v3Cursor) Seek(prefix []byte) error {
	c.idx = sort.SearchStrings(c.s.keys, string(prefix))
	return nil
}

func (c *viol2C07v3Cursor) Next() ([]byte, []byte, error) {
	if c.idx >= len(c.s.keys) {
		return nil, nil, nil
	}
	k := c.s.keys[c.idx]
	c.idx++
	return []byte(k), []byte(c.s.vals[k]), nil
}

// viol2C07v3Run runs the query to the end, row by row (Next) or in batches (Batch)
func viol2C07v3Run(t *testing.T, s Storage, query string, batch bool) [][]Column {
	t.Helper()
	plan, err := NewOptimizer(query).BuildPlan(s)
	if err != nil {
		t.Fatalf("%s: %v", query, err)
	}
	ctx := NewExecuteCtx()
	var rows [][]Column
	for {
		if batch {
			rs, err := plan.Batch(ctx)
			if err != nil {
				t.Fatalf("%s: %v", query, err)
			}
			if len(rs) == 0 {
				return rows
			}
			rows = append(rows, rs...)
		} else {
			r, err := plan.Next(ctx)
			if err != nil {
				t.Fatalf("%s: %v", query, err)
			}
			if r == nil {
				return rows
			}
			rows = append(rows, r)
		}
	}
}
