package kvql

import (
	"bytes"
	"fmt"
	"sort"
	"strings"
	"testing"
)

// minimal sorted in-memory storage

type violC15v1Store struct{ data []KVPair }

func violC15v1NewStore(kvs ...KVPair) *violC15v1Store {
	sort.Slice(kvs, func(i, j int) bool { return bytes.Compare(kvs[i].Key, kvs[j].Key) < 0 })
	return &violC15v1Store{data: kvs}
}

func (s *violC15v1Store) Get(key []byte) ([]byte, error) {
	for _, kv := range s.data {
		if bytes.Equal(kv.Key, key) {
			return kv.Value, nil
		}
	}
	return nil, nil
}
func (s *violC15v1Store) Put(key []byte, value []byte) error { return nil }
func (s *violC15v1Store) BatchPut(kvs []KVPair) error        { return nil }
func (s *violC15v1Store) Delete(key []byte) error            { return nil }
func (s *violC15v1Store) BatchDelete(keys [][]byte) error    { return nil }
func (s *violC15v1Store) Cursor() (Cursor, error)            { return &violC15v1Cursor{data: s.data}, nil }

type violC15v1Cursor struct {
	data []KVPair
	idx  int
}

func (c *violC15v1Cursor) Seek(prefix []byte) error {
	c.idx = sort.Search(len(c.data), func(i int) bool { return bytes.Compare(c.data[i].Key, prefix) >= 0 })
	return nil
}

func (c *violC15v1Cursor) Next() ([]byte, []byte, error) {
	if c.idx >= len(c.data) {
		return nil, nil, nil
	}
	kv := c.data[c.idx]
	c.idx++
	return kv.Key, kv.Value, nil
}

// violC15v1Run executes the query row by row and returns the keys of the
// result rows, the EXPLAIN lines and the filter text that EXPLAIN shows.
func violC15v1Run(t *testing.T, s Storage, query string) (keys []string, explain string, filter string) {
	t.Helper()
	opt := NewOptimizer(query)
	plan, err := opt.BuildPlan(s)
	if err != nil {
		t.Fatalf("%q: %v", query, err)
	}
	ctx := NewExecuteCtx()
	for {
		row, err := plan.Next(ctx)
		if err != nil {
			t.Fatalf("%q: %v", query, err)
		}
		if row == nil {
			break
		}
		keys = append(keys, string(row[0].([]byte)))
	}
	return keys, strings.Join(plan.Explain(), "\n"), opt.filter.Explain()
}

func TestViolation_C15_v1(t *testing.T) {
	store := violC15v1NewStore(NewKVPStr("k1", "3"))

	// 3 / 2.0 = 1.5 > 1: the row matches
	query := "select * where int(value) / (1.0 * 2.0) > 1"
	keys, explain, filter := violC15v1Run(t, store, query)
	if fmt.Sprint(keys) != "[k1]" {
		t.Fatalf("%q: got rows %v, want [k1]", query, keys)
	}
	if !strings.Contains(explain, "Filter = '"+filter+"'") {
		t.Fatalf("EXPLAIN %q does not show the filter %q", explain, filter)
	}
	t.Logf("EXPLAIN: %s", explain)

	// The filter that EXPLAIN shows, parsed again, must be the filter that was
	// executed: same tree, same rows.
	requery := "select * where " + filter
	keys2, _, filter2 := violC15v1Run(t, store, requery)
	if filter2 != filter {
		t.Errorf("filter %q printed again is %q", filter, filter2)
	}
	if fmt.Sprint(keys2) != fmt.Sprint(keys) {
		t.Errorf("the executed filter of %q selects %v, but the filter shown by EXPLAIN, %q, selects %v",
			query, keys, filter, keys2)
	}

	// Directly on the trees: the divisor is a float in the executed filter and
	// must be a float again after printing and parsing.
	divisor := func(q string) Expression {
		o := NewOptimizer(q)
		if err := o.init(); err != nil {
			t.Fatalf("%q: %v", q, err)
		}
		cmp := o.filter.Ast.Expr.(*BinaryOpExpr)
		return cmp.Left.(*BinaryOpExpr).Right
	}
	d1, d2 := divisor(query), divisor(requery)
	if fmt.Sprintf("%T", d1) != fmt.Sprintf("%T", d2) {
		t.Errorf("divisor is %T (%s) in the executed filter but %T (%s) in the re-parsed EXPLAIN text", d1, d1, d2, d2)
	}
}
