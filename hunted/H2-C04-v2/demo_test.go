package kvql

import (
	"bytes"
	"sort"
	"testing"
)

// Minimal in-memory sorted storage for the demo.
type viol2C04v2Store struct {
	kvs []KVPair
}

type viol2C04v2Cursor struct {
	s   *viol2C04v2Store
	idx int
}

func newViol2C04v2Store(kvs ...KVPair) *viol2C04v2Store {
	s := &viol2C04v2Store{kvs: kvs}
	sort.Slice(s.kvs, func(i, j int) bool { return bytes.Compare(s.kvs[i].Key, s.kvs[j].Key) < 0 })
	return s
}

func (s *viol2C04v2Store) Get(key []byte) ([]byte, error) {
	for _, kv := range s.kvs {
		if bytes.Equal(kv.Key, key) {
			return kv.Value, nil
		}
	}
	return nil, nil
}
func (s *viol2C04v2Store) Put(key []byte, value []byte) error { return nil }
func (s *viol2C04v2Store) BatchPut(kvs []KVPair) error        { return nil }
func (s *viol2C04v2Store) Delete(key []byte) error            { return nil }
func (s *viol2C04v2Store) BatchDelete(keys [][]byte) error    { return nil }
func (s *viol2C04v2Store) Cursor() (Cursor, error)            { return &viol2C04v2Cursor{s: s}, nil }

func (c *viol2C04v2Cursor) Seek(prefix []byte) error {
	c.idx = len(c.s.kvs)
	for i, kv := range c.s.kvs {
		if bytes.Compare(kv.Key, prefix) >= 0 {
			c.idx = i
			break
		}
	}
	return nil
}

func (c *viol2C04v2Cursor) Next() ([]byte, []byte, error) {
	if c.idx >= len(c.s.kvs) {
		return nil, nil, nil
	}
	kv := c.s.kvs[c.idx]
	c.idx++
	return kv.Key, kv.Value, nil
}

// (1 = 2) & (count(1) > 0) is an aggregate field: over the three selected
// pairs it is one row holding false. The Boolean simplification
// `false & Expr => false` throws the aggregate call away, the field becomes
// the plain constant false, the statement is planned as a projection and
// shows one false per pair.
func TestViolation2_C04_v2(t *testing.T) {
	store := newViol2C04v2Store(
		NewKVPStr("k1", "1"),
		NewKVPStr("k2", "2"),
		NewKVPStr("k3", "3"),
	)
	query := "select (1 = 2) & (count(1) > 0) as f where key ^= 'k'"
	plan, err := NewOptimizer(query).BuildPlan(store)
	if err != nil {
		t.Fatal(err)
	}
	ctx := NewExecuteCtx()
	var rows [][]Column
	for {
		row, err := plan.Next(ctx)
		if err != nil {
			t.Fatal(err)
		}
		if row == nil {
			break
		}
		rows = append(rows, row)
	}
	if len(rows) != 1 {
		t.Errorf("%s: got %d rows %v, want the single aggregate row [false]; plan: %v", query, len(rows), rows, plan.Explain())
	} else if v, ok := rows[0][0].(bool); !ok || v {
		t.Errorf("%s: got %v, want false", query, rows[0][0])
	}

	// Next to another aggregate field the rewritten statement is not even
	// accepted any more (the un-rewritten one gives the row [3, true])
	query = "select count(1) as c, (1 = 1) | (count(1) > 5) as f where key ^= 'k'"
	plan, err = NewOptimizer(query).BuildPlan(store)
	if err != nil {
		t.Fatalf("%s: got error %q, want the row [3 true]", query, err.Error())
	}
	row, err := plan.Next(NewExecuteCtx())
	if err != nil {
		t.Fatal(err)
	}
	if len(row) != 2 || row[0] != any(int64(3)) || row[1] != any(true) {
		t.Errorf("%s: got %v, want [3 true]", query, row)
	}
}
