package kvql

import (
	"sort"
	"testing"
)

// viol2C18v1Store is a sorted in-memory store that records every key it hands
// out: the keys of point reads (Get) and the keys a cursor returns (Next).
type viol2C18v1Store struct {
	keys  []string
	vals  map[string]string
	gets  []string
	nexts []string
}

func viol2C18v1NewStore(keys ...string) *viol2C18v1Store {
	s := &viol2C18v1Store{vals: map[string]string{}}
	for _, k := range keys {
		s.keys = append(s.keys, k)
		s.vals[k] = "v"
	}
	sort.Strings(s.keys)
	return s
}

func (s *viol2C18v1Store) Get(key []byte) ([]byte, error) {
	s.gets = append(s.gets, string(key))
	if v, ok := s.vals[string(key)]; ok {
		return []byte(v), nil
	}
	return nil, nil
}
func (s *viol2C18v1Store) Put(key []byte, value []byte) error { return nil }
func (s *viol2C18v1Store) BatchPut(kvs []KVPair) error        { return nil }
func (s *viol2C18v1Store) Delete(key []byte) error            { return nil }
func (s *viol2C18v1Store) BatchDelete(keys [][]byte) error    { return nil }
func (s *viol2C18v1Store) Cursor() (Cursor, error)            { return &viol2C18v1Cursor{s: s}, nil }

type viol2C18v1Cursor struct {
	s   *viol2C18v1Store
	idx int
}

// Seek positions the cursor on the first key >= prefix
func (c *viol2C18v1Cursor) Seek(prefix []byte) error {
	c.idx = sort.SearchStrings(c.s.keys, string(prefix))
	return nil
}

func (c *viol2C18v1Cursor) Next() ([]byte, []byte, error) {
	if c.idx >= len(c.s.keys) {
		return nil, nil, nil
	}
	k := c.s.keys[c.idx]
	c.idx++
	c.s.nexts = append(c.s.nexts, k)
	return []byte(k), []byte(c.s.vals[k]), nil
}

// The clause holds two disjoint prefixes ('a' and 'b'): it is unsatisfiable on
// its face and must not read anything. The conjunct in the middle makes the
// optimizer forget the prefix 'a' before it meets the prefix 'b'.
func TestViolation3_C18_v1(t *testing.T) {
	query := "where key ^= 'a' & key >= 'ab' & key ^= 'b'"
	store := viol2C18v1NewStore("a", "ab", "b", "ba", "c")
	plan, err := NewOptimizer(query).BuildPlan(store)
	if err != nil {
		t.Fatalf("build plan: %v", err)
	}
	ctx := NewExecuteCtx()
	rows := 0
	for {
		row, err := plan.Next(ctx)
		if err != nil {
			t.Fatalf("next: %v", err)
		}
		if row == nil {
			break
		}
		rows++
	}
	if rows != 0 {
		t.Fatalf("expected no rows, got %d", rows)
	}
	if len(store.gets) != 0 || len(store.nexts) != 0 {
		t.Fatalf("`%s` holds the disjoint prefixes 'a' and 'b' and must read nothing, but it read: point reads %q, cursor reads %q (plan: %v)",
			query, store.gets, store.nexts, plan.Explain())
	}
}
