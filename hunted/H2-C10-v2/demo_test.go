package kvql

import (
	"bytes"
	"sort"
	"testing"
)

type viol2C10v2Store struct {
	kvs []KVPair
}

func (s *viol2C10v2Store) Get(key []byte) ([]byte, error) {
	for _, kv := range s.kvs {
		if bytes.Equal(kv.Key, key) {
			return kv.Value, nil
		}
	}
	return nil, nil
}
func (s *viol2C10v2Store) Put(key []byte, value []byte) error { return nil }
func (s *viol2C10v2Store) BatchPut(kvs []KVPair) error        { return nil }
func (s *viol2C10v2Store) Delete(key []byte) error            { return nil }
func (s *viol2C10v2Store) BatchDelete(keys [][]byte) error    { return nil }
func (s *viol2C10v2Store) Cursor() (Cursor, error)            { return &viol2C10v2Cursor{s: s}, nil }

type viol2C10v2Cursor struct {
	s   *viol2C10v2Store
	idx int
}

func (c *viol2C10v2Cursor) Seek(prefix []byte) error {
	c.idx = sort.Search(len(c.s.kvs), func(i int) bool { return bytes.Compare(c.s.kvs[i].Key, prefix) >= 0 })
	return nil
}

func (c *viol2C10v2Cursor) Next() ([]byte, []byte, error) {
	if c.idx >= len(c.s.kvs) {
		return nil, nil, nil
	}
	kv := c.s.kvs[c.idx]
	c.idx++
	return kv.Key, kv.Value, nil
}

func viol2C10v2Text(v any) (string, bool) {
	switch x := v.(type) {
	case string:
		return x, true
	case []byte:
		return string(x), true
	}
	return "", false
}

// list(a, b) of two texts holds a and b in order, whatever a looks like:
// with a = '5' the second text is turned into the integer 0.
func TestViolation2_C10_v2(t *testing.T) {
	store := &viol2C10v2Store{kvs: []KVPair{NewKVPStr("k1", "5")}}
	// value = '5', key = 'k1'; the control list(key, value) works
	query := "select list(key, value)[0], list(key, value)[1], list(value, key)[0], list(value, key)[1], len(list(value, key)) where key = 'k1'"

	check := func(mode string, row []Column) {
		if len(row) != 5 {
			t.Fatalf("%s: expected 5 columns, got %v", mode, row)
		}
		if s, ok := viol2C10v2Text(row[0]); !ok || s != "k1" {
			t.Errorf("%s: list(key, value)[0] = %T(%v), expected the text k1", mode, row[0], row[0])
		}
		if s, ok := viol2C10v2Text(row[1]); !ok || s != "5" {
			t.Errorf("%s: list(key, value)[1] = %T(%v), expected the text 5", mode, row[1], row[1])
		}
		// element 0 is the text '5' (the number 5 would be tolerable too)
		if s, ok := viol2C10v2Text(row[2]); !(ok && s == "5") {
			if n, ok := convertToInt(row[2]); !ok || n != 5 {
				t.Errorf("%s: list(value, key)[0] = %T(%v), expected 5", mode, row[2], row[2])
			}
		}
		if s, ok := viol2C10v2Text(row[3]); !ok || s != "k1" {
			t.Errorf("%s: list(value, key)[1] = %T(%v), expected the text k1 (the second argument)", mode, row[3], row[3])
		}
		if n, ok := convertToInt(row[4]); !ok || n != 2 {
			t.Errorf("%s: len(list(value, key)) = %v, expected 2", mode, row[4])
		}
	}

	plan, err := NewOptimizer(query).BuildPlan(store)
	if err != nil {
		t.Fatalf("build: %v", err)
	}
	row, err := plan.Next(NewExecuteCtx())
	if err != nil {
		t.Fatalf("Next: %v", err)
	}
	check("Next", row)

	plan, err = NewOptimizer(query).BuildPlan(store)
	if err != nil {
		t.Fatalf("build: %v", err)
	}
	rows, err := plan.Batch(NewExecuteCtx())
	if err != nil {
		t.Fatalf("Batch: %v", err)
	}
	if len(rows) != 1 {
		t.Fatalf("Batch: expected 1 row, got %d", len(rows))
	}
	check("Batch", rows[0])

	// The same with constant arguments
	cquery := "select list('5', 'k1')[1] where key = 'k1'"
	plan, err = NewOptimizer(cquery).BuildPlan(store)
	if err != nil {
		t.Fatalf("build: %v", err)
	}
	row, err = plan.Next(NewExecuteCtx())
	if err != nil {
		t.Fatalf("Next: %v", err)
	}
	if s, ok := viol2C10v2Text(row[0]); !ok || s != "k1" {
		t.Errorf("constant: list('5', 'k1')[1] = %T(%v), expected the text k1", row[0], row[0])
	}
}
