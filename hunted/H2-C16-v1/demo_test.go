package kvql

import (
	"strings"
	"testing"
	"unicode"
	"unicode/utf8"
)

// Set by the test: does the lexer under test separate words at U+00A0?
var viol2C16v1UnicodeBlanksSeparate bool

// A word token must report the offset at which its text begins, and the text
// at that offset must be the token's text (case-folded).
func viol2C16v1CheckWords(t *testing.T, q string) {
	t.Helper()
	for _, tk := range NewLexer(q).Split() {
		if tk.Tp == STRING {
			continue
		}
		end := tk.Pos + len(tk.Data)
		if end > len(q) || strings.ToLower(q[tk.Pos:end]) != tk.Data {
			got := q[tk.Pos:min(end, len(q))]
			t.Errorf("query %q: token %s %q reports offset %d, but the text there is %q",
				q, TokenTypeToString[tk.Tp], tk.Data, tk.Pos, got)
			continue
		}
		// ... and the token is the whole word: what follows it is a blank, an
		// operator, a bracket, a separator, a quote, or the end of the query.
		next, _ := utf8.DecodeRuneInString(q[end:])
		if end < len(q) && !(unicode.IsSpace(next) && viol2C16v1UnicodeBlanksSeparate) && !strings.ContainsRune(" \t\n\v\f\r'\"`~^=!*+-/<>&|()[],;", rune(q[end])) &&
			!strings.ContainsRune("~^=!*+-/<>&|()[],;", rune(q[tk.Pos])) {
			t.Errorf("query %q: token %s %q at %d is cut short: the word goes on with %q",
				q, TokenTypeToString[tk.Tp], tk.Data, tk.Pos, q[end:])
		}
	}
}

func TestViolation2_C16_v1(t *testing.T) {
	// U+00A0 (no-break space) in front of `key`. It is not one of the blanks
	// Split() separates words at, so the word is "\u00a0key"; buildToken then
	// trims it off and the KEY token reports offset 6 although `key` begins at 8.
	q := "where \u00a0key = 'k1'"
	viol2C16v1UnicodeBlanksSeparate = len(NewLexer("a\u00a0b").Split()) == 2
	viol2C16v1CheckWords(t, q)

	toks := NewLexer(q).Split()
	if len(toks) < 2 {
		t.Fatalf("too few tokens: %v", toks)
	}
	tk := toks[1]
	// Either reading is fine: the blank-like rune separates (KEY at 8), or it
	// is an ordinary word character (NAME "\u00a0key" at 6). Not KEY at 6.
	okSep := tk.Tp == KEY && tk.Data == "key" && tk.Pos == 8
	okWord := tk.Tp == NAME && tk.Data == "\u00a0key" && tk.Pos == 6
	if !okSep && !okWord {
		t.Errorf("second token: got %s %q at %d; expected KEY \"key\" at 8 (or NAME \"\\u00a0key\" at 6)",
			TokenTypeToString[tk.Tp], tk.Data, tk.Pos)
	}

	// The same rune is dropped at the end of a word but kept in the middle:
	// the two sides of `=` are read by two different rules.
	viol2C16v1CheckWords(t, "where key\u00a0= 'k1'")
	viol2C16v1CheckWords(t, "where key = 'k1' \u0085limit\u3000 1")
}
