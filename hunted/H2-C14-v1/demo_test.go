package kvql

import (
	"bytes"
	"sort"
	"testing"
)

// viol2C14v1Store is a sorted in-memory Storage that counts every call made to it
// (and to its cursors).
type viol2C14v1Store struct {
	kvs   []KVPair
	calls int
}

func (s *viol2C14v1Store) find(key []byte) (int, bool) {
	i := sort.Search(len(s.kvs), func(i int) bool { return bytes.Compare(s.kvs[i].Key, key) >= 0 })
	return i, i < len(s.kvs) && bytes.Equal(s.kvs[i].Key, key)
}

func (s *viol2C14v1Store) set(key, value []byte) {
	i, have := s.find(key)
	if have {
		s.kvs[i].Value = value
		return
	}
	s.kvs = append(s.kvs, KVPair{})
	copy(s.kvs[i+1:], s.kvs[i:])
	s.kvs[i] = KVPair{Key: key, Value: value}
}

func (s *viol2C14v1Store) del(key []byte) {
	if i, have := s.find(key); have {
		s.kvs = append(s.kvs[:i], s.kvs[i+1:]...)
	}
}

func (s *viol2C14v1Store) Get(key []byte) ([]byte, error) {
	s.calls++
	if i, have := s.find(key); have {
		return s.kvs[i].Value, nil
	}
	return nil, nil
}

func (s *viol2C14v1Store) Put(key []byte, value []byte) error {
	s.calls++
	s.set(key, value)
	return nil
}

func (s *viol2C14v1Store) BatchPut(kvs []KVPair) error {
	s.calls++
	for _, kv := range kvs {
		s.set(kv.Key, kv.Value)
	}
	return nil
}

func (s *viol2C14v1Store) Delete(key []byte) error {
	s.calls++
	s.del(key)
	return nil
}

func (s *viol2C14v1Store) BatchDelete(keys [][]byte) error {
	s.calls++
	for _, k := range keys {
		s.del(k)
	}
	return nil
}

func (s *viol2C14v1Store) Cursor() (Cursor, error) {
	s.calls++
	return &viol2C14v1Cursor{s: s}, nil
}

type viol2C14v1Cursor struct {
	s   *viol2C14v1Store
	idx int
}

func (c *viol2C14v1Cursor) Seek(prefix []byte) error {
	c.s.calls++
	c.idx, _ = c.s.find(prefix)
	return nil
}

func (c *viol2C14v1Cursor) Next() ([]byte, []byte, error) {
	c.s.calls++
	if c.idx >= len(c.s.kvs) {
		return nil, nil, nil
	}
	kv := c.s.kvs[c.idx]
	c.idx++
	return kv.Key, kv.Value, nil
}

// The index of a cascaded field access (json(..)['a'][<index>]) is never
// checked: any static fault placed there is accepted when the plan is built.
func TestViolation2_C14_v1(t *testing.T) {
	queries := []string{
		// `!` applied to a text, inside the index of a cascaded field access
		"where json(value)['a'][!key] = 'x'",
		// `value` is forbidden in a PUT statement
		"put ('k9', json('{}')['a'][value])",
	}
	for _, q := range queries {
		store := &viol2C14v1Store{}
		store.set([]byte("k1"), []byte(`{"a":{"b":"x"}}`))
		plan, err := NewOptimizer(q).BuildPlan(store)
		if err != nil {
			// expected: rejected when the plan is built, without storage access
			if store.calls != 0 {
				t.Errorf("%s: rejected (%v) but after %d storage calls", q, err, store.calls)
			}
			continue
		}
		buildCalls := store.calls
		_, runErr := plan.Next(NewExecuteCtx())
		t.Errorf("%s:\n  expected: BuildPlan rejects the statement, zero storage calls\n  actual:   BuildPlan accepted it (storage calls while building: %d); first Next returned error %q after %d storage calls",
			q, buildCalls, runErr, store.calls)
	}
}
