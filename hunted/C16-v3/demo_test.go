package kvql

import (
	"strings"
	"testing"
)

// A quote that is never closed: the rest of the input comes back as a bare
// word (NAME, or even a keyword), lower-cased, positioned on the quote.
func TestViolation_C16_v3(t *testing.T) {
	q := "where key = 'K1"
	toks := NewLexer(q).Split()
	last := toks[len(toks)-1]
	// Acceptable: a STRING token on the quote carrying the rest byte for byte,
	// or any token that sits where its (case-folded) text is. Not acceptable:
	// a word token placed on the quote character.
	okString := last.Tp == STRING && last.Pos == 12 && last.Data == "K1"
	end := last.Pos + len(last.Data)
	okWord := last.Tp != STRING && end <= len(q) && strings.EqualFold(q[last.Pos:end], last.Data)
	if !okString && !okWord {
		t.Errorf("%q: last token %s %q reports offset %d, but the query has %q there (text begins at 13, and is \"K1\")",
			q, TokenTypeToString[last.Tp], last.Data, last.Pos, q[last.Pos:])
	}
}
