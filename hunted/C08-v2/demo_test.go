package kvql

import (
	"fmt"
	"reflect"
	"sort"
	"testing"
)

// violC08v2Store is a minimal in-memory sorted key-value store. Its cursor is
// positioned by key, so it stays valid whatever is written in between.
type violC08v2Store struct {
	keys []string
	data map[string][]byte
}

func violC08v2NewStore(kvs ...string) *violC08v2Store {
	s := &violC08v2Store{data: map[string][]byte{}}
	for i := 0; i+1 < len(kvs); i += 2 {
		s.Put([]byte(kvs[i]), []byte(kvs[i+1]))
	}
	return s
}

func (s *violC08v2Store) Get(key []byte) ([]byte, error) {
	if v, ok := s.data[string(key)]; ok {
		return v, nil
	}
	return nil, nil
}

func (s *violC08v2Store) Put(key []byte, value []byte) error {
	k := string(key)
	if _, ok := s.data[k]; !ok {
		s.keys = append(s.keys, k)
		sort.Strings(s.keys)
	}
	s.data[k] = value
	return nil
}

func (s *violC08v2Store) BatchPut(kvs []KVPair) error {
	for _, kv := range kvs {
		s.Put(kv.Key, kv.Value)
	}
	return nil
}

func (s *violC08v2Store) Delete(key []byte) error {
	k := string(key)
	if _, ok := s.data[k]; ok {
		delete(s.data, k)
		i := sort.SearchStrings(s.keys, k)
		s.keys = append(s.keys[:i:i], s.keys[i+1:]...)
	}
	return nil
}

func (s *violC08v2Store) BatchDelete(keys [][]byte) error {
	for _, k := range keys {
		s.Delete(k)
	}
	return nil
}

func (s *violC08v2Store) Cursor() (Cursor, error) { return &violC08v2Cursor{s: s}, nil }

type violC08v2Cursor struct {
	s       *violC08v2Store
	from    string
	started bool
	last    string
}

func (c *violC08v2Cursor) Seek(prefix []byte) error {
	c.from, c.started = string(prefix), false
	return nil
}

func (c *violC08v2Cursor) Next() ([]byte, []byte, error) {
	var i int
	if !c.started {
		i = sort.SearchStrings(c.s.keys, c.from)
	} else {
		i = sort.Search(len(c.s.keys), func(j int) bool { return c.s.keys[j] > c.last })
	}
	if i >= len(c.s.keys) {
		return nil, nil, nil
	}
	c.started, c.last = true, c.s.keys[i]
	return []byte(c.last), c.s.data[c.last], nil
}

// violC08v2Render renders rows as "col|col|" strings.
func violC08v2Render(rows [][]Column) []string {
	out := []string{}
	for _, r := range rows {
		s := ""
		for _, c := range r {
			if b, ok := c.([]byte); ok {
				s += string(b) + "|"
			} else {
				s += fmt.Sprintf("%v|", c)
			}
		}
		out = append(out, s)
	}
	return out
}

// violC08v2BatchesUntilError drains the plan in batch mode and returns the rows
// delivered before the first error (or the end), and that error.
func violC08v2BatchesUntilError(plan FinalPlan) ([]string, error) {
	ctx := NewExecuteCtx()
	var rows [][]Column
	for {
		batch, err := plan.Batch(ctx)
		if err != nil {
			return violC08v2Render(rows), err
		}
		if len(batch) == 0 {
			return violC08v2Render(rows), nil
		}
		rows = append(rows, batch...)
	}
}

// Batch size 4, eight pairs, the sixth one (k05) makes the projection fail.
// Without a limit the statement delivers k00..k03 and then the error. With
// `limit 1, 4` rows 1..3 (k01, k02, k03) must be delivered before the error;
// instead the limit plan has already taken them from its child, counted them,
// and throws them away when the next child batch fails.
func TestViolation_C08_v2(t *testing.T) {
	defer func(old int) { PlanBatchSize = old }(PlanBatchSize)
	PlanBatchSize = 4
	store := violC08v2NewStore(
		"k00", "1", "k01", "1", "k02", "1", "k03", "1",
		"k04", "1", "k05", "0", "k06", "1", "k07", "1")
	query := "select key, 10 / int(value) where key ^= 'k'"

	plan, err := NewOptimizer(query).BuildPlan(store)
	if err != nil {
		t.Fatal(err)
	}
	all, err := violC08v2BatchesUntilError(plan)
	if err == nil {
		t.Fatalf("unlimited statement: expected the divide by zero error")
	}
	if want := []string{"k00|10|", "k01|10|", "k02|10|", "k03|10|"}; !reflect.DeepEqual(all, want) {
		t.Fatalf("unlimited statement: got %v before the error, want %v", all, want)
	}

	plan, err = NewOptimizer(query + " limit 1, 4").BuildPlan(store)
	if err != nil {
		t.Fatal(err)
	}
	got, _ := violC08v2BatchesUntilError(plan)
	want := all[1:] // rows 1..3, the unlimited result fails before row 4
	if !reflect.DeepEqual(got, want) {
		t.Fatalf("`limit 1, 4` delivered %v before the error, want rows 1..3 = %v", got, want)
	}
}
