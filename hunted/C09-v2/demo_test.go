package kvql

import (
	"bytes"
	"fmt"
	"sort"
	"strings"
	"testing"
)

// Minimal in-memory sorted storage for the demo.
type violC09v2Store struct {
	kvs []KVPair
}

func violC09v2NewStore(pairs ...string) *violC09v2Store {
	s := &violC09v2Store{}
	for i := 0; i+1 < len(pairs); i += 2 {
		s.kvs = append(s.kvs, NewKVPStr(pairs[i], pairs[i+1]))
	}
	sort.SliceStable(s.kvs, func(i, j int) bool {
		return bytes.Compare(s.kvs[i].Key, s.kvs[j].Key) < 0
	})
	return s
}

func (s *violC09v2Store) Get(key []byte) ([]byte, error) {
	for _, kv := range s.kvs {
		if bytes.Equal(kv.Key, key) {
			return kv.Value, nil
		}
	}
	return nil, nil
}
func (s *violC09v2Store) Put(key []byte, value []byte) error { return nil }
func (s *violC09v2Store) BatchPut(kvs []KVPair) error        { return nil }
func (s *violC09v2Store) Delete(key []byte) error            { return nil }
func (s *violC09v2Store) BatchDelete(keys [][]byte) error    { return nil }
func (s *violC09v2Store) Cursor() (Cursor, error) {
	return &violC09v2Cursor{s: s}, nil
}

type violC09v2Cursor struct {
	s   *violC09v2Store
	idx int
}

func (c *violC09v2Cursor) Seek(prefix []byte) error {
	c.idx = sort.Search(len(c.s.kvs), func(i int) bool {
		return bytes.Compare(c.s.kvs[i].Key, prefix) >= 0
	})
	return nil
}

func (c *violC09v2Cursor) Next() ([]byte, []byte, error) {
	if c.idx >= len(c.s.kvs) {
		return nil, nil, nil
	}
	kv := c.s.kvs[c.idx]
	c.idx++
	return kv.Key, kv.Value, nil
}

func violC09v2Col(c Column) string {
	switch v := c.(type) {
	case []byte:
		return string(v)
	case string:
		return v
	default:
		return fmt.Sprint(v)
	}
}

// violC09v2Run executes the query in row mode (Next) or batch mode (Batch)
// and renders every row as "col, col, ...".
func violC09v2Run(s Storage, query string, batch bool) ([]string, error) {
	plan, err := NewOptimizer(query).BuildPlan(s)
	if err != nil {
		return nil, err
	}
	ctx := NewExecuteCtx()
	var rows [][]Column
	for {
		if batch {
			rs, err := plan.Batch(ctx)
			if err != nil {
				return nil, err
			}
			if len(rs) == 0 {
				break
			}
			rows = append(rows, rs...)
		} else {
			r, err := plan.Next(ctx)
			if err != nil {
				return nil, err
			}
			if r == nil {
				break
			}
			rows = append(rows, r)
		}
	}
	out := make([]string, 0, len(rows))
	for _, r := range rows {
		cols := make([]string, 0, len(r))
		for _, c := range r {
			cols = append(cols, violC09v2Col(c))
		}
		out = append(out, strings.Join(cols, ", "))
	}
	return out, nil
}

// GROUP BY on a float-valued alias: 0.0000001 and 0.0000002 are different
// values, so they must be two groups of one pair each.
func TestViolation_C09_v2(t *testing.T) {
	s := violC09v2NewStore(
		"k1", "0.0000001",
		"k2", "0.0000002",
	)
	query := "select count(1), float(value) as f where key ^= 'k' group by f"
	for _, batch := range []bool{false, true} {
		got, err := violC09v2Run(s, query, batch)
		if err != nil {
			t.Fatalf("batch=%v: unexpected error: %v", batch, err)
		}
		// one row per distinct value of f, each with count 1
		if len(got) != 2 {
			t.Errorf("batch=%v: %s\n  want 2 groups (f = 1e-07 and f = 2e-07, count 1 each)\n  got  %d row(s): %q", batch, query, len(got), got)
			continue
		}
		for i, row := range got {
			if !strings.HasPrefix(row, "1, ") {
				t.Errorf("batch=%v: row %d = %q, want count 1", batch, i, row)
			}
		}
	}
}
