package kvql

import (
	"bytes"
	"fmt"
	"reflect"
	"sort"
	"strings"
	"testing"
)

// The per-row field cache is not reset between the output rows of an
// aggregation: an alias evaluated while the first group is rendered is served
// from the cache for every later group.
func TestViolation_C05_v2(t *testing.T) {
	s := violC05v2NewStore("k1", "a", "k2", "a", "k3", "b")
	query := "select value as g, count(1) as c, sum(strlen(key)) + c as s where key ^= 'k' group by g"
	inlined := "select value as g, count(1) as c, sum(strlen(key)) + count(1) as s where key ^= 'k' group by g"
	// group a: 2 rows, key lengths 2+2, s = 4+2; group b: 1 row, s = 2+1
	expected := []string{"a,2,6", "b,1,3"}
	for _, batch := range []bool{false, true} {
		ref := violC05v2Run(t, s, inlined, true, batch)
		if !reflect.DeepEqual(ref, expected) {
			t.Errorf("batch=%v alias replaced by its expression: expected %v, got %v", batch, expected, ref)
		}
		off := violC05v2Run(t, s, query, false, batch)
		if !reflect.DeepEqual(off, expected) {
			t.Errorf("batch=%v cache off: expected %v, got %v", batch, expected, off)
		}
		on := violC05v2Run(t, s, query, true, batch)
		if !reflect.DeepEqual(on, expected) {
			t.Errorf("batch=%v cache on: expected %v, got %v", batch, expected, on)
		}
	}
}

type violC05v2Store struct {
	kvs []KVPair // sorted by key
}

func violC05v2NewStore(pairs ...string) *violC05v2Store {
	s := &violC05v2Store{}
	for i := 0; i+1 < len(pairs); i += 2 {
		s.kvs = append(s.kvs, NewKVPStr(pairs[i], pairs[i+1]))
	}
	sort.Slice(s.kvs, func(i, j int) bool { return bytes.Compare(s.kvs[i].Key, s.kvs[j].Key) < 0 })
	return s
}

func (s *violC05v2Store) Get(key []byte) ([]byte, error) {
	for _, kv := range s.kvs {
		if bytes.Equal(kv.Key, key) {
			return kv.Value, nil
		}
	}
	return nil, nil
}
func (s *violC05v2Store) Put(key []byte, value []byte) error { return nil }
func (s *violC05v2Store) BatchPut(kvs []KVPair) error        { return nil }
func (s *violC05v2Store) Delete(key []byte) error            { return nil }
func (s *violC05v2Store) BatchDelete(keys [][]byte) error    { return nil }
func (s *violC05v2Store) Cursor() (Cursor, error)            { return &violC05v2Cursor{s: s}, nil }

type violC05v2Cursor struct {
	s   *violC05v2Store
	idx int
}

func (c *violC05v2Cursor) Seek(prefix []byte) error {
	c.idx = sort.Search(len(c.s.kvs), func(i int) bool { return bytes.Compare(c.s.kvs[i].Key, prefix) >= 0 })
	return nil
}

func (c *violC05v2Cursor) Next() ([]byte, []byte, error) {
	if c.idx >= len(c.s.kvs) {
		return nil, nil, nil
	}
	kv := c.s.kvs[c.idx]
	c.idx++
	return kv.Key, kv.Value, nil
}

// violC05v2Run executes the query and renders every row as "col,col,..."
// (byte slices and strings as text, everything else with %v)
func violC05v2Run(t *testing.T, s Storage, query string, cache bool, batch bool) []string {
	t.Helper()
	plan, err := NewOptimizer(query).BuildPlan(s)
	if err != nil {
		t.Fatalf("query %q is not accepted: %v", query, err)
	}
	ctx := NewExecuteCtx()
	ctx.EnableCache = cache
	var rows [][]Column
	for {
		if batch {
			rs, err := plan.Batch(ctx)
			if err != nil {
				t.Fatalf("query %q: %v", query, err)
			}
			if len(rs) == 0 {
				break
			}
			rows = append(rows, rs...)
		} else {
			r, err := plan.Next(ctx)
			if err != nil {
				t.Fatalf("query %q: %v", query, err)
			}
			if r == nil {
				break
			}
			rows = append(rows, r)
		}
	}
	ret := []string{}
	for _, r := range rows {
		cols := []string{}
		for _, c := range r {
			switch v := c.(type) {
			case []byte:
				cols = append(cols, string(v))
			default:
				cols = append(cols, fmt.Sprintf("%v", v))
			}
		}
		ret = append(ret, strings.Join(cols, ","))
	}
	return ret
}
