package kvql

import (
	"bytes"
	"fmt"
	"sort"
	"strings"
	"testing"
)

// Minimal in-memory sorted storage for the demo.
type violC09v3Store struct {
	kvs []KVPair
}

func violC09v3NewStore(pairs ...string) *violC09v3Store {
	s := &violC09v3Store{}
	for i := 0; i+1 < len(pairs); i += 2 {
		s.kvs = append(s.kvs, NewKVPStr(pairs[i], pairs[i+1]))
	}
	sort.SliceStable(s.kvs, func(i, j int) bool {
		return bytes.Compare(s.kvs[i].Key, s.kvs[j].Key) < 0
	})
	return s
}

func (s *violC09v3Store) Get(key []byte) ([]byte, error) {
	for _, kv := range s.kvs {
		if bytes.Equal(kv.Key, key) {
			return kv.Value, nil
		}
	}
	return nil, nil
}
func (s *violC09v3Store) Put(key []byte, value []byte) error { return nil }
func (s *violC09v3Store) BatchPut(kvs []KVPair) error        { return nil }
func (s *violC09v3Store) Delete(key []byte) error            { return nil }
func (s *violC09v3Store) BatchDelete(keys [][]byte) error    { return nil }
func (s *violC09v3Store) Cursor() (Cursor, error) {
	return &violC09v3Cursor{s: s}, nil
}

type violC09v3Cursor struct {
	s   *violC09v3Store
	idx int
}

func (c *violC09v3Cursor) Seek(prefix []byte) error {
	c.idx = sort.Search(len(c.s.kvs), func(i int) bool {
		return bytes.Compare(c.s.kvs[i].Key, prefix) >= 0
	})
	return nil
}

func (c *violC09v3Cursor) Next() ([]byte, []byte, error) {
	if c.idx >= len(c.s.kvs) {
		return nil, nil, nil
	}
	kv := c.s.kvs[c.idx]
	c.idx++
	return kv.Key, kv.Value, nil
}

func violC09v3Col(c Column) string {
	switch v := c.(type) {
	case []byte:
		return string(v)
	case string:
		return v
	default:
		return fmt.Sprint(v)
	}
}

// violC09v3Run executes the query in row mode (Next) or batch mode (Batch)
// and renders every row as "col, col, ...".
func violC09v3Run(s Storage, query string, batch bool) ([]string, error) {
	plan, err := NewOptimizer(query).BuildPlan(s)
	if err != nil {
		return nil, err
	}
	ctx := NewExecuteCtx()
	var rows [][]Column
	for {
		if batch {
			rs, err := plan.Batch(ctx)
			if err != nil {
				return nil, err
			}
			if len(rs) == 0 {
				break
			}
			rows = append(rows, rs...)
		} else {
			r, err := plan.Next(ctx)
			if err != nil {
				return nil, err
			}
			if r == nil {
				break
			}
			rows = append(rows, r)
		}
	}
	out := make([]string, 0, len(rows))
	for _, r := range rows {
		cols := make([]string, 0, len(r))
		for _, c := range r {
			cols = append(cols, violC09v3Col(c))
		}
		out = append(out, strings.Join(cols, ", "))
	}
	return out, nil
}

// An aggregate grouped by `value` (which GROUP BY accepts without it being a
// select field): one row per distinct value, in order of first appearance.
func TestViolation_C09_v3(t *testing.T) {
	s := violC09v3NewStore(
		"k1", "x",
		"k2", "y",
		"k3", "x",
	)
	query := "select count(1) where key ^= 'k' group by value"
	want := []string{"2", "1"}
	for _, batch := range []bool{false, true} {
		got, err := violC09v3Run(s, query, batch)
		if err != nil {
			t.Errorf("batch=%v: %s\n  want rows %q\n  got error: %v", batch, query, want, err)
			continue
		}
		if strings.Join(got, "\n") != strings.Join(want, "\n") {
			t.Errorf("batch=%v: %s\n  want rows %q\n  got  rows %q", batch, query, want, got)
		}
	}

	// Same thing with two grouping expressions of which only one is selected.
	query = "select key, count(1) where key ^= 'k' group by key, value"
	want = []string{"k1, 1", "k2, 1", "k3, 1"}
	for _, batch := range []bool{false, true} {
		got, err := violC09v3Run(s, query, batch)
		if err != nil {
			t.Errorf("batch=%v: %s\n  want rows %q\n  got error: %v", batch, query, want, err)
			continue
		}
		if strings.Join(got, "\n") != strings.Join(want, "\n") {
			t.Errorf("batch=%v: %s\n  want rows %q\n  got  rows %q", batch, query, want, got)
		}
	}

	// Control: with a different number of select fields the very same grouping works.
	query = "select count(1), count(1) as c2 where key ^= 'k' group by value"
	want = []string{"2, 2", "1, 1"}
	got, err := violC09v3Run(s, query, false)
	if err != nil || strings.Join(got, "\n") != strings.Join(want, "\n") {
		t.Errorf("control %s: want %q got %q err %v", query, want, got, err)
	}
}
