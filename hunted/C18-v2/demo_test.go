package kvql

import (
	"sort"
	"testing"
)

// violC18v2Store is a sorted in-memory store that records every key handed
// out by Get and by its cursors.
type violC18v2Store struct {
	keys  []string
	gets  []string // keys asked for with Get
	nexts []string // keys returned by a cursor
}

func (s *violC18v2Store) Get(key []byte) ([]byte, error) {
	s.gets = append(s.gets, string(key))
	i := sort.SearchStrings(s.keys, string(key))
	if i < len(s.keys) && s.keys[i] == string(key) {
		return []byte("v"), nil
	}
	return nil, nil
}
func (s *violC18v2Store) Put(key []byte, value []byte) error { return nil }
func (s *violC18v2Store) BatchPut(kvs []KVPair) error        { return nil }
func (s *violC18v2Store) Delete(key []byte) error            { return nil }
func (s *violC18v2Store) BatchDelete(keys [][]byte) error    { return nil }
func (s *violC18v2Store) Cursor() (Cursor, error)            { return &violC18v2Cursor{s: s}, nil }

type violC18v2Cursor struct {
	s   *violC18v2Store
	idx int
}

func (c *violC18v2Cursor) Seek(k []byte) error {
	c.idx = sort.SearchStrings(c.s.keys, string(k))
	return nil
}

func (c *violC18v2Cursor) Next() ([]byte, []byte, error) {
	if c.idx >= len(c.s.keys) {
		return nil, nil, nil
	}
	k := c.s.keys[c.idx]
	c.idx++
	c.s.nexts = append(c.s.nexts, k)
	return []byte(k), []byte("v"), nil
}

func violC18v2Run(t *testing.T, query string) *violC18v2Store {
	s := &violC18v2Store{keys: []string{"a", "ab", "b", "ba", "c"}}
	plan, err := NewOptimizer(query).BuildPlan(s)
	if err != nil {
		t.Fatalf("%s: %v", query, err)
	}
	ctx := NewExecuteCtx()
	for {
		row, err := plan.Next(ctx)
		if err != nil {
			t.Fatalf("%s: %v", query, err)
		}
		if row == nil {
			break
		}
	}
	return s
}

func TestViolation_C18_v2(t *testing.T) {
	// key ^= 'a' and key ^= 'b' are disjoint prefixes: the clause is
	// unsatisfiable on its face, whatever else it contains. Nothing may be read.
	q := "where key ^= 'a' & key >= 'ab' & key ^= 'b'"
	s := violC18v2Run(t, q)
	if len(s.gets)+len(s.nexts) != 0 {
		t.Errorf("%s: disjoint prefixes, expected no read, got Get%q cursor%q", q, s.gets, s.nexts)
	}
	// control: the same conjuncts in another order are recognised as empty
	q = "where key ^= 'a' & key ^= 'b' & key >= 'ab'"
	s = violC18v2Run(t, q)
	if len(s.gets)+len(s.nexts) != 0 {
		t.Errorf("%s: disjoint prefixes, expected no read, got Get%q cursor%q", q, s.gets, s.nexts)
	}
}
