package kvql

import (
	"bytes"
	"sort"
	"testing"
)

// viol2C14v3Store is a sorted in-memory Storage that counts every call made to it
// (and to its cursors).
type viol2C14v3Store struct {
	kvs   []KVPair
	calls int
}

func (s *viol2C14v3Store) find(key []byte) (int, bool) {
	i := sort.Search(len(s.kvs), func(i int) bool { return bytes.Compare(s.kvs[i].Key, key) >= 0 })
	return i, i < len(s.kvs) && bytes.Equal(s.kvs[i].Key, key)
}

func (s *viol2C14v3Store) set(key, value []byte) {
	i, have := s.find(key)
	if have {
		s.kvs[i].Value = value
		return
	}
	s.kvs = append(s.kvs, KVPair{})
	copy(s.kvs[i+1:], s.kvs[i:])
	s.kvs[i] = KVPair{Key: key, Value: value}
}

func (s *viol2C14v3Store) del(key []byte) {
	if i, have := s.find(key); have {
		s.kvs = append(s.kvs[:i], s.kvs[i+1:]...)
	}
}

func (s *viol2C14v3Store) Get(key []byte) ([]byte, error) {
	s.calls++
	if i, have := s.find(key); have {
		return s.kvs[i].Value, nil
	}
	return nil, nil
}

func (s *viol2C14v3Store) Put(key []byte, value []byte) error {
	s.calls++
	s.set(key, value)
	return nil
}

func (s *viol2C14v3Store) BatchPut(kvs []KVPair) error {
	s.calls++
	for _, kv := range kvs {
		s.set(kv.Key, kv.Value)
	}
	return nil
}

func (s *viol2C14v3Store) Delete(key []byte) error {
	s.calls++
	s.del(key)
	return nil
}

func (s *viol2C14v3Store) BatchDelete(keys [][]byte) error {
	s.calls++
	for _, k := range keys {
		s.del(k)
	}
	return nil
}

func (s *viol2C14v3Store) Cursor() (Cursor, error) {
	s.calls++
	return &viol2C14v3Cursor{s: s}, nil
}

type viol2C14v3Cursor struct {
	s   *viol2C14v3Store
	idx int
}

func (c *viol2C14v3Cursor) Seek(prefix []byte) error {
	c.s.calls++
	c.idx, _ = c.s.find(prefix)
	return nil
}

func (c *viol2C14v3Cursor) Next() ([]byte, []byte, error) {
	c.s.calls++
	if c.idx >= len(c.s.kvs) {
		return nil, nil, nil
	}
	kv := c.s.kvs[c.idx]
	c.idx++
	return kv.Key, kv.Value, nil
}

// A Boolean literal is a Boolean expression (where true, !true and
// is_int(value) = true are accepted), but not as an operand of & | and or.
func TestViolation2_C14_v3(t *testing.T) {
	store := &viol2C14v3Store{}
	store.set([]byte("k1"), []byte("v1"))
	store.set([]byte("k2"), []byte("v2"))

	q := "where key = 'k1' & true"
	plan, err := NewOptimizer(q).BuildPlan(store)
	if err != nil {
		t.Fatalf("%s:\n  expected: accepted (Boolean & Boolean), result [k1]\n  actual:   rejected with %q", q, err)
	}
	ctx := NewExecuteCtx()
	var keys []string
	for {
		row, err := plan.Next(ctx)
		if err != nil {
			t.Fatalf("%s: execution failed: %v", q, err)
		}
		if row == nil {
			break
		}
		keys = append(keys, string(row[0].([]byte)))
	}
	if len(keys) != 1 || keys[0] != "k1" {
		t.Fatalf("%s: expected [k1], got %v", q, keys)
	}
}
