package kvql

import (
	"bytes"
	"fmt"
	"sort"
	"strings"
	"testing"
)

// minimal sorted in-memory storage

type violC15v3Store struct{ data []KVPair }

func violC15v3NewStore(kvs ...KVPair) *violC15v3Store {
	sort.Slice(kvs, func(i, j int) bool { return bytes.Compare(kvs[i].Key, kvs[j].Key) < 0 })
	return &violC15v3Store{data: kvs}
}

func (s *violC15v3Store) Get(key []byte) ([]byte, error) {
	for _, kv := range s.data {
		if bytes.Equal(kv.Key, key) {
			return kv.Value, nil
		}
	}
	return nil, nil
}
func (s *violC15v3Store) Put(key []byte, value []byte) error { return nil }
func (s *violC15v3Store) BatchPut(kvs []KVPair) error        { return nil }
func (s *violC15v3Store) Delete(key []byte) error            { return nil }
func (s *violC15v3Store) BatchDelete(keys [][]byte) error    { return nil }
func (s *violC15v3Store) Cursor() (Cursor, error)            { return &violC15v3Cursor{data: s.data}, nil }

type violC15v3Cursor struct {
	data []KVPair
	idx  int
}

func (c *violC15v3Cursor) Seek(prefix []byte) error {
	c.idx = sort.Search(len(c.data), func(i int) bool { return bytes.Compare(c.data[i].Key, prefix) >= 0 })
	return nil
}

func (c *violC15v3Cursor) Next() ([]byte, []byte, error) {
	if c.idx >= len(c.data) {
		return nil, nil, nil
	}
	kv := c.data[c.idx]
	c.idx++
	return kv.Key, kv.Value, nil
}

// violC15v3Run executes the query row by row and returns the keys of the
// result rows, the EXPLAIN lines and the filter text that EXPLAIN shows.
func violC15v3Run(t *testing.T, s Storage, query string) (keys []string, explain string, filter string) {
	t.Helper()
	opt := NewOptimizer(query)
	plan, err := opt.BuildPlan(s)
	if err != nil {
		t.Fatalf("%q: %v", query, err)
	}
	ctx := NewExecuteCtx()
	for {
		row, err := plan.Next(ctx)
		if err != nil {
			t.Fatalf("%q: %v", query, err)
		}
		if row == nil {
			break
		}
		keys = append(keys, string(row[0].([]byte)))
	}
	return keys, strings.Join(plan.Explain(), "\n"), opt.filter.Explain()
}

func TestViolation_C15_v3(t *testing.T) {
	store := violC15v3NewStore(NewKVPStr("Foo", "1"), NewKVPStr("foo", "2"))

	// A back-quoted name keeps its letters as written (a bare one is folded to
	// lower case). As a function argument that is not a select field it
	// evaluates to its own text: str(`Foo`) is 'Foo'.
	query := "select * where key = str(`Foo`)"
	keys, explain, filter := violC15v3Run(t, store, query)
	if fmt.Sprint(keys) != "[Foo]" {
		t.Fatalf("%q: got rows %v, want [Foo]", query, keys)
	}
	if !strings.Contains(explain, "Filter = '"+filter+"'") {
		t.Fatalf("EXPLAIN %q does not show the filter %q", explain, filter)
	}
	t.Logf("EXPLAIN: %s", explain)

	// The printed filter, parsed again, must be the same tree: the same name
	// in the argument, hence the same rows.
	requery := "select * where " + filter
	keys2, _, _ := violC15v3Run(t, store, requery)
	if fmt.Sprint(keys2) != fmt.Sprint(keys) {
		t.Errorf("the executed filter of %q selects %v, but its printed form %q selects %v", query, keys, filter, keys2)
	}
	argName := func(q string) string {
		o := NewOptimizer(q)
		if err := o.init(); err != nil {
			t.Fatalf("%q: %v", q, err)
		}
		call := o.filter.Ast.Expr.(*BinaryOpExpr).Right.(*FunctionCallExpr)
		return call.Args[0].(*NameExpr).Data
	}
	if n1, n2 := argName(query), argName(requery); n1 != n2 {
		t.Errorf("the argument is the name %q in the parsed statement but %q after printing (%s) and parsing again", n1, n2, filter)
	}
}
