package kvql

import (
	"bytes"
	"fmt"
	"reflect"
	"sort"
	"testing"
)

// Minimal in-memory sorted storage.
type violC10v1Store struct{ data []KVPair }

func (s *violC10v1Store) Get(key []byte) ([]byte, error) {
	for _, kv := range s.data {
		if bytes.Equal(kv.Key, key) {
			return kv.Value, nil
		}
	}
	return nil, nil
}
func (s *violC10v1Store) Put(k, v []byte) error        { return nil }
func (s *violC10v1Store) BatchPut(kvs []KVPair) error  { return nil }
func (s *violC10v1Store) Delete(k []byte) error        { return nil }
func (s *violC10v1Store) BatchDelete(k [][]byte) error { return nil }
func (s *violC10v1Store) Cursor() (Cursor, error)      { return &violC10v1Cursor{s: s}, nil }

type violC10v1Cursor struct {
	s   *violC10v1Store
	idx int
}

func (c *violC10v1Cursor) Seek(prefix []byte) error {
	c.idx = sort.Search(len(c.s.data), func(i int) bool {
		return bytes.Compare(c.s.data[i].Key, prefix) >= 0
	})
	return nil
}

func (c *violC10v1Cursor) Next() ([]byte, []byte, error) {
	if c.idx >= len(c.s.data) {
		return nil, nil, nil
	}
	kv := c.s.data[c.idx]
	c.idx++
	return kv.Key, kv.Value, nil
}

// violC10v1Floats renders a list value ([]int64 or []float64) as numbers.
func violC10v1Floats(v any) []float64 {
	rv := reflect.ValueOf(v)
	if rv.Kind() != reflect.Slice {
		return nil
	}
	ret := make([]float64, rv.Len())
	for i := range ret {
		switch e := rv.Index(i).Interface().(type) {
		case int64:
			ret[i] = float64(e)
		case float64:
			ret[i] = e
		default:
			return nil
		}
	}
	return ret
}

// list(value, 2) must hold its two arguments, row by row, in both iteration
// modes. In batch mode the element type of ALL rows of a chunk is taken from the
// first row of the chunk: after the row with value '1' the row with value '1.5'
// yields [1 2] instead of [1.5 2].
func TestViolation_C10_v1(t *testing.T) {
	store := &violC10v1Store{data: []KVPair{
		NewKVPStr("a", "1"),
		NewKVPStr("b", "1.5"),
	}}
	query := "select key, list(value, 2) where key >= 'a'"
	want := [][]float64{{1, 2}, {1.5, 2}}

	// row mode
	plan, err := NewOptimizer(query).BuildPlan(store)
	if err != nil {
		t.Fatal(err)
	}
	ctx := NewExecuteCtx()
	var rowMode [][]float64
	for {
		row, err := plan.Next(ctx)
		if err != nil {
			t.Fatal(err)
		}
		if row == nil {
			break
		}
		rowMode = append(rowMode, violC10v1Floats(row[1]))
	}

	// batch mode
	plan, err = NewOptimizer(query).BuildPlan(store)
	if err != nil {
		t.Fatal(err)
	}
	ctx = NewExecuteCtx()
	var batchMode [][]float64
	for {
		rows, err := plan.Batch(ctx)
		if err != nil {
			t.Fatal(err)
		}
		if len(rows) == 0 {
			break
		}
		for _, row := range rows {
			batchMode = append(batchMode, violC10v1Floats(row[1]))
		}
	}

	if fmt.Sprint(rowMode) != fmt.Sprint(want) {
		t.Errorf("row mode: list(value, 2) = %v, want %v", rowMode, want)
	}
	if fmt.Sprint(batchMode) != fmt.Sprint(want) {
		t.Errorf("batch mode: list(value, 2) = %v, want %v", batchMode, want)
	}
}
