package kvql

import (
	"bytes"
	"sort"
	"testing"
)

// A sorted in-memory store that records every key it hands out.
type viol2C18v1Store struct {
	keys  []string
	reads []string
}

func (s *viol2C18v1Store) Get(key []byte) ([]byte, error) {
	s.reads = append(s.reads, "get:"+string(key))
	i := sort.SearchStrings(s.keys, string(key))
	if i < len(s.keys) && s.keys[i] == string(key) {
		return []byte("v"), nil
	}
	return nil, nil
}
func (s *viol2C18v1Store) Put(key []byte, value []byte) error { return nil }
func (s *viol2C18v1Store) BatchPut(kvs []KVPair) error        { return nil }
func (s *viol2C18v1Store) Delete(key []byte) error            { return nil }
func (s *viol2C18v1Store) BatchDelete(keys [][]byte) error    { return nil }
func (s *viol2C18v1Store) Cursor() (Cursor, error)            { return &viol2C18v1Cursor{s: s}, nil }

type viol2C18v1Cursor struct {
	s   *viol2C18v1Store
	idx int
}

func (c *viol2C18v1Cursor) Seek(prefix []byte) error {
	c.idx = sort.Search(len(c.s.keys), func(i int) bool {
		return bytes.Compare([]byte(c.s.keys[i]), prefix) >= 0
	})
	return nil
}

func (c *viol2C18v1Cursor) Next() ([]byte, []byte, error) {
	if c.idx >= len(c.s.keys) {
		return nil, nil, nil
	}
	k := c.s.keys[c.idx]
	c.idx++
	c.s.reads = append(c.s.reads, "next:"+k)
	return []byte(k), []byte("v"), nil
}

func viol2C18v1Run(t *testing.T, query string) (rows int, reads []string) {
	store := &viol2C18v1Store{keys: []string{"a", "ab", "b", "ba", "c"}}
	plan, err := NewOptimizer(query).BuildPlan(store)
	if err != nil {
		t.Fatalf("%s: %v", query, err)
	}
	ctx := NewExecuteCtx()
	for {
		row, err := plan.Next(ctx)
		if err != nil {
			t.Fatalf("%s: %v", query, err)
		}
		if row == nil {
			break
		}
		rows++
	}
	return rows, store.reads
}

func TestViolation2_C18_v1(t *testing.T) {
	// The same three conjuncts, with the two disjoint prefixes next to each
	// other: nothing is read (this holds on the unchanged tree)
	rows, reads := viol2C18v1Run(t, "where key ^= 'a' & key ^= 'b' & key >= 'ab'")
	if rows != 0 || len(reads) != 0 {
		t.Fatalf("control: rows=%d reads=%v, expected none", rows, reads)
	}

	// No key starts with both 'a' and 'b': the clause is unsatisfiable on its
	// face (disjoint prefixes) and must not read anything
	rows, reads = viol2C18v1Run(t, "where key ^= 'a' & key >= 'ab' & key ^= 'b'")
	if rows != 0 {
		t.Fatalf("rows=%d, expected 0", rows)
	}
	if len(reads) != 0 {
		t.Fatalf("disjoint prefixes 'a' and 'b': expected no storage read, got %v", reads)
	}
}
