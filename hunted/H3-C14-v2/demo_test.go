package kvql

import (
	"bytes"
	"sort"
	"testing"
)

// A small sorted in-memory store that counts every storage call.
type viol2C14v2Store struct {
	kvs   []KVPair
	calls int
}

func (s *viol2C14v2Store) find(key []byte) int {
	return sort.Search(len(s.kvs), func(i int) bool { return bytes.Compare(s.kvs[i].Key, key) >= 0 })
}

func (s *viol2C14v2Store) Get(key []byte) ([]byte, error) {
	s.calls++
	if i := s.find(key); i < len(s.kvs) && bytes.Equal(s.kvs[i].Key, key) {
		return s.kvs[i].Value, nil
	}
	return nil, nil
}

func (s *viol2C14v2Store) Put(key []byte, value []byte) error {
	s.calls++
	i := s.find(key)
	if i < len(s.kvs) && bytes.Equal(s.kvs[i].Key, key) {
		s.kvs[i].Value = value
		return nil
	}
	s.kvs = append(s.kvs, KVPair{})
	copy(s.kvs[i+1:], s.kvs[i:])
	s.kvs[i] = KVPair{Key: key, Value: value}
	return nil
}

func (s *viol2C14v2Store) BatchPut(kvs []KVPair) error {
	for _, kv := range kvs {
		s.Put(kv.Key, kv.Value)
	}
	return nil
}

func (s *viol2C14v2Store) Delete(key []byte) error {
	s.calls++
	if i := s.find(key); i < len(s.kvs) && bytes.Equal(s.kvs[i].Key, key) {
		s.kvs = append(s.kvs[:i], s.kvs[i+1:]...)
	}
	return nil
}

func (s *viol2C14v2Store) BatchDelete(keys [][]byte) error {
	for _, k := range keys {
		s.Delete(k)
	}
	return nil
}

func (s *viol2C14v2Store) Cursor() (Cursor, error) {
	s.calls++
	return &viol2C14v2Cursor{s: s}, nil
}

type viol2C14v2Cursor struct {
	s   *viol2C14v2Store
	idx int
}

func (c *viol2C14v2Cursor) Seek(prefix []byte) error {
	c.s.calls++
	c.idx = c.s.find(prefix)
	return nil
}

func (c *viol2C14v2Cursor) Next() ([]byte, []byte, error) {
	c.s.calls++
	if c.idx >= len(c.s.kvs) {
		return nil, nil, nil
	}
	kv := c.s.kvs[c.idx]
	c.idx++
	return kv.Key, kv.Value, nil
}

func viol2C14v2NewStore() *viol2C14v2Store {
	s := &viol2C14v2Store{}
	s.Put([]byte("k1"), []byte("v1"))
	s.Put([]byte("k2"), []byte("v2"))
	s.calls = 0
	return s
}


// viol2C14v2Run builds the plan and drains it, row by row or in batches. It
// returns the error of BuildPlan, the storage calls made while building, and
// the error of the execution (nil when the plan was not built).
func viol2C14v2Run(q string, batch bool) (buildErr error, buildCalls int, execErr error, nrows int) {
	s := viol2C14v2NewStore()
	plan, err := NewOptimizer(q).BuildPlan(s)
	if err != nil {
		return err, s.calls, nil, 0
	}
	buildCalls = s.calls
	ctx := NewExecuteCtx()
	for {
		if batch {
			rows, err := plan.Batch(ctx)
			if err != nil {
				return nil, buildCalls, err, nrows
			}
			if len(rows) == 0 {
				return nil, buildCalls, nil, nrows
			}
			nrows += len(rows)
		} else {
			row, err := plan.Next(ctx)
			if err != nil {
				return nil, buildCalls, err, nrows
			}
			if row == nil {
				return nil, buildCalls, nil, nrows
			}
			nrows++
		}
	}
}

func TestViolation3_C14_v2(t *testing.T) {
	for _, q := range []string{
		// The element of a list of integers is an integer, the checker types
		// it as a text: comparing it with a text passes the checker and `=`
		// then refuses its operands on every row.
		"select key where int_list(1, 2)[0] = '1'",
		// The element of a list of texts is a text; `[0]` applied to that text
		// is an operator on an operand type it does not support, no JSON
		// document is involved.
		"select key where split(value, ',')[0][0] = 'v'",
	} {
		for _, batch := range []bool{false, true} {
			berr, calls, xerr, _ := viol2C14v2Run(q, batch)
			switch {
			case berr != nil && calls == 0:
				// rejected when the plan is built: fine
			case berr != nil:
				t.Errorf("%q: rejected, but after %d storage calls", q, calls)
			case xerr != nil:
				// accepted, so the execution must not fail on the types of
				// the operands
				t.Errorf("%q (batch=%v): accepted when the plan was built, execution failed with an operand-type error: %v", q, batch, xerr)
			}
		}
	}
	// (what the checker refuses instead: the well-typed comparison with a number)
	if berr, _, _, _ := viol2C14v2Run("select key where int_list(1, 2)[0] = 1", false); berr == nil {
		t.Logf("note: int_list(1, 2)[0] = 1 is accepted")
	} else {
		t.Logf("note: the well-typed int_list(1, 2)[0] = 1 is rejected: %v", berr)
	}
}
