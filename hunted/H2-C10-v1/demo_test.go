package kvql

import (
	"bytes"
	"sort"
	"testing"
)

type viol2C10v1Store struct {
	kvs []KVPair
}

func (s *viol2C10v1Store) Get(key []byte) ([]byte, error) {
	for _, kv := range s.kvs {
		if bytes.Equal(kv.Key, key) {
			return kv.Value, nil
		}
	}
	return nil, nil
}
func (s *viol2C10v1Store) Put(key []byte, value []byte) error { return nil }
func (s *viol2C10v1Store) BatchPut(kvs []KVPair) error        { return nil }
func (s *viol2C10v1Store) Delete(key []byte) error            { return nil }
func (s *viol2C10v1Store) BatchDelete(keys [][]byte) error    { return nil }
func (s *viol2C10v1Store) Cursor() (Cursor, error)            { return &viol2C10v1Cursor{s: s}, nil }

type viol2C10v1Cursor struct {
	s   *viol2C10v1Store
	idx int
}

func (c *viol2C10v1Cursor) Seek(prefix []byte) error {
	c.idx = sort.Search(len(c.s.kvs), func(i int) bool { return bytes.Compare(c.s.kvs[i].Key, prefix) >= 0 })
	return nil
}

func (c *viol2C10v1Cursor) Next() ([]byte, []byte, error) {
	if c.idx >= len(c.s.kvs) {
		return nil, nil, nil
	}
	kv := c.s.kvs[c.idx]
	c.idx++
	return kv.Key, kv.Value, nil
}

// The list stored in a JSON document is a list value: len() counts it and [n]
// indexes it, but l2_distance / cosine_distance refuse it.
func TestViolation2_C10_v1(t *testing.T) {
	store := &viol2C10v1Store{kvs: []KVPair{NewKVPStr("k1", `{"v":[3,4]}`)}}
	query := "select len(json(value)['v']), l2_distance(list(6,8), json(value)['v']), cosine_distance(list(6,8), json(value)['v']) where key = 'k1'"

	check := func(mode string, row []Column) {
		if len(row) != 3 {
			t.Fatalf("%s: expected 3 columns, got %v", mode, row)
		}
		if n, ok := convertToInt(row[0]); !ok || n != 2 {
			t.Errorf("%s: len(json(value)['v']) = %v, expected 2", mode, row[0])
		}
		// sqrt((6-3)^2 + (8-4)^2) = 5
		if f, ok := row[1].(float64); !ok || f != 5 {
			t.Errorf("%s: l2_distance = %v, expected 5", mode, row[1])
		}
		// 1 - (6*3+8*4) / (sqrt(100)*sqrt(25)) = 0
		if f, ok := row[2].(float64); !ok || f != 0 {
			t.Errorf("%s: cosine_distance = %v, expected 0", mode, row[2])
		}
	}

	// Row mode
	plan, err := NewOptimizer(query).BuildPlan(store)
	if err != nil {
		t.Fatalf("build: %v", err)
	}
	row, err := plan.Next(NewExecuteCtx())
	if err != nil {
		t.Errorf("Next: expected the row (2, 5, 0), got error: %v", err)
	} else {
		check("Next", row)
	}

	// Batch mode
	plan, err = NewOptimizer(query).BuildPlan(store)
	if err != nil {
		t.Fatalf("build: %v", err)
	}
	rows, err := plan.Batch(NewExecuteCtx())
	if err != nil {
		t.Errorf("Batch: expected the row (2, 5, 0), got error: %v", err)
	} else if len(rows) != 1 {
		t.Errorf("Batch: expected 1 row, got %d", len(rows))
	} else {
		check("Batch", rows[0])
	}
}
