package kvql

import (
	"fmt"
	"sort"
	"testing"
)

// Minimal in-memory sorted storage (ascending byte-wise key order).
type viol2C01v1Store struct {
	keys []string
	data map[string]string
}

func viol2C01v1NewStore(kvs map[string]string) *viol2C01v1Store {
	s := &viol2C01v1Store{data: kvs}
	for k := range kvs {
		s.keys = append(s.keys, k)
	}
	sort.Strings(s.keys)
	return s
}

func (s *viol2C01v1Store) Get(key []byte) ([]byte, error) {
	v, ok := s.data[string(key)]
	if !ok {
		return nil, nil
	}
	return []byte(v), nil
}
func (s *viol2C01v1Store) Put(key []byte, value []byte) error { return nil }
func (s *viol2C01v1Store) BatchPut(kvs []KVPair) error       { return nil }
func (s *viol2C01v1Store) Delete(key []byte) error           { return nil }
func (s *viol2C01v1Store) BatchDelete(keys [][]byte) error   { return nil }
func (s *viol2C01v1Store) Cursor() (Cursor, error)           { return &viol2C01v1Cursor{s: s}, nil }

type viol2C01v1Cursor struct {
	s   *viol2C01v1Store
	idx int
}

// Seek positions the cursor on the first key >= target.
func (c *viol2C01v1Cursor) Seek(target []byte) error {
	c.idx = sort.SearchStrings(c.s.keys, string(target))
	return nil
}

func (c *viol2C01v1Cursor) Next() ([]byte, []byte, error) {
	if c.idx >= len(c.s.keys) {
		return nil, nil, nil
	}
	k := c.s.keys[c.idx]
	c.idx++
	return []byte(k), []byte(c.s.data[k]), nil
}

func viol2C01v1Rows(t *testing.T, query string, st Storage, batch bool) ([]string, error) {
	plan, err := NewOptimizer(query).BuildPlan(st)
	if err != nil {
		t.Fatalf("query %q was not accepted: %v", query, err)
	}
	ctx := NewExecuteCtx()
	rows := []string{}
	for {
		if batch {
			chunk, err := plan.Batch(ctx)
			if err != nil {
				return rows, err
			}
			if len(chunk) == 0 {
				return rows, nil
			}
			for _, cols := range chunk {
				rows = append(rows, fmt.Sprintf("%s=%s", cols[0], cols[1]))
			}
		} else {
			cols, err := plan.Next(ctx)
			if err != nil {
				return rows, err
			}
			if cols == nil {
				return rows, nil
			}
			rows = append(rows, fmt.Sprintf("%s=%s", cols[0], cols[1]))
		}
	}
}

// README: "BETWEEN x AND y: great or equals than x and less or equals than y".
// On the pair (abcdefg, 3) the predicate is 3 >= 7 and 3 <= 5, that is false;
// on the pair (a, 3) it is 3 >= 1 and 3 <= 5, that is true. The select must
// return exactly the pair a=3. Instead the whole statement fails with
// "between operator lower boundary is greater than upper boundary".
func TestViolation3_C01_v1(t *testing.T) {
	st := viol2C01v1NewStore(map[string]string{"a": "3", "abcdefg": "3"})
	query := "select * where int(value) between strlen(key) and 5"
	want := "[a=3]"
	for _, batch := range []bool{false, true} {
		mode := "Next"
		if batch {
			mode = "Batch"
		}
		got, err := viol2C01v1Rows(t, query, st, batch)
		if err != nil {
			t.Errorf("%s mode: %q: want rows %s, got error: %v (rows so far %v)", mode, query, want, err, got)
			continue
		}
		if fmt.Sprint(got) != want {
			t.Errorf("%s mode: %q: want rows %s, got %v", mode, query, want, got)
		}
	}
}
