package kvql

import (
	"bytes"
	"fmt"
	"sort"
	"strings"
	"testing"
)

// ---- minimal sorted in-memory storage --------------------------------------

type viol2C15v3Store struct{ kvs []KVPair }

func viol2C15v3NewStore(kvs ...KVPair) *viol2C15v3Store {
	sort.Slice(kvs, func(i, j int) bool { return bytes.Compare(kvs[i].Key, kvs[j].Key) < 0 })
	return &viol2C15v3Store{kvs: kvs}
}

func (s *viol2C15v3Store) Get(key []byte) ([]byte, error) {
	for _, kv := range s.kvs {
		if bytes.Equal(kv.Key, key) {
			return kv.Value, nil
		}
	}
	return nil, nil
}
func (s *viol2C15v3Store) Put(key []byte, value []byte) error { return nil }
func (s *viol2C15v3Store) BatchPut(kvs []KVPair) error        { return nil }
func (s *viol2C15v3Store) Delete(key []byte) error            { return nil }
func (s *viol2C15v3Store) BatchDelete(keys [][]byte) error    { return nil }
func (s *viol2C15v3Store) Cursor() (Cursor, error)            { return &viol2C15v3Cursor{s: s}, nil }

type viol2C15v3Cursor struct {
	s   *viol2C15v3Store
	idx int
}

func (c *viol2C15v3Cursor) Seek(prefix []byte) error {
	c.idx = sort.Search(len(c.s.kvs), func(i int) bool { return bytes.Compare(c.s.kvs[i].Key, prefix) >= 0 })
	return nil
}

func (c *viol2C15v3Cursor) Next() ([]byte, []byte, error) {
	if c.idx >= len(c.s.kvs) {
		return nil, nil, nil
	}
	kv := c.s.kvs[c.idx]
	c.idx++
	return kv.Key, kv.Value, nil
}

// ---- helpers ----------------------------------------------------------------

// viol2C15v3Shape lists the nodes of a tree in pre-order (node type, and the
// text of the leaves), positions left out
func viol2C15v3Shape(e Expression) string {
	var sb strings.Builder
	e.Walk(func(n Expression) bool {
		switch v := n.(type) {
		case *BinaryOpExpr:
			fmt.Fprintf(&sb, "Binary(%s) ", OperatorToString[v.Op])
		case *NotExpr, *FunctionCallExpr, *ListExpr, *FieldAccessExpr, *FieldReferenceExpr:
			fmt.Fprintf(&sb, "%T ", n)
		default:
			fmt.Fprintf(&sb, "%T(%s) ", n, n.String())
		}
		return true
	})
	return strings.TrimSpace(sb.String())
}

// viol2C15v3Run builds and runs a query. It returns the keys the query
// selects, the filter text that EXPLAIN shows for it and the filter tree that
// is executed
func viol2C15v3Run(s Storage, query string) (keys []string, filter string, where Expression, err error) {
	opt := NewOptimizer(query)
	plan, err := opt.BuildPlan(s)
	if err != nil {
		return nil, "", nil, err
	}
	ctx := NewExecuteCtx()
	for {
		row, err := plan.Next(ctx)
		if err != nil {
			return nil, "", nil, err
		}
		if row == nil {
			break
		}
		keys = append(keys, string(row[0].([]byte)))
	}
	return keys, opt.filter.Explain(), opt.filter.Ast.Expr, nil
}

// The constant comparison 1 = 1 is folded to the literal true, but an & or |
// below the root keeps the literal as its operand. The checker that Parse runs
// does not take a boolean literal as an operand of & | and or: the filter that
// EXPLAIN shows, ((true | (VALUE = 'v1')) & (KEY ^= 'k')), is refused when it
// is read back.
func TestViolation2_C15_v3(t *testing.T) {
	store := viol2C15v3NewStore(NewKVPStr("k1", "v1"), NewKVPStr("k2", "v2"), NewKVPStr("x3", "v3"))
	query := "where (1 = 1 | value = 'v1') & key ^= 'k'"

	keys, filter, where, err := viol2C15v3Run(store, query)
	if err != nil {
		t.Fatalf("query %q: %v", query, err)
	}
	if fmt.Sprint(keys) != "[k1 k2]" {
		t.Fatalf("query %q: got rows %v, want [k1 k2]", query, keys)
	}

	// The filter shown by EXPLAIN is accepted again, is the same tree as the
	// one that was executed, and selects the same rows
	requery := "where " + filter
	keys2, _, where2, err := viol2C15v3Run(store, requery)
	if err != nil {
		t.Fatalf("filter of %q is printed as %q, which is not accepted: %v", query, filter, err)
	}
	if got, want := viol2C15v3Shape(where2), viol2C15v3Shape(where); got != want {
		t.Errorf("filter of %q is printed as %q, which parses to another tree\nexecuted: %s\nprinted : %s", query, filter, want, got)
	}
	if fmt.Sprint(keys2) != fmt.Sprint(keys) {
		t.Errorf("query %q selects %v, the filter EXPLAIN shows for it (%s) selects %v", query, keys, filter, keys2)
	}
}
