package kvql

import (
	"bytes"
	"fmt"
	"sort"
	"strings"
	"testing"
)

// ---- minimal in-memory sorted storage -------------------------------------

type viol2C05v3Store struct {
	kvs []KVPair
}

func viol2C05v3NewStore(pairs ...string) *viol2C05v3Store {
	s := &viol2C05v3Store{}
	for i := 0; i+1 < len(pairs); i += 2 {
		s.kvs = append(s.kvs, NewKVPStr(pairs[i], pairs[i+1]))
	}
	sort.Slice(s.kvs, func(i, j int) bool { return bytes.Compare(s.kvs[i].Key, s.kvs[j].Key) < 0 })
	return s
}

func (s *viol2C05v3Store) Get(key []byte) ([]byte, error) {
	for _, kv := range s.kvs {
		if bytes.Equal(kv.Key, key) {
			return kv.Value, nil
		}
	}
	return nil, nil
}
func (s *viol2C05v3Store) Put(key []byte, value []byte) error { return nil }
func (s *viol2C05v3Store) BatchPut(kvs []KVPair) error        { return nil }
func (s *viol2C05v3Store) Delete(key []byte) error            { return nil }
func (s *viol2C05v3Store) BatchDelete(keys [][]byte) error    { return nil }
func (s *viol2C05v3Store) Cursor() (Cursor, error)            { return &viol2C05v3Cursor{s: s}, nil }

type viol2C05v3Cursor struct {
	s   *viol2C05v3Store
	idx int
}

func (c *viol2C05v3Cursor) Seek(prefix []byte) error {
	c.idx = sort.Search(len(c.s.kvs), func(i int) bool { return bytes.Compare(c.s.kvs[i].Key, prefix) >= 0 })
	return nil
}

func (c *viol2C05v3Cursor) Next() ([]byte, []byte, error) {
	if c.idx >= len(c.s.kvs) {
		return nil, nil, nil
	}
	kv := c.s.kvs[c.idx]
	c.idx++
	return kv.Key, kv.Value, nil
}

// viol2C05v3Run returns the rows of the query, one text per row, columns joined by "|"
func viol2C05v3Run(t *testing.T, s Storage, query string, batch bool) []string {
	t.Helper()
	plan, err := NewOptimizer(query).BuildPlan(s)
	if err != nil {
		t.Fatalf("query %q is not accepted: %v", query, err)
	}
	ctx := NewExecuteCtx()
	render := func(row []Column) string {
		cols := make([]string, len(row))
		for i, c := range row {
			switch v := c.(type) {
			case []byte:
				cols[i] = string(v)
			default:
				cols[i] = fmt.Sprintf("%v", v)
			}
		}
		return strings.Join(cols, "|")
	}
	ret := []string{}
	for {
		if batch {
			rows, err := plan.Batch(ctx)
			if err != nil {
				t.Fatalf("query %q: %v", query, err)
			}
			if len(rows) == 0 {
				return ret
			}
			for _, row := range rows {
				ret = append(ret, render(row))
			}
		} else {
			row, err := plan.Next(ctx)
			if err != nil {
				t.Fatalf("query %q: %v", query, err)
			}
			if row == nil {
				return ret
			}
			ret = append(ret, render(row))
		}
	}
}

// The user names exactly one field: upper(key) AS `KEY`. The unnamed first
// field `key` is announced under its spelling, which is KEY as well, and the
// name in WHERE is resolved to that first field instead of the field the user
// gave the name to: `KEY` = 'K1' compares the key, not upper(key).
func TestViolation3_C05_v3(t *testing.T) {
	s := viol2C05v3NewStore("k1", "x", "k2", "y")

	aliased := "select key, upper(key) as `KEY` where `KEY` = 'K1'"
	// every use of the name replaced by its defining expression
	inlined := "select key, upper(key) as `KEY` where upper(key) = 'K1'"
	// the same two fields listed the other way round
	swapped := "select upper(key) as `KEY`, key where `KEY` = 'K1'"

	if _, err := NewOptimizer(aliased).BuildPlan(s); err != nil {
		// refusing the ambiguous name would be a way to keep the property too
		t.Logf("%q is refused: %v", aliased, err)
		return
	}
	for _, batch := range []bool{false, true} {
		if got := viol2C05v3Run(t, s, inlined, batch); strings.Join(got, ";") != "k1|K1" {
			t.Fatalf("batch=%v %q: expected [k1|K1], got %v", batch, inlined, got)
		}
		if got := viol2C05v3Run(t, s, swapped, batch); strings.Join(got, ";") != "K1|k1" {
			t.Fatalf("batch=%v %q: expected [K1|k1], got %v", batch, swapped, got)
		}
		got := viol2C05v3Run(t, s, aliased, batch)
		if strings.Join(got, ";") != "k1|K1" {
			t.Errorf("batch=%v %q\n  expected rows: [k1|K1] (as %q returns)\n  actual rows:   %v", batch, aliased, inlined, got)
		}
	}
}
