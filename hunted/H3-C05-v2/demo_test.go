package kvql

import (
	"bytes"
	"fmt"
	"sort"
	"strings"
	"testing"
)

// ---- minimal in-memory sorted storage -------------------------------------

type viol2C05v2Store struct {
	kvs []KVPair
}

func viol2C05v2NewStore(pairs ...string) *viol2C05v2Store {
	s := &viol2C05v2Store{}
	for i := 0; i+1 < len(pairs); i += 2 {
		s.kvs = append(s.kvs, NewKVPStr(pairs[i], pairs[i+1]))
	}
	sort.Slice(s.kvs, func(i, j int) bool { return bytes.Compare(s.kvs[i].Key, s.kvs[j].Key) < 0 })
	return s
}

func (s *viol2C05v2Store) Get(key []byte) ([]byte, error) {
	for _, kv := range s.kvs {
		if bytes.Equal(kv.Key, key) {
			return kv.Value, nil
		}
	}
	return nil, nil
}
func (s *viol2C05v2Store) Put(key []byte, value []byte) error { return nil }
func (s *viol2C05v2Store) BatchPut(kvs []KVPair) error        { return nil }
func (s *viol2C05v2Store) Delete(key []byte) error            { return nil }
func (s *viol2C05v2Store) BatchDelete(keys [][]byte) error    { return nil }
func (s *viol2C05v2Store) Cursor() (Cursor, error)            { return &viol2C05v2Cursor{s: s}, nil }

type viol2C05v2Cursor struct {
	s   *viol2C05v2Store
	idx int
}

func (c *viol2C05v2Cursor) Seek(prefix []byte) error {
	c.idx = sort.Search(len(c.s.kvs), func(i int) bool { return bytes.Compare(c.s.kvs[i].Key, prefix) >= 0 })
	return nil
}

func (c *viol2C05v2Cursor) Next() ([]byte, []byte, error) {
	if c.idx >= len(c.s.kvs) {
		return nil, nil, nil
	}
	kv := c.s.kvs[c.idx]
	c.idx++
	return kv.Key, kv.Value, nil
}

// viol2C05v2Run returns the rows of the query (one text per row, columns joined
// by "|"), or the error that refused or stopped it
func viol2C05v2Run(s Storage, query string, batch bool) ([]string, error) {
	plan, err := NewOptimizer(query).BuildPlan(s)
	if err != nil {
		return nil, fmt.Errorf("not accepted: %v", err)
	}
	ctx := NewExecuteCtx()
	render := func(row []Column) string {
		cols := make([]string, len(row))
		for i, c := range row {
			switch v := c.(type) {
			case []byte:
				cols[i] = string(v)
			default:
				cols[i] = fmt.Sprintf("%v", v)
			}
		}
		return strings.Join(cols, "|")
	}
	ret := []string{}
	for {
		if batch {
			rows, err := plan.Batch(ctx)
			if err != nil {
				return ret, fmt.Errorf("execution failed: %v", err)
			}
			if len(rows) == 0 {
				return ret, nil
			}
			for _, row := range rows {
				ret = append(ret, render(row))
			}
		} else {
			row, err := plan.Next(ctx)
			if err != nil {
				return ret, fmt.Errorf("execution failed: %v", err)
			}
			if row == nil {
				return ret, nil
			}
			ret = append(ret, render(row))
		}
	}
}

// The same three fields, once listed with every definition before its use and
// once the other way round. b is a text (a + 'y'), so b + 1 adds a number to
// a text: the checker refuses that (first query, and the query with b
// replaced by its definition). Listed the other way round the query is
// accepted, because b is typed while a is still an unresolved name: row mode
// then glues the number to the text, batch mode fails on the first chunk.
func TestViolation3_C05_v2(t *testing.T) {
	s := viol2C05v2NewStore("k1", "x", "k2", "y")

	ordered := "select key as a, a + 'y' as b, b + 1 as c where true"
	inlined := "select key as a, key + 'y' as b, (key + 'y') + 1 as c where true"
	forward := "select b + 1 as c, a + 'y' as b, key as a where true"

	for _, q := range []string{ordered, inlined} {
		if _, err := viol2C05v2Run(s, q, false); err == nil || !strings.Contains(err.Error(), "not accepted") {
			t.Fatalf("%q is expected to be refused by the checker (text + number), got %v", q, err)
		}
	}

	rowRows, rowErr := viol2C05v2Run(s, forward, false)
	batchRows, batchErr := viol2C05v2Run(s, forward, true)
	if rowErr == nil || !strings.Contains(rowErr.Error(), "not accepted") {
		t.Errorf("%q\n  expected: refused, like %q (the order of the select fields does not change what their names stand for)\n  actual row mode:   rows %v, error %v\n  actual batch mode: rows %v, error %v",
			forward, ordered, rowRows, rowErr, batchRows, batchErr)
	}
}
