package kvql

import (
	"strings"
	"testing"
)

// A statement written on two lines (the lexer accepts a line break wherever a
// blank is allowed). The type error is reported at the `=` of the second line;
// the caret of the rendered message has to stand under that `=`.
func TestViolation2_C17_v1(t *testing.T) {
	const viol2C17v1Pad = 7
	query := "select key\nwhere key = 1"
	_, err := NewParser(query).Parse()
	if err == nil {
		t.Fatalf("query %q: expected a type error", query)
	}
	serr, ok := err.(*SyntaxError)
	if !ok {
		t.Fatalf("query %q: expected *SyntaxError, got %T", query, err)
	}
	wantPos := strings.Index(query, "=")
	if serr.Pos != wantPos {
		t.Fatalf("query %q: error position %d, want %d (the `=`)", query, serr.Pos, wantPos)
	}
	serr.BindQuery(query)
	serr.SetPadding(viol2C17v1Pad)
	msg := serr.Error()

	lines := strings.Split(msg, "\n")
	caretLine := -1
	for i, l := range lines {
		if strings.TrimLeft(l, " ") == "^--" {
			caretLine = i
		}
	}
	if caretLine < 1 {
		t.Fatalf("no caret line in message:\n%s", msg)
	}
	// the text right above the caret, as a terminal shows it (the query text is
	// printed behind a prompt of `padding` characters, so it is not padded)
	above := lines[caretLine-1]
	col := strings.Index(lines[caretLine], "^") - viol2C17v1Pad
	if col < 0 || col >= len(above) {
		t.Fatalf("caret at column %d, but the line above it (%q) has only %d characters; message:\n%s",
			col, above, len(above), msg)
	}
	if above[col] != query[serr.Pos] {
		t.Fatalf("caret stands under %q, want under %q (offset %d of the query); message:\n%s",
			above[col], query[serr.Pos], serr.Pos, msg)
	}
}
