package kvql

import (
	"bytes"
	"fmt"
	"sort"
	"testing"
)

// minimal in-memory sorted storage

type viol2C05v1Store struct{ kvs []KVPair }

func viol2C05v1NewStore(kvs []KVPair) *viol2C05v1Store {
	s := &viol2C05v1Store{kvs: append([]KVPair{}, kvs...)}
	sort.Slice(s.kvs, func(i, j int) bool { return bytes.Compare(s.kvs[i].Key, s.kvs[j].Key) < 0 })
	return s
}

func (s *viol2C05v1Store) Get(key []byte) ([]byte, error) {
	for _, kv := range s.kvs {
		if bytes.Equal(kv.Key, key) {
			return kv.Value, nil
		}
	}
	return nil, nil
}
func (s *viol2C05v1Store) Put(k, v []byte) error           { return nil }
func (s *viol2C05v1Store) BatchPut(kvs []KVPair) error     { return nil }
func (s *viol2C05v1Store) Delete(k []byte) error           { return nil }
func (s *viol2C05v1Store) BatchDelete(keys [][]byte) error { return nil }
func (s *viol2C05v1Store) Cursor() (Cursor, error)         { return &viol2C05v1Cursor{s: s}, nil }

type viol2C05v1Cursor struct {
	s   *viol2C05v1Store
	idx int
}

func (c *viol2C05v1Cursor) Seek(p []byte) error {
	c.idx = sort.Search(len(c.s.kvs), func(i int) bool { return bytes.Compare(c.s.kvs[i].Key, p) >= 0 })
	return nil
}

func (c *viol2C05v1Cursor) Next() ([]byte, []byte, error) {
	if c.idx >= len(c.s.kvs) {
		return nil, nil, nil
	}
	kv := c.s.kvs[c.idx]
	c.idx++
	return kv.Key, kv.Value, nil
}

func viol2C05v1Run(s Storage, query string, batch bool) (string, error) {
	plan, err := NewOptimizer(query).BuildPlan(s)
	if err != nil {
		return "", fmt.Errorf("build: %v", err)
	}
	ctx := NewExecuteCtx()
	out := fmt.Sprintf("%v", plan.FieldNameList())
	for {
		var rows [][]Column
		if batch {
			rows, err = plan.Batch(ctx)
		} else {
			var row []Column
			row, err = plan.Next(ctx)
			if row != nil {
				rows = [][]Column{row}
			}
		}
		if err != nil {
			return out, err
		}
		if len(rows) == 0 {
			return out, nil
		}
		for _, row := range rows {
			out += " ["
			for i, col := range row {
				if i > 0 {
					out += " "
				}
				switch v := col.(type) {
				case []byte:
					out += string(v)
				default:
					out += fmt.Sprintf("%v", v)
				}
			}
			out += "]"
		}
	}
}

// The name c of the select field count(1) is used by another select field
// that is listed BEFORE c. With c replaced by its definition the query works;
// with the name it fails on the first group.
func TestViolation2_C05_v1(t *testing.T) {
	s := viol2C05v1NewStore([]KVPair{
		NewKVPStr("k1", "5"), NewKVPStr("k2", "7"), NewKVPStr("k3", "5"),
	})
	withName := "select value as g, sum(int(value)) + c as s, count(1) as c where key ^= 'k' group by g"
	replaced := "select value as g, sum(int(value)) + count(1) as s, count(1) as c where key ^= 'k' group by g"
	const want = "[g s c] [5 12 2] [7 8 1]"
	for _, batch := range []bool{false, true} {
		ref, err := viol2C05v1Run(s, replaced, batch)
		if err != nil || ref != want {
			t.Fatalf("batch=%v: reference query: got %q, err %v, want %q", batch, ref, err, want)
		}
		got, err := viol2C05v1Run(s, withName, batch)
		if err != nil {
			t.Errorf("batch=%v: query with the name c failed: %v (the same query with c replaced by count(1) returns %q)", batch, err, ref)
			continue
		}
		if got != want {
			t.Errorf("batch=%v: got %q, want %q", batch, got, want)
		}
	}
	// the same fields in the other order work: the name is not a pure abbreviation
	got, err := viol2C05v1Run(s, "select value as g, count(1) as c, sum(int(value)) + c as s where key ^= 'k' group by g", false)
	if err != nil || got != "[g c s] [5 2 12] [7 1 8]" {
		t.Fatalf("c defined before its use: got %q, err %v", got, err)
	}
}
