package kvql

import (
	"bytes"
	"sort"
	"testing"
)

type viol2C09v2Store struct{ kvs []KVPair }

func (s *viol2C09v2Store) Get(key []byte) ([]byte, error) {
	for _, kv := range s.kvs {
		if bytes.Equal(kv.Key, key) {
			return kv.Value, nil
		}
	}
	return nil, nil
}
func (s *viol2C09v2Store) Put(key []byte, value []byte) error { return nil }
func (s *viol2C09v2Store) BatchPut(kvs []KVPair) error        { return nil }
func (s *viol2C09v2Store) Delete(key []byte) error            { return nil }
func (s *viol2C09v2Store) BatchDelete(keys [][]byte) error    { return nil }
func (s *viol2C09v2Store) Cursor() (Cursor, error)            { return &viol2C09v2Cursor{s: s}, nil }

type viol2C09v2Cursor struct {
	s   *viol2C09v2Store
	idx int
}

func (c *viol2C09v2Cursor) Seek(prefix []byte) error {
	c.idx = sort.Search(len(c.s.kvs), func(i int) bool { return bytes.Compare(c.s.kvs[i].Key, prefix) >= 0 })
	return nil
}

func (c *viol2C09v2Cursor) Next() ([]byte, []byte, error) {
	if c.idx >= len(c.s.kvs) {
		return nil, nil, nil
	}
	kv := c.s.kvs[c.idx]
	c.idx++
	return kv.Key, kv.Value, nil
}

// Three pairs, grouped by their integer value v (1, 1, 2). The field
// `count(1) + v` is arithmetic around the aggregate count(1) with the group's
// own GROUP BY value: 2 + 1 = 3 for the group v = 1, and 1 + 2 = 3 for the
// group v = 2. The library evaluates v against an empty pair when the row is
// completed, so it adds 0 and answers 2 and 1.
func TestViolation2_C09_v2(t *testing.T) {
	store := &viol2C09v2Store{kvs: []KVPair{
		NewKVPStr("a", "1"),
		NewKVPStr("b", "1"),
		NewKVPStr("c", "2"),
	}}
	query := "select int(value) as v, count(1), count(1) + v where key >= 'a' group by v"
	want := [][]any{
		{"1", int64(2), int64(3)},
		{"2", int64(1), int64(3)},
	}
	for _, mode := range []string{"row", "batch"} {
		plan, err := NewOptimizer(query).BuildPlan(store)
		if err != nil {
			t.Fatal(err)
		}
		ctx := NewExecuteCtx()
		var rows [][]Column
		if mode == "row" {
			for {
				row, err := plan.Next(ctx)
				if err != nil {
					t.Fatal(err)
				}
				if row == nil {
					break
				}
				rows = append(rows, row)
			}
		} else {
			for {
				rs, err := plan.Batch(ctx)
				if err != nil {
					t.Fatal(err)
				}
				if len(rs) == 0 {
					break
				}
				rows = append(rows, rs...)
			}
		}
		if len(rows) != len(want) {
			t.Fatalf("%s: %d rows, want %d: %v", mode, len(rows), len(want), rows)
		}
		for i, row := range rows {
			if len(row) != 3 {
				t.Fatalf("%s: row %d = %v", mode, i, row)
			}
			v, _ := row[0].([]byte)
			if string(v) != want[i][0] || row[1] != want[i][1] {
				t.Fatalf("%s: row %d = (%s, %v, ...), want (%v, %v, ...)", mode, i, v, row[1], want[i][0], want[i][1])
			}
			if row[2] != want[i][2] {
				t.Errorf("%s: group v = %s: count(1) + v = %v, want %v (count(1) = %v)", mode, v, row[2], want[i][2], row[1])
			}
		}
	}
}
