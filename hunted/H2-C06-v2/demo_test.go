package kvql

import (
	"testing"
	"time"
)

// A 300 byte query keeps the parser busy for ever: every level of
//
//	(<expr> + 1)(1)
//
// is a call whose "function name" is an expression. The checker refuses such a
// call ("Invalid function name"), but before the checker runs parseSelect asks
// the field for its ReturnType(), and FunctionCallExpr.ReturnType() EXECUTES
// the name expression to learn the function name. Executing `<expr> + 1` asks
// <expr> for its return type twice and executes it once, each of which
// executes the name one level further down again: 3^depth steps.
func TestViolation2_C06_v2(t *testing.T) {
	const depth = 40
	expr := "x"
	for i := 0; i < depth; i++ {
		expr = "(" + expr + "+1)(1)"
	}
	query := "select " + expr + " where true"
	if len(query) > 400 {
		t.Fatalf("query is meant to be short, it has %d bytes", len(query))
	}

	type result struct {
		err      error
		panicked any
	}
	done := make(chan result, 1)
	go func() {
		var res result
		defer func() {
			if r := recover(); r != nil {
				res.panicked = r
			}
			done <- res
		}()
		_, res.err = NewParser(query).Parse()
	}()

	select {
	case res := <-done:
		if res.panicked != nil {
			t.Fatalf("Parse panicked: %v", res.panicked)
		}
		// Expected: the statement is refused with an error value
		if res.err == nil {
			t.Fatalf("Parse accepted a call of something that is not a function name")
		}
		if b, ok := res.err.(QueryBinder); ok {
			b.BindQuery(query)
		}
		_ = res.err.Error()
	case <-time.After(5 * time.Second):
		t.Fatalf("Parse of a %d byte query did not return within 5s (depth 14 takes 0.4s, every further level three times as long: depth %d needs 3^%d steps)", len(query), depth, depth)
	}
}
