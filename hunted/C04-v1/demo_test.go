package kvql

import (
	"bytes"
	"sort"
	"testing"
)

// minimal in-memory sorted storage

type violC04v1Store struct {
	kvs []KVPair
}

func (s *violC04v1Store) find(key []byte) int {
	return sort.Search(len(s.kvs), func(i int) bool { return bytes.Compare(s.kvs[i].Key, key) >= 0 })
}

func (s *violC04v1Store) Get(key []byte) ([]byte, error) {
	i := s.find(key)
	if i < len(s.kvs) && bytes.Equal(s.kvs[i].Key, key) {
		return s.kvs[i].Value, nil
	}
	return nil, nil
}

func (s *violC04v1Store) Put(key []byte, value []byte) error {
	i := s.find(key)
	if i < len(s.kvs) && bytes.Equal(s.kvs[i].Key, key) {
		s.kvs[i].Value = value
		return nil
	}
	s.kvs = append(s.kvs, KVPair{})
	copy(s.kvs[i+1:], s.kvs[i:])
	s.kvs[i] = KVPair{Key: key, Value: value}
	return nil
}

func (s *violC04v1Store) BatchPut(kvs []KVPair) error {
	for _, kv := range kvs {
		s.Put(kv.Key, kv.Value)
	}
	return nil
}

func (s *violC04v1Store) Delete(key []byte) error {
	i := s.find(key)
	if i < len(s.kvs) && bytes.Equal(s.kvs[i].Key, key) {
		s.kvs = append(s.kvs[:i], s.kvs[i+1:]...)
	}
	return nil
}

func (s *violC04v1Store) BatchDelete(keys [][]byte) error {
	for _, k := range keys {
		s.Delete(k)
	}
	return nil
}

func (s *violC04v1Store) Cursor() (Cursor, error) {
	return &violC04v1Cursor{s: s}, nil
}

type violC04v1Cursor struct {
	s   *violC04v1Store
	pos int
}

func (c *violC04v1Cursor) Seek(prefix []byte) error {
	c.pos = c.s.find(prefix)
	return nil
}

func (c *violC04v1Cursor) Next() ([]byte, []byte, error) {
	if c.pos >= len(c.s.kvs) {
		return nil, nil, nil
	}
	kv := c.s.kvs[c.pos]
	c.pos++
	return kv.Key, kv.Value, nil
}

// The select field is ((float(value) * 4294967296) * 4294967296). On the pair
// (k1, 0.5) it is pure float arithmetic: 0.5 * 2^32 * 2^32 = 2^63, every
// intermediate value is exactly representable and nothing overflows. The
// expression optimizer re-associates it to float(value) * (4294967296 *
// 4294967296) and folds the two integer literals with 64-bit integer
// arithmetic: 2^64 wraps to 0, so the field shows 0.
func TestViolation_C04_v1(t *testing.T) {
	store := &violC04v1Store{}
	store.Put([]byte("k1"), []byte("0.5"))

	query := "select float(value) * 4294967296 * 4294967296 where key = 'k1'"
	expected := float64(9223372036854775808) // 0.5 * 2^32 * 2^32 = 2^63

	// row mode
	plan, err := NewOptimizer(query).BuildPlan(store)
	if err != nil {
		t.Fatal(err)
	}
	row, err := plan.Next(NewExecuteCtx())
	if err != nil {
		t.Fatal(err)
	}
	if len(row) != 1 {
		t.Fatalf("row mode: expect one row with one column, got %v", row)
	}
	got, ok := row[0].(float64)
	if !ok {
		t.Fatalf("row mode: expect a float, got %T %v", row[0], row[0])
	}
	if got != expected {
		t.Errorf("row mode: %s on (k1, 0.5): expect %v, got %v", query, expected, got)
	}

	// batch mode
	plan, err = NewOptimizer(query).BuildPlan(store)
	if err != nil {
		t.Fatal(err)
	}
	rows, err := plan.Batch(NewExecuteCtx())
	if err != nil {
		t.Fatal(err)
	}
	if len(rows) != 1 || len(rows[0]) != 1 {
		t.Fatalf("batch mode: expect one row with one column, got %v", rows)
	}
	got, ok = rows[0][0].(float64)
	if !ok {
		t.Fatalf("batch mode: expect a float, got %T %v", rows[0][0], rows[0][0])
	}
	if got != expected {
		t.Errorf("batch mode: %s on (k1, 0.5): expect %v, got %v", query, expected, got)
	}
}
