package kvql

import (
	"bytes"
	"sort"
	"testing"
)

type viol2C10v3Store struct {
	kvs []KVPair
}

func (s *viol2C10v3Store) Get(key []byte) ([]byte, error) {
	for _, kv := range s.kvs {
		if bytes.Equal(kv.Key, key) {
			return kv.Value, nil
		}
	}
	return nil, nil
}
func (s *viol2C10v3Store) Put(key []byte, value []byte) error { return nil }
func (s *viol2C10v3Store) BatchPut(kvs []KVPair) error        { return nil }
func (s *viol2C10v3Store) Delete(key []byte) error            { return nil }
func (s *viol2C10v3Store) BatchDelete(keys [][]byte) error    { return nil }
func (s *viol2C10v3Store) Cursor() (Cursor, error)            { return &viol2C10v3Cursor{s: s}, nil }

type viol2C10v3Cursor struct {
	s   *viol2C10v3Store
	idx int
}

func (c *viol2C10v3Cursor) Seek(prefix []byte) error {
	c.idx = sort.Search(len(c.s.kvs), func(i int) bool { return bytes.Compare(c.s.kvs[i].Key, prefix) >= 0 })
	return nil
}

func (c *viol2C10v3Cursor) Next() ([]byte, []byte, error) {
	if c.idx >= len(c.s.kvs) {
		return nil, nil, nil
	}
	kv := c.s.kvs[c.idx]
	c.idx++
	return kv.Key, kv.Value, nil
}

func viol2C10v3Text(v any) string {
	switch x := v.(type) {
	case string:
		return x
	case []byte:
		return string(x)
	}
	return "<not a text>"
}

// upper/lower change the case of letters and nothing else: a byte that is not
// part of a letter (here 0xff, which is not valid UTF-8) stays as it is, and the
// result is as long as the argument.
func TestViolation2_C10_v3(t *testing.T) {
	store := &viol2C10v3Store{kvs: []KVPair{{Key: []byte("k1"), Value: []byte("a\xffb")}}}
	query := "select upper(value), lower(value), strlen(value), strlen(lower(value)) where key = 'k1'"

	check := func(mode string, row []Column) {
		if len(row) != 4 {
			t.Fatalf("%s: expected 4 columns, got %v", mode, row)
		}
		if s := viol2C10v3Text(row[0]); s != "A\xffB" {
			t.Errorf("%s: upper(value) = %q, expected %q", mode, s, "A\xffB")
		}
		// the value is in lower case already
		if s := viol2C10v3Text(row[1]); s != "a\xffb" {
			t.Errorf("%s: lower(value) = %q, expected %q (the value itself)", mode, s, "a\xffb")
		}
		if n, ok := convertToInt(row[2]); !ok || n != 3 {
			t.Errorf("%s: strlen(value) = %v, expected 3", mode, row[2])
		}
		if n, ok := convertToInt(row[3]); !ok || n != 3 {
			t.Errorf("%s: strlen(lower(value)) = %v, expected 3", mode, row[3])
		}
	}

	plan, err := NewOptimizer(query).BuildPlan(store)
	if err != nil {
		t.Fatalf("build: %v", err)
	}
	row, err := plan.Next(NewExecuteCtx())
	if err != nil {
		t.Fatalf("Next: %v", err)
	}
	check("Next", row)

	plan, err = NewOptimizer(query).BuildPlan(store)
	if err != nil {
		t.Fatalf("build: %v", err)
	}
	rows, err := plan.Batch(NewExecuteCtx())
	if err != nil {
		t.Fatalf("Batch: %v", err)
	}
	if len(rows) != 1 {
		t.Fatalf("Batch: expected 1 row, got %d", len(rows))
	}
	check("Batch", rows[0])
}
