package kvql

import (
	"bytes"
	"fmt"
	"sort"
	"testing"
)

// Minimal in-memory sorted storage for the demo.
type viol2C10v3Store struct {
	kvs []KVPair
}

func viol2C10v3NewStore(pairs ...string) *viol2C10v3Store {
	s := &viol2C10v3Store{}
	for i := 0; i+1 < len(pairs); i += 2 {
		s.kvs = append(s.kvs, NewKVPStr(pairs[i], pairs[i+1]))
	}
	sort.Slice(s.kvs, func(i, j int) bool { return bytes.Compare(s.kvs[i].Key, s.kvs[j].Key) < 0 })
	return s
}

func (s *viol2C10v3Store) Get(key []byte) ([]byte, error) {
	for _, kv := range s.kvs {
		if bytes.Equal(kv.Key, key) {
			return kv.Value, nil
		}
	}
	return nil, nil
}
func (s *viol2C10v3Store) Put(key []byte, value []byte) error { return nil }
func (s *viol2C10v3Store) BatchPut(kvs []KVPair) error        { return nil }
func (s *viol2C10v3Store) Delete(key []byte) error            { return nil }
func (s *viol2C10v3Store) BatchDelete(keys [][]byte) error    { return nil }
func (s *viol2C10v3Store) Cursor() (Cursor, error)            { return &viol2C10v3Cursor{s: s}, nil }

type viol2C10v3Cursor struct {
	s   *viol2C10v3Store
	idx int
}

func (c *viol2C10v3Cursor) Seek(prefix []byte) error {
	c.idx = sort.Search(len(c.s.kvs), func(i int) bool { return bytes.Compare(c.s.kvs[i].Key, prefix) >= 0 })
	return nil
}

func (c *viol2C10v3Cursor) Next() ([]byte, []byte, error) {
	if c.idx >= len(c.s.kvs) {
		return nil, nil, nil
	}
	kv := c.s.kvs[c.idx]
	c.idx++
	return kv.Key, kv.Value, nil
}

func viol2C10v3Run(s Storage, query string, batch bool) ([][]Column, error) {
	plan, err := NewOptimizer(query).BuildPlan(s)
	if err != nil {
		return nil, err
	}
	ctx := NewExecuteCtx()
	var rows [][]Column
	for {
		if batch {
			rs, err := plan.Batch(ctx)
			if err != nil {
				return rows, err
			}
			if len(rs) == 0 {
				return rows, nil
			}
			rows = append(rows, rs...)
		} else {
			r, err := plan.Next(ctx)
			if err != nil {
				return rows, err
			}
			if r == nil {
				return rows, nil
			}
			rows = append(rows, r)
		}
	}
}

// upper()/lower() map ASCII case; every other byte of the value has to come back unchanged
// (keys and values are byte strings, strlen() counts bytes). The value here holds the byte
// 0xFF, which is not valid UTF-8 - as any binary or Latin-1 encoded value does.
func TestViolation3_C10_v3(t *testing.T) {
	s := viol2C10v3NewStore("k1", "ab\xffCD")
	query := "select upper(value), lower(value), strlen(value), strlen(upper(value)), strlen(lower(value)) where key = 'k1'"
	for _, batch := range []bool{false, true} {
		mode := "row"
		if batch {
			mode = "batch"
		}
		rows, err := viol2C10v3Run(s, query, batch)
		if err != nil {
			t.Fatalf("%s mode: unexpected error: %v", mode, err)
		}
		if len(rows) != 1 {
			t.Fatalf("%s mode: expected one row, got %v", mode, rows)
		}
		got := fmt.Sprintf("%+q %+q %v %v %v", toString(rows[0][0]), toString(rows[0][1]), rows[0][2], rows[0][3], rows[0][4])
		want := fmt.Sprintf("%+q %+q %v %v %v", "AB\xffCD", "ab\xffcd", 5, 5, 5)
		if got != want {
			t.Errorf("%s mode: %s\n expected %s\n got      %s", mode, query, want, got)
		}
	}
}
