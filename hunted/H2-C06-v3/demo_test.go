package kvql

import (
	"bytes"
	"fmt"
	"sort"
	"strings"
	"testing"
	"time"
)

// Minimal in-memory sorted storage for the demo.
type viol2C06v3Storage struct {
	kvs []KVPair
}

func viol2C06v3NewStorage(kvs []KVPair) *viol2C06v3Storage {
	cp := make([]KVPair, len(kvs))
	copy(cp, kvs)
	sort.Slice(cp, func(i, j int) bool { return bytes.Compare(cp[i].Key, cp[j].Key) < 0 })
	return &viol2C06v3Storage{kvs: cp}
}

func (s *viol2C06v3Storage) Get(key []byte) ([]byte, error) {
	for _, kv := range s.kvs {
		if bytes.Equal(kv.Key, key) {
			return kv.Value, nil
		}
	}
	return nil, nil
}
func (s *viol2C06v3Storage) Put(key []byte, value []byte) error { return nil }
func (s *viol2C06v3Storage) BatchPut(kvs []KVPair) error         { return nil }
func (s *viol2C06v3Storage) Delete(key []byte) error             { return nil }
func (s *viol2C06v3Storage) BatchDelete(keys [][]byte) error     { return nil }
func (s *viol2C06v3Storage) Cursor() (Cursor, error) {
	return &viol2C06v3Cursor{s: s}, nil
}

type viol2C06v3Cursor struct {
	s   *viol2C06v3Storage
	idx int
}

func (c *viol2C06v3Cursor) Seek(prefix []byte) error {
	c.idx = len(c.s.kvs)
	for i, kv := range c.s.kvs {
		if bytes.Compare(kv.Key, prefix) >= 0 {
			c.idx = i
			break
		}
	}
	return nil
}

func (c *viol2C06v3Cursor) Next() ([]byte, []byte, error) {
	if c.idx >= len(c.s.kvs) {
		return nil, nil, nil
	}
	kv := c.s.kvs[c.idx]
	c.idx++
	return kv.Key, kv.Value, nil
}

// select int(value) as a0, a0+a0 as a1, a1+a1 as a2, ..., ilist(a50) as l where true
//
// Every field uses the field before it twice. With the per-row field cache of
// the context a field is computed once per row, and row mode (Next) answers at
// once. In batch mode ilist() is evaluated row by row WITHOUT a context
// (funcIntListVec passes nil), a field reference then has nowhere to remember
// its value and a50 is computed by computing a49 twice, each of them a48
// twice, ...: 2^50 evaluations for the one row of the store.
func TestViolation2_C06_v3(t *testing.T) {
	const n = 50
	fields := []string{"int(value) as a0"}
	for i := 1; i <= n; i++ {
		fields = append(fields, fmt.Sprintf("a%d+a%d as a%d", i-1, i-1, i))
	}
	fields = append(fields, fmt.Sprintf("ilist(a%d) as l", n))
	query := "select " + strings.Join(fields, ", ") + " where true"
	if len(query) > 1024 {
		t.Fatalf("query is meant to be short, it has %d bytes", len(query))
	}
	store := viol2C06v3NewStorage([]KVPair{NewKVPStr("k1", "1")})
	want := fmt.Sprint([]int64{1 << n})

	// Row mode: one row, at once
	plan, err := NewOptimizer(query).BuildPlan(store)
	if err != nil {
		t.Fatalf("build plan: %v", err)
	}
	start := time.Now()
	row, err := plan.Next(NewExecuteCtx())
	if err != nil || row == nil {
		t.Fatalf("row mode: row %v err %v", row, err)
	}
	if got := fmt.Sprint(row[len(row)-1]); got != want {
		t.Fatalf("row mode: l = %s, expected %s", got, want)
	}
	t.Logf("row mode answered in %v", time.Since(start))

	// Batch mode: the same statement, the same store
	plan, err = NewOptimizer(query).BuildPlan(store)
	if err != nil {
		t.Fatalf("build plan: %v", err)
	}
	type result struct {
		rows     [][]Column
		err      error
		panicked any
	}
	done := make(chan result, 1)
	go func() {
		var res result
		defer func() {
			if r := recover(); r != nil {
				res.panicked = r
			}
			done <- res
		}()
		res.rows, res.err = plan.Batch(NewExecuteCtx())
	}()
	select {
	case res := <-done:
		if res.panicked != nil {
			t.Fatalf("batch mode panicked: %v", res.panicked)
		}
		if res.err != nil || len(res.rows) != 1 {
			t.Fatalf("batch mode: rows %v err %v", res.rows, res.err)
		}
		r := res.rows[0]
		if got := fmt.Sprint(r[len(r)-1]); got != want {
			t.Fatalf("batch mode: l = %s, expected %s", got, want)
		}
	case <-time.After(5 * time.Second):
		t.Fatalf("batch mode: Batch() on a one-row store did not return within 5s for a %d byte query (20 fields take 0.25s, every further field twice as long: 2^%d evaluations)", len(query), n)
	}
}
