#!/bin/sh
# usage: ./check.sh <property> <quick|thorough>
# Builds the analyser if needed (offline) and decides the property on /repo's working tree.
cd "$(dirname "$0")" || exit 2
export GOFLAGS=-mod=mod GOPROXY=off GOSUMDB=off GOTOOLCHAIN=local
unset GOWORK
if [ ! -x bin/kvqlcheck ] || [ -n "$(find checker -name '*.go' -newer bin/kvqlcheck 2>/dev/null | head -1)" ]; then
  mkdir -p bin
  (cd checker && go build -o ../bin/kvqlcheck .) || { echo "VIOLATION property=$1 replay=/verif/evidence/replay/build-failed"; exit 1; }
fi
exec bin/kvqlcheck -property "$1" -tier "${2:-quick}"
