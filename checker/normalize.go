package main

// Normalisation applied to the package's syntax before it is type-checked and
// built into SSA form: a local closure that is only ever called as a
// statement -- `name := func(params) { body }` with no results, no return,
// defer, label or goto in its body, not recursive, never stored, passed,
// deferred or started as a goroutine -- is replaced by its body at every call
// (beta reduction). The Go compiler does the same thing when it inlines such a
// closure; for the analysis the point is that the variables the closure
// captures stay ordinary locals (SSA registers and phis) instead of becoming
// heap cells, so a function whose repeated fragment was pulled into a local
// helper closure is analysed exactly like the function with the fragment
// repeated. A closure is only inlined when every identifier it uses denotes the
// same object at each call site as at its definition (decided with go/types on
// a first, unmodified load), so no name is captured by an inner declaration.

import (
	"go/ast"
	"go/parser"
	"go/token"
	"go/types"
	"path/filepath"
	"reflect"

	"golang.org/x/tools/go/packages"
)

// inlinePlan names, per file, the closures to inline by the position of their
// defining identifier.
type inlinePlan map[string]map[token.Position]bool

func posKey(fset *token.FileSet, p token.Pos) token.Position {
	q := fset.Position(p)
	q.Filename = filepath.Base(q.Filename)
	q.Offset = 0
	return q
}

// planInlining finds the inlinable closures of the type-checked package.
func planInlining(pk *packages.Package) inlinePlan {
	plan := inlinePlan{}
	for _, f := range pk.Syntax {
		fname := filepath.Base(pk.Fset.Position(f.Pos()).Filename)
		for _, d := range f.Decls {
			fd, ok := d.(*ast.FuncDecl)
			if !ok || fd.Body == nil {
				continue
			}
			for _, c := range closureDefs(fd.Body) {
				if inlinable(pk, fd, c) {
					if plan[fname] == nil {
						plan[fname] = map[token.Position]bool{}
					}
					plan[fname][posKey(pk.Fset, c.name.Pos())] = true
				}
			}
		}
	}
	return plan
}

type closureDef struct {
	name *ast.Ident
	lit  *ast.FuncLit
	stmt *ast.AssignStmt
}

// closureDefs lists `name := func(...) {...}` statements of body (not inside
// nested function literals).
func closureDefs(body *ast.BlockStmt) []closureDef {
	var out []closureDef
	ast.Inspect(body, func(n ast.Node) bool {
		if _, ok := n.(*ast.FuncLit); ok {
			return false
		}
		as, ok := n.(*ast.AssignStmt)
		if !ok || as.Tok != token.DEFINE || len(as.Lhs) != 1 || len(as.Rhs) != 1 {
			return true
		}
		id, ok1 := as.Lhs[0].(*ast.Ident)
		lit, ok2 := as.Rhs[0].(*ast.FuncLit)
		if ok1 && ok2 && id.Name != "_" {
			out = append(out, closureDef{id, lit, as})
			return false
		}
		return true
	})
	return out
}

func inlinable(pk *packages.Package, fd *ast.FuncDecl, c closureDef) bool {
	info := pk.TypesInfo
	obj := info.Defs[c.name]
	if obj == nil {
		return false
	}
	ft := c.lit.Type
	if ft.Results != nil && len(ft.Results.List) > 0 {
		return false
	}
	paramNames := map[string]bool{}
	if ft.Params != nil {
		for _, f := range ft.Params.List {
			if _, variadic := f.Type.(*ast.Ellipsis); variadic || len(f.Names) == 0 {
				return false
			}
			for _, n := range f.Names {
				if n.Name == "_" {
					return false
				}
				paramNames[n.Name] = true
			}
		}
	}
	// the body: no return, defer, go, label, goto, nested closure, and no use of
	// the closure's own name
	ok := true
	ast.Inspect(c.lit.Body, func(n ast.Node) bool {
		switch n := n.(type) {
		case *ast.ReturnStmt, *ast.DeferStmt, *ast.GoStmt, *ast.LabeledStmt, *ast.FuncLit:
			ok = false
		case *ast.BranchStmt:
			if n.Tok == token.GOTO || n.Label != nil {
				ok = false
			}
		case *ast.Ident:
			if info.Uses[n] == obj {
				ok = false
			}
		}
		return ok
	})
	if !ok {
		return false
	}
	// the free objects of the literal (body and parameter types)
	free := map[types.Object]bool{}
	ast.Inspect(c.lit, func(n ast.Node) bool {
		id, isId := n.(*ast.Ident)
		if !isId {
			return true
		}
		o := info.Uses[id]
		if o == nil || o.Pkg() == nil || o.Parent() == nil {
			return true // fields, methods, universe
		}
		if o.Pos() >= c.lit.Pos() && o.Pos() < c.lit.End() {
			return true // declared inside the literal
		}
		free[o] = true
		return true
	})
	// every use of the name is a statement call whose scope sees the same objects
	uses := 0
	parents := map[ast.Node]ast.Node{}
	var stack []ast.Node
	ast.Inspect(fd.Body, func(n ast.Node) bool {
		if n == nil {
			stack = stack[:len(stack)-1]
			return true
		}
		if len(stack) > 0 {
			parents[n] = stack[len(stack)-1]
		}
		stack = append(stack, n)
		return true
	})
	ast.Inspect(fd.Body, func(n ast.Node) bool {
		id, isId := n.(*ast.Ident)
		if !isId || info.Uses[id] != obj {
			return true
		}
		uses++
		call, isCall := parents[id].(*ast.CallExpr)
		if !isCall || call.Fun != id || call.Ellipsis.IsValid() {
			ok = false
			return false
		}
		if _, isStmt := parents[call].(*ast.ExprStmt); !isStmt {
			ok = false
			return false
		}
		// no enclosing function literal (the call would run later)
		for q := parents[call]; q != nil; q = parents[q] {
			if _, isLit := q.(*ast.FuncLit); isLit {
				ok = false
				return false
			}
		}
		scope := pk.Types.Scope().Innermost(call.Pos())
		if scope == nil {
			ok = false
			return false
		}
		for o := range free {
			if _, found := scope.LookupParent(o.Name(), call.Pos()); found != o {
				ok = false
				return false
			}
		}
		// an argument must not mention a parameter's name (the parameters are
		// declared one after the other in the inlined block)
		for _, a := range call.Args {
			ast.Inspect(a, func(m ast.Node) bool {
				if aid, isA := m.(*ast.Ident); isA && paramNames[aid.Name] {
					ok = false
				}
				return ok
			})
		}
		return ok
	})
	return ok && uses > 0
}

// applyInlining rewrites one parsed (not yet type-checked) file.
func applyInlining(fset *token.FileSet, f *ast.File, marks map[token.Position]bool) {
	for _, d := range f.Decls {
		fd, ok := d.(*ast.FuncDecl)
		if !ok || fd.Body == nil {
			continue
		}
		for _, c := range closureDefs(fd.Body) {
			if !marks[posKey(fset, c.name.Pos())] {
				continue
			}
			inlineOne(fd.Body, c)
		}
	}
}

func inlineOne(body *ast.BlockStmt, c closureDef) {
	var rewrite func(list []ast.Stmt)
	visitBlocks := func(n ast.Node) bool {
		switch n := n.(type) {
		case *ast.BlockStmt:
			rewrite(n.List)
		case *ast.CaseClause:
			rewrite(n.Body)
		case *ast.CommClause:
			rewrite(n.Body)
		}
		return true
	}
	rewrite = func(list []ast.Stmt) {
		for i, s := range list {
			if s == ast.Stmt(c.stmt) {
				list[i] = &ast.EmptyStmt{Semicolon: s.Pos(), Implicit: true}
				continue
			}
			es, ok := s.(*ast.ExprStmt)
			if !ok {
				continue
			}
			call, ok := es.X.(*ast.CallExpr)
			if !ok {
				continue
			}
			id, ok := call.Fun.(*ast.Ident)
			if !ok || id.Name != c.name.Name {
				continue
			}
			blk := &ast.BlockStmt{Lbrace: call.Pos(), Rbrace: call.End()}
			ai := 0
			if c.lit.Type.Params != nil {
				for _, fl := range c.lit.Type.Params.List {
					for _, n := range fl.Names {
						nm := &ast.Ident{NamePos: call.Pos(), Name: n.Name}
						blk.List = append(blk.List,
							&ast.DeclStmt{Decl: &ast.GenDecl{TokPos: call.Pos(), Tok: token.VAR, Specs: []ast.Spec{
								&ast.ValueSpec{Names: []*ast.Ident{nm}, Type: cloneNode(fl.Type).(ast.Expr), Values: []ast.Expr{call.Args[ai]}},
							}}},
							&ast.AssignStmt{Lhs: []ast.Expr{&ast.Ident{NamePos: call.Pos(), Name: "_"}}, TokPos: call.Pos(), Tok: token.ASSIGN,
								Rhs: []ast.Expr{&ast.Ident{NamePos: call.Pos(), Name: n.Name}}},
						)
						ai++
					}
				}
			}
			inner := cloneNode(c.lit.Body).(*ast.BlockStmt)
			blk.List = append(blk.List, inner)
			list[i] = blk
		}
	}
	ast.Inspect(body, visitBlocks)
}

// cloneNode deep-copies a syntax tree (identifier objects and scopes dropped).
func cloneNode(n ast.Node) ast.Node {
	return cloneValue(reflect.ValueOf(n)).Interface().(ast.Node)
}

var (
	objectPtrType = reflect.TypeOf((*ast.Object)(nil))
	scopePtrType  = reflect.TypeOf((*ast.Scope)(nil))
)

func cloneValue(v reflect.Value) reflect.Value {
	switch v.Kind() {
	case reflect.Ptr:
		if v.IsNil() {
			return v
		}
		if v.Type() == objectPtrType || v.Type() == scopePtrType {
			return reflect.Zero(v.Type())
		}
		c := reflect.New(v.Type().Elem())
		c.Elem().Set(cloneValue(v.Elem()))
		return c
	case reflect.Interface:
		if v.IsNil() {
			return v
		}
		c := reflect.New(v.Type()).Elem()
		c.Set(cloneValue(v.Elem()))
		return c
	case reflect.Slice:
		if v.IsNil() {
			return v
		}
		c := reflect.MakeSlice(v.Type(), v.Len(), v.Len())
		for i := 0; i < v.Len(); i++ {
			c.Index(i).Set(cloneValue(v.Index(i)))
		}
		return c
	case reflect.Struct:
		c := reflect.New(v.Type()).Elem()
		for i := 0; i < v.NumField(); i++ {
			if c.Field(i).CanSet() {
				c.Field(i).Set(cloneValue(v.Field(i)))
			}
		}
		return c
	}
	return v
}

// parseWithInlining is the packages.Config.ParseFile hook of the second load.
func parseWithInlining(dir string, plan inlinePlan) func(*token.FileSet, string, []byte) (*ast.File, error) {
	abs, _ := filepath.Abs(dir)
	return func(fset *token.FileSet, filename string, src []byte) (*ast.File, error) {
		f, err := parser.ParseFile(fset, filename, src, parser.AllErrors|parser.ParseComments)
		if err != nil || f == nil {
			return f, err
		}
		if filepath.Dir(filename) == abs {
			if marks := plan[filepath.Base(filename)]; len(marks) > 0 {
				applyInlining(fset, f, marks)
			}
		}
		return f, nil
	}
}
