package main

import (
	"fmt"
	"go/types"

	"golang.org/x/tools/go/ssa"
)

func init() {
	register("ERRALL", "errors are values in every layer: every call made by the library to a function of the library (statically, through one of its interfaces, or through a registered function body) that can return a non-nil error has that error examined or forwarded on every path and returned (itself or wrapped) on every failure path; frozen exemptions are single named constructs with a reason", ruleErrAll)
}

// one line of reason per exemption; keys are "caller|callee" or "*|callee"
var errAllExempt = map[string]string{
	"*|GetFuncNameFromExpr":                                                      "its error only says `this expression is not a function call`; callers use it as a predicate",
	"(*Parser).parseUnaryExpr|(*Parser).incNestLev":                              "depth guard; enforced by the checked calls in the operator loop of parseBinaryExpr",
	"(*Parser).parsePrimaryExpr|(*Parser).incNestLev":                            "depth guard; enforced by the checked calls in the operator loop of parseBinaryExpr",
	"(*ExpressionOptimizer).tryOptimizeBinaryOpExecute|Expression.Execute":       "constant folding attempt: an evaluation error means `do not fold`, the original node is kept (FOLDERR checks the success edge)",
	"(*ExpressionOptimizer).tryOptimizeBinaryOpExecute|(*BinaryOpExpr).Execute":  "constant folding attempt: an evaluation error means `do not fold`, the original node is kept (FOLDERR checks the success edge)",
	"(*ExpressionOptimizer).tryOptimizeFunctionCall|(*FunctionCallExpr).Execute": "constant folding attempt: an evaluation error means `do not fold`, the original node is kept (FOLDERR checks the success edge)",
	"(*BinaryOpExpr).execStringIn|execStringCompare#2":                           "IN over a function result: an element that cannot be compared counts as `no match`",
	"(*BinaryOpExpr).execInBatch|execNumberCompare#2":                            "IN over a function result, batch twin: the same `no match` as in row mode (TWINERR keeps the two alike)",
	"(*BinaryOpExpr).execInBatch|execStringCompare#2":                            "IN over a function result, batch twin: the same `no match` as in row mode (TWINERR keeps the two alike)",
	"(*BinaryOpExpr).execNumberIn|execNumberCompare#2":                           "IN over a function result: an element that cannot be compared counts as `no match`",
}

// neverFails: every return of fn has the constant nil as its error result.
func neverFails(fn *ssa.Function) bool {
	if fn == nil || fn.Blocks == nil {
		return false
	}
	idx := errResultIndex(fn.Signature)
	if idx < 0 {
		return true
	}
	for _, b := range fn.Blocks {
		if ret := retOf(b); ret != nil && !isRecoverBlock(b) {
			if !isNilConst(retVal(ret, idx)) {
				return false
			}
		}
	}
	return true
}

func ruleErrAll(p *Prog, r *Result) {
	pkgIface := func(t types.Type) bool {
		n, ok := t.(*types.Named)
		if !ok || n.Obj().Pkg() != p.Types {
			return false
		}
		_, isI := n.Underlying().(*types.Interface)
		return isI
	}
	n, nEx := 0, 0
	for _, fn := range p.Funcs {
		ordinal := map[string]int{}
		allInstrs(fn, func(in ssa.Instruction) {
			ci, ok := in.(ssa.CallInstruction)
			if !ok {
				return
			}
			cc := ci.Common()
			if errResultIndex(cc.Signature()) < 0 {
				return
			}
			inScope := false
			var callee *ssa.Function
			switch {
			case cc.IsInvoke():
				// Storage/Cursor calls belong to ERRPROP (C13); here: the library's own interfaces
				tn := typeName(cc.Value.Type())
				inScope = pkgIface(cc.Value.Type()) && tn != "Storage" && tn != "Cursor"
			case cc.StaticCallee() != nil:
				callee = cc.StaticCallee()
				inScope = p.InPkg(callee)
				if inScope && neverFails(callee) {
					return
				}
			default:
				// dynamic call of a function value of a package-defined func type (registered bodies)
				if nt, ok := cc.Value.Type().(*types.Named); ok && nt.Obj().Pkg() == p.Types {
					inScope = true
				}
			}
			if !inScope {
				return
			}
			cname := callDesc(p, ci)
			ordinal[cname]++
			key := fmt.Sprintf("%s|%s", p.FName(fn), cname)
			if ordinal[cname] > 1 {
				key = fmt.Sprintf("%s#%d", key, ordinal[cname])
			}
			tryKeys := []string{key, fmt.Sprintf("%s|%s", p.FName(fn), cname), "*|" + cname}
			// a wrapper that only hands on the results of other functions stands for them in the exemption table
			// (`execInElemEqual(l, e, number)` returning execNumberCompare(..) or execStringCompare(..))
			if callee != nil {
				for _, fw := range forwardedCallees(p, callee) {
					k2 := fmt.Sprintf("%s|%s", p.FName(fn), fw)
					if ordinal[cname] > 1 {
						k2 = fmt.Sprintf("%s#%d", k2, ordinal[cname])
					}
					if _, ex := errAllExempt[k2]; ex {
						tryKeys = append([]string{k2}, tryKeys...)
						key2 := k2
						if why, ex := errAllExempt[key2]; ex {
							nEx++
							r.Exempt = append(r.Exempt, key+": (through "+callee.Name()+") "+why)
							return
						}
					}
				}
			}
			for _, ek := range tryKeys {
				if why, ex := errAllExempt[ek]; ex && (ek == key || !hasOrdinalVariant(ek)) {
					nEx++
					r.Exempt = append(r.Exempt, key+": "+why)
					return
				}
			}
			n++
			c, isCall := in.(*ssa.Call)
			if !isCall {
				r.hit(key, p.InstrPos(in), "error-returning call in a defer/go statement: its error is lost")
				return
			}
			ev := errValueOf(c)
			if ev == nil {
				r.hit(key, p.InstrPos(in), "the error result is discarded")
				return
			}
			msg := checkErrFlowOpt(p, fn, c, ev, nil, true)
			if msg != "" && fn.Parent() != nil && errResultIndex(fn.Signature) < 0 && handedToParent(fn, ev) {
				// a function literal without an error result (a Walk callback) that stores the error into a variable
				// of the enclosing function, which returns that variable
				msg = ""
			}
			r.add(msg == "", key, p.InstrPos(in), firstNonEmpty(msg, "error examined on every path and returned on failure"))
		})
	}
	r.note("error_returning_calls", n)
	r.note("exempted_calls", nEx)
	r.floor("error-returning library calls", n, 200)
}

// hasOrdinalVariant: the exemption table lists this caller|callee only for a specific occurrence (#n).
func hasOrdinalVariant(k string) bool {
	for e := range errAllExempt {
		if len(e) > len(k) && e[:len(k)] == k && e[len(k)] == '#' {
			return true
		}
	}
	return false
}

// forwardedCallees: the package functions whose results a function hands on unchanged in every return
// (`return f(..)`), or nil when it does anything else with them.
func forwardedCallees(p *Prog, g *ssa.Function) []string {
	if len(g.Blocks) == 0 {
		return nil
	}
	var out []string
	for _, b := range g.Blocks {
		ret := retOf(b)
		if ret == nil {
			continue
		}
		if len(ret.Results) == 0 {
			return nil
		}
		var call *ssa.Call
		for i := range ret.Results {
			ex, ok := retVal(ret, i).(*ssa.Extract)
			if !ok || ex.Index != i {
				return nil
			}
			c, ok := ex.Tuple.(*ssa.Call)
			if !ok || (call != nil && c != call) {
				return nil
			}
			call = c
		}
		f := call.Call.StaticCallee()
		if f == nil || !p.InPkg(f) {
			return nil
		}
		out = append(out, callDesc(p, call))
	}
	return out
}

// handedToParent: the error value ev of the function literal fn is stored (directly or through a phi) into a free
// variable, and the enclosing function returns the content of the variable bound to it as its error result.
func handedToParent(fn *ssa.Function, ev ssa.Value) bool {
	parent := fn.Parent()
	if parent == nil {
		return false
	}
	pi := errResultIndex(parent.Signature)
	if pi < 0 {
		return false
	}
	// free variables that receive ev
	recv := map[int]bool{}
	allInstrs(fn, func(in ssa.Instruction) {
		st, ok := in.(*ssa.Store)
		if !ok {
			return
		}
		fv, ok := st.Addr.(*ssa.FreeVar)
		if !ok {
			return
		}
		carries := false
		seen := map[ssa.Value]bool{}
		var rec func(v ssa.Value)
		rec = func(v ssa.Value) {
			if seen[v] {
				return
			}
			seen[v] = true
			if v == ev {
				carries = true
			}
			switch x := v.(type) {
			case *ssa.Phi:
				for _, e := range x.Edges {
					rec(e)
				}
			case *ssa.MakeInterface:
				rec(x.X)
			case *ssa.ChangeInterface:
				rec(x.X)
			}
		}
		rec(st.Val)
		if carries {
			for i, f := range fn.FreeVars {
				if f == fv {
					recv[i] = true
				}
			}
		}
	})
	if len(recv) == 0 {
		return false
	}
	// the cells bound to them in the parent
	cells := map[ssa.Value]bool{}
	allInstrs(parent, func(in ssa.Instruction) {
		mc, ok := in.(*ssa.MakeClosure)
		if !ok || mc.Fn != ssa.Value(fn) {
			return
		}
		for i := range recv {
			if i < len(mc.Bindings) {
				cells[mc.Bindings[i]] = true
			}
		}
	})
	returned := false
	for _, b := range parent.Blocks {
		ret := retOf(b)
		if ret == nil || pi >= len(ret.Results) {
			continue
		}
		if u, ok := retVal(ret, pi).(*ssa.UnOp); ok && cells[u.X] {
			returned = true
		}
	}
	return returned
}
