package main

import (
	"fmt"
	"go/token"
	"go/types"
	"strings"

	"golang.org/x/tools/go/ssa"
)

func init() {
	register("CHILDVISIT", "for every Expression implementor T and every field of T of type Expression or []Expression, T.Check invokes Check (and T.Walk invokes Walk) on a receiver derived from that field, and the child's Check error is returned; every statement Validate* reaches Check on each of the statement's expressions", ruleChildVisit)
	register("FUNCREG", "(*FunctionCallExpr).Check (with its static callees) looks the function name up in the scalar and the aggregate registry and compares len(Args) with NumArgs, so unknown functions and wrong arities are rejected when the plan is built", ruleFuncReg)
	register("WHEREBOOL", "every function that builds a WhereStmt from a parsed expression invokes Check on that expression and tests ReturnType() == TBOOL (itself or in a static callee that receives the statement), the failing edge returning an error", ruleWhereBool)
	register("KWFLAGS", "the CheckCtx handed to PutStmt.Validate forbids `value`, the one handed to RemoveStmt.Validate forbids `key` and `value`, and (*FieldExpr).Check returns an error under the matching flag", ruleKWFlags)
}

// exprImplementors returns the Expression implementors.
func (p *Prog) exprTypes() []*types.Named {
	it := p.Iface("Expression")
	if it == nil {
		return nil
	}
	return p.Implementors(it)
}

func isExprIface(p *Prog, t types.Type) bool {
	n, ok := t.(*types.Named)
	return ok && n.Obj().Pkg() == p.Types && n.Obj().Name() == "Expression"
}

// childFields lists fields of T typed Expression or []Expression.
func childFields(p *Prog, t *types.Named) []string {
	st, ok := t.Underlying().(*types.Struct)
	if !ok {
		return nil
	}
	var out []string
	for i := 0; i < st.NumFields(); i++ {
		ft := st.Field(i).Type()
		if isExprIface(p, ft) {
			out = append(out, st.Field(i).Name())
		} else if sl, ok := ft.Underlying().(*types.Slice); ok && isExprIface(p, sl.Elem()) {
			out = append(out, st.Field(i).Name())
		}
	}
	return out
}

// invokesOn finds invoke instructions of method `m` in the functions fs whose receiver
// derives from field (owner.field).
func (p *Prog) invokesOn(fs []*ssa.Function, iface, m, owner, field string) []*ssa.Call {
	var out []*ssa.Call
	for _, f := range fs {
		allInstrs(f, func(in ssa.Instruction) {
			c, ok := in.(*ssa.Call)
			if !ok || !c.Call.IsInvoke() || c.Call.Method.Name() != m {
				return
			}
			if typeName(c.Call.Value.Type()) != iface {
				return
			}
			if p.derivesFromField(c.Call.Value, owner, field, traceOpts{IntoReturns: true, ThroughArgs: true}) {
				out = append(out, c)
			}
		})
	}
	return out
}

var childVisitExempt = map[string]string{
	"Check|FieldReferenceExpr.FieldExpr": "the aliased expression is a select field and is checked as such by SelectStmt.ValidateFields",
	"Check|FunctionCallExpr.Name":        "asserted to be a *NameExpr leaf by the same method (anything else is rejected)",
}

func ruleChildVisit(p *Prog, r *Result) {
	ets := p.exprTypes()
	if len(ets) == 0 {
		r.undecided("interface Expression or its implementors not found")
		return
	}
	nWith := 0
	for _, t := range ets {
		cf := childFields(p, t)
		if len(cf) > 0 {
			nWith++
		}
		for _, m := range []string{"Check", "Walk"} {
			fn := p.Method(t, m)
			if fn == nil {
				r.undecided("method %s.%s not found", t.Obj().Name(), m)
				continue
			}
			fs := p.staticClosure(fn, 2, nil)
			for _, f := range cf {
				key := fmt.Sprintf("%s|%s.%s", m, t.Obj().Name(), f)
				if why, ex := childVisitExempt[key]; ex {
					r.Exempt = append(r.Exempt, key+": "+why)
					continue
				}
				if m == "Check" && len(p.invokesOn(fs, "Expression", m, t.Obj().Name(), f)) == 0 {
					// a child that is never checked must be a leaf whose kind the method itself tests: every success
					// return of T.Check (a constant nil error) lies behind the true edge of a type test of that child
					var tests []ssa.Value
					allInstrs(fn, func(in ssa.Instruction) {
						ta, ok := in.(*ssa.TypeAssert)
						if !ok || !ta.CommaOk || !p.derivesFromField(ta.X, t.Obj().Name(), f, traceOpts{}) {
							return
						}
						// only tests for leaf kinds count: a node with children of its own has to be checked
						if nt := namedOf(ta.AssertedType); nt == nil || len(childFields(p, nt)) > 0 {
							return
						}
						if ex := extractOf2(ta, 1); ex != nil {
							tests = append(tests, ex)
						}
					})
					if len(tests) > 0 {
						bad := ""
						for _, b := range fn.Blocks {
							ret := retOf(b)
							if ret == nil || !isNilConst(retVal(ret, len(ret.Results)-1)) {
								continue
							}
							// behind a test: the block is only reached over true edges of the tests (a case listing
							// several kinds joins the true edges of several tests)
							isTest := func(v ssa.Value) bool {
								for _, tv := range tests {
									if tv == v {
										return true
									}
								}
								return false
							}
							memo := map[*ssa.BasicBlock]int{} // 1 in progress, 2 behind, 3 not behind
							var behind func(x *ssa.BasicBlock) bool
							behind = func(x *ssa.BasicBlock) bool {
								switch memo[x] {
								case 1, 3:
									return false
								case 2:
									return true
								}
								if len(x.Preds) == 0 {
									memo[x] = 3
									return false
								}
								memo[x] = 1
								for _, pr := range x.Preds {
									viaTrue := false
									if f := ifOf(pr); f != nil && isTest(f.Cond) && pr.Succs[0] == x && pr.Succs[1] != x {
										viaTrue = true
									}
									if !viaTrue && !behind(pr) {
										memo[x] = 3
										return false
									}
								}
								memo[x] = 2
								return true
							}
							okb := behind(b)
							if !okb {
								bad = fmt.Sprintf("%s accepts the node at %s without having looked at child %s, which it never checks: anything may stand there", p.FName(fn), p.InstrPos(ret), f)
							}
						}
						r.add(bad == "", key+"|leaf-kind", p.Pos(fn.Pos()), firstNonEmpty(bad, fmt.Sprintf("child %s is not checked but every accepting return lies behind a test of its node kind", f)))
						continue
					}
				}
				calls := p.invokesOn(fs, "Expression", m, t.Obj().Name(), f)
				if len(calls) == 0 {
					r.hit(key, p.Pos(fn.Pos()), fmt.Sprintf("%s never invokes %s on child field %s: a fault below this node is not seen", p.FName(fn), m, f))
					continue
				}
				if m == "Check" {
					bad := ""
					for _, c := range calls {
						ev := errValueOf(c)
						if ev == nil {
							bad = "error of child Check discarded at " + p.InstrPos(c)
							break
						}
						if msg := checkErrFlow(p, c.Parent(), c, ev, nil); msg != "" {
							bad = "child Check error not returned: " + msg
							break
						}
					}
					if bad != "" {
						r.hit(key, p.InstrPos(calls[0]), bad)
						continue
					}
				}
				if m == "Check" && !isSliceField(t, f) {
					// the child is checked before the node can be accepted: every success return of T.Check
					// (a constant nil error) is dominated by a child Check call made in T.Check itself
					early := ""
					for _, b := range fn.Blocks {
						ret := retOf(b)
						if ret == nil || !isNilConst(retVal(ret, len(ret.Results)-1)) {
							continue
						}
						dom := false
						for _, c := range calls {
							if c.Parent() != fn || instrDominates(c, ret) {
								dom = true
							}
						}
						if !dom {
							early = "success return at " + p.InstrPos(ret) + " is reached without checking child " + f
						}
					}
					if early != "" {
						r.hit(key, p.InstrPos(calls[0]), early)
						continue
					}
				}
				if isSliceField(t, f) {
					// every element is visited: the receivers are elements of the whole list, not of a
					// sub-slice or a loop starting after the first element (unless the skipped
					// elements are visited individually)
					if why := p.sliceCoverage(calls, t.Obj().Name(), f); why != "" {
						r.hit(key, p.InstrPos(calls[0]), why)
						continue
					}
				}
				r.ok(key, p.InstrPos(calls[0]), fmt.Sprintf("%d invoke(s) of %s on %s", len(calls), m, f))
			}
		}
	}
	r.note("expression_implementors", len(ets))
	r.note("implementors_with_children", nWith)
	r.floor("Expression implementors", len(ets), 8)
	r.floor("implementors with child fields", nWith, 4)

	// statements: Validate* must reach Check on every expression of the statement
	stmts := []struct{ typ, method, owner, field string }{
		{"PutStmt", "Validate", "PutKVPair", "Key"},
		{"PutStmt", "Validate", "PutKVPair", "Value"},
		{"RemoveStmt", "Validate", "RemoveStmt", "Keys"},
		{"DeleteStmt", "Validate", "WhereStmt", "Expr"},
		{"SelectStmt", "ValidateFields", "SelectStmt", "Fields"},
	}
	for _, s := range stmts {
		key := fmt.Sprintf("Validate|%s.%s|%s.%s", s.typ, s.method, s.owner, s.field)
		fn := p.MethodByName(s.typ, s.method)
		if fn == nil {
			r.undecided("anchor: (*%s).%s not found", s.typ, s.method)
			continue
		}
		fs := p.staticClosure(fn, 3, nil)
		calls := p.invokesOn(fs, "Expression", "Check", s.owner, s.field)
		if len(calls) == 0 {
			r.hit(key, p.Pos(fn.Pos()), fmt.Sprintf("%s never reaches Check on %s.%s", p.FName(fn), s.owner, s.field))
			continue
		}
		bad := ""
		for _, c := range calls {
			ev := errValueOf(c)
			if ev == nil {
				bad = "Check error discarded at " + p.InstrPos(c)
			} else if msg := checkErrFlow(p, c.Parent(), c, ev, nil); msg != "" {
				bad = msg
			}
		}
		r.add(bad == "", key, p.InstrPos(calls[0]), "Check reached, error returned"+bad)
	}
	// and the statement constructors call Validate and return its error
	for _, s := range []struct{ typ, method string }{{"PutStmt", "Validate"}, {"RemoveStmt", "Validate"}, {"DeleteStmt", "Validate"}, {"SelectStmt", "ValidateFields"}} {
		fn := p.MethodByName(s.typ, s.method)
		if fn == nil {
			continue
		}
		n := 0
		for _, caller := range p.Funcs {
			allInstrs(caller, func(in ssa.Instruction) {
				c, ok := in.(*ssa.Call)
				if !ok || c.Call.StaticCallee() != fn {
					return
				}
				n++
				key := fmt.Sprintf("ValidateCall|%s|%s", p.FName(caller), p.FName(fn))
				ev := errValueOf(c)
				if ev == nil {
					r.hit(key, p.InstrPos(c), "Validate error discarded")
					return
				}
				msg := checkErrFlow(p, caller, c, ev, nil)
				r.add(msg == "", key, p.InstrPos(c), "validation error returned "+msg)
			})
		}
		if n == 0 {
			r.hit("ValidateCall|"+p.FName(fn), p.Pos(fn.Pos()), "validation method is never called")
		}
	}
}

// ---------------- FUNCREG ----------------

func ruleFuncReg(p *Prog, r *Result) {
	fn := p.MethodByName("FunctionCallExpr", "Check")
	if fn == nil {
		r.undecided("anchor: (*FunctionCallExpr).Check not found")
		return
	}
	// registries: package-level maps whose element type is *Function / *AggrFunc
	var scalarG, aggrG *ssa.Global
	for _, mem := range p.SPkg.Members {
		g, ok := mem.(*ssa.Global)
		if !ok {
			continue
		}
		mt, ok := deref(g.Type()).Underlying().(*types.Map)
		if !ok {
			continue
		}
		switch typeName(mt.Elem()) {
		case "Function":
			scalarG = g
		case "AggrFunc":
			aggrG = g
		}
	}
	if scalarG == nil || aggrG == nil {
		r.undecided("anchor: scalar/aggregate registry globals not found")
		return
	}
	fs := p.staticClosure(fn, 3, nil)
	// ... or in what the plan builder runs on every statement before anything else (Optimizer.init), evaluation code
	// excluded: the constant folder reaches the evaluator, whose own lookup is the one that comes too late
	if oi := p.MethodByName("Optimizer", "init"); oi != nil {
		isEval := func(c *ssa.Function) bool {
			n := c.Name()
			return strings.HasPrefix(n, "Execute") || strings.HasPrefix(n, "exec") || strings.HasPrefix(n, "tryOptimize") || strings.HasPrefix(n, "optimize")
		}
		seenF := map[*ssa.Function]bool{}
		for _, f := range fs {
			seenF[f] = true
		}
		for _, f := range p.staticClosure(oi, 6, isEval) {
			if f != oi && isEval(f) {
				continue
			}
			if !seenF[f] && f.Name() != "Parse" && !strings.HasPrefix(f.Name(), "parse") {
				seenF[f] = true
				fs = append(fs, f)
			}
		}
	}
	// the look-ups count where a rejection is produced: among the candidate functions, the one (with what it calls
	// directly, two levels) that builds a syntax error and satisfies most of the three obligations is judged
	{
		best, bestScore := []*ssa.Function(nil), -1
		for _, cand := range fs {
			cl := p.staticClosure(cand, 2, nil)
			rejects := false
			score := 0
			var hasS, hasA, hasN bool
			for _, f := range cl {
				allInstrs(f, func(in ssa.Instruction) {
					switch x := in.(type) {
					case *ssa.Call:
						if g := x.Call.StaticCallee(); g != nil && (g.Name() == "NewSyntaxError" || p.qualName(g) == "fmt.Errorf") {
							rejects = true
						}
					case *ssa.Lookup:
						if derivesFrom(x.X, func(v ssa.Value) bool { return v == ssa.Value(scalarG) }) {
							hasS = true
						}
						if derivesFrom(x.X, func(v ssa.Value) bool { return v == ssa.Value(aggrG) }) {
							hasA = true
						}
					case *ssa.BinOp:
						if _, f2, _, ok := loadedField(x.X); ok && f2 == "NumArgs" {
							hasN = true
						}
						if _, f2, _, ok := loadedField(x.Y); ok && f2 == "NumArgs" {
							hasN = true
						}
						if _, isPhi := x.Y.(*ssa.Phi); isPhi {
							hasN = hasN || true
						}
					}
				})
			}
			for _, b := range []bool{hasS, hasA} {
				if b {
					score++
				}
			}
			_ = hasN
			if rejects && score > bestScore {
				best, bestScore = cl, score
			}
		}
		if best != nil && bestScore == 2 {
			fs = best
		} else {
			fs = p.staticClosure(fn, 3, nil)
		}
	}
	readsGlobal := func(g *ssa.Global) (bool, string) {
		for _, f := range fs {
			found := ""
			allInstrs(f, func(in ssa.Instruction) {
				lk, ok := in.(*ssa.Lookup)
				if !ok {
					return
				}
				if derivesFrom(lk.X, func(v ssa.Value) bool { return v == ssa.Value(g) }) {
					found = p.InstrPos(in)
				}
			})
			if found != "" {
				return true, found
			}
		}
		return false, ""
	}
	okS, posS := readsGlobal(scalarG)
	okA, posA := readsGlobal(aggrG)
	r.add(okS, "scalar-registry-lookup", firstNonEmpty(posS, p.Pos(fn.Pos())), "FunctionCallExpr.Check must look the name up in "+scalarG.Name()+" (unknown scalar function accepted at plan time otherwise)")
	r.add(okA, "aggregate-registry-lookup", firstNonEmpty(posA, p.Pos(fn.Pos())), "FunctionCallExpr.Check must look the name up in "+aggrG.Name())
	// arity compare: a comparison between len(<Args-derived>) and a load of field NumArgs
	okN, posN := false, ""
	for _, f := range fs {
		allInstrs(f, func(in ssa.Instruction) {
			b, ok := in.(*ssa.BinOp)
			if !ok {
				return
			}
			switch b.Op {
			case token.EQL, token.NEQ, token.LSS, token.LEQ, token.GTR, token.GEQ:
			default:
				return
			}
			isLenArgs := func(v ssa.Value) bool {
				c, ok := v.(*ssa.Call)
				if !ok {
					return false
				}
				bi, ok := c.Call.Value.(*ssa.Builtin)
				if !ok || bi.Name() != "len" {
					return false
				}
				return p.derivesFromField(c.Call.Args[0], "FunctionCallExpr", "Args", traceOpts{ThroughArgs: true})
			}
			var isNumArgs func(v ssa.Value) bool
			isNumArgs = func(v ssa.Value) bool {
				// a parameter of a package helper (checkCallArity(call, name, numArgs, varArgs)): what its static
				// callers pass
				if pa, ok := v.(*ssa.Parameter); ok && pa.Parent() != nil {
					g := pa.Parent()
					idx := -1
					for k, q := range g.Params {
						if q == pa {
							idx = k
						}
					}
					any := false
					for _, caller := range p.Funcs {
						ok2 := true
						allInstrs(caller, func(x ssa.Instruction) {
							c, isC := x.(*ssa.Call)
							if !isC || c.Call.StaticCallee() != g || idx < 0 || idx >= len(c.Call.Args) {
								return
							}
							if a := c.Call.Args[idx]; a != v && isNumArgs(a) {
								any = true
							} else {
								ok2 = false
							}
						})
						if !ok2 {
							return false
						}
					}
					return any
				}
				// a result of a package helper that hands out the registered signature
				if ex, ok := v.(*ssa.Extract); ok {
					if c, ok := ex.Tuple.(*ssa.Call); ok {
						if g := c.Call.StaticCallee(); g != nil && p.InPkg(g) && len(g.Blocks) > 0 {
							any := false
							for _, gb := range g.Blocks {
								ret := retOf(gb)
								if ret == nil || ex.Index >= len(ret.Results) {
									continue
								}
								rv := ret.Results[ex.Index]
								if _, isC := rv.(*ssa.Const); isC {
									continue
								}
								// named results: the value returned is a load of the result cell
								if u, ok := rv.(*ssa.UnOp); ok {
									if al, ok := u.X.(*ssa.Alloc); ok {
										okAll := true
										for _, sv := range storedInto(al) {
											if _, isC := sv.(*ssa.Const); isC {
												continue
											}
											if !isNumArgs(sv) {
												okAll = false
											} else {
												any = true
											}
										}
										if !okAll {
											return false
										}
										continue
									}
								}
								if !isNumArgs(rv) {
									return false
								}
								any = true
							}
							return any
						}
					}
				}
				if ph, ok := v.(*ssa.Phi); ok {
					any := false
					for _, e := range ph.Edges {
						if _, isC := e.(*ssa.Const); isC {
							continue
						}
						if _, f, _, ok := loadedField(e); !ok || f != "NumArgs" {
							return false
						}
						any = true
					}
					return any
				}
				_, f, _, ok := loadedField(v)
				return ok && f == "NumArgs"
			}
			if (isLenArgs(b.X) && isNumArgs(b.Y)) || (isLenArgs(b.Y) && isNumArgs(b.X)) {
				okN, posN = true, p.InstrPos(in)
			}
		})
	}
	// ... with the declared count in every branch: a comparison of the call's argument count with a number written
	// into the check (`variadic: at least one`) is right for the functions it was written for and wrong for the one
	// that declares another minimum (join needs two)
	constCmp := ""
	for _, f := range fs {
		allInstrs(f, func(in ssa.Instruction) {
			b, ok := in.(*ssa.BinOp)
			if !ok {
				return
			}
			switch b.Op {
			case token.EQL, token.NEQ, token.LSS, token.LEQ, token.GTR, token.GEQ:
			default:
				return
			}
			isLenArgs := func(v ssa.Value) bool {
				c, ok := v.(*ssa.Call)
				if !ok {
					return false
				}
				bi, ok := c.Call.Value.(*ssa.Builtin)
				if !ok || bi.Name() != "len" {
					return false
				}
				return p.derivesFromField(c.Call.Args[0], "FunctionCallExpr", "Args", traceOpts{ThroughArgs: true})
			}
			for _, pr := range [][2]ssa.Value{{b.X, b.Y}, {b.Y, b.X}} {
				if isLenArgs(pr[0]) {
					if k, isK := constInt(pr[1]); isK && k >= 0 {
						constCmp = p.InstrPos(in)
					}
				}
			}
		})
	}
	if okN {
		r.add(constCmp == "", "arity-declared", firstNonEmpty(constCmp, p.Pos(fn.Pos())), firstNonEmpty(map[bool]string{true: "the argument count is compared with a number written into the check at " + constCmp + " instead of the count the function declares"}[constCmp != ""], "the argument count is only ever compared with the declared NumArgs"))
	}
	r.add(okN, "arity-compare", firstNonEmpty(posN, p.Pos(fn.Pos())), "FunctionCallExpr.Check must compare len(Args) with the registered NumArgs (wrong argument count accepted at plan time otherwise)")
	r.note("functions_examined", p.fnames(fs))
}

func firstNonEmpty(a, b string) string {
	if a != "" {
		return a
	}
	return b
}

func (p *Prog) fnames(fs []*ssa.Function) []string {
	var out []string
	for _, f := range fs {
		out = append(out, p.FName(f))
	}
	return out
}

// ---------------- WHEREBOOL ----------------

func ruleWhereBool(p *Prog, r *Result) {
	parseExpr := p.Func("(*Parser).parseExpr")
	if parseExpr == nil {
		r.undecided("anchor: (*Parser).parseExpr not found")
		return
	}
	tbool, ok := p.constOf("TBOOL")
	if !ok {
		r.undecided("anchor: constant TBOOL not found")
		return
	}
	fromParse := func(v ssa.Value) bool {
		return derivesFrom(v, func(x ssa.Value) bool {
			c, ok := x.(*ssa.Call)
			return ok && c.Call.StaticCallee() == parseExpr
		})
	}
	n := 0
	for _, fn := range p.Funcs {
		// stores into WhereStmt.Expr of a value derived from parseExpr
		var site ssa.Instruction
		allInstrs(fn, func(in ssa.Instruction) {
			st, ok := in.(*ssa.Store)
			if !ok {
				return
			}
			if o, f, _, ok := fieldOfAddr(st.Addr); ok && o != nil && o.Obj().Name() == "WhereStmt" && f == "Expr" && fromParse(st.Val) {
				site = in
			}
		})
		if site == nil {
			continue
		}
		n++
		fs := p.staticClosure(fn, 3, func(f *ssa.Function) bool { return f == parseExpr || strings.HasPrefix(f.Name(), "parse") })
		isWhereExpr := func(v ssa.Value, f *ssa.Function) bool {
			if f == fn && fromParse(v) {
				return true
			}
			return p.derivesFromField(v, "WhereStmt", "Expr", traceOpts{})
		}
		// (i) Check invoked
		checked := false
		var checkCall *ssa.Call
		for _, f := range fs {
			allInstrs(f, func(in ssa.Instruction) {
				c, ok := in.(*ssa.Call)
				if !ok || !c.Call.IsInvoke() || c.Call.Method.Name() != "Check" {
					return
				}
				if isWhereExpr(c.Call.Value, f) {
					checked = true
					checkCall = c
				}
			})
		}
		key := p.FName(fn)
		if !checked {
			r.hit(key+"|check", p.InstrPos(site), "the WHERE expression is never type-checked (no Check invoke on it)")
		} else {
			msg := ""
			if ev := errValueOf(checkCall); ev == nil {
				msg = "Check error discarded"
			} else {
				msg = checkErrFlow(p, checkCall.Parent(), checkCall, ev, nil)
			}
			r.add(msg == "", key+"|check", p.InstrPos(checkCall), "WHERE expression checked, error returned "+msg)
		}
		// (ii) TBOOL test with error on failure
		tested, tpos := false, ""
		for _, f := range fs {
			for _, b := range f.Blocks {
				iff := ifOf(b)
				if iff == nil {
					continue
				}
				for succ := 0; succ < 2; succ++ {
					a, ok := edgeAtom(b, succ)
					if !ok || a.Op != token.NEQ {
						continue
					}
					x, y := a.X, a.Y
					if cv, isC := constInt(x); isC && cv == tbool {
						x, y = y, x
					}
					cv, isC := constInt(y)
					if !isC || cv != tbool {
						continue
					}
					c, isCall := x.(*ssa.Call)
					if !isCall || !c.Call.IsInvoke() || c.Call.Method.Name() != "ReturnType" {
						continue
					}
					if !isWhereExpr(c.Call.Value, f) {
						continue
					}
					if returnsNonNilErrorFrom(b.Succs[succ]) {
						tested, tpos = true, p.InstrPos(iff)
					}
				}
			}
		}
		r.add(tested, key+"|bool", firstNonEmpty(tpos, p.InstrPos(site)), "WHERE expression must be tested ReturnType()==TBOOL with an error on the failing edge (a non-Boolean WHERE is accepted otherwise)")
	}
	r.note("where_constructors", n)
	r.floor("functions constructing a WhereStmt from parseExpr", n, 2)
}

// ---------------- KWFLAGS ----------------

func ruleKWFlags(p *Prog, r *Result) {
	want := []struct {
		typ   string
		flags []string
	}{{"PutStmt", []string{"NotAllowValue"}}, {"RemoveStmt", []string{"NotAllowKey", "NotAllowValue"}}}
	for _, w := range want {
		vf := p.MethodByName(w.typ, "Validate")
		if vf == nil {
			r.undecided("anchor: (*%s).Validate not found", w.typ)
			continue
		}
		ncalls := 0
		for _, caller := range p.Funcs {
			allInstrs(caller, func(in ssa.Instruction) {
				c, ok := in.(*ssa.Call)
				if !ok || c.Call.StaticCallee() != vf {
					return
				}
				ncalls++
				ctx := c.Call.Args[len(c.Call.Args)-1]
				al, _ := stripConv(ctx).(*ssa.Alloc)
				for _, fl := range w.flags {
					key := fmt.Sprintf("%s|%s|%s", p.FName(caller), w.typ, fl)
					if al == nil {
						r.hit(key, p.InstrPos(c), "CheckCtx passed to Validate is not a fresh literal; cannot establish the flag")
						continue
					}
					setTrue, setOther := false, false
					for _, ref := range *al.Referrers() {
						fa, ok := ref.(*ssa.FieldAddr)
						if !ok {
							continue
						}
						_, fname, _, _ := fieldOfAddr(fa)
						if fname != fl {
							continue
						}
						for _, r2 := range *fa.Referrers() {
							if st, ok := r2.(*ssa.Store); ok {
								if bv, isB := constBool(st.Val); isB && bv {
									setTrue = true
								} else {
									setOther = true
								}
							}
						}
					}
					r.add(setTrue && !setOther, key, p.InstrPos(c), fmt.Sprintf("%s must be set to true in the CheckCtx given to %s.Validate", fl, w.typ))
				}
			})
		}
		if ncalls == 0 {
			r.hit(w.typ+"|validate-not-called", p.Pos(vf.Pos()), "Validate is never called")
		}
	}
	// (*FieldExpr).Check: returns an error under each flag for the matching keyword
	fc := p.MethodByName("FieldExpr", "Check")
	if fc == nil {
		r.undecided("anchor: (*FieldExpr).Check not found")
		return
	}
	for _, pair := range []struct{ flag, kw string }{{"NotAllowKey", "KeyKW"}, {"NotAllowValue", "ValueKW"}} {
		kwv, ok := p.constOf(pair.kw)
		if !ok {
			r.undecided("anchor: constant %s not found", pair.kw)
			continue
		}
		found := false
		for _, b := range fc.Blocks {
			ret := retOf(b)
			if ret == nil || len(ret.Results) == 0 || isNilConst(retVal(ret, len(ret.Results)-1)) {
				continue
			}
			atoms := dominatingAtoms(b)
			hasFlag, hasKW := false, false
			for _, a := range atoms {
				if a.Op == token.EQL {
					if isFieldLoad(a.X, "CheckCtx", pair.flag) {
						if bv, isB := constBool(a.Y); isB && bv {
							hasFlag = true
						}
					}
					if isFieldLoad(a.X, "FieldExpr", "Field") {
						if cv, isC := constInt(a.Y); isC && cv == kwv {
							hasKW = true
						}
					}
				}
			}
			if hasFlag && hasKW {
				found = true
			}
		}
		r.add(found, "FieldExpr.Check|"+pair.flag, p.Pos(fc.Pos()), fmt.Sprintf("must return an error when ctx.%s and Field == %s", pair.flag, pair.kw))
	}
}

func isSliceField(t *types.Named, field string) bool {
	st, ok := t.Underlying().(*types.Struct)
	if !ok {
		return false
	}
	for i := 0; i < st.NumFields(); i++ {
		if st.Field(i).Name() == field {
			_, isSl := st.Field(i).Type().Underlying().(*types.Slice)
			return isSl
		}
	}
	return false
}

// sliceCoverage decides whether the invocations together visit every element of the list
// field: an invocation on list[i] for a loop index starting at k over list[l:] covers
// [k+l, inf); an invocation on a constant index covers that index. Returns "" when all
// indices from 0 are covered.
func (p *Prog) sliceCoverage(calls []*ssa.Call, owner, field string) string {
	from := int64(-1) // smallest start of an open-ended cover
	single := map[int64]bool{}
	for _, c := range calls {
		start := int64(0)
		bounded := false
		isSingle := false
		var singleIdx int64
		p.traceBack(c.Call.Value, traceOpts{IntoReturns: true, ThroughArgs: true}, func(x ssa.Value) bool {
			switch y := x.(type) {
			case *ssa.Slice:
				if _, isSl := y.X.Type().Underlying().(*types.Slice); isSl {
					if y.Low != nil {
						if k, ok := constInt(y.Low); ok {
							start += k
						} else {
							bounded = true
						}
					}
					if y.High != nil {
						bounded = true
					}
				}
			case *ssa.IndexAddr:
				if k, ok := constInt(y.Index); ok {
					isSingle, singleIdx = true, k
				} else if ph, ok := y.Index.(*ssa.Phi); ok {
					// loop index: its value on entry to the loop
					for _, e := range ph.Edges {
						if k, ok := constInt(e); ok && k > 0 {
							start += k
						}
					}
				}
			case *ssa.Index:
				if k, ok := constInt(y.Index); ok {
					isSingle, singleIdx = true, k
				}
			}
			return true
		})
		switch {
		case isSingle:
			single[singleIdx+start] = true
		case bounded:
			// a window with a computed bound covers nothing for sure
		default:
			if from < 0 || start < from {
				from = start
			}
		}
	}
	if from < 0 {
		return fmt.Sprintf("no invocation ranges over the whole list %s.%s", owner, field)
	}
	for i := int64(0); i < from; i++ {
		if !single[i] {
			return fmt.Sprintf("element %d of %s.%s is never visited (the loop starts at element %d): a fault in that position is not seen", i, owner, field, from)
		}
	}
	return ""
}
