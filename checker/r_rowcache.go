package main

import (
	"fmt"
	"go/token"
	"go/types"

	"golang.org/x/tools/go/ssa"
)

func init() {
	register("ROWCACHE", "typestate of the per-row alias cache (keyed by alias name only): a loop that hands different rows (a loop-variant KVPair / key bytes) together with a non-nil ExecuteCtx to code that may touch the per-row cache must clear that context for every row (a Clear on the same context dominating the call inside the loop, possibly under `ctx != nil`), or the callee must clear it before touching; otherwise a value cached for one row is read for another", ruleRowCache)
}

// frozen exemption with a checked side condition
var rowCacheExempt = map[string]string{
	"(*FilterExec).filterBatch": "iterates over the slice it is given; side condition checked: its only caller passes a one-element slice literal",
}

func ruleRowCache(p *Prog, r *Result) {
	ct := p.Named("ExecuteCtx")
	if ct == nil {
		r.undecided("anchor: ExecuteCtx not found")
		return
	}
	get, set, clr := p.Method(ct, "GetFieldResult"), p.Method(ct, "SetFieldResult"), p.Method(ct, "Clear")
	if get == nil || set == nil || clr == nil {
		r.undecided("anchor: ExecuteCtx.GetFieldResult/SetFieldResult/Clear not found")
		return
	}
	// premise: the per-row cache is keyed by the name parameter alone
	for _, f := range []*ssa.Function{get, set} {
		okKey := false
		allInstrs(f, func(in ssa.Instruction) {
			switch x := in.(type) {
			case *ssa.Lookup:
				if x.Index == ssa.Value(f.Params[1]) && p.derivesFromField(x.X, "ExecuteCtx", "FieldCaches", traceOpts{}) {
					okKey = true
				}
			case *ssa.MapUpdate:
				if x.Key == ssa.Value(f.Params[1]) && p.derivesFromField(x.Map, "ExecuteCtx", "FieldCaches", traceOpts{}) {
					okKey = true
				}
			}
		})
		if !okKey {
			r.undecided("premise: %s no longer keys the per-row cache by the alias name alone; the rule's model does not apply", p.FName(f))
			return
		}
	}
	// Clear really empties the per-row cache
	clears := false
	allInstrs(clr, func(in ssa.Instruction) {
		if c, ok := in.(*ssa.Call); ok {
			if b, ok := c.Call.Value.(*ssa.Builtin); ok && b.Name() == "clear" && p.derivesFromField(c.Call.Args[0], "ExecuteCtx", "FieldCaches", traceOpts{}) {
				clears = true
			}
		}
	})
	r.add(clears, "Clear|empties-row-cache", p.Pos(clr.Pos()), "ExecuteCtx.Clear empties the per-row cache")

	// T: functions that may reach a touch
	T := map[*ssa.Function]bool{get: true, set: true}
	g := p.CG()
	work := []*ssa.Function{get, set}
	for len(work) > 0 {
		f := work[len(work)-1]
		work = work[:len(work)-1]
		if n := g.Nodes[f]; n != nil {
			for _, e := range n.In {
				if !T[e.Caller.Func] {
					T[e.Caller.Func] = true
					work = append(work, e.Caller.Func)
				}
			}
		}
	}
	isCtx := func(v ssa.Value) bool { return typeName(v.Type()) == "ExecuteCtx" }
	// clearsParam: a package helper that does nothing but empty the context it is given (when it is not nil):
	// every call in it is Clear on its parameter, and it writes nothing else
	clearsParam := func(g *ssa.Function) int {
		if g == nil || !p.InPkg(g) || len(g.Blocks) == 0 || g.Signature.Results().Len() != 0 {
			return -1
		}
		idx := -1
		okAll := true
		n := 0
		allInstrs(g, func(in ssa.Instruction) {
			switch x := in.(type) {
			case ssa.CallInstruction:
				n++
				if x.Common().StaticCallee() != clr || len(x.Common().Args) == 0 {
					okAll = false
					return
				}
				for i, pa := range g.Params {
					if x.Common().Args[0] == ssa.Value(pa) {
						idx = i
					}
				}
			case *ssa.Store, *ssa.MapUpdate:
				okAll = false
			}
		})
		if !okAll || n == 0 {
			return -1
		}
		return idx
	}
	isClearOn := func(in ssa.Instruction, ctx ssa.Value) bool {
		c, ok := in.(*ssa.Call)
		if !ok {
			return false
		}
		if c.Call.StaticCallee() == clr && len(c.Call.Args) > 0 && c.Call.Args[0] == ctx {
			return true
		}
		if i := clearsParam(c.Call.StaticCallee()); i >= 0 && i < len(c.Call.Args) && c.Call.Args[i] == ctx {
			return true
		}
		return false
	}
	// clearedBefore: a Clear(ctx) dominates instruction t inside region (nil = whole function),
	// directly or as the body of an `if ctx != nil { ctx.Clear() }` whose test dominates t.
	clearedBefore := func(fn *ssa.Function, t ssa.Instruction, ctx ssa.Value, region map[*ssa.BasicBlock]bool) bool {
		ok := false
		allInstrs(fn, func(in ssa.Instruction) {
			if ok || !isClearOn(in, ctx) {
				return
			}
			if region != nil && !region[in.Block()] {
				return
			}
			if instrDominates(in, t) {
				ok = true
				return
			}
			b := in.Block()
			if len(b.Preds) == 1 {
				pr := b.Preds[0]
				for si, s := range pr.Succs {
					if s != b {
						continue
					}
					if a, isA := edgeAtom(pr, si); isA && a.Op == token.NEQ && a.X == ctx && isNilConst(a.Y) {
						if (region == nil || region[pr]) && (pr.Dominates(t.Block())) && pr != t.Block() {
							ok = true
						}
					}
				}
			}
		})
		return ok
	}
	// callee clears first: every touching call in the callee that uses its ctx parameter is preceded by Clear
	clearsFirst := func(callee *ssa.Function, ctxIdx int) bool {
		if callee == nil || callee.Blocks == nil || ctxIdx >= len(callee.Params) {
			return false
		}
		cp0 := ssa.Value(callee.Params[ctxIdx])
		// the context as the callee sees it: the parameter, or a merge of it with a replacement
		// (`if ctx == nil { ctx = NewExecuteCtx() }`)
		ctxVals := map[ssa.Value]bool{cp0: true}
		for grew := true; grew; {
			grew = false
			allInstrs(callee, func(in ssa.Instruction) {
				if ph, ok := in.(*ssa.Phi); ok && !ctxVals[ph] {
					for _, e := range ph.Edges {
						if ctxVals[e] {
							ctxVals[ph] = true
							grew = true
						}
					}
				}
			})
		}
		any := false
		okAll := true
		allInstrs(callee, func(in ssa.Instruction) {
			ci, ok := in.(ssa.CallInstruction)
			if !ok {
				return
			}
			var cp ssa.Value
			for _, a := range ci.Common().Args {
				if ctxVals[a] {
					cp = a
				}
			}
			if ci.Common().IsInvoke() && ctxVals[ci.Common().Value] {
				cp = ci.Common().Value
			}
			if cp == nil || isClearOn(in, cp) {
				return
			}
			touching := false
			for _, f := range p.Callees(ci) {
				if T[f] {
					touching = true
				}
			}
			if !touching {
				return
			}
			any = true
			if !clearedBefore(callee, in, cp, nil) {
				okAll = false
			}
		})
		return any && okAll
	}
	// clearsOnEveryAccept: in the callee, every return that can report `the row passes` (not a constant false, not an
	// error) lies behind a Clear of its context parameter. (clearsFirst is about the callee's own cache use; a
	// consumer that relies on the callee to have emptied the context needs it emptied on every accepting way out -
	// also on a fast path that never touches the cache.)
	clearsOnEveryAccept := func(callee *ssa.Function, ctxIdx int) bool {
		if callee == nil || callee.Blocks == nil || ctxIdx >= len(callee.Params) {
			return false
		}
		cp := ssa.Value(callee.Params[ctxIdx])
		for _, b := range callee.Blocks {
			ret := retOf(b)
			if ret == nil || len(ret.Results) == 0 {
				continue
			}
			if bv, isB := constBool(retVal(ret, 0)); isB && !bv {
				continue
			}
			if len(ret.Results) > 1 && !isNilConst(retVal(ret, len(ret.Results)-1)) {
				if _, isPhi := retVal(ret, len(ret.Results)-1).(*ssa.Phi); !isPhi {
					continue // an error return
				}
			}
			if !clearedBefore(callee, ret, cp, nil) {
				return false
			}
		}
		return true
	}
	loopVariant := func(v ssa.Value, L *Loop) bool {
		variant := false
		seen := map[ssa.Value]bool{}
		var rec func(x ssa.Value, d int)
		rec = func(x ssa.Value, d int) {
			if x == nil || seen[x] || d > 6 || variant {
				return
			}
			seen[x] = true
			in, isIn := x.(ssa.Instruction)
			if !isIn || !L.Body[in.Block()] {
				return // defined outside the loop: invariant
			}
			switch y := x.(type) {
			case *ssa.Phi:
				variant = true
			case *ssa.Call:
				// pure constructors of invariant arguments are invariant
				if f := y.Call.StaticCallee(); f != nil && (f.Name() == "NewKVP" || f.Name() == "NewKVPStr") {
					for _, a := range y.Call.Args {
						rec(a, d+1)
					}
					return
				}
				variant = true
			case *ssa.Extract:
				variant = true
			case *ssa.UnOp:
				if _, isAlloc := y.X.(*ssa.Alloc); isAlloc {
					for _, sv := range storedInto(y.X.(*ssa.Alloc)) {
						rec(sv, d+1)
					}
					return
				}
				rec(y.X, d+1)
			case *ssa.IndexAddr:
				rec(y.Index, d+1)
				rec(y.X, d+1)
			case *ssa.Index:
				rec(y.Index, d+1)
			case *ssa.BinOp:
				rec(y.X, d+1)
				rec(y.Y, d+1)
			case *ssa.Slice, *ssa.Convert, *ssa.ChangeType, *ssa.MakeInterface, *ssa.FieldAddr, *ssa.Field:
				for _, op := range in.Operands(nil) {
					rec(*op, d+1)
				}
			default:
				variant = true
			}
		}
		rec(v, 0)
		return variant
	}
	isRowType := func(t types.Type) bool {
		if typeName(t) == "KVPair" {
			if _, isPtr := t.(*types.Pointer); !isPtr {
				return true
			}
		}
		if sl, ok := t.Underlying().(*types.Slice); ok {
			if b, ok := sl.Elem().(*types.Basic); ok && b.Kind() == types.Uint8 {
				return true
			}
		}
		return false
	}
	nLoops, nCalls := 0, 0
	for _, fn := range p.Funcs {
		loops := naturalLoops(fn)
		if len(loops) == 0 {
			continue
		}
		if why, ex := rowCacheExempt[p.FName(fn)]; ex {
			// side condition: every caller passes a one-element slice literal
			okSide, ncall := true, 0
			for _, caller := range p.Funcs {
				allInstrs(caller, func(in ssa.Instruction) {
					ci, ok := in.(ssa.CallInstruction)
					if !ok || ci.Common().StaticCallee() != fn {
						return
					}
					ncall++
					one := false
					for _, a := range ci.Common().Args {
						if sl, ok := a.(*ssa.Slice); ok {
							if al, ok := sl.X.(*ssa.Alloc); ok {
								if at, ok := deref(al.Type()).Underlying().(*types.Array); ok && at.Len() == 1 {
									one = true
								}
							}
						}
					}
					if !one {
						okSide = false
					}
				})
			}
			if okSide && ncall > 0 {
				r.Exempt = append(r.Exempt, p.FName(fn)+": "+why)
				continue
			}
		}
		ord := 0
		for _, L := range loops {
			nLoops++
			for _, b := range orderedBlocks(fn, L.Body) {
				// only calls whose innermost loop is L
				inner := true
				for _, L2 := range loops {
					if L2 != L && L2.Body[b] && len(L2.Body) < len(L.Body) {
						inner = false
					}
				}
				if !inner {
					continue
				}
				for _, in := range b.Instrs {
					ci, ok := in.(ssa.CallInstruction)
					if !ok {
						continue
					}
					args := ci.Common().Args
					var ctx ssa.Value
					ctxIdx := -1
					for i, a := range args {
						if isCtx(a) && !isNilConst(a) {
							ctx, ctxIdx = a, i
						}
					}
					if ctx == nil {
						continue
					}
					touching := false
					callees := p.Callees(ci)
					for _, f := range callees {
						if T[f] {
							touching = true
						}
					}
					if !touching {
						continue
					}
					variantRow := false
					for _, a := range args {
						if a != ctx && isRowType(a.Type()) && loopVariant(a, L) {
							variantRow = true
						}
					}
					if !variantRow {
						continue
					}
					nCalls++
					ord++
					key := fmt.Sprintf("%s|%s#%d", p.FName(fn), callDesc(p, ci), ord)
					okv := clearedBefore(fn, in, ctx, L.Body)
					how := "context cleared for every row inside the loop"
					if !okv {
						// every callee clears first
						allClear := len(callees) > 0
						for _, f := range callees {
							pi := ctxIdx
							if ci.Common().IsInvoke() {
								pi = ctxIdx + 1
							}
							if !clearsFirst(f, pi) {
								allClear = false
							}
						}
						if allClear {
							okv, how = true, "the callee clears the context before touching the per-row cache"
						}
					}
					if !okv {
						how = "rows of a loop share one ExecuteCtx without Clear: an alias value cached for one row is reused for the next"
					}
					r.add(okv, key, p.InstrPos(in), how)
				}
			}
		}
	}
	// every consumer of a pair-level plan starts its batch fetches with a clean context: the chunk caches are
	// looked up by (field name, first key of the chunk), so an entry left behind by an earlier statement or by a
	// run that ended early (error, LIMIT reached) answers for a chunk that merely starts at the same key. The
	// plans that implement Plan themselves only forward their caller's context and are not consumers
	planIface := p.Iface("Plan")
	nFetch := 0
	for _, fn := range p.Funcs {
		if fn.Signature.Recv() != nil && planIface != nil {
			if types.Implements(fn.Signature.Recv().Type(), planIface) {
				continue
			}
		}
		allInstrs(fn, func(in ssa.Instruction) {
			c, ok := in.(*ssa.Call)
			if !ok || !c.Call.IsInvoke() || typeName(c.Call.Value.Type()) != "Plan" || c.Call.Method.Name() != "Batch" {
				return
			}
			var ctx ssa.Value
			for _, a := range c.Call.Args {
				if isCtx(a) && !isNilConst(a) {
					ctx = a
				}
			}
			if ctx == nil {
				return
			}
			nFetch++
			r.add(clearedBefore(fn, in, ctx, nil), p.FName(fn)+"|fetch-clear", p.InstrPos(in), "a consumer empties the context before it polls a pair-level plan in batch mode (a chunk-cache entry of an earlier statement or run would answer for a chunk starting at the same key)")
		})
	}
	r.floor("batch fetches of pair-level plans by their consumers", nFetch, 2)
	// the projection starts every Next/Batch with a clean context: a plain Clear(ctx) call dominates the
	// child fetch (the chunk cache accumulates inside the context and is re-indexed per call)
	if pt := p.Named("ProjectionPlan"); pt != nil {
		for _, mn := range []string{"Next", "Batch"} {
			fn := p.Method(pt, mn)
			if fn == nil {
				continue
			}
			var fetch ssa.Instruction
			allInstrs(fn, func(in ssa.Instruction) {
				if c, ok := in.(*ssa.Call); ok && c.Call.IsInvoke() && typeName(c.Call.Value.Type()) == "Plan" && (c.Call.Method.Name() == "Next" || c.Call.Method.Name() == "Batch") {
					fetch = in
				}
			})
			if fetch == nil {
				r.hit("ProjectionPlan."+mn+"|fetch", p.Pos(fn.Pos()), "no child fetch found")
				continue
			}
			ctx := ssa.Value(fn.Params[1])
			okv := clearedBefore(fn, fetch, ctx, nil)
			if !okv && mn == "Next" {
				// row mode: it is enough that every child hands out a row only after FilterExec.Filter ran on it with
				// the same context (Filter clears the per-row cache before evaluating)
				if ff := p.MethodByName("FilterExec", "Filter"); ff != nil && clearsFirst(ff, 2) && clearsOnEveryAccept(ff, 2) {
					all, any := true, false
					for _, t := range p.readerPlans() {
						cn := p.Method(t, "Next")
						if cn == nil || len(cn.Params) < 2 {
							continue
						}
						for _, b := range cn.Blocks {
							ret := retOf(b)
							if ret == nil || len(ret.Results) < 2 || isNilConst(retVal(ret, 0)) {
								continue
							}
							any = true
							dom := false
							allInstrs(cn, func(in ssa.Instruction) {
								if c := isStaticCallTo(in, ff); c != nil && len(c.Call.Args) >= 3 && c.Call.Args[2] == ssa.Value(cn.Params[1]) && instrDominates(c, ret) {
									dom = true
								}
							})
							if !dom {
								all = false
							}
						}
					}
					okv = all && any
				}
			}
			r.add(okv, "ProjectionPlan."+mn+"|clear-first", p.InstrPos(fetch), "the projection starts from a clean per-row cache: it clears the context before fetching from its child (row mode: or every child filters each row it hands out with the same context, which clears it)")
		}
	} else {
		r.undecided("anchor: ProjectionPlan not found")
	}
	// who may use the per-row cache: only alias references. PUT and REMOVE evaluate all their pairs with one
	// context and never clear it; that is sound only because their expressions cannot contain an alias
	// reference (there are no named fields in those statements) and nothing else reads or writes the cache.
	writerReach := p.Reach([]*ssa.Function{p.MethodByName("PutPlan", "execute"), p.MethodByName("RemovePlan", "execute")}, nil)
	for _, acc := range []*ssa.Function{get, set} {
		users := map[string]bool{}
		bad := ""
		for _, fn := range p.Funcs {
			if !writerReach[fn] {
				continue // not evaluation code PUT / REMOVE can reach (the SELECT projection reads the cache itself)
			}
			allInstrs(fn, func(in ssa.Instruction) {
				if c := isStaticCallTo(in, acc); c != nil {
					users[p.FName(fn)] = true
					rt := ""
					if fn.Signature.Recv() != nil {
						rt = typeName(fn.Signature.Recv().Type())
					}
					if rt != "FieldReferenceExpr" {
						bad = fmt.Sprintf("%s uses the per-row cache (%s at %s): PutPlan/RemovePlan evaluate every pair with one uncleared context, so a value cached for one pair would be seen by the next", p.FName(fn), acc.Name(), p.InstrPos(c))
					}
				}
			})
		}
		r.add(bad == "" && len(users) > 0, "PutPlan|users|"+acc.Name(), p.Pos(acc.Pos()), firstNonEmpty(bad, fmt.Sprintf("only alias references use the per-row cache: %v", keysOf(users))))
	}
	r.note("loops_examined", nLoops)
	// group rows: a function that stores an aggregate's result into the tree (FunctionCallExpr.Result) and then
	// evaluates a field with a context evaluates one *group* per pass; the per-row cache must be emptied for
	// each group - inside the outermost loop that contains the evaluation, or before it when there is no loop
	// groupCleared: the evaluation `in` (in fn, with context ctx) sits after a Clear of that context inside the
	// loop that steps from group to group: the largest loop around the evaluation that also advances the plan
	// (stores into a field of the receiver); without such a loop the function handles one group per call, and
	// the Clear may come first in the function - or, when the context is a parameter of a helper that is only
	// called directly, at each of its call sites (same rule there)
	var groupCleared func(fn *ssa.Function, in ssa.Instruction, ctx ssa.Value, depth int) bool
	groupCleared = func(fn *ssa.Function, in ssa.Instruction, ctx ssa.Value, depth int) bool {
		var outer *Loop
		for _, L := range naturalLoops(fn) {
			if !L.Body[in.Block()] {
				continue
			}
			advances := false
			for b := range L.Body {
				for _, in2 := range b.Instrs {
					if st, ok := in2.(*ssa.Store); ok {
						if o, _, base, ok := fieldOfAddr(st.Addr); ok && o != nil && len(fn.Params) > 0 && base == ssa.Value(fn.Params[0]) {
							advances = true
						}
					}
				}
			}
			if advances && (outer == nil || len(L.Body) > len(outer.Body)) {
				outer = L
			}
		}
		var region map[*ssa.BasicBlock]bool
		if outer != nil {
			region = outer.Body
		}
		if clearedBefore(fn, in, ctx, region) {
			return true
		}
		if outer != nil || depth >= 3 {
			return false
		}
		pi := -1
		for i, prm := range fn.Params {
			if ssa.Value(prm) == ctx {
				pi = i
			}
		}
		if pi < 0 {
			return false
		}
		node := p.CG().Nodes[fn]
		if node == nil || len(node.In) == 0 {
			return false
		}
		for _, e := range node.In {
			if e.Site == nil || e.Site.Common().StaticCallee() != fn || !p.InPkg(e.Caller.Func) {
				return false
			}
			args := e.Site.Common().Args
			if pi >= len(args) || isNilConst(args[pi]) {
				continue
			}
			if !groupCleared(e.Caller.Func, e.Site, args[pi], depth+1) {
				return false
			}
		}
		return true
	}
	storesResultDirect := func(f *ssa.Function) bool {
		found := false
		allInstrs(f, func(in ssa.Instruction) {
			if st, ok := in.(*ssa.Store); ok {
				if o, fld, _, ok := fieldOfAddr(st.Addr); ok && o != nil && o.Obj().Name() == "FunctionCallExpr" && fld == "Result" {
					found = true
				}
			}
		})
		return found
	}
	storing := map[*ssa.Function]bool{}
	for _, f := range p.Funcs {
		if storesResultDirect(f) {
			storing[f] = true
		}
	}
	isResultStore := func(in ssa.Instruction) bool {
		if st, ok := in.(*ssa.Store); ok {
			if o, fld, _, ok := fieldOfAddr(st.Addr); ok && o != nil && o.Obj().Name() == "FunctionCallExpr" && fld == "Result" {
				return true
			}
		}
		if c, ok := in.(*ssa.Call); ok {
			if f := c.Call.StaticCallee(); f != nil && storing[f] {
				return true
			}
		}
		return false
	}
	for _, fn := range p.Funcs {
		storesResult := false
		allInstrs(fn, func(in ssa.Instruction) {
			if isResultStore(in) {
				storesResult = true
			}
		})
		if !storesResult {
			continue
		}
		ord := 0
		allInstrs(fn, func(in ssa.Instruction) {
			ci, ok := in.(ssa.CallInstruction)
			if !ok {
				return
			}
			var ctx ssa.Value
			for _, a := range ci.Common().Args {
				if isCtx(a) && !isNilConst(a) {
					ctx = a
				}
			}
			if ctx == nil {
				return
			}
			touching := false
			for _, f := range p.Callees(ci) {
				if T[f] {
					touching = true
				}
			}
			if !touching {
				return
			}
			nCalls++
			ord++
			r.add(groupCleared(fn, in, ctx, 0), fmt.Sprintf("%s|group|%s#%d", p.FName(fn), callDesc(p, ci), ord), p.InstrPos(in), "the fields of a group are evaluated with a context emptied for that group (the per-row cache is keyed by field name: a count cached for the previous group would be reused)")
		})
	}
	// a group's fields are evaluated when the group is complete, and on a pair of the group:
	//  complete-first - a field may use the name of a field listed after it (and an aggregate may occur in several
	//    fields), so within one group no aggregate result is stored into the tree after a field was evaluated;
	//  group-pair - what is not an aggregate in such a field (a GROUP BY value next to a count) is evaluated on the
	//    pair handed to Execute, which therefore comes from the group's row, not from a fresh empty pair
	nGroupEval := 0
	pairFields := map[string]bool{}
	for _, fn := range p.Funcs {
		has := false
		allInstrs(fn, func(in ssa.Instruction) {
			if isResultStore(in) {
				has = true
			}
		})
		if !has {
			continue
		}
		ord := 0
		allInstrs(fn, func(in ssa.Instruction) {
			c, ok := in.(*ssa.Call)
			if !ok || !c.Call.IsInvoke() || c.Call.Method.Name() != "Execute" || typeName(c.Call.Value.Type()) != "Expression" {
				return
			}
			ord++
			nGroupEval++
			// the loop that steps from group to group (as in the group clause)
			var outer *Loop
			for _, L := range naturalLoops(fn) {
				if !L.Body[in.Block()] {
					continue
				}
				advances := false
				for b := range L.Body {
					for _, in2 := range b.Instrs {
						if st, ok := in2.(*ssa.Store); ok {
							if o, _, base, ok := fieldOfAddr(st.Addr); ok && o != nil && len(fn.Params) > 0 && base == ssa.Value(fn.Params[0]) {
								advances = true
							}
						}
					}
				}
				if advances && (outer == nil || len(L.Body) > len(outer.Body)) {
					outer = L
				}
			}
			// blocks reachable after the evaluation without starting the next group
			seen := map[*ssa.BasicBlock]bool{}
			var walk func(b *ssa.BasicBlock)
			walk = func(b *ssa.BasicBlock) {
				for _, sc := range b.Succs {
					if outer != nil && (sc == outer.Header || !outer.Body[sc]) {
						continue
					}
					if !seen[sc] {
						seen[sc] = true
						walk(sc)
					}
				}
			}
			walk(in.Block())
			late := ""
			after := false
			for _, in2 := range in.Block().Instrs {
				if in2 == in {
					after = true
					continue
				}
				if after && isResultStore(in2) {
					late = p.InstrPos(in2)
				}
			}
			for b := range seen {
				for _, in2 := range b.Instrs {
					if isResultStore(in2) && (b != in.Block() || late == "") {
						if b == in.Block() && !seen[b] {
							continue
						}
						late = p.InstrPos(in2)
					}
				}
			}
			r.add(late == "", fmt.Sprintf("%s|complete-first|Execute#%d", p.FName(fn), ord), p.InstrPos(in), firstNonEmpty(map[bool]string{true: "an aggregate result of the same group is stored at " + late + " after this field was evaluated: a field that uses the name of a later field (or repeats its aggregate) sees the previous group's result"}[late != ""], "every aggregate result of the group is in place before the first field is evaluated"))
			// the pair
			kv := c.Call.Args[0]
			fresh := false
			if kc, ok := stripConv(kv).(*ssa.Call); ok {
				if f := kc.Call.StaticCallee(); f != nil && f.Name() == "NewKVP" {
					fresh = true
				}
			}
			fromRow := false
			if nt := p.Named("AggrPlanField"); nt != nil {
				if st, ok := nt.Underlying().(*types.Struct); ok {
					for i := 0; i < st.NumFields(); i++ {
						if p.derivesFromField(kv, "AggrPlanField", st.Field(i).Name(), traceOpts{}) {
							fromRow = true
							pairFields[st.Field(i).Name()] = true
						}
					}
				}
			}
			r.add(fromRow && !fresh, fmt.Sprintf("%s|group-pair|Execute#%d", p.FName(fn), ord), p.InstrPos(in), "the field of a group is evaluated on a pair kept in the group's row (on an empty pair a GROUP BY value standing next to an aggregate silently evaluates to nothing)")
		})
	}
	r.floor("field evaluations of completed groups", nGroupEval, 1)
	// ... and every element of a group's row carries that pair: wherever an AggrPlanField is made, the field the
	// pair is read from is stored before the element is handed on (a pair kept only on some columns is read back as
	// an empty pair from the others)
	for fld := range pairFields {
		for _, fn := range p.Funcs {
			// the elements made for a group: made where the group's pair is at hand (the templates the plan keeps
			// per select field are made in Init, without a pair)
			hasPair := false
			for _, pa := range fn.Params {
				if typeName(pa.Type()) == "KVPair" {
					hasPair = true
				}
			}
			if !hasPair {
				continue
			}
			idx := 0
			allInstrs(fn, func(in ssa.Instruction) {
				al, ok := in.(*ssa.Alloc)
				if !ok || typeName(deref(al.Type())) != "AggrPlanField" || al.Referrers() == nil {
					return
				}
				idx++
				var stores []ssa.Instruction
				var escapes []ssa.Instruction
				for _, ref := range *al.Referrers() {
					if fa, isFA := ref.(*ssa.FieldAddr); isFA {
						if _, f, _, _ := fieldOfAddr(fa); f == fld && fa.Referrers() != nil {
							for _, r2 := range *fa.Referrers() {
								if st, isSt := r2.(*ssa.Store); isSt && st.Addr == ssa.Value(fa) {
									stores = append(stores, st)
								}
							}
						}
						continue
					}
					if _, isDbg := ref.(*ssa.DebugRef); isDbg {
						continue
					}
					escapes = append(escapes, ref)
				}
				bad := ""
				for _, e := range escapes {
					okE := false
					for _, st := range stores {
						if instrDominates(st, e) {
							okE = true
						}
					}
					if !okE {
						bad = p.InstrPos(e)
					}
				}
				r.add(bad == "", fmt.Sprintf("%s|group-pair|AggrPlanField#%d.%s", p.FName(fn), idx, fld), p.InstrPos(in), firstNonEmpty(map[bool]string{true: "the element is handed on at " + bad + " without its " + fld + " field having been set on every way there"}[bad != ""], "every element of a group's row is given the group's pair before it is handed on"))
			})
		}
	}
	// an alias reference always memoises: evaluated without a context (the library does that itself: arguments
	// evaluated row by row inside a batch, the filter below an aggregate) a reference would recompute the field it
	// stands for, and a chain of fields that each use the previous one twice costs 2^n evaluations. The context the
	// reference hands down to the aliased expression is therefore never nil
	if fre := p.MethodByName("FieldReferenceExpr", "Execute"); fre != nil {
		var nonNil func(v ssa.Value, at *ssa.BasicBlock, d int) bool
		nonNil = func(v ssa.Value, at *ssa.BasicBlock, d int) bool {
			if d > 4 {
				return false
			}
			switch x := v.(type) {
			case *ssa.Call:
				if g := x.Call.StaticCallee(); g != nil && g.Name() == "NewExecuteCtx" {
					return true
				}
			case *ssa.Alloc:
				return true
			case *ssa.Phi:
				for i, e := range x.Edges {
					pr := x.Block().Preds[i]
					if isNilConst(e) {
						return false
					}
					okEdge := nonNil(e, pr, d+1)
					if !okEdge {
						for _, a := range edgeAtoms(pr, x.Block()) {
							if a.Op == token.NEQ && a.X == e && isNilConst(a.Y) {
								okEdge = true
							}
						}
					}
					if !okEdge {
						return false
					}
				}
				return true
			}
			for _, a := range dominatingAtoms(at) {
				if a.Op == token.NEQ && a.X == v && isNilConst(a.Y) {
					return true
				}
			}
			return false
		}
		found := 0
		allInstrs(fre, func(in ssa.Instruction) {
			c, ok := in.(*ssa.Call)
			if !ok || !c.Call.IsInvoke() || c.Call.Method.Name() != "Execute" || !p.derivesFromField(c.Call.Value, "FieldReferenceExpr", "FieldExpr", traceOpts{}) {
				return
			}
			found++
			var ctx ssa.Value
			for _, a := range c.Call.Args {
				if isCtx(a) {
					ctx = a
				}
			}
			r.add(ctx != nil && nonNil(ctx, in.Block(), 0), "(*FieldReferenceExpr).Execute|memo-context", p.InstrPos(in), "the aliased expression is evaluated with a context (the caller's, or one made for this evaluation when there is none), so nested references are computed once")
		})
		if found == 0 {
			r.undecided("anchor: the evaluation of FieldExpr in (*FieldReferenceExpr).Execute was not found")
		}
	}
	r.floor("calls handing loop-variant rows and a context to cache-touching code", nCalls, 4)
}
