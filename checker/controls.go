package main

import (
	"encoding/json"
	"fmt"
	"io"
	"os"
	"os/exec"
	"path/filepath"
	"sort"
	"strings"
	"sync"
)

// Control corpus: each control is a small source edit applied to a scratch copy of the
// *current* working tree (outside /repo and /verif), checked in a fresh process and
// removed immediately. A positive control breaks one rule instance and must make the rule
// fire on the named construct; a negative control is a behaviour-preserving edit and
// must not create any new hit. A control whose `old` text is not found exactly once in
// the current tree is skipped (never an alarm).

type Edit struct {
	File string `json:"file"`
	Old  string `json:"old"`
	New  string `json:"new"`
}

type Control struct {
	ID         string   `json:"id"`
	Rule       string   `json:"rule"`
	Properties []string `json:"properties"`
	Kind       string   `json:"kind"` // positive | negative
	Edits      []Edit   `json:"edits,omitempty"`
	Patch      string   `json:"patch,omitempty"`      // unified diff (relative to /verif) applied with patch -p1
	ExpectKey  string   `json:"expect_key,omitempty"` // positive: this obligation must be a hit (prefix match allowed with trailing *)
	Why        string   `json:"why"`
}

type controlReport struct {
	Fired   []string
	Silent  []string
	Skipped []string
	Failed  []string
}

func loadControls() ([]Control, error) {
	files, _ := filepath.Glob(filepath.Join(verifDir(), "controls", "*.json"))
	sort.Strings(files)
	var all []Control
	for _, f := range files {
		b, err := os.ReadFile(f)
		if err != nil {
			return nil, err
		}
		var cs []Control
		if err := json.Unmarshal(b, &cs); err != nil {
			return nil, fmt.Errorf("%s: %v", f, err)
		}
		all = append(all, cs...)
	}
	return all, nil
}

func copyTree(src, dst string) error {
	ents, err := os.ReadDir(src)
	if err != nil {
		return err
	}
	for _, e := range ents {
		if e.IsDir() {
			continue
		}
		n := e.Name()
		if !(strings.HasSuffix(n, ".go") || n == "go.mod" || n == "go.sum") {
			continue
		}
		if strings.HasSuffix(n, "_test.go") {
			continue
		}
		in, err := os.Open(filepath.Join(src, n))
		if err != nil {
			return err
		}
		out, err := os.Create(filepath.Join(dst, n))
		if err != nil {
			in.Close()
			return err
		}
		_, err = io.Copy(out, in)
		in.Close()
		out.Close()
		if err != nil {
			return err
		}
	}
	return nil
}

// applyEdits returns false if some edit does not apply exactly once.
func applyEdits(dir string, edits []Edit) (bool, error) {
	for _, e := range edits {
		path := filepath.Join(dir, e.File)
		b, err := os.ReadFile(path)
		if err != nil {
			return false, nil
		}
		s := string(b)
		if strings.Count(s, e.Old) != 1 {
			return false, nil
		}
		s = strings.Replace(s, e.Old, e.New, 1)
		if err := os.WriteFile(path, []byte(s), 0o644); err != nil {
			return false, err
		}
	}
	return true, nil
}

type propRun struct {
	Viols   []violation
	LoadErr string
}

// runPropertyInScratch runs one property's quick check (no evidence, no controls) on dir.
func runPropertyInScratch(dir, prop string) (*propRun, error) {
	exe, err := os.Executable()
	if err != nil {
		return nil, err
	}
	cmd := exec.Command(exe, "-property", prop, "-tier", "quick", "-no-evidence", "-json")
	cmd.Env = append(os.Environ(), "KVQL_REPO="+dir, "VERIF_DIR="+verifDir(), "KVQLCHECK_NO_CONTROLS=1")
	out, _ := cmd.Output()
	pr := &propRun{}
	found := false
	for _, line := range strings.Split(string(out), "\n") {
		if strings.HasPrefix(line, "JSON-VIOLATIONS: ") {
			found = true
			if err := json.Unmarshal([]byte(strings.TrimPrefix(line, "JSON-VIOLATIONS: ")), &pr.Viols); err != nil {
				return nil, err
			}
		}
	}
	if !found {
		return nil, fmt.Errorf("no result from scratch run: %s", string(out))
	}
	for _, v := range pr.Viols {
		if v.Kind == "load_error" {
			pr.LoadErr = v.Detail
		}
	}
	return pr, nil
}

func keyMatches(pattern, key string) bool {
	if strings.HasSuffix(pattern, "*") {
		return strings.HasPrefix(key, strings.TrimSuffix(pattern, "*"))
	}
	return pattern == key
}

func runControls(pd *PropDef) *controlReport {
	rep := &controlReport{}
	ctls, err := loadControls()
	if err != nil {
		rep.Failed = append(rep.Failed, "cannot load control corpus: "+err.Error())
		return rep
	}
	var mine []Control
	for _, c := range ctls {
		for _, pid := range c.Properties {
			if pid == pd.ID {
				mine = append(mine, c)
				break
			}
		}
	}
	var mu sync.Mutex
	sem := make(chan struct{}, 8)
	var wg sync.WaitGroup
	for _, c := range mine {
		wg.Add(1)
		go func(c Control) {
			defer wg.Done()
			sem <- struct{}{}
			defer func() { <-sem }()
			verdict, msg := runOneControl(c, pd.ID)
			mu.Lock()
			defer mu.Unlock()
			switch verdict {
			case "fired":
				rep.Fired = append(rep.Fired, c.ID)
			case "silent":
				rep.Silent = append(rep.Silent, c.ID)
			case "skipped":
				rep.Skipped = append(rep.Skipped, c.ID+": "+msg)
			default:
				rep.Failed = append(rep.Failed, c.ID+": "+msg)
			}
		}(c)
	}
	wg.Wait()
	sort.Strings(rep.Fired)
	sort.Strings(rep.Silent)
	sort.Strings(rep.Skipped)
	sort.Strings(rep.Failed)
	return rep
}

// runOneControl applies the control to a scratch copy and runs property prop on it.
func runOneControl(c Control, prop string) (verdict, msg string) {
	tmp, err := os.MkdirTemp("", "kvqlctl-")
	if err != nil {
		return "failed", err.Error()
	}
	defer os.RemoveAll(tmp)
	if err := copyTree(repoDir(), tmp); err != nil {
		return "failed", err.Error()
	}
	if c.Patch != "" {
		pf := c.Patch
		if !filepath.IsAbs(pf) {
			pf = filepath.Join(verifDir(), pf)
		}
		cmd := exec.Command("patch", "-p1", "-s", "-f", "-i", pf)
		cmd.Dir = tmp
		if out, err := cmd.CombinedOutput(); err != nil {
			return "skipped", "patch no longer applies to the current tree: " + strings.SplitN(string(out), "\n", 2)[0]
		}
	}
	ok, err := applyEdits(tmp, c.Edits)
	if err != nil {
		return "failed", err.Error()
	}
	if !ok {
		return "skipped", "edit no longer applies to the current tree"
	}
	pr, err := runPropertyInScratch(tmp, prop)
	if err != nil {
		return "failed", err.Error()
	}
	if pr.LoadErr != "" {
		return "skipped", "edited tree does not compile: " + strings.SplitN(pr.LoadErr, "\n", 2)[0]
	}
	var keys []string
	for _, v := range pr.Viols {
		keys = append(keys, v.Key)
	}
	switch c.Kind {
	case "positive":
		for _, v := range pr.Viols {
			if (c.Rule == "" || c.Rule == "*" || v.Rule == c.Rule) && (c.ExpectKey == "" || keyMatches(c.ExpectKey, v.Key)) {
				return "fired", ""
			}
		}
		return "failed", fmt.Sprintf("positive control did not fire on %q (violations: %v)", c.ExpectKey, keys)
	case "negative":
		if len(pr.Viols) == 0 {
			return "silent", ""
		}
		return "failed", fmt.Sprintf("negative control raised %v", keys)
	}
	return "failed", "unknown control kind " + c.Kind
}
