package main

import (
	"encoding/json"
	"fmt"
	"io"
	"os"
	"os/exec"
	"path/filepath"
	"sort"
	"strings"
	"sync"
)

// Control corpus: each control is a small source edit applied to a scratch copy of the
// *current* working tree (outside /repo and /verif), checked in a fresh process and
// removed immediately. A positive control breaks one rule instance and must make the rule
// fire on the named construct; a negative control is a behaviour-preserving edit and
// must not create any new hit. A control whose `old` text is not found exactly once in
// the current tree is skipped (never an alarm).

type Edit struct {
	File string `json:"file"`
	Old  string `json:"old"`
	New  string `json:"new"`
}

type Control struct {
	ID         string   `json:"id"`
	Rule       string   `json:"rule"`
	Properties []string `json:"properties"`
	Kind       string   `json:"kind"` // positive | negative
	Edits      []Edit   `json:"edits"`
	ExpectKey  string   `json:"expect_key,omitempty"` // positive: this obligation must be a hit (prefix match allowed with trailing *)
	Why        string   `json:"why"`
}

type controlReport struct {
	Fired   []string
	Silent  []string
	Skipped []string
	Failed  []string
}

func loadControls() ([]Control, error) {
	files, _ := filepath.Glob(filepath.Join(verifDir(), "controls", "*.json"))
	sort.Strings(files)
	var all []Control
	for _, f := range files {
		b, err := os.ReadFile(f)
		if err != nil {
			return nil, err
		}
		var cs []Control
		if err := json.Unmarshal(b, &cs); err != nil {
			return nil, fmt.Errorf("%s: %v", f, err)
		}
		all = append(all, cs...)
	}
	return all, nil
}

func copyTree(src, dst string) error {
	ents, err := os.ReadDir(src)
	if err != nil {
		return err
	}
	for _, e := range ents {
		if e.IsDir() {
			continue
		}
		n := e.Name()
		if !(strings.HasSuffix(n, ".go") || n == "go.mod" || n == "go.sum") {
			continue
		}
		if strings.HasSuffix(n, "_test.go") {
			continue
		}
		in, err := os.Open(filepath.Join(src, n))
		if err != nil {
			return err
		}
		out, err := os.Create(filepath.Join(dst, n))
		if err != nil {
			in.Close()
			return err
		}
		_, err = io.Copy(out, in)
		in.Close()
		out.Close()
		if err != nil {
			return err
		}
	}
	return nil
}

// applyEdits returns false if some edit does not apply exactly once.
func applyEdits(dir string, edits []Edit) (bool, error) {
	for _, e := range edits {
		path := filepath.Join(dir, e.File)
		b, err := os.ReadFile(path)
		if err != nil {
			return false, nil
		}
		s := string(b)
		if strings.Count(s, e.Old) != 1 {
			return false, nil
		}
		s = strings.Replace(s, e.Old, e.New, 1)
		if err := os.WriteFile(path, []byte(s), 0o644); err != nil {
			return false, err
		}
	}
	return true, nil
}

type ruleRun struct {
	Obs       []Ob
	Undecided []string
	LoadErr   string
}

func runRuleInScratch(dir, rule string) (*ruleRun, error) {
	exe, err := os.Executable()
	if err != nil {
		return nil, err
	}
	cmd := exec.Command(exe, "-rule", rule, "-json")
	cmd.Env = append(os.Environ(), "KVQL_REPO="+dir, "VERIF_DIR="+verifDir())
	out, err := cmd.Output()
	s := string(out)
	if strings.HasPrefix(s, "LOAD ERROR:") {
		return &ruleRun{LoadErr: s}, nil
	}
	if err != nil {
		return nil, fmt.Errorf("%v: %s", err, s)
	}
	var res Result
	if err := json.Unmarshal(out, &res); err != nil {
		return nil, fmt.Errorf("bad json from scratch run: %v", err)
	}
	return &ruleRun{Obs: res.Obs, Undecided: res.Undecided}, nil
}

func keyMatches(pattern, key string) bool {
	if strings.HasSuffix(pattern, "*") {
		return strings.HasPrefix(key, strings.TrimSuffix(pattern, "*"))
	}
	return pattern == key
}

func runControls(pd *PropDef) *controlReport {
	rep := &controlReport{}
	ctls, err := loadControls()
	if err != nil {
		rep.Failed = append(rep.Failed, "cannot load control corpus: "+err.Error())
		return rep
	}
	var mine []Control
	for _, c := range ctls {
		for _, pid := range c.Properties {
			if pid == pd.ID {
				mine = append(mine, c)
				break
			}
		}
	}
	if len(mine) == 0 {
		return rep
	}
	// baseline hits per rule on the unchanged tree (fresh process, same code path as controls)
	baseline := map[string]map[string]bool{}
	var mu sync.Mutex
	sem := make(chan struct{}, 8)
	var wg sync.WaitGroup
	rulesNeeded := map[string]bool{}
	for _, c := range mine {
		rulesNeeded[c.Rule] = true
	}
	for rn := range rulesNeeded {
		wg.Add(1)
		go func(rn string) {
			defer wg.Done()
			sem <- struct{}{}
			defer func() { <-sem }()
			rr, err := runRuleInScratch(repoDir(), rn)
			mu.Lock()
			defer mu.Unlock()
			baseline[rn] = map[string]bool{}
			if err != nil || rr.LoadErr != "" {
				rep.Failed = append(rep.Failed, fmt.Sprintf("baseline run of %s failed: %v", rn, err))
				return
			}
			for _, o := range rr.Obs {
				if !o.OK {
					baseline[rn][o.Key] = true
				}
			}
		}(rn)
	}
	wg.Wait()
	for _, c := range mine {
		wg.Add(1)
		go func(c Control) {
			defer wg.Done()
			sem <- struct{}{}
			defer func() { <-sem }()
			verdict, msg := runOneControl(c, baseline[c.Rule])
			mu.Lock()
			defer mu.Unlock()
			switch verdict {
			case "fired":
				rep.Fired = append(rep.Fired, c.ID)
			case "silent":
				rep.Silent = append(rep.Silent, c.ID)
			case "skipped":
				rep.Skipped = append(rep.Skipped, c.ID+": "+msg)
			default:
				rep.Failed = append(rep.Failed, c.ID+": "+msg)
			}
		}(c)
	}
	wg.Wait()
	sort.Strings(rep.Fired)
	sort.Strings(rep.Silent)
	sort.Strings(rep.Skipped)
	sort.Strings(rep.Failed)
	return rep
}

func runOneControl(c Control, base map[string]bool) (verdict, msg string) {
	tmp, err := os.MkdirTemp("", "kvqlctl-")
	if err != nil {
		return "failed", err.Error()
	}
	defer os.RemoveAll(tmp)
	if err := copyTree(repoDir(), tmp); err != nil {
		return "failed", err.Error()
	}
	ok, err := applyEdits(tmp, c.Edits)
	if err != nil {
		return "failed", err.Error()
	}
	if !ok {
		return "skipped", "edit no longer applies to the current tree"
	}
	rr, err := runRuleInScratch(tmp, c.Rule)
	if err != nil {
		return "failed", err.Error()
	}
	if rr.LoadErr != "" {
		return "skipped", "edited tree does not compile: " + strings.SplitN(rr.LoadErr, "\n", 2)[0]
	}
	var newHits []string
	for _, o := range rr.Obs {
		if !o.OK && !base[o.Key] {
			newHits = append(newHits, o.Key)
		}
	}
	for _, u := range rr.Undecided {
		newHits = append(newHits, "UNDECIDED|"+u)
	}
	switch c.Kind {
	case "positive":
		for _, h := range newHits {
			if c.ExpectKey == "" || keyMatches(c.ExpectKey, h) {
				return "fired", ""
			}
		}
		return "failed", fmt.Sprintf("positive control did not fire on %q (new hits: %v)", c.ExpectKey, newHits)
	case "negative":
		if len(newHits) == 0 {
			return "silent", ""
		}
		return "failed", fmt.Sprintf("negative control raised %v", newHits)
	}
	return "failed", "unknown control kind " + c.Kind
}
