package main

import (
	"fmt"
	"go/token"
	"go/types"
	"sort"
	"strings"

	"golang.org/x/tools/go/ssa"
)

func init() {
	register("DISPATCH", "operator dispatch of BinaryOpExpr: (a) row and batch evaluators handle the same operators with the same string/non-string split; (b) every operator literal handed to a compare/math helper is that operator's canonical spelling, in both modes; (c) inside the leaf helpers each `case \"<op>\"` returns the Go comparison/arithmetic with the same token on (left, right) in that order; (d) row AND/OR short-circuit on the left operand with the right constant and the batch helper's and/not/number flags are passed consistently with their meaning", ruleDispatch)
	register("TWINPRIM", "for every row/batch twin (helpers selected for the same operator and operand kind, Execute/ExecuteBatch of every expression node, Body/BodyVec of every registered function) the sets of semantic primitives reached by static calls are equal", ruleTwinPrim)
}

type dispEntry struct {
	Callee *ssa.Function
	Call   *ssa.Call
	Consts []string
}

// dispatchTable computes (operator name, "str"|"num") -> entry for a BinaryOpExpr evaluator.
func (p *Prog) dispatchTable(fn *ssa.Function) (map[string]map[string]*dispEntry, error) {
	ops := p.typedConsts("Operator")
	tstr, ok := p.constOf("TSTR")
	if !ok || len(ops) < 15 {
		return nil, fmt.Errorf("Operator/TSTR constants not found")
	}
	isLeftRT := func(v ssa.Value) bool {
		call, ok := v.(*ssa.Call)
		return ok && call.Call.IsInvoke() && call.Call.Method.Name() == "ReturnType" &&
			p.derivesFromField(call.Call.Value, "BinaryOpExpr", "Left", traceOpts{})
	}
	// the helper call returned by f on the paths that can be taken when `know` decides the branch conditions;
	// isClass tells which values carry "the static type of the left operand"
	var resolve func(f *ssa.Function, name, cls string, know func(a Atom) (bool, bool), isClass func(ssa.Value) bool, depth int) (*dispEntry, error)
	resolve = func(f *ssa.Function, name, cls string, know func(a Atom) (bool, bool), isClass func(ssa.Value) bool, depth int) (*dispEntry, error) {
		reach := walkAssuming(f, decideAtoms(know))
		var entry *dispEntry
		unhandled := false
		for _, b := range orderedBlocks(f, reach) {
			ret := retOf(b)
			if ret == nil {
				continue
			}
			var c *ssa.Call
			switch x := retVal(ret, 0).(type) {
			case *ssa.Extract:
				c, _ = x.Tuple.(*ssa.Call)
			case *ssa.MakeInterface:
				if ex, ok := x.X.(*ssa.Extract); ok {
					c, _ = ex.Tuple.(*ssa.Call)
				}
			}
			if c == nil || c.Call.StaticCallee() == nil || c.Call.StaticCallee().Signature.Recv() == nil {
				unhandled = true
				continue
			}
			e := &dispEntry{Callee: c.Call.StaticCallee(), Call: c}
			classArg := -1
			for k, a := range c.Call.Args {
				if s, ok := constString(a); ok {
					e.Consts = append(e.Consts, "s:"+s)
				} else if bv, ok := constBool(a); ok {
					e.Consts = append(e.Consts, fmt.Sprintf("bool:%v", bv))
				} else if iv, ok := constInt(a); ok {
					e.Consts = append(e.Consts, fmt.Sprintf("b:%c", rune(iv)))
				} else if bo, ok := a.(*ssa.BinOp); ok && (bo.Op == token.EQL || bo.Op == token.NEQ) && isClass(bo.X) {
					// a class flag computed once (`isNumber := leftTp != TSTR`): its value under this class
					if cv, ok := constInt(bo.Y); ok && cv == tstr {
						e.Consts = append(e.Consts, fmt.Sprintf("bool:%v", (cls == "str") == (bo.Op == token.EQL)))
					}
				} else if isClass(a) {
					classArg = k
				}
			}
			// the helper may itself only dispatch on the class it is handed (`e.execOrderCompare(kv, leftTp, ">", ctx)`)
			if classArg >= 0 && depth < 2 {
				g := c.Call.StaticCallee()
				if p.InPkg(g) && len(g.Blocks) > 0 && classArg < len(g.Params) {
					cp := ssa.Value(g.Params[classArg])
					inner, err := resolve(g, name, cls, func(a Atom) (bool, bool) {
						if a.Op != token.EQL && a.Op != token.NEQ {
							return false, false
						}
						if cv, isC := constInt(a.Y); isC && a.X == cp && cv == tstr {
							return true, (cls == "str") == (a.Op == token.EQL)
						}
						return false, false
					}, func(v ssa.Value) bool { return v == cp }, depth+1)
					if err != nil {
						return nil, err
					}
					if inner != nil {
						e2 := &dispEntry{Callee: inner.Callee, Call: c}
						// literals: the inner call's own constants, and parameters of g replaced by the outer arguments
						for _, ia := range inner.Call.Call.Args {
							var src ssa.Value = ia
							if pa, ok := ia.(*ssa.Parameter); ok {
								for k2, gp := range g.Params {
									if gp == pa && k2 < len(c.Call.Args) {
										src = c.Call.Args[k2]
									}
								}
							}
							if s, ok := constString(src); ok {
								e2.Consts = append(e2.Consts, "s:"+s)
							} else if bv, ok := constBool(src); ok {
								e2.Consts = append(e2.Consts, fmt.Sprintf("bool:%v", bv))
							} else if iv, ok := constInt(src); ok {
								e2.Consts = append(e2.Consts, fmt.Sprintf("b:%c", rune(iv)))
							}
						}
						e = e2
					}
				}
			}
			if entry != nil && entry.Callee != e.Callee {
				return nil, fmt.Errorf("operator %s/%s reaches two helpers", name, cls)
			}
			entry = e
		}
		if entry != nil && unhandled {
			// both a helper return and the unknown-operator return are reachable: the walk could not decide
			entry = nil
		}
		return entry, nil
	}
	out := map[string]map[string]*dispEntry{}
	for v, name := range ops {
		out[name] = map[string]*dispEntry{}
		for _, cls := range []string{"str", "num"} {
			v, cls := v, cls
			entry, err := resolve(fn, name, cls, func(a Atom) (bool, bool) {
				if a.Op != token.EQL && a.Op != token.NEQ {
					return false, false
				}
				c, isC := constInt(a.Y)
				if !isC {
					return false, false
				}
				if isFieldLoad(a.X, "BinaryOpExpr", "Op") {
					return true, (c == v) == (a.Op == token.EQL)
				}
				if isLeftRT(a.X) && c == tstr {
					return true, (cls == "str") == (a.Op == token.EQL)
				}
				return false, false
			}, isLeftRT, 0)
			if err != nil {
				return nil, err
			}
			out[name][cls] = entry
		}
	}
	return out, nil
}

var tokOfLit = map[string]token.Token{">": token.GTR, ">=": token.GEQ, "<": token.LSS, "<=": token.LEQ, "=": token.EQL}
var tokOfByte = map[byte]token.Token{'+': token.ADD, '-': token.SUB, '*': token.MUL, '/': token.QUO}

func ruleDispatch(p *Prog, r *Result) {
	row := p.MethodByName("BinaryOpExpr", "Execute")
	bat := p.MethodByName("BinaryOpExpr", "ExecuteBatch")
	if row == nil || bat == nil {
		r.undecided("anchor: (*BinaryOpExpr).Execute/ExecuteBatch not found")
		return
	}
	o2s, ok := p.mapLiteral("OperatorToString")
	if !ok {
		r.undecided("anchor: OperatorToString literal not found")
		return
	}
	ops := p.typedConsts("Operator")
	spelling := map[string]string{}
	for v, name := range ops {
		spelling[name] = o2s[fmt.Sprint(v)]
	}
	rt, err1 := p.dispatchTable(row)
	bt, err2 := p.dispatchTable(bat)
	if err1 != nil || err2 != nil {
		r.undecided("dispatch table extraction failed: %v %v", err1, err2)
		return
	}
	names := sortedKeys(rt)
	handled := 0
	rowHelpers := map[string]*ssa.Function{}
	batHelpers := map[string]*dispEntry{}
	for _, name := range names {
		for _, cls := range []string{"str", "num"} {
			re, be := rt[name][cls], bt[name][cls]
			key := fmt.Sprintf("a|%s|%s", name, cls)
			if re == nil && be == nil {
				continue
			}
			if re == nil || be == nil {
				r.hit(key, p.Pos(row.Pos()), fmt.Sprintf("operator %s (%s left operand) is handled in one iteration mode only (row: %v, batch: %v)", name, cls, re != nil, be != nil))
				continue
			}
			handled++
			r.ok(key, p.InstrPos(re.Call), fmt.Sprintf("row -> %s %v; batch -> %s %v", re.Callee.Name(), re.Consts, be.Callee.Name(), be.Consts))
			rowHelpers[name+"|"+cls] = re.Callee
			batHelpers[name+"|"+cls] = be
			// (b) literals
			for which, e := range map[string]*dispEntry{"row": re, "batch": be} {
				for _, c := range e.Consts {
					k2 := fmt.Sprintf("b|%s|%s|%s", name, cls, which)
					if strings.HasPrefix(c, "s:") {
						r.add(c[2:] == spelling[name], k2, p.InstrPos(e.Call), fmt.Sprintf("operator %s passes the literal %q to %s (canonical spelling %q)", name, c[2:], e.Callee.Name(), spelling[name]))
					}
					if strings.HasPrefix(c, "b:") {
						r.add(c[2:] == spelling[name], k2, p.InstrPos(e.Call), fmt.Sprintf("operator %s passes the operator byte %q to %s (canonical spelling %q)", name, c[2:], e.Callee.Name(), spelling[name]))
					}
				}
			}
		}
	}
	r.floor("handled (operator, operand kind) pairs", handled, 30)
	// string/non-string split identical in both twins: same partition of helper identity
	for _, name := range names {
		rs, rn := rt[name]["str"], rt[name]["num"]
		bs, bn := bt[name]["str"], bt[name]["num"]
		if rs == nil || rn == nil || bs == nil || bn == nil {
			continue
		}
		rowSplit := rs.Callee != rn.Callee || strings.Join(rs.Consts, ",") != strings.Join(rn.Consts, ",")
		batSplit := bs.Callee != bn.Callee || strings.Join(bs.Consts, ",") != strings.Join(bn.Consts, ",")
		r.add(rowSplit == batSplit, "a|split|"+name, p.InstrPos(rs.Call), fmt.Sprintf("operator %s distinguishes string operands in row mode: %v, in batch mode: %v", name, rowSplit, batSplit))
	}

	// (c) leaf helpers
	for _, leaf := range []struct {
		name string
		kind string
	}{{"execStringCompare", "strcmp"}, {"execNumberCompare", "numcmp"}, {"executeMathOp", "math"}} {
		fn := p.Func(leaf.name)
		if fn == nil {
			r.undecided("anchor: leaf helper %s not found", leaf.name)
			continue
		}
		opParam := fn.Params[2]
		lp, rp := ssa.Value(fn.Params[0]), ssa.Value(fn.Params[1])
		var lits []string
		allInstrs(fn, func(in ssa.Instruction) {
			if b, ok := in.(*ssa.BinOp); ok && b.Op == token.EQL && b.X == ssa.Value(opParam) {
				if s, ok := constString(b.Y); ok {
					lits = append(lits, s)
				} else if iv, ok := constInt(b.Y); ok {
					lits = append(lits, string(rune(iv)))
				}
			}
		})
		seen := map[string]bool{}
		for _, lit := range lits {
			if seen[lit] {
				continue
			}
			seen[lit] = true
			want, okTok := tokOfLit[lit]
			if leaf.kind == "math" {
				want, okTok = tokOfByte[lit[0]]
			}
			key := fmt.Sprintf("c|%s|%q", leaf.name, lit)
			if !okTok {
				r.hit(key, p.Pos(fn.Pos()), "operator literal unknown to the frozen semantics table S-OPSEM")
				continue
			}
			reach := walkAssuming(fn, decideAtoms(func(a Atom) (bool, bool) {
				if a.X != ssa.Value(opParam) || (a.Op != token.EQL && a.Op != token.NEQ) {
					return false, false
				}
				if s, ok := constString(a.Y); ok {
					return true, (s == lit) == (a.Op == token.EQL)
				}
				if iv, ok := constInt(a.Y); ok {
					return true, (string(rune(iv)) == lit) == (a.Op == token.EQL)
				}
				return false, false
			}))
			bad := ""
			n := 0
			for _, b := range orderedBlocks(fn, reach) {
				ret := retOf(b)
				if ret == nil || !isNilConst(retVal(ret, len(ret.Results)-1)) {
					continue // error returns
				}
				v := retVal(ret, 0)
				if mi, ok := v.(*ssa.MakeInterface); ok {
					v = mi.X
				}
				bo, ok := v.(*ssa.BinOp)
				if !ok {
					continue // e.g. constant 0 on a path that was not decided by the operator
				}
				n++
				op := bo.Op
				x, y := bo.X, bo.Y
				if leaf.kind != "strcmp" {
					// a mirrored comparison (right OP' left) is the same comparison
					xr := mentions(x, func(v ssa.Value) bool { return v == rp }, 8) && !mentions(x, func(v ssa.Value) bool { return v == lp }, 8)
					yl := mentions(y, func(v ssa.Value) bool { return v == lp }, 8) && !mentions(y, func(v ssa.Value) bool { return v == rp }, 8)
					if xr && yl && (op == token.LSS || op == token.GTR || op == token.LEQ || op == token.GEQ || op == token.EQL) {
						x, y, op = y, x, swapOp(op)
					}
				}
				if op != want {
					bad = fmt.Sprintf("case %q returns an expression with Go operator %s (must be %s)", lit, op, want)
					continue
				}
				if leaf.kind == "strcmp" {
					c, ok := x.(*ssa.Call)
					if !ok {
						// 0 OP cmp
						if c2, ok2 := y.(*ssa.Call); ok2 {
							if cv, okc := constInt(x); okc && cv == 0 {
								c, ok = c2, true
								x, y = y, x
								if swapOp(bo.Op) != want {
									bad = fmt.Sprintf("case %q returns a comparison with the wrong direction", lit)
									continue
								}
							}
						}
					}
					if !ok || p.calleeName(&c.Call) != "bytes.Compare" {
						bad = "string comparison is not decided by bytes.Compare(left, right) against 0"
						continue
					}
					if cv, ok := constInt(y); !ok || cv != 0 {
						bad = "bytes.Compare result is not compared with 0"
						continue
					}
					x, y = c.Call.Args[0], c.Call.Args[1]
				}
				lx := mentions(x, func(v ssa.Value) bool { return v == lp }, 8)
				rx := mentions(x, func(v ssa.Value) bool { return v == rp }, 8)
				ly := mentions(y, func(v ssa.Value) bool { return v == lp }, 8)
				ry := mentions(y, func(v ssa.Value) bool { return v == rp }, 8)
				if !(lx && !rx && ry && !ly) {
					bad = fmt.Sprintf("case %q does not compute (left %s right): operands swapped or mixed", lit, lit)
				}
			}
			if n == 0 && bad == "" {
				bad = fmt.Sprintf("case %q has no result expression", lit)
			}
			r.add(bad == "", key, p.Pos(fn.Pos()), firstNonEmpty(bad, fmt.Sprintf("case %q is the Go operator %s on (left, right)", lit, want)))
		}
		r.floor("operator cases in "+leaf.name, len(seen), 4)
	}

	// (d) row AND / OR short circuit
	for _, pair := range []struct {
		ops   []string
		early bool
	}{{[]string{"And", "KWAnd"}, false}, {[]string{"Or", "KWOr"}, true}} {
		for _, name := range pair.ops {
			h := rowHelpers[name+"|num"]
			if h == nil {
				continue
			}
			key := "d|row|" + name
			// left value: bool assertion of the result of Execute on e.Left
			okv := false
			for _, b := range h.Blocks {
				ret := retOf(b)
				if ret == nil || !isNilConst(retVal(ret, len(ret.Results)-1)) {
					continue
				}
				bv, isB := constBool(retVal(ret, 0))
				if !isB || bv != pair.early {
					continue
				}
				for _, a := range dominatingAtoms(b) {
					cv, isC := constBool(a.Y)
					if !isC {
						continue
					}
					val := (a.Op == token.EQL) == cv
					if val != pair.early {
						continue
					}
					if mentions(a.X, func(v ssa.Value) bool {
						c, ok := v.(*ssa.Call)
						return ok && c.Call.IsInvoke() && c.Call.Method.Name() == "Execute" && p.derivesFromField(c.Call.Value, "BinaryOpExpr", "Left", traceOpts{})
					}, 6) {
						okv = true
					}
				}
			}
			r.add(okv, key, p.Pos(h.Pos()), fmt.Sprintf("%s returns %v as soon as the left operand is %v", name, pair.early, pair.early))
		}
	}
	// batch flags: role inference on the helper's bool parameter
	for _, name := range names {
		for _, cls := range []string{"str", "num"} {
			be := batHelpers[name+"|"+cls]
			if be == nil {
				continue
			}
			for ai, a := range be.Call.Call.Args {
				bv, isB := constBool(a)
				if !isB || ai >= len(be.Callee.Params) {
					continue
				}
				role := boolParamRole(p, be.Callee, be.Callee.Params[ai])
				key := fmt.Sprintf("d|batch|%s|%s|%s", name, cls, role)
				switch role {
				case "negate":
					want := name == "NotEq"
					r.add(bv == want, key, p.InstrPos(be.Call), fmt.Sprintf("%s passes negate=%v", name, bv))
				case "is-and":
					want := name == "And" || name == "KWAnd"
					r.add(bv == want, key, p.InstrPos(be.Call), fmt.Sprintf("%s passes and=%v", name, bv))
				case "numeric":
					want := cls == "num"
					r.add(bv == want, key, p.InstrPos(be.Call), fmt.Sprintf("%s with a %s left operand passes number=%v", name, cls, bv))
				default:
					r.note("unclassified_flag|"+name, be.Callee.Name())
				}
			}
		}
	}
}

// boolParamRole infers what a boolean parameter of a batch helper means from what the helper does under it.
func boolParamRole(p *Prog, fn *ssa.Function, pa *ssa.Parameter) string {
	role := ""
	for _, b := range fn.Blocks {
		under := 0 // 1: param true, -1: param false
		for _, a := range dominatingAtoms(b) {
			if a.X == ssa.Value(pa) {
				if bv, isB := constBool(a.Y); isB {
					if (a.Op == token.EQL) == bv {
						under = 1
					} else {
						under = -1
					}
				}
			}
		}
		if under != 1 {
			continue
		}
		for _, in := range b.Instrs {
			switch x := in.(type) {
			case *ssa.Call:
				if f := x.Call.StaticCallee(); f != nil && f.Name() == "execNumberCompare" {
					role = "numeric"
				}
			case *ssa.Store:
				v := x.Val
				if mi, ok := v.(*ssa.MakeInterface); ok {
					v = mi.X
				}
				if u, ok := v.(*ssa.UnOp); ok && u.Op == token.NOT {
					role = "negate"
				}
				if bo, ok := v.(*ssa.BinOp); ok && bo.Op == token.NEQ {
					role = "negate"
				}
				if ph, ok := v.(*ssa.Phi); ok {
					for _, e := range ph.Edges {
						if bv, isB := constBool(e); isB && !bv {
							if role == "" {
								role = "is-and"
							}
						}
					}
				}
			}
		}
	}
	return role
}

// ---------------- TWINPRIM ----------------

var primAlphabet = map[string]bool{
	"bytes.Equal": true, "bytes.HasPrefix": true, "bytes.Compare": true,
	"regexp.Compile": true, "(*regexp.Regexp).Match": true,
	"execStringCompare": true, "execNumberCompare": true, "executeMathOp": true,
	"strings.ToUpper": true, "strings.ToLower": true, "strings.Split": true, "strings.Join": true,
	"strconv.ParseInt": true, "strconv.ParseFloat": true, "encoding/json.Unmarshal": true,
	"cosineDistance": true, "l2Distance": true, "getListLength": true, "toInt": true, "toFloat": true,
	"toFloatList": true, "toIntList": true, "unpackArray": true, "math.Sqrt": true,
}

var metaMethods = map[string]bool{"ReturnType": true, "GetPos": true, "String": true, "Check": true, "Walk": true}

func (p *Prog) primsOf(fn *ssa.Function) map[string]bool {
	out := map[string]bool{}
	if fn == nil {
		return out
	}
	fs := p.staticClosure(fn, 5, func(g *ssa.Function) bool { return metaMethods[g.Name()] })
	for _, f := range fs {
		allInstrs(f, func(in ssa.Instruction) {
			// a primitive taken as a function value and called through a local is reached as well
			for _, op := range in.Operands(nil) {
				if op != nil && *op != nil {
					if fv, ok := (*op).(*ssa.Function); ok && primAlphabet[p.qualName(fv)] {
						out[p.qualName(fv)] = true
					}
				}
			}
			c, ok := in.(*ssa.Call)
			if !ok {
				return
			}
			callee := c.Call.StaticCallee()
			if callee == nil {
				return
			}
			nm := p.qualName(callee)
			if callee.Signature.Recv() != nil && callee.Pkg != nil && callee.Pkg != p.SPkg {
				nm = "(" + types.TypeString(callee.Signature.Recv().Type(), func(pk *types.Package) string { return pk.Name() }) + ")." + callee.Name()
			}
			if primAlphabet[nm] {
				out[nm] = true
			}
		})
	}
	return out
}

func setStr(m map[string]bool) string {
	ks := keysOf(m)
	sort.Strings(ks)
	return "{" + strings.Join(ks, ", ") + "}"
}

func ruleTwinPrim(p *Prog, r *Result) {
	n := 0
	cmp := func(key, pos string, a, b map[string]bool, what string) {
		n++
		same := len(a) == len(b)
		for k := range a {
			if !b[k] {
				same = false
			}
		}
		r.add(same, key, pos, fmt.Sprintf("%s: row reaches %s, batch reaches %s", what, setStr(a), setStr(b)))
	}
	// dispatch pairs
	row := p.MethodByName("BinaryOpExpr", "Execute")
	bat := p.MethodByName("BinaryOpExpr", "ExecuteBatch")
	if row != nil && bat != nil {
		rt, err1 := p.dispatchTable(row)
		bt, err2 := p.dispatchTable(bat)
		if err1 != nil || err2 != nil {
			r.undecided("dispatch table extraction failed: %v %v", err1, err2)
		} else {
			// a batch helper may serve several row helpers (execInBatch <-> execStringIn + execNumberIn):
			// compare it with the union of the row helpers it stands for
			type grp struct {
				rows  map[string]bool
				prims map[string]bool
				desc  []string
				pos   string
			}
			groups := map[*ssa.Function]*grp{}
			var order []*ssa.Function
			for _, name := range sortedKeys(rt) {
				for _, cls := range []string{"str", "num"} {
					re, be := rt[name][cls], bt[name][cls]
					if re == nil || be == nil {
						continue
					}
					g := groups[be.Callee]
					if g == nil {
						g = &grp{rows: map[string]bool{}, prims: map[string]bool{}, pos: p.InstrPos(be.Call)}
						groups[be.Callee] = g
						order = append(order, be.Callee)
					}
					if !g.rows[re.Callee.Name()] {
						g.rows[re.Callee.Name()] = true
						for k := range p.primsOf(re.Callee) {
							g.prims[k] = true
						}
					}
				}
			}
			for _, bc := range order {
				g := groups[bc]
				cmp("op|"+bc.Name(), g.pos, g.prims, p.primsOf(bc), fmt.Sprintf("%s vs %v", bc.Name(), keysOf(g.rows)))
			}
		}
	} else {
		r.undecided("anchor: BinaryOpExpr evaluators not found")
	}
	// other expression nodes
	for _, t := range p.exprTypes() {
		if t.Obj().Name() == "BinaryOpExpr" {
			continue
		}
		a, b := p.Method(t, "Execute"), p.Method(t, "ExecuteBatch")
		if a == nil || b == nil {
			continue
		}
		cmp("node|"+t.Obj().Name(), p.Pos(a.Pos()), p.primsOf(a), p.primsOf(b), t.Obj().Name())
	}
	// registry rows
	if rows, err := p.registry("funcMap"); err == nil {
		for _, row := range rows {
			if row.Body == nil || row.BodyVec == nil {
				continue
			}
			cmp("func|"+row.Key, row.Pos, p.primsOf(row.Body), p.primsOf(row.BodyVec), row.Key)
		}
	} else {
		r.undecided("%v", err)
	}
	r.floor("twin pairs compared", n, 30)
}
