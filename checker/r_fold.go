package main

import (
	"fmt"
	"go/token"
	"go/types"

	"golang.org/x/tools/go/ssa"
)

func init() {
	register("FOLDKIND", "wherever the expression optimizer replaces a sub-tree by a literal node, the literal's payload is the evaluation result asserted to the matching Go type (NumberExpr<-int64, FloatExpr<-float64, StringExpr<-string, BoolExpr<-bool) with no numeric conversion in between, and the node is built directly from that value (not re-parsed from text)", ruleFoldKind)
	register("FOLDERR", "a sub-tree is replaced by a folded literal only on the success edge (err == nil) of the evaluation that produced the value", ruleFoldErr)
	register("REORDERGUARD", "constant re-association rewrites e.Left/e.Right only for operators + and * and only when the inner operator equals the outer one", ruleReorderGuard)
}

var literalPayload = map[string]struct {
	field string
	kind  types.BasicKind
}{
	"NumberExpr": {"Int", types.Int64},
	"FloatExpr":  {"Float", types.Float64},
	"StringExpr": {"Data", types.String},
	"BoolExpr":   {"Bool", types.Bool},
}

// folderFuncs: methods of ExpressionOptimizer that evaluate (call Execute on) an expression.
func (p *Prog) folderFuncs() []*ssa.Function {
	var out []*ssa.Function
	t := p.Named("ExpressionOptimizer")
	if t == nil {
		return nil
	}
	for _, fn := range p.methodsOf(t) {
		has := false
		allInstrs(fn, func(in ssa.Instruction) {
			if c, ok := in.(*ssa.Call); ok && c.Call.Method != nil && c.Call.Method.Name() == "Execute" {
				has = true
			}
			if c, ok := in.(*ssa.Call); ok {
				if f := c.Call.StaticCallee(); f != nil && f.Name() == "Execute" {
					has = true
				}
			}
		})
		if has {
			out = append(out, fn)
		}
	}
	return out
}

func evalCallsIn(fn *ssa.Function) []*ssa.Call {
	var out []*ssa.Call
	allInstrs(fn, func(in ssa.Instruction) {
		c, ok := in.(*ssa.Call)
		if !ok {
			return
		}
		if c.Call.IsInvoke() && c.Call.Method.Name() == "Execute" {
			out = append(out, c)
		} else if f := c.Call.StaticCallee(); f != nil && f.Name() == "Execute" && f.Signature.Recv() != nil {
			out = append(out, c)
		}
	})
	return out
}

func ruleFoldKind(p *Prog, r *Result) {
	fs := p.folderFuncs()
	r.floor("folding functions", len(fs), 2)
	n := 0
	for _, fn := range fs {
		evals := evalCallsIn(fn)
		isEvalResult := func(v ssa.Value) bool {
			for _, c := range evals {
				if ex := extractOf(c, 0); ex != nil && v == ex {
					return true
				}
			}
			return false
		}
		ord := map[string]int{}
		allInstrs(fn, func(in ssa.Instruction) {
			al, ok := in.(*ssa.Alloc)
			if !ok {
				return
			}
			tn := typeName(al.Type())
			spec, isLit := literalPayload[tn]
			if !isLit {
				return
			}
			// payload store
			var payload ssa.Value
			for _, ref := range *al.Referrers() {
				if fa, ok := ref.(*ssa.FieldAddr); ok {
					if _, f, _, _ := fieldOfAddr(fa); f == spec.field {
						for _, r2 := range *fa.Referrers() {
							if st, ok := r2.(*ssa.Store); ok {
								payload = st.Val
							}
						}
					}
				}
			}
			if payload == nil {
				return
			}
			// only literals fed by an evaluation result
			fromEval := mentions(payload, isEvalResult, 8)
			if !fromEval {
				return
			}
			n++
			ord[tn]++
			key := fmt.Sprintf("%s|%s#%d", p.FName(fn), tn, ord[tn])
			// walk from payload back to the evaluation result: only TypeAssert(to spec.kind), phi, extract allowed
			bad := ""
			viaWiden := false
			var rec func(v ssa.Value, d int)
			seen := map[ssa.Value]bool{}
			rec = func(v ssa.Value, d int) {
				if v == nil || seen[v] || d > 8 || bad != "" {
					return
				}
				seen[v] = true
				if isEvalResult(v) {
					bad = "payload taken from the evaluation result without establishing its dynamic type"
					return
				}
				switch x := v.(type) {
				case *ssa.Const:
				case *ssa.Phi:
					for _, e := range x.Edges {
						rec(e, d+1)
					}
				case *ssa.Extract:
					rec(x.Tuple, d+1)
				case *ssa.TypeAssert:
					bt, ok := x.AssertedType.Underlying().(*types.Basic)
					if !ok || (bt.Kind() != spec.kind && !(viaWiden && bt.Kind() == types.Int64)) {
						bad = fmt.Sprintf("%s.%s is filled from a value asserted to %s", tn, spec.field, x.AssertedType)
						return
					}
					if !isEvalResult(x.X) {
						bad = "payload asserted from something other than the evaluation result"
					}

				case *ssa.Convert:
					from, _ := x.X.Type().Underlying().(*types.Basic)
					to, _ := x.Type().Underlying().(*types.Basic)
					if from != nil && to != nil && from.Kind() == types.Int64 && to.Kind() == types.Float64 && tn == "FloatExpr" {
						// frozen exemption: widening an integer result into a FloatExpr keeps the node's float kind
						// (and is unreachable: arithmetic with a float left operand never yields int64)
						viaWiden = true
						rec(x.X, d+1)
						return
					}
					if from != nil && to != nil && from.Kind() != to.Kind() {
						bad = fmt.Sprintf("folded %s is built through a %s -> %s conversion of the evaluation result (value or kind changes: e.g. 3 * 0.5 folds to 1)", tn, from.Name(), to.Name())
						return
					}
					rec(x.X, d+1)
				default:
					bad = "folded payload computed by " + v.String()
				}
			}
			rec(payload, 0)
			r.add(bad == "", key, p.InstrPos(al), firstNonEmpty(bad, fmt.Sprintf("%s built from the %s result", tn, spec.field)))
		})
		// literal constructors that re-parse text must not be used on evaluation results
		allInstrs(fn, func(in ssa.Instruction) {
			c, ok := in.(*ssa.Call)
			if !ok {
				return
			}
			g := c.Call.StaticCallee()
			if g == nil || !p.InPkg(g) || g.Signature.Recv() != nil {
				return
			}
			res := g.Signature.Results()
			if res.Len() != 1 {
				return
			}
			if _, isLit := literalPayload[typeName(res.At(0).Type())]; !isLit {
				return
			}
			for _, a := range c.Call.Args {
				if mentions(a, isEvalResult, 8) {
					n++
					r.hit(fmt.Sprintf("%s|via-text|%s", p.FName(fn), g.Name()), p.InstrPos(c), "a folded literal is rebuilt from text ("+g.Name()+"), which loses precision/kind; it must be built from the typed value")
				}
			}
		})
	}
	r.floor("folded literal constructions", n, 3)
}

func ruleFoldErr(p *Prog, r *Result) {
	fs := p.folderFuncs()
	n := 0
	for _, fn := range fs {
		evals := evalCallsIn(fn)
		ord := 0
		allInstrs(fn, func(in ssa.Instruction) {
			al, ok := in.(*ssa.Alloc)
			if !ok {
				return
			}
			if _, isLit := literalPayload[typeName(al.Type())]; !isLit {
				return
			}
			// which evaluation feeds it
			var src *ssa.Call
			for _, c := range evals {
				ex := extractOf(c, 0)
				if ex == nil {
					continue
				}
				fed := false
				for _, ref := range *al.Referrers() {
					if fa, ok := ref.(*ssa.FieldAddr); ok {
						for _, r2 := range *fa.Referrers() {
							if st, ok := r2.(*ssa.Store); ok && mentions(st.Val, func(v ssa.Value) bool { return v == ex }, 8) {
								fed = true
							}
						}
					}
				}
				if fed {
					src = c
				}
			}
			if src == nil {
				// literal nodes whose payload is constant (true/false) but chosen by the evaluation result:
				// still must be under the success edge of the dominating evaluation
				for _, c := range evals {
					if instrDominates(c, al) {
						src = c
					}
				}
				if src == nil {
					return
				}
			}
			n++
			ord++
			key := fmt.Sprintf("%s|literal#%d", p.FName(fn), ord)
			ev := extractOf(src, 1)
			okv := false
			if ev != nil {
				D := map[ssa.Value]bool{ev: true}
				for _, b := range fn.Blocks {
					if fi, _, isT := nilTestOn(b, D); isT && edgeDominates(b, 1-fi, al.Block()) {
						okv = true
					}
				}
			}
			r.add(okv, key, p.InstrPos(al), "folded literal constructed only when the evaluation returned no error")
		})
	}
	r.floor("folded literals", n, 6)
}

func ruleReorderGuard(p *Prog, r *Result) {
	t := p.Named("ExpressionOptimizer")
	if t == nil {
		r.undecided("anchor: ExpressionOptimizer not found")
		return
	}
	ops := p.typedConsts("Operator")
	n := 0
	for _, fn := range p.methodsOf(t) {
		// stores to Left/Right of a *BinaryOpExpr that is a parameter (re-association), not of fresh nodes;
		// a store made inside a local closure counts at the closure's call sites
		type rstore struct {
			st  *ssa.Store
			ctx []*ssa.BasicBlock // blocks of fn in which the store happens (its own block, or the closure's call sites)
		}
		var stores []rstore
		scan := func(f *ssa.Function, ctx func(*ssa.Store) []*ssa.BasicBlock) {
			allInstrs(f, func(in ssa.Instruction) {
				st, ok := in.(*ssa.Store)
				if !ok {
					return
				}
				o, fl, base, ok := fieldOfAddr(st.Addr)
				if !ok || o == nil || o.Obj().Name() != "BinaryOpExpr" || (fl != "Left" && fl != "Right") {
					return
				}
				if _, isParam := cellRoot(base).(*ssa.Parameter); !isParam {
					return
				}
				// re-association = the new operand is taken from the *inner* node or is a fresh BinaryOpExpr
				inner := mentions(st.Val, func(v ssa.Value) bool {
					if al, ok := v.(*ssa.Alloc); ok && typeName(al.Type()) == "BinaryOpExpr" {
						return true
					}
					if o2, f2, b2, ok := loadedField(v); ok && o2 != nil && o2.Obj().Name() == "BinaryOpExpr" && (f2 == "Left" || f2 == "Right") {
						if _, isP := cellRoot(b2).(*ssa.Parameter); !isP {
							return true
						}
					}
					return false
				}, 4)
				if inner {
					stores = append(stores, rstore{st, ctx(st)})
				}
			})
		}
		scan(fn, func(st *ssa.Store) []*ssa.BasicBlock { return []*ssa.BasicBlock{st.Block()} })
		for _, af := range fn.AnonFuncs {
			var sites []*ssa.BasicBlock
			allInstrs(fn, func(in ssa.Instruction) {
				if c, ok := in.(ssa.CallInstruction); ok {
					if mc, ok := c.Common().Value.(*ssa.MakeClosure); ok && mc.Fn == ssa.Value(af) {
						sites = append(sites, in.Block())
					}
				}
			})
			scan(af, func(*ssa.Store) []*ssa.BasicBlock { return sites })
		}
		if len(stores) == 0 {
			continue
		}
		e := ssa.Value(nil)
		for _, pa := range fn.Params {
			if typeName(pa.Type()) == "BinaryOpExpr" {
				e = pa
			}
		}
		isOuterOp := func(v ssa.Value) bool {
			o, f, base, ok := loadedField(v)
			return ok && o != nil && o.Obj().Name() == "BinaryOpExpr" && f == "Op" && cellRoot(base) == e
		}
		allowed := map[string]bool{"Add": true, "Mul": true}
		for v, name := range ops {
			reach := walkAssuming(fn, decideEqConst(isOuterOp, v))
			reached := false
			for _, rs := range stores {
				for _, b := range rs.ctx {
					if reach[b] {
						reached = true
					}
				}
			}
			if allowed[name] {
				continue
			}
			n++
			r.add(!reached, fmt.Sprintf("%s|op|%s", p.FName(fn), name), p.Pos(fn.Pos()), fmt.Sprintf("re-association must be unreachable for operator %s (only + and * are associative)", name))
		}
		// inner operator equals outer operator
		for i, rs := range stores {
			st := rs.st
			eq := len(rs.ctx) > 0
			for _, cb := range rs.ctx {
				here := false
				for _, a := range dominatingAtoms(cb) {
					if a.Op != token.EQL {
						continue
					}
					xo, yo := isOuterOp(a.X), isOuterOp(a.Y)
					isInnerOp := func(v ssa.Value) bool {
						o, f, base, ok := loadedField(v)
						return ok && o != nil && o.Obj().Name() == "BinaryOpExpr" && f == "Op" && cellRoot(base) != e
					}
					if (xo && isInnerOp(a.Y)) || (yo && isInnerOp(a.X)) {
						here = true
					}
				}
				if !here {
					eq = false
				}
			}
			n++
			r.add(eq, fmt.Sprintf("%s|same-op|store#%d", p.FName(fn), i+1), p.InstrPos(st), "operands are re-associated only when the inner node has the same operator as the outer one ((x - 1) + 2 must not become x + 3)")
		}
		// operand order: concatenation does not commute, so (a op c1) op c2 becomes a op (c1 op c2), never a op (c2 op c1)
		sameVal := func(v ssa.Value) ssa.Value {
			for {
				v = stripConv(v)
				switch x := v.(type) {
				case *ssa.TypeAssert:
					v = x.X
				case *ssa.Extract:
					if ta, ok := x.Tuple.(*ssa.TypeAssert); ok && x.Index == 0 {
						v = ta.X
						continue
					}
					return v
				default:
					return v
				}
			}
		}
		for i, rs := range stores {
			st := rs.st
			al, ok := stripConv(st.Val).(*ssa.Alloc)
			if !ok || typeName(al.Type()) != "BinaryOpExpr" {
				continue
			}
			var lv, rv ssa.Value
			for _, ref := range *al.Referrers() {
				fa, ok := ref.(*ssa.FieldAddr)
				if !ok {
					continue
				}
				_, f, _, _ := fieldOfAddr(fa)
				for _, u := range *fa.Referrers() {
					if s2, ok := u.(*ssa.Store); ok && s2.Addr == ssa.Value(fa) {
						switch f {
						case "Left":
							lv = sameVal(s2.Val)
						case "Right":
							rv = sameVal(s2.Val)
						}
					}
				}
			}
			_, _, storedField, _ := func() (*types.Named, string, string, bool) {
				o, f, _, ok := fieldOfAddr(st.Addr)
				return o, f, f, ok
			}()
			okOrder := false
			if lv != nil && rv != nil {
				lo, lf, lb, lok := loadedField(lv)
				ro, rf, rb, rok := loadedField(rv)
				if lok && rok && lo != nil && ro != nil && lo.Obj().Name() == "BinaryOpExpr" && ro.Obj().Name() == "BinaryOpExpr" {
					switch storedField {
					case "Right": // (a op c1) op c2  =>  a op (c1 op c2): new.Left = inner.Right, new.Right = outer.Right
						okOrder = lf == "Right" && cellRoot(lb) != e && rf == "Right" && cellRoot(rb) == e
					case "Left": // c1 op (c2 op a)  =>  (c1 op c2) op a: new.Left = outer.Left, new.Right = inner.Left
						okOrder = lf == "Left" && cellRoot(lb) == e && rf == "Left" && cellRoot(rb) != e
					}
				}
			}
			n++
			r.add(okOrder, fmt.Sprintf("%s|order|store#%d", p.FName(fn), i+1), p.InstrPos(st), "the merged constant keeps the textual order of its operands (+ on text is concatenation: (a + c1) + c2 is a + (c1 + c2), not a + (c2 + c1))")
		}
	}
	r.floor("re-association obligations", n, 10)
}

func init() {
	register("FOLDFLAGS", "Boolean simplification (x & true, x | false, ...) treats an operand as a constant only when that very operand is a BoolExpr literal: every flag tested by the simplifier is a constant per path, and it is true only under a successful *BoolExpr assertion of e.Left / e.Right", ruleFoldFlags)
}

func ruleFoldFlags(p *Prog, r *Result) {
	t := p.Named("ExpressionOptimizer")
	if t == nil {
		r.undecided("anchor: ExpressionOptimizer not found")
		return
	}
	n := 0
	for _, fn := range p.methodsOf(t) {
		// the simplifier: asserts operands of a BinaryOpExpr to *BoolExpr
		var asserts []*ssa.TypeAssert
		allInstrs(fn, func(in ssa.Instruction) {
			if ta, ok := in.(*ssa.TypeAssert); ok && ta.CommaOk && typeName(ta.AssertedType) == "BoolExpr" {
				if p.derivesFromField(ta.X, "BinaryOpExpr", "Left", traceOpts{}) || p.derivesFromField(ta.X, "BinaryOpExpr", "Right", traceOpts{}) {
					asserts = append(asserts, ta)
				}
			}
		})
		if len(asserts) < 2 {
			continue
		}
		// the constant folder proper also tests for other literal kinds: not the Boolean simplifier
		other := false
		allInstrs(fn, func(in ssa.Instruction) {
			if ta, ok := in.(*ssa.TypeAssert); ok && ta.CommaOk {
				switch typeName(ta.AssertedType) {
				case "StringExpr", "NumberExpr", "FloatExpr":
					other = true
				}
			}
		})
		if other {
			continue
		}
		flags := map[*ssa.Phi]bool{}
		for _, b := range fn.Blocks {
			f := ifOf(b)
			if f == nil {
				continue
			}
			c := f.Cond
			for {
				if u, ok := c.(*ssa.UnOp); ok && u.Op == token.NOT {
					c = u.X
					continue
				}
				break
			}
			if ph, ok := c.(*ssa.Phi); ok {
				if bt, isB := ph.Type().Underlying().(*types.Basic); isB && bt.Kind() == types.Bool {
					flags[ph] = true
				}
			}
		}
		i := 0
		for _, b := range fn.Blocks {
			for _, in := range b.Instrs {
				ph, ok := in.(*ssa.Phi)
				if !ok || !flags[ph] {
					continue
				}
				i++
				n++
				key := fmt.Sprintf("%s|flag#%d", p.FName(fn), i)
				bad := ""
				for j, e := range ph.Edges {
					bv, isB := constBool(e)
					if !isB {
						// a value flag (the literal's Bool) is fine if it is loaded from an asserted BoolExpr
						if _, f, base, isF := loadedField(e); isF && f == "Bool" {
							if ex, ok := base.(*ssa.Extract); ok {
								if ta, ok := ex.Tuple.(*ssa.TypeAssert); ok && typeName(ta.AssertedType) == "BoolExpr" {
									continue
								}
							}
						}
						bad = "a flag of the Boolean simplifier is not a per-path constant (e.g. it is the result of a call): `simplified` is confused with `is a constant`"
						continue
					}
					if !bv {
						continue
					}
					// true only under a successful BoolExpr assertion
					pred := ph.Block().Preds[j]
					okA := false
					for _, ta := range asserts {
						if okv := extractOf2(ta, 1); okv != nil {
							for _, a := range edgeAtoms(pred, ph.Block()) {
								if a.X == okv {
									if tv, isT := constBool(a.Y); isT && ((a.Op == token.EQL) == tv) {
										okA = true
									}
								}
							}
						}
					}
					if !okA {
						bad = "an operand is treated as a Boolean constant without being a BoolExpr literal"
					}
				}
				r.add(bad == "", key, p.InstrPos(ph), firstNonEmpty(bad, "flag is true only for a BoolExpr literal operand"))
			}
		}
	}
	r.floor("flags of the Boolean simplifier", n, 2)
}

// cellRoot resolves a variable captured by a closure: a load from the heap cell of a captured
// variable (in the declaring function or, through the free variable, in the closure) stands for
// the single value stored into that cell, when there is exactly one store.
func cellRoot(v ssa.Value) ssa.Value {
	for depth := 0; depth < 4; depth++ {
		ld, ok := v.(*ssa.UnOp)
		if !ok || ld.Op != token.MUL {
			return v
		}
		var cell *ssa.Alloc
		switch x := ld.X.(type) {
		case *ssa.Alloc:
			cell = x
		case *ssa.FreeVar:
			fn := x.Parent()
			par := fn.Parent()
			if par == nil {
				return v
			}
			idx := -1
			for i, fv := range fn.FreeVars {
				if fv == x {
					idx = i
				}
			}
			allInstrs(par, func(in ssa.Instruction) {
				if mc, ok := in.(*ssa.MakeClosure); ok && mc.Fn == ssa.Value(fn) && idx >= 0 && idx < len(mc.Bindings) {
					if al, ok := mc.Bindings[idx].(*ssa.Alloc); ok {
						cell = al
					}
				}
			})
		}
		if cell == nil || !cell.Heap {
			return v
		}
		var stored []ssa.Value
		for _, ref := range *cell.Referrers() {
			if st, ok := ref.(*ssa.Store); ok && st.Addr == ssa.Value(cell) {
				stored = append(stored, st.Val)
			}
		}
		if len(stored) != 1 {
			return v
		}
		v = stored[0]
	}
	return v
}
