package main

import (
	"fmt"
	"go/token"
	"go/types"
	"sort"
	"strings"

	"golang.org/x/tools/go/ssa"
)

func init() {
	register("ASSERT", "every single-result type assertion x.(T) is dominated by the success edge of a comma-ok assertion / type-switch arm on the same value with the same type (it cannot panic); frozen exemptions carry a checked side condition", ruleAssert)
	register("DIVGUARD", "every integer division or remainder whose divisor is not a non-zero constant is dominated by a test that the divisor is not zero", ruleDivGuard)
	register("ARITY", "every call through the Body/BodyVec field of a registered function is preceded on every path by both arity tests (fixed arity: len(args) == NumArgs; variadic: len(args) >= NumArgs); a registered body indexes args[k] with a constant k only if k < NumArgs of every row registering it or under a len(args) guard", ruleArity)
	register("BODYKIND", "for every row of the scalar function registry the dynamic types boxed into the result of Body and of BodyVec belong to the declared ReturnType (TSTR: string; TNUMBER: int64/float64/int; TBOOL: bool; TLIST: slices; TJSON: JSON, or []any for an array document) and the two twins box the same types", ruleBodyKind)
	register("LISTCOVER", "every list consumer (len, [n] indexing in both modes, the distance functions' vector conversion, IN over a function result in both modes) has a case for every representation a list producer can box (the registry's TLIST bodies; plus []any from JSON arrays for len and indexing)", ruleListCover)
	register("ADMIT", "what the type checker admits for = and != (operands of the same static type TSTR, TNUMBER or TBOOL) is handled by both executors: the type switch on the evaluated left operand in execEqual and execEqualBatch has a case for every representation those static types can take (no operand-type error on a well-typed statement)", ruleAdmit)
	register("PRIMWIRE", "every documented scalar function name is registered and both its row and vector body reach the documented primitive (upper->strings.ToUpper, lower->strings.ToLower, split->strings.Split, join->strings.Join, int/is_int->strconv.ParseInt base 10, float/is_float->strconv.ParseFloat, json->json.Unmarshal, distances->math.Sqrt with a length-equality error, len/strlen->len); distinct names have distinct bodies except the documented aliases; every aggregate name has its own constructor and accumulator type", rulePrimWire)
}

// ---- registry model ----

type regRow struct {
	Key     string
	Name    string
	NumArgs int64
	VarArgs bool
	Ret     int64
	Body    *ssa.Function
	BodyVec *ssa.Function
	Pos     string
}

func asFunction(v ssa.Value) *ssa.Function {
	v = stripConv(v)
	switch x := v.(type) {
	case *ssa.Function:
		return x
	case *ssa.MakeClosure:
		f, _ := x.Fn.(*ssa.Function)
		return f
	}
	return nil
}

func (p *Prog) registry(global string) ([]regRow, error) {
	g := p.Global(global)
	init := p.Func("init")
	if g == nil || init == nil {
		return nil, fmt.Errorf("registry %s not found", global)
	}
	var mapV ssa.Value
	allInstrs(init, func(in ssa.Instruction) {
		if st, ok := in.(*ssa.Store); ok && st.Addr == ssa.Value(g) {
			mapV = st.Val
		}
	})
	if mapV == nil {
		return nil, fmt.Errorf("registry %s is not initialised by a literal", global)
	}
	var rows []regRow
	allInstrs(init, func(in ssa.Instruction) {
		mu, ok := in.(*ssa.MapUpdate)
		if !ok || mu.Map != mapV {
			return
		}
		k, _ := constString(mu.Key)
		row := regRow{Key: k, Pos: p.InstrPos(mu)}
		al, ok := mu.Value.(*ssa.Alloc)
		if !ok {
			rows = append(rows, row)
			return
		}
		for _, ref := range *al.Referrers() {
			fa, ok := ref.(*ssa.FieldAddr)
			if !ok {
				continue
			}
			_, f, _, _ := fieldOfAddr(fa)
			for _, r2 := range *fa.Referrers() {
				st, ok := r2.(*ssa.Store)
				if !ok {
					continue
				}
				switch f {
				case "Name":
					row.Name, _ = constString(st.Val)
				case "NumArgs":
					row.NumArgs, _ = constInt(st.Val)
				case "VarArgs":
					row.VarArgs, _ = constBool(st.Val)
				case "ReturnType":
					row.Ret, _ = constInt(st.Val)
				case "Body":
					row.Body = asFunction(st.Val)
				case "BodyVec":
					row.BodyVec = asFunction(st.Val)
				}
			}
		}
		rows = append(rows, row)
	})
	sort.Slice(rows, func(i, j int) bool { return rows[i].Key < rows[j].Key })
	return rows, nil
}

// boxedKinds collects the concrete types boxed into interface value v (following phis, extracts
// of static same-package calls, and returns of those callees). unknown is set when a source
// cannot be resolved.
func (p *Prog) boxedKinds(v ssa.Value, envs ...map[*ssa.Parameter]*ssa.Function) (kinds map[string]bool, unknown bool) {
	kinds = map[string]bool{}
	// a function-typed parameter bound at the (single) call site that was followed: execRowByRow(chunk, args, body)
	callee := func(c *ssa.CallCommon) *ssa.Function {
		if f := c.StaticCallee(); f != nil {
			return f
		}
		if pa, ok := c.Value.(*ssa.Parameter); ok {
			for _, env := range envs {
				if f := env[pa]; f != nil {
					return f
				}
			}
		}
		return nil
	}
	seen := map[ssa.Value]bool{}
	var rec func(x ssa.Value, depth int)
	rec = func(x ssa.Value, depth int) {
		if x == nil || seen[x] || depth > 6 {
			return
		}
		seen[x] = true
		switch y := x.(type) {
		case *ssa.MakeInterface:
			kinds[types.TypeString(y.X.Type(), func(*types.Package) string { return "" })] = true
		case *ssa.Const:
			// nil interface (error paths)
		case *ssa.Phi:
			for _, e := range y.Edges {
				rec(e, depth)
			}
		case *ssa.ChangeInterface:
			rec(y.X, depth)
		case *ssa.Extract:
			if c, ok := y.Tuple.(*ssa.Call); ok {
				if f := callee(&c.Call); f != nil && p.InPkg(f) && f.Blocks != nil {
					for _, b := range f.Blocks {
						if r := retOf(b); r != nil && y.Index < len(r.Results) {
							rec(retVal(r, y.Index), depth+1)
						}
					}
					return
				}
			}
			unknown = true
		case *ssa.Call:
			if f := y.Call.StaticCallee(); f != nil && p.InPkg(f) && f.Blocks != nil && f.Signature.Results().Len() == 1 {
				for _, b := range f.Blocks {
					if r := retOf(b); r != nil {
						rec(retVal(r, 0), depth+1)
					}
				}
				return
			}
			unknown = true
		default:
			unknown = true
		}
	}
	rec(v, 0)
	return
}

// bodyKinds: kinds boxed by result 0 of a row body.
func (p *Prog) bodyKinds(fn *ssa.Function) (map[string]bool, bool) {
	all := map[string]bool{}
	unk := false
	for _, b := range fn.Blocks {
		if r := retOf(b); r != nil && len(r.Results) > 0 {
			k, u := p.boxedKinds(retVal(r, 0))
			for x := range k {
				all[x] = true
			}
			unk = unk || u
		}
	}
	return all, unk
}

// vecKinds: kinds stored into []any element slots by a vector body (and by delegating callees' results).
func (p *Prog) vecKinds(fn *ssa.Function) (map[string]bool, bool) {
	all := map[string]bool{}
	unk := false
	seenFn := map[*ssa.Function]bool{}
	var scan func(f *ssa.Function, depth int, env map[*ssa.Parameter]*ssa.Function)
	scan = func(f *ssa.Function, depth int, env map[*ssa.Parameter]*ssa.Function) {
		if (seenFn[f] && len(env) == 0) || depth > 3 {
			return
		}
		seenFn[f] = true
		allInstrs(f, func(in ssa.Instruction) {
			st, ok := in.(*ssa.Store)
			if !ok {
				return
			}
			ia, ok := st.Addr.(*ssa.IndexAddr)
			if !ok {
				return
			}
			sl, ok := ia.X.Type().Underlying().(*types.Slice)
			if !ok {
				return
			}
			if _, isI := sl.Elem().Underlying().(*types.Interface); !isI {
				return
			}
			k, u := p.boxedKinds(st.Val, env)
			for x := range k {
				all[x] = true
			}
			unk = unk || u
		})
		// tail-delegation: return g(chunk, args, ctx)
		for _, b := range f.Blocks {
			if r := retOf(b); r != nil && len(r.Results) > 0 {
				if ex, ok := retVal(r, 0).(*ssa.Extract); ok {
					if c, ok := ex.Tuple.(*ssa.Call); ok {
						if g := c.Call.StaticCallee(); g != nil && p.InPkg(g) && g.Blocks != nil {
							// function values handed to the helper (a row body evaluated per row)
							env2 := map[*ssa.Parameter]*ssa.Function{}
							for ai, a := range c.Call.Args {
								if fv := asFunction(a); fv != nil && ai < len(g.Params) {
									env2[g.Params[ai]] = fv
								}
							}
							scan(g, depth+1, env2)
						}
					}
				}
			}
		}
	}
	scan(fn, 0, nil)
	return all, unk
}

var retTypeKinds = map[string]func(k string) bool{
	"TSTR":    func(k string) bool { return k == "string" },
	"TNUMBER": func(k string) bool { return k == "int64" || k == "float64" || k == "int" },
	"TBOOL":   func(k string) bool { return k == "bool" },
	"TLIST":   func(k string) bool { return strings.HasPrefix(k, "[]") },
	"TJSON":   func(k string) bool { return k == "JSON" || k == "[]any" || k == "[]interface{}" }, // a JSON document is an object or an array
}

func ruleBodyKind(p *Prog, r *Result) {
	rows, err := p.registry("funcMap")
	if err != nil {
		r.undecided("%v", err)
		return
	}
	tn := p.typedConsts("Type")
	r.floor("scalar registry rows", len(rows), 15)
	D := map[string]map[string]bool{}
	for _, row := range rows {
		rt := tn[row.Ret]
		okf := retTypeKinds[rt]
		if row.Body == nil || okf == nil {
			r.hit("row|"+row.Key, row.Pos, "registry row has no resolvable Body / ReturnType")
			continue
		}
		bk, unk := p.bodyKinds(row.Body)
		bad := ""
		for k := range bk {
			if !okf(k) {
				bad = fmt.Sprintf("Body %s boxes %s but the row declares %s (the constant folder asserts the declared kind without a check)", p.FName(row.Body), k, rt)
			}
		}
		if unk {
			bad = "a result of " + p.FName(row.Body) + " could not be resolved to a concrete type"
		}
		r.add(bad == "", "row|"+row.Key+"|Body", row.Pos, firstNonEmpty(bad, fmt.Sprintf("%s boxes %v within %s", p.FName(row.Body), keysOf(bk), rt)))
		if D[rt] == nil {
			D[rt] = map[string]bool{}
		}
		for k := range bk {
			D[rt][k] = true
		}
		if row.BodyVec != nil {
			vk, vunk := p.vecKinds(row.BodyVec)
			bad = ""
			for k := range vk {
				if !okf(k) {
					bad = fmt.Sprintf("BodyVec %s boxes %s but the row declares %s", p.FName(row.BodyVec), k, rt)
				}
			}
			if vunk {
				bad = "an element stored by " + p.FName(row.BodyVec) + " could not be resolved to a concrete type"
			}
			r.add(bad == "", "row|"+row.Key+"|BodyVec", row.Pos, firstNonEmpty(bad, fmt.Sprintf("%s boxes %v within %s", p.FName(row.BodyVec), keysOf(vk), rt)))
			same := len(vk) == len(bk)
			for k := range vk {
				if !bk[k] {
					same = false
				}
			}
			r.add(same, "row|"+row.Key+"|twin-kinds", row.Pos, fmt.Sprintf("row body boxes %v, vector body boxes %v", keysOf(bk), keysOf(vk)))
		}
	}
	rep := map[string][]string{}
	for k, v := range D {
		rep[k] = keysOf(v)
	}
	r.note("representations_by_declared_type", rep)
}

// ---------------- ASSERT ----------------

var assertExempt = map[string]string{}

func ruleAssert(p *Prog, r *Result) {
	total := 0
	for _, fn := range p.Funcs {
		var oks []*ssa.TypeAssert
		allInstrs(fn, func(in ssa.Instruction) {
			if ta, ok := in.(*ssa.TypeAssert); ok && ta.CommaOk {
				oks = append(oks, ta)
			}
		})
		ord := map[string]int{}
		allInstrs(fn, func(in ssa.Instruction) {
			ta, ok := in.(*ssa.TypeAssert)
			if !ok || ta.CommaOk {
				return
			}
			total++
			tstr := types.TypeString(ta.AssertedType, func(*types.Package) string { return "" })
			base := fmt.Sprintf("%s|%s.(%s)", p.FName(fn), valueName(ta.X), tstr)
			ord[base]++
			key := base
			if ord[base] > 1 {
				key = fmt.Sprintf("%s#%d", base, ord[base])
			}
			guarded := false
			for _, g := range oks {
				if g.X != ta.X || !types.Identical(g.AssertedType, ta.AssertedType) {
					continue
				}
				okv := extractOf2(g, 1)
				if okv != nil && trueEdgeDominates(okv, ta.Block()) {
					guarded = true
				}
			}
			if guarded {
				r.ok(key, p.InstrPos(ta), "guarded by a comma-ok test of the same value and type")
				return
			}
			if why := pairedParamGuard(p, fn, ta, oks); why != "" {
				r.ok(key, p.InstrPos(ta), why)
				return
			}
			if why := assertSideCondition(p, fn, ta); why != "" {
				r.Exempt = append(r.Exempt, key+": "+why)
				r.ok(key, p.InstrPos(ta), "exempt: "+why)
				return
			}
			r.hit(key, p.InstrPos(ta), fmt.Sprintf("unchecked assertion %s.(%s): panics when the dynamic type differs (no dominating test of this value for this type)", valueName(ta.X), tstr))
		})
	}
	r.note("single_result_assertions", total)
	r.floor("single-result type assertions", total, 10)
}

func extractOf2(v ssa.Value, idx int) ssa.Value {
	refs := v.Referrers()
	if refs == nil {
		return nil
	}
	for _, r := range *refs {
		if ex, ok := r.(*ssa.Extract); ok && ex.Index == idx {
			return ex
		}
	}
	return nil
}

func valueName(v ssa.Value) string {
	switch x := v.(type) {
	case *ssa.Parameter:
		return x.Name()
	case *ssa.Extract:
		if c, ok := x.Tuple.(*ssa.Call); ok {
			return "result" + fmt.Sprint(x.Index) + "-of-" + shortCall(c)
		}
	case *ssa.Call:
		return "result-of-" + shortCall(x)
	case *ssa.UnOp:
		if _, f, _, ok := loadedField(x); ok {
			return "field-" + f
		}
	case *ssa.Phi:
		if x.Comment != "" {
			return x.Comment
		}
	}
	if v.Name() != "" && !strings.HasPrefix(v.Name(), "t") {
		return v.Name()
	}
	return "value"
}

func shortCall(c *ssa.Call) string {
	if c.Call.IsInvoke() {
		return c.Call.Method.Name()
	}
	if f := c.Call.StaticCallee(); f != nil {
		return f.Name()
	}
	return "call"
}

// assertSideCondition returns a reason when the unchecked assertion is safe for a structural reason
// that is itself checked here.
func assertSideCondition(p *Prog, fn *ssa.Function, ta *ssa.TypeAssert) string {
	tstr := typeName(ta.AssertedType)
	// (1) container/heap on *orderColumnsRowHeap: every element pushed is a *orderColumnsRow
	if tstr == "orderColumnsRow" {
		okAll, n := true, 0
		for _, f := range p.Funcs {
			allInstrs(f, func(in ssa.Instruction) {
				c, ok := in.(*ssa.Call)
				if !ok || p.calleeName(&c.Call) != "container/heap.Push" {
					return
				}
				n++
				mi, ok := c.Call.Args[1].(*ssa.MakeInterface)
				if !ok || typeName(mi.X.Type()) != "orderColumnsRow" {
					okAll = false
				}
			})
		}
		if okAll && n > 0 {
			return fmt.Sprintf("heap element: all %d heap.Push calls in the package push a *orderColumnsRow", n)
		}
		return ""
	}
	// (2) the constant folder: ret.(string)/ret.(bool) on the result of evaluating an expression whose
	// static result kind was established; safe because BODYKIND holds for every registry row and the
	// compare helpers return typed (bool, error).
	root := fn
	for root.Parent() != nil {
		root = root.Parent()
	}
	if root.Signature.Recv() != nil && typeName(root.Signature.Recv().Type()) == "ExpressionOptimizer" {
		bt, ok := ta.AssertedType.(*types.Basic)
		if ok && (bt.Kind() == types.String || bt.Kind() == types.Bool) {
			if _, isCallRes := ta.X.(*ssa.Extract); isCallRes {
				return "constant folder: the asserted kind is the declared kind of the folded node (side condition BODYKIND: every registered body boxes only its declared kind; Boolean operators return typed bool)"
			}
		}
	}
	// (2b) the same assertion inside a helper of the folder (foldedArithLiteral(left, pos, ret)): the asserted value is
	// a parameter, and every static caller is a method of the folder that passes the result of an evaluation
	if pa, isP := ta.X.(*ssa.Parameter); isP && fn.Signature.Recv() == nil {
		bt, ok := ta.AssertedType.(*types.Basic)
		if ok && (bt.Kind() == types.String || bt.Kind() == types.Bool) {
			pi := -1
			for k, q := range fn.Params {
				if q == pa {
					pi = k
				}
			}
			callers, allOK := 0, true
			for _, f := range p.Funcs {
				allInstrs(f, func(in ssa.Instruction) {
					c, ok := in.(*ssa.Call)
					if !ok || c.Call.StaticCallee() != fn || pi < 0 || pi >= len(c.Call.Args) {
						return
					}
					callers++
					cr := f
					for cr.Parent() != nil {
						cr = cr.Parent()
					}
					_, isCallRes := c.Call.Args[pi].(*ssa.Extract)
					if cr.Signature.Recv() == nil || typeName(cr.Signature.Recv().Type()) != "ExpressionOptimizer" || !isCallRes {
						allOK = false
					}
				})
			}
			if callers > 0 && allOK {
				return "constant folder (helper): every caller is a method of the folder passing the result of an evaluation; the asserted kind is the declared kind of the folded node (side condition BODYKIND)"
			}
		}
	}
	return ""
}

// ---------------- DIVGUARD ----------------

func ruleDivGuard(p *Prog, r *Result) {
	n := 0
	for _, fn := range p.Funcs {
		idx := 0
		allInstrs(fn, func(in ssa.Instruction) {
			b, ok := in.(*ssa.BinOp)
			if !ok || (b.Op != token.QUO && b.Op != token.REM) {
				return
			}
			bt, ok := b.Type().Underlying().(*types.Basic)
			if !ok || bt.Info()&types.IsInteger == 0 {
				return
			}
			if c, ok := constInt(b.Y); ok && c != 0 {
				return
			}
			n++
			idx++
			key := fmt.Sprintf("%s|div#%d", p.FName(fn), idx)
			guarded := false
			for _, a := range dominatingAtoms(b.Block()) {
				if a.X == b.Y {
					if c, ok := constInt(a.Y); ok && c == 0 && a.Op == token.NEQ {
						guarded = true
					}
				}
			}
			r.add(guarded, key, p.InstrPos(b), "integer division: divisor tested against zero on every path")
		})
	}
	r.note("integer_divisions_with_variable_divisor", n)
	r.floor("integer divisions with a variable divisor", n, 1)
}

// ---------------- ARITY ----------------

// arityLabel classifies an If edge by what it establishes about len(args) vs NumArgs / VarArgs.
func arityLabel(b *ssa.BasicBlock, si int) (fixedOK, varOK bool) {
	a, ok := edgeAtom(b, si)
	if !ok {
		return
	}
	isLen := func(v ssa.Value) bool { return lenOf(v) != nil }
	isNum := func(v ssa.Value) bool { _, f, _, ok := loadedField(v); return ok && f == "NumArgs" }
	isVar := func(v ssa.Value) bool { _, f, _, ok := loadedField(v); return ok && f == "VarArgs" }
	x, y, op := a.X, a.Y, a.Op
	if isNum(x) && isLen(y) {
		x, y, op = y, x, swapOp(op)
	}
	if isLen(x) && isNum(y) {
		switch op {
		case token.EQL:
			return true, true
		case token.GEQ, token.GTR:
			return false, true
		}
	}
	if isVar(x) {
		if bv, isB := constBool(y); isB {
			tr := (op == token.EQL) == bv
			if tr {
				return true, false // VarArgs is true: fixed-arity obligation is vacuous
			}
			return false, true // VarArgs is false: variadic obligation is vacuous
		}
	}
	return
}

// arityHelperLabel: the edge `h(...) == nil` where h is a package function returning one error and every
// `return nil` of h is reachable only through edges establishing the arity fact (a checking helper).
func arityHelperLabel(p *Prog, b *ssa.BasicBlock, si int) (fixedOK, varOK bool) {
	a, ok := edgeAtom(b, si)
	if !ok || a.Op != token.EQL {
		return
	}
	x, y := a.X, a.Y
	if isNilConst(x) {
		x, y = y, x
	}
	if !isNilConst(y) {
		return
	}
	c, isC := x.(*ssa.Call)
	if !isC {
		return
	}
	h := c.Call.StaticCallee()
	if h == nil || !p.InPkg(h) || len(h.Blocks) == 0 || h.Signature.Results().Len() != 1 || !isErrorType(h.Signature.Results().At(0).Type()) {
		return
	}
	fixedOK, varOK = true, true
	nret := 0
	for _, hb := range h.Blocks {
		ret, isR := hb.Instrs[len(hb.Instrs)-1].(*ssa.Return)
		if !isR {
			continue
		}
		var nilBlocks []*ssa.BasicBlock
		switch rv := retVal(ret, 0).(type) {
		case *ssa.Const:
			if isNilConst(rv) {
				nilBlocks = append(nilBlocks, hb)
			}
		case *ssa.Phi:
			if rv.Block() != hb {
				return false, false
			}
			for i, e := range rv.Edges {
				if isNilConst(e) {
					nilBlocks = append(nilBlocks, hb.Preds[i])
				} else if !nonNilErrValue(p, e) {
					return false, false
				}
			}
		default:
			if !nonNilErrValue(p, rv) {
				return false, false
			}
		}
		for _, nb := range nilBlocks {
			nret++
			for _, which := range []string{"fixed", "var"} {
				if pathAvoiding(h, nb, func(b2 *ssa.BasicBlock, s2 int) bool {
					f, v := arityLabel(b2, s2)
					if which == "fixed" {
						return f
					}
					return v
				}) {
					if which == "fixed" {
						fixedOK = false
					} else {
						varOK = false
					}
				}
			}
		}
	}
	if nret == 0 {
		return false, false
	}
	return
}

// nonNilErrValue: a boxed concrete value, or the result of a package constructor all of whose returns are boxed values.
func nonNilErrValue(p *Prog, v ssa.Value) bool {
	switch v := v.(type) {
	case *ssa.MakeInterface:
		return true
	case *ssa.Call:
		g := v.Call.StaticCallee()
		if g == nil || !p.InPkg(g) || len(g.Blocks) == 0 {
			return false
		}
		for _, gb := range g.Blocks {
			if ret, ok := gb.Instrs[len(gb.Instrs)-1].(*ssa.Return); ok {
				if len(ret.Results) != 1 {
					return false
				}
				if _, isMk := retVal(ret, 0).(*ssa.MakeInterface); !isMk {
					return false
				}
			}
		}
		return true
	}
	return false
}

// pathAvoiding reports whether target is reachable from fn's entry without crossing an edge for which ok(b,si) holds.
func pathAvoiding(fn *ssa.Function, target *ssa.BasicBlock, ok func(b *ssa.BasicBlock, si int) bool) bool {
	seen := map[*ssa.BasicBlock]bool{}
	var walk func(b *ssa.BasicBlock) bool
	walk = func(b *ssa.BasicBlock) bool {
		if b == target {
			return true
		}
		if seen[b] {
			return false
		}
		seen[b] = true
		for si, s := range b.Succs {
			if ok(b, si) {
				continue
			}
			if walk(s) {
				return true
			}
		}
		return false
	}
	return walk(fn.Blocks[0])
}

func ruleArity(p *Prog, r *Result) {
	// (1) calls through Body / BodyVec of *Function
	n := 0
	var check func(fn *ssa.Function, target *ssa.BasicBlock, which string, depth int) bool
	check = func(fn *ssa.Function, target *ssa.BasicBlock, which string, depth int) bool {
		unguarded := pathAvoiding(fn, target, func(b *ssa.BasicBlock, si int) bool {
			f, v := arityLabel(b, si)
			if !f && !v {
				f, v = arityHelperLabel(p, b, si)
			}
			if which == "fixed" {
				return f
			}
			return v
		})
		if !unguarded {
			return true
		}
		if depth >= 2 {
			return false
		}
		// every static caller must establish it before calling fn
		ncall := 0
		okAll := true
		for _, caller := range p.Funcs {
			allInstrs(caller, func(in ssa.Instruction) {
				ci, ok := in.(ssa.CallInstruction)
				if !ok || ci.Common().StaticCallee() != fn {
					return
				}
				ncall++
				if !check(caller, ci.Block(), which, depth+1) {
					okAll = false
				}
			})
		}
		return ncall > 0 && okAll
	}
	for _, fn := range p.Funcs {
		idx := 0
		allInstrs(fn, func(in ssa.Instruction) {
			c, ok := in.(*ssa.Call)
			if !ok || c.Call.IsInvoke() || c.Call.StaticCallee() != nil {
				return
			}
			o, f, _, ok := loadedField(c.Call.Value)
			if !ok || o == nil || o.Obj().Name() != "Function" || (f != "Body" && f != "BodyVec") {
				return
			}
			n++
			idx++
			key := fmt.Sprintf("%s|%s-call#%d", p.FName(fn), f, idx)
			r.add(check(fn, c.Block(), "fixed", 0), key+"|fixed", p.InstrPos(c), "fixed-arity functions are called only with len(args) == NumArgs (bodies index args[k] unconditionally)")
			r.add(check(fn, c.Block(), "var", 0), key+"|variadic", p.InstrPos(c), "variadic functions are called only with len(args) >= NumArgs (a body indexing args[0] panics on an empty argument list otherwise)")
		})
	}
	r.floor("calls through Function.Body/BodyVec", n, 3)
	// (2) constant indexes into args inside registered bodies
	rows, err := p.registry("funcMap")
	if err != nil {
		r.undecided("%v", err)
		return
	}
	minArgs := map[*ssa.Function]int64{}
	note := func(f *ssa.Function, k int64) {
		if f == nil {
			return
		}
		if old, ok := minArgs[f]; !ok || k < old {
			minArgs[f] = k
		}
	}
	for _, row := range rows {
		note(row.Body, row.NumArgs)
		note(row.BodyVec, row.NumArgs)
	}
	// bodies delegating to other bodies with the same args
	changed := true
	for changed {
		changed = false
		for f, k := range minArgs {
			allInstrs(f, func(in ssa.Instruction) {
				c, ok := in.(*ssa.Call)
				if !ok {
					return
				}
				g := c.Call.StaticCallee()
				if g == nil || !p.InPkg(g) || len(f.Params) < 2 {
					return
				}
				for _, a := range c.Call.Args {
					if a == ssa.Value(f.Params[1]) {
						if old, ok := minArgs[g]; !ok || k < old {
							minArgs[g] = k
							changed = true
						}
					}
				}
			})
		}
	}
	for f, k := range minArgs {
		if len(f.Params) < 2 {
			continue
		}
		args := f.Params[1]
		allInstrs(f, func(in ssa.Instruction) {
			ia, ok := in.(*ssa.IndexAddr)
			if !ok || ia.X != ssa.Value(args) {
				return
			}
			c, ok := constInt(ia.Index)
			if !ok {
				return
			}
			key := fmt.Sprintf("%s|args[%d]", p.FName(f), c)
			if c < k {
				r.ok(key, p.InstrPos(ia), fmt.Sprintf("index %d < minimum NumArgs %d", c, k))
				return
			}
			guarded := false
			for _, a := range dominatingAtoms(ia.Block()) {
				if lv := lenOf(a.X); lv != nil && lv == ssa.Value(args) {
					if cv, ok := constInt(a.Y); ok {
						if (a.Op == token.GTR && cv >= c) || (a.Op == token.GEQ && cv > c) || (a.Op == token.NEQ && cv == 0 && c == 0) {
							guarded = true
						}
					}
				}
			}
			r.add(guarded, key, p.InstrPos(ia), fmt.Sprintf("args[%d] is read although a row registers this body with NumArgs = %d", c, k))
		})
	}
	// the aggregate functions index their arguments as blindly as the scalar ones: somewhere between the statement and
	// the construction of an aggregate functor the number of arguments of the call is compared with the NumArgs its
	// registry row declares - by the plan that builds the functors, or by the check the plan builder runs on every
	// statement (either one is enough; a statement-level check that leaves aggregates to the plan and a plan that leaves
	// them to the statement-level check leave nobody)
	aggrNumArgs := func(v ssa.Value) bool {
		found := false
		var rec func(x ssa.Value, d int)
		rec = func(x ssa.Value, d int) {
			if d > 5 || found {
				return
			}
			if o, f, _, ok := loadedField(x); ok && o != nil && f == "NumArgs" && o.Obj().Name() == "AggrFunc" {
				found = true
				return
			}
			if ph, ok := x.(*ssa.Phi); ok {
				for _, e := range ph.Edges {
					rec(e, d+1)
				}
			}
		}
		rec(v, 0)
		return found
	}
	where := ""
	for _, fn := range p.Funcs {
		allInstrs(fn, func(in ssa.Instruction) {
			bo, ok := in.(*ssa.BinOp)
			if !ok {
				return
			}
			switch bo.Op {
			case token.EQL, token.NEQ, token.LSS, token.LEQ, token.GTR, token.GEQ:
			default:
				return
			}
			isLen := func(v ssa.Value) bool {
				c, ok := v.(*ssa.Call)
				if !ok {
					return false
				}
				bi, ok := c.Call.Value.(*ssa.Builtin)
				return ok && bi.Name() == "len"
			}
			if (aggrNumArgs(bo.X) && isLen(bo.Y)) || (aggrNumArgs(bo.Y) && isLen(bo.X)) {
				where = p.InstrPos(in)
			}
		})
	}
	r.add(where != "", "aggregate|arity-compared", "", firstNonEmpty(map[bool]string{true: "the argument count of an aggregate call is compared with the declared NumArgs at " + where}[where != ""], "nothing compares the argument count of an aggregate call with the NumArgs its registry row declares: the functors index args[0], args[1] blindly"))
}

// ---------------- LISTCOVER ----------------

// switchCases: the set of types a function tests its interface value `x` against (comma-ok assertions).
func switchCases(fn *ssa.Function, isSubject func(ssa.Value) bool) map[string]bool {
	out := map[string]bool{}
	allInstrs(fn, func(in ssa.Instruction) {
		ta, ok := in.(*ssa.TypeAssert)
		if !ok || !ta.CommaOk {
			return
		}
		if isSubject(ta.X) {
			out[types.TypeString(ta.AssertedType, func(*types.Package) string { return "" })] = true
		}
	})
	return out
}

func ruleListCover(p *Prog, r *Result) {
	rows, err := p.registry("funcMap")
	if err != nil {
		r.undecided("%v", err)
		return
	}
	tn := p.typedConsts("Type")
	producers := map[string]bool{}
	var lenBody, lenVec *ssa.Function
	var distBodies []*ssa.Function
	for _, row := range rows {
		if tn[row.Ret] == "TLIST" && row.Body != nil {
			k, _ := p.bodyKinds(row.Body)
			for x := range k {
				producers[x] = true
			}
		}
		if row.Key == "len" {
			lenBody, lenVec = row.Body, row.BodyVec
		}
		if row.Key == "l2_distance" || row.Key == "cosine_distance" {
			distBodies = append(distBodies, row.Body, row.BodyVec)
		}
	}
	r.note("list_representations", keysOf(producers))
	if len(producers) < 2 {
		r.undecided("floor: list representations found = %d", len(producers))
		return
	}
	withJSON := map[string]bool{"[]any": true}
	for k := range producers {
		withJSON[k] = true
	}
	requireCases := func(key, pos string, have map[string]bool, need map[string]bool, what string) {
		var missing []string
		for k := range need {
			alt := k
			if k == "[]any" {
				alt = "[]interface{}"
			}
			if !have[k] && !have[alt] {
				missing = append(missing, k)
			}
		}
		sort.Strings(missing)
		r.add(len(missing) == 0, key, pos, fmt.Sprintf("%s handles %v; missing %v", what, keysOf(have), missing))
	}
	// json(): the document may be an array (the README hands json(value) of a stored embedding to l2_distance);
	// unmarshalling into a map only fails for an array, and the dropped error leaves an empty object
	for _, row := range rows {
		if row.Key != "json" {
			continue
		}
		for which, body := range map[string]*ssa.Function{"Body": row.Body, "BodyVec": row.BodyVec} {
			if body == nil {
				continue
			}
			target := ""
			for _, f := range p.staticClosure(body, 2, nil) {
				allInstrs(f, func(in ssa.Instruction) {
					c, ok := in.(*ssa.Call)
					if !ok || p.calleeName(&c.Call) != "encoding/json.Unmarshal" || len(c.Call.Args) != 2 {
						return
					}
					a := c.Call.Args[1]
					if mi, ok := a.(*ssa.MakeInterface); ok {
						a = mi.X
					}
					if pt, ok := a.Type().Underlying().(*types.Pointer); ok {
						if _, isI := pt.Elem().Underlying().(*types.Interface); isI {
							target = "any"
						} else if target == "" {
							target = pt.Elem().String()
						}
					}
				})
			}
			// ... and nothing is decided about the document before it is parsed: in the function that unmarshals, the
			// call dominates every return (a look at the first byte forgets the blanks JSON allows in front)
			for _, f := range p.staticClosure(body, 2, nil) {
				var um ssa.Instruction
				allInstrs(f, func(in ssa.Instruction) {
					if c, ok := in.(*ssa.Call); ok && p.calleeName(&c.Call) == "encoding/json.Unmarshal" {
						um = in
					}
				})
				if um == nil {
					continue
				}
				early := ""
				for _, b := range f.Blocks {
					if ret := retOf(b); ret != nil && !instrDominates(um, ret) {
						// an error return before the parse (a value that is not text) is fine
						if len(ret.Results) > 0 {
							if ev := retVal(ret, len(ret.Results)-1); ev.Type().String() == "error" && !isNilConst(ev) {
								continue
							}
						}
						early = p.InstrPos(ret)
					}
				}
				r.add(early == "", "json|"+which+"|parse-first", p.Pos(f.Pos()), firstNonEmpty(map[bool]string{true: "a result is returned at " + early + " before the document was parsed"}[early != ""], "every result of "+p.FName(f)+" follows the parse of the document"))
			}
			if target != "" {
				r.add(target == "any", "json|"+which+"|array-document", p.Pos(body.Pos()), fmt.Sprintf("json() unmarshals the document into a value of any kind (target type %s): an array document is a list, not an empty object", target))
			}
		}
	}
	// list(): the README documents int, str and float element types
	for _, row := range rows {
		if row.Key != "list" || row.Body == nil {
			continue
		}
		k, _ := p.bodyKinds(row.Body)
		var missing []string
		for _, want := range []string{"[]int64", "[]float64", "[]string"} {
			if !k[want] {
				missing = append(missing, want)
			}
		}
		r.add(len(missing) == 0, "list|element-kinds", p.Pos(row.Body.Pos()), fmt.Sprintf("list() builds lists of the documented element types int, float and str; it can return %v, missing %v", keysOf(k), missing))
		// ... and the kind is a property of all the elements: the conversions to int and float silently turn a text
		// that is not a number into 0, so the evaluation whose dynamic type decides which list is built is made for
		// every argument (an index that varies in a loop), not for args[0] only
		fixedIdx, nDecide := "", 0
		allInstrs(row.Body, func(in ssa.Instruction) {
			ta, ok := in.(*ssa.TypeAssert)
			if !ok || !ta.CommaOk {
				return
			}
			ex, ok := ta.X.(*ssa.Extract)
			if !ok {
				return
			}
			c, ok := ex.Tuple.(*ssa.Call)
			if !ok || !c.Call.IsInvoke() || c.Call.Method.Name() != "Execute" {
				return
			}
			u, ok := c.Call.Value.(*ssa.UnOp)
			if !ok {
				return
			}
			ia, ok := u.X.(*ssa.IndexAddr)
			if !ok {
				return
			}
			nDecide++
			if _, isConst := ia.Index.(*ssa.Const); isConst {
				fixedIdx = p.InstrPos(c)
			}
		})
		// ... to the end: the kinds form a ladder (integer, float, text) and only `text` is final, so the deciding loop
		// is left early only under the flag that selects the text list (a float seen so far can still be followed
		// by a text that is not a number)
		if nDecide > 0 {
			// the text flag: the Boolean variable under whose true value the []string builder is called
			textVar := ""
			allInstrs(row.Body, func(in ssa.Instruction) {
				c, ok := in.(*ssa.Call)
				if !ok {
					return
				}
				g := c.Call.StaticCallee()
				if g == nil || !p.InPkg(g) {
					return
				}
				if k, _ := p.bodyKinds(g); !k["[]string"] || len(k) != 1 {
					return
				}
				for _, a := range dominatingAtoms(in.Block()) {
					if ph, ok := a.X.(*ssa.Phi); ok && ph.Comment != "" {
						if bv, isB := constBool(a.Y); isB && ((a.Op == token.EQL) == bv) {
							textVar = ph.Comment
						}
					}
				}
			})
			early := ""
			for _, L := range naturalLoops(row.Body) {
				decides := false
				for b := range L.Body {
					for _, in := range b.Instrs {
						if ta, ok := in.(*ssa.TypeAssert); ok && ta.CommaOk {
							if ex, ok := ta.X.(*ssa.Extract); ok {
								if c, ok := ex.Tuple.(*ssa.Call); ok && c.Call.IsInvoke() && c.Call.Method.Name() == "Execute" {
									decides = true
								}
							}
						}
					}
				}
				if !decides {
					continue
				}
				for b := range L.Body {
					if b == L.Header {
						continue
					}
					for si, sc := range b.Succs {
						if L.Body[sc] {
							continue
						}
						if retOf(sc) != nil && len(sc.Instrs) <= 3 {
							continue // an error return
						}
						okExit := false
						if a, isA := edgeAtom(b, si); isA {
							if ph, ok := a.X.(*ssa.Phi); ok && textVar != "" && ph.Comment == textVar {
								if bv, isB := constBool(a.Y); isB && ((a.Op == token.EQL) == bv) {
									okExit = true
								}
							}
						}
						if !okExit {
							early = p.Pos(b.Instrs[len(b.Instrs)-1].Pos())
							if early == "" || early == "-" {
								early = fmt.Sprintf("block %d", b.Index)
							}
						}
					}
				}
			}
			if textVar != "" {
				r.add(early == "", "list|kind-to-the-end", p.Pos(row.Body.Pos()), firstNonEmpty(map[bool]string{true: "the loop that decides the element kind is left early (" + early + ") under something else than the text flag `" + textVar + "`: an argument behind that point no longer counts"}[early != ""], "the deciding loop runs over all arguments unless the kind is already text"))
			}
		}
		if nDecide > 0 {
			r.add(fixedIdx == "", "list|kind-from-all", p.Pos(row.Body.Pos()), firstNonEmpty(map[bool]string{true: "the element kind is decided from one fixed argument (evaluated at " + fixedIdx + "): a later text that is not a number silently becomes 0"}[fixedIdx != ""], "the element kind is decided from every argument"))
		}
	}
	// len(): the function reached from the len bodies that type-switches on its parameter
	for _, body := range []*ssa.Function{lenBody, lenVec} {
		if body == nil {
			r.undecided("anchor: registry row `len` not found")
			continue
		}
		var consumer *ssa.Function
		for _, f := range p.staticClosure(body, 2, nil) {
			if len(f.Params) == 1 && f.Signature.Results().Len() == 2 {
				if _, isI := f.Params[0].Type().Underlying().(*types.Interface); isI {
					consumer = f
				}
			}
		}
		if consumer == nil {
			r.hit("len|"+p.FName(body), p.Pos(body.Pos()), "no list-length helper reached from the len body")
			continue
		}
		have := switchCases(consumer, func(v ssa.Value) bool { return v == ssa.Value(consumer.Params[0]) })
		requireCases("len|"+p.FName(body)+"->"+p.FName(consumer), p.Pos(consumer.Pos()), have, withJSON, "len()")
	}
	// [n] indexing, both modes
	for _, nm := range []string{"execListAccess", "execListAccessBatch"} {
		f := p.MethodByName("FieldAccessExpr", nm)
		if f == nil {
			r.undecided("anchor: (*FieldAccessExpr).%s not found", nm)
			continue
		}
		have := switchCases(f, func(v ssa.Value) bool {
			_, isI := v.Type().Underlying().(*types.Interface)
			return isI
		})
		requireCases("index|"+nm, p.Pos(f.Pos()), have, withJSON, "list[n]")
		if strings.HasSuffix(nm, "Batch") {
			// ... per row: a column can mix representations ("" for a missing member next to lists), so the
			// representation is tested on the element of each row, in one function, not read off a fixed row
			perRow := func(g *ssa.Function) map[string]bool {
				return switchCases(g, func(v ssa.Value) bool {
					if _, isI := v.Type().Underlying().(*types.Interface); !isI {
						return false
					}
					ld, ok := v.(*ssa.UnOp)
					if !ok {
						return false
					}
					ia, ok := ld.X.(*ssa.IndexAddr)
					if !ok {
						return false
					}
					_, isC := constInt(ia.Index)
					return !isC
				})
			}
			best := perRow(f)
			covers := func(h map[string]bool) bool {
				for k := range withJSON {
					alt := k
					if k == "[]any" {
						alt = "[]interface{}"
					}
					if !h[k] && !h[alt] {
						return false
					}
				}
				return true
			}
			if !covers(best) {
				for _, g := range p.staticClosure(f, 2, nil) {
					if h := perRow(g); covers(h) {
						best = h
					}
				}
			}
			requireCases("index|"+nm+"|per-row", p.Pos(f.Pos()), best, withJSON, "list[n] on the element of each row")
		}
	}
	// distance functions: vector conversion
	seenConv := map[*ssa.Function]bool{}
	for _, body := range distBodies {
		if body == nil {
			continue
		}
		for _, f := range p.staticClosure(body, 2, nil) {
			if len(f.Params) == 1 && f.Signature.Results().Len() == 2 && !seenConv[f] {
				if _, isI := f.Params[0].Type().Underlying().(*types.Interface); isI {
					if sl, ok := f.Signature.Results().At(0).Type().Underlying().(*types.Slice); ok && sl.Elem().String() == "float64" {
						seenConv[f] = true
						have := switchCases(f, func(v ssa.Value) bool { return v == ssa.Value(f.Params[0]) })
						requireCases("vector|"+p.FName(f), p.Pos(f.Pos()), have, withJSON, "vector conversion of the distance functions (the README compares with an embedding stored as a JSON array)")
					}
				}
			}
		}
	}
	if len(seenConv) == 0 {
		r.hit("vector|conversion", "", "no vector conversion helper reached from the distance functions")
	}
	// row-mode projection: the column kinds it lets through must include every representation any
	// declared result type can take (the batch projection passes values through unchecked)
	if f := p.MethodByName("ProjectionPlan", "processProjection"); f != nil {
		have := switchCases(f, func(v ssa.Value) bool {
			_, isI := v.Type().Underlying().(*types.Interface)
			return isI
		})
		need := map[string]bool{"[]byte": true}
		for _, row := range rows {
			if row.Body != nil {
				k, _ := p.bodyKinds(row.Body)
				for x := range k {
					need[x] = true
				}
			}
		}
		if have["[]uint8"] {
			have["[]byte"] = true
		}
		requireCases("project|processProjection", p.Pos(f.Pos()), have, need, "row-mode projection")
	} else {
		r.undecided("anchor: (*ProjectionPlan).processProjection not found")
	}
	// IN over a function result / alias
	for _, nm := range []string{"execStringIn", "execNumberIn", "execInBatch"} {
		f := p.MethodByName("BinaryOpExpr", nm)
		if f == nil {
			r.undecided("anchor: (*BinaryOpExpr).%s not found", nm)
			continue
		}
		// the value consumed: result of evaluating the right operand (Execute/ExecuteBatch of e.Right-derived),
		// either asserted directly or passed to an unpack helper
		have := map[string]bool{}
		allInstrs(f, func(in ssa.Instruction) {
			switch x := in.(type) {
			case *ssa.TypeAssert:
				if x.CommaOk {
					if _, isI := x.X.Type().Underlying().(*types.Interface); isI {
						if _, isSl := x.AssertedType.Underlying().(*types.Slice); isSl {
							have[types.TypeString(x.AssertedType, func(*types.Package) string { return "" })] = true
						}
					}
				}
			case *ssa.Call:
				if g := x.Call.StaticCallee(); g != nil && p.InPkg(g) && len(g.Params) == 1 && g.Signature.Results().Len() == 2 {
					if _, isI := g.Params[0].Type().Underlying().(*types.Interface); isI {
						if sl, ok := g.Signature.Results().At(0).Type().Underlying().(*types.Slice); ok {
							if _, isAny := sl.Elem().Underlying().(*types.Interface); isAny {
								for k := range switchCases(g, func(v ssa.Value) bool { return v == ssa.Value(g.Params[0]) }) {
									have[k] = true
								}
							}
						}
					}
				}
			}
		})
		requireCases("in|"+nm, p.Pos(f.Pos()), have, producers, "IN over a list-valued function/alias")
	}
}

// ---------------- PRIMWIRE ----------------

type primSpec struct {
	prims  []string // all must be reached (qualified names); "builtin:len" for the len builtin
	base10 bool     // strconv.ParseInt must be called with base 10, bit size 64
	lenErr bool     // a len(a) != len(b) test leading to an error
}

var sFunc = map[string]primSpec{
	"upper":           {prims: []string{"strings.ToUpper"}},
	"lower":           {prims: []string{"strings.ToLower"}},
	"split":           {prims: []string{"strings.Split"}},
	"join":            {prims: []string{"strings.Join"}},
	"int":             {prims: []string{"strconv.ParseInt"}, base10: true},
	"is_int":          {prims: []string{"strconv.ParseInt"}, base10: true},
	"float":           {prims: []string{"strconv.ParseFloat"}},
	"is_float":        {prims: []string{"strconv.ParseFloat"}},
	"json":            {prims: []string{"encoding/json.Unmarshal"}},
	"l2_distance":     {prims: []string{"math.Sqrt"}, lenErr: true},
	"cosine_distance": {prims: []string{"math.Sqrt"}, lenErr: true},
	"len":             {prims: []string{"builtin:len"}},
	"strlen":          {prims: []string{"builtin:len"}},
	"str":             {},
	"substr":          {},
	"list":            {},
	"int_list":        {},
	"float_list":      {},
	"ilist":           {},
	"flist":           {},
}

var sAliases = [][2]string{{"flist", "float_list"}, {"ilist", "int_list"}}

func ruleWireClosure(p *Prog, f *ssa.Function) []*ssa.Function {
	// static closure that does not descend into Expression methods (sub-expression evaluation)
	et := map[*types.Named]bool{}
	for _, t := range p.exprTypes() {
		et[t] = true
	}
	return p.staticClosure(f, 4, func(g *ssa.Function) bool {
		if g.Signature.Recv() != nil {
			if n := namedOf(g.Signature.Recv().Type()); n != nil && et[n] {
				return true
			}
		}
		return false
	})
}

func rulePrimWire(p *Prog, r *Result) {
	rows, err := p.registry("funcMap")
	if err != nil {
		r.undecided("%v", err)
		return
	}
	byKey := map[string]regRow{}
	for _, row := range rows {
		byKey[row.Key] = row
		r.add(row.Key == row.Name, "name|"+row.Key, row.Pos, fmt.Sprintf("registry key %q and row name %q agree", row.Key, row.Name))
	}
	names := sortedKeys(sFunc)
	for _, name := range names {
		spec := sFunc[name]
		row, ok := byKey[name]
		if !ok {
			r.hit("registered|"+name, "", "documented function "+name+" is not registered")
			continue
		}
		for which, body := range map[string]*ssa.Function{"Body": row.Body, "BodyVec": row.BodyVec} {
			key := "wire|" + name + "|" + which
			if body == nil {
				r.hit(key, row.Pos, "no "+which)
				continue
			}
			fs := ruleWireClosure(p, body)
			reached := map[string]bool{}
			base10 := false
			lenErr := false
			for _, f := range fs {
				allInstrs(f, func(in ssa.Instruction) {
					c, ok := in.(*ssa.Call)
					if !ok {
						return
					}
					if b, ok := c.Call.Value.(*ssa.Builtin); ok {
						reached["builtin:"+b.Name()] = true
						return
					}
					nm := p.calleeName(&c.Call)
					if nm != "" {
						reached[nm] = true
					}
					if nm == "strconv.ParseInt" {
						b10, _ := constInt(c.Call.Args[1])
						b64, _ := constInt(c.Call.Args[2])
						// the text handed to ParseInt must be the function's string / []byte argument itself
						// (the type-switch case value), not a re-rendering of something else
						isTextCase := func(v ssa.Value) bool {
							ta, ok := v.(*ssa.TypeAssert)
							if !ok {
								return false
							}
							ts := types.TypeString(ta.AssertedType, nil)
							return ts == "string" || ts == "[]byte" || ts == "[]uint8"
						}
						onText := derivesFrom(c.Call.Args[0], isTextCase)
						if !onText {
							// the parse may sit in a helper taking the text: every caller in the closure hands it the case value
							for k, pa := range f.Params {
								if !derivesFrom(c.Call.Args[0], func(v ssa.Value) bool { return v == ssa.Value(pa) }) {
									continue
								}
								ncall, all := 0, true
								for _, caller := range fs {
									allInstrs(caller, func(in2 ssa.Instruction) {
										if c2, ok := in2.(*ssa.Call); ok && c2.Call.StaticCallee() == f && k < len(c2.Call.Args) {
											ncall++
											if !derivesFrom(c2.Call.Args[k], isTextCase) {
												all = false
											}
										}
									})
								}
								if ncall > 0 && all {
									onText = true
								}
							}
						}
						if b10 == 10 && b64 == 64 && onText {
							base10 = true
						}
					}
				})
				// length-equality error
				for _, b := range f.Blocks {
					for si := range b.Succs {
						a, ok := edgeAtom(b, si)
						if ok && a.Op == token.NEQ && lenOf(a.X) != nil && lenOf(a.Y) != nil && returnsNonNilErrorFrom(b.Succs[si]) {
							lenErr = true
						}
					}
				}
			}
			bad := ""
			for _, pr := range spec.prims {
				if !reached[pr] {
					bad = "does not reach " + pr
				}
			}
			if spec.base10 && !base10 {
				bad = "does not parse integers with strconv.ParseInt(·, 10, 64)"
			}
			if spec.lenErr && !lenErr {
				bad = "does not refuse vectors of different lengths (no len(a) != len(b) error)"
			}
			r.add(bad == "", key, row.Pos, fmt.Sprintf("%s (%s) %s", name, p.FName(body), firstNonEmpty(bad, "reaches its documented primitive")))
		}
	}
	// distinct bodies
	alias := map[string]string{}
	for _, a := range sAliases {
		alias[a[0]] = a[1]
	}
	owner := map[*ssa.Function]string{}
	for _, row := range rows {
		for _, b := range []*ssa.Function{row.Body, row.BodyVec} {
			if b == nil {
				continue
			}
			if prev, ok := owner[b]; ok && prev != row.Key {
				okAlias := alias[row.Key] == prev || alias[prev] == row.Key
				r.add(okAlias, "distinct|"+prev+"|"+row.Key, row.Pos, fmt.Sprintf("%s and %s share the body %s", prev, row.Key, p.FName(b)))
			} else {
				owner[b] = row.Key
			}
		}
	}
	// aggregates: each name its own constructor and accumulator type
	arows, err := p.registry("aggrFuncMap")
	if err != nil {
		r.undecided("%v", err)
		return
	}
	r.floor("aggregate registry rows", len(arows), 6)
	ctorOwner := map[*ssa.Function]string{}
	typeOwner := map[string]string{}
	for _, row := range arows {
		r.add(row.Key == row.Name, "aggr-name|"+row.Key, row.Pos, "registry key and row name agree")
		if row.Body == nil {
			r.hit("aggr-ctor|"+row.Key, row.Pos, "no constructor")
			continue
		}
		if prev, ok := ctorOwner[row.Body]; ok {
			r.hit("aggr-distinct|"+prev+"|"+row.Key, row.Pos, fmt.Sprintf("aggregates %s and %s share the constructor %s", prev, row.Key, p.FName(row.Body)))
			continue
		}
		ctorOwner[row.Body] = row.Key
		// accumulator type
		k, _ := p.boxedKindsOfCtor(row.Body)
		if len(k) != 1 {
			r.hit("aggr-type|"+row.Key, row.Pos, fmt.Sprintf("constructor builds %v", k))
			continue
		}
		if prev, ok := typeOwner[k[0]]; ok {
			r.hit("aggr-distinct-type|"+prev+"|"+row.Key, row.Pos, fmt.Sprintf("aggregates %s and %s share the accumulator type %s", prev, row.Key, k[0]))
			continue
		}
		typeOwner[k[0]] = row.Key
		r.ok("aggr|"+row.Key, row.Pos, fmt.Sprintf("%s -> %s -> %s", row.Key, p.FName(row.Body), k[0]))
	}
	r.note("aggregate_types", typeOwner)
}

func (p *Prog) boxedKindsOfCtor(fn *ssa.Function) ([]string, bool) {
	k, unk := p.bodyKinds(fn)
	return keysOf(k), unk
}

// pairedParamGuard recognises: the assertion is on parameter b for type T, a comma-ok test of
// parameter a for the same T dominates it, and every call site of the function is dominated by
// reflect.TypeOf(arg_a) == reflect.TypeOf(arg_b): then b has dynamic type T whenever a has.
func pairedParamGuard(p *Prog, fn *ssa.Function, ta *ssa.TypeAssert, oks []*ssa.TypeAssert) string {
	pb, ok := ta.X.(*ssa.Parameter)
	if !ok {
		return ""
	}
	idx := func(pa *ssa.Parameter) int {
		for i, x := range fn.Params {
			if x == pa {
				return i
			}
		}
		return -1
	}
	jb := idx(pb)
	for _, g := range oks {
		pa, ok := g.X.(*ssa.Parameter)
		if !ok || pa == pb || !types.Identical(g.AssertedType, ta.AssertedType) {
			continue
		}
		okv := extractOf2(g, 1)
		if okv == nil || !trueEdgeDominates(okv, ta.Block()) {
			continue
		}
		ja := idx(pa)
		ncall, good := 0, true
		for _, caller := range p.Funcs {
			allInstrs(caller, func(in ssa.Instruction) {
				ci, ok := in.(ssa.CallInstruction)
				if !ok || ci.Common().StaticCallee() != fn {
					return
				}
				ncall++
				args := ci.Common().Args
				if ja >= len(args) || jb >= len(args) {
					good = false
					return
				}
				found := false
				for _, a := range dominatingAtoms(ci.Block()) {
					if a.Op != token.EQL {
						continue
					}
					cx, okx := a.X.(*ssa.Call)
					cy, oky := a.Y.(*ssa.Call)
					if !okx || !oky || p.calleeName(&cx.Call) != "reflect.TypeOf" || p.calleeName(&cy.Call) != "reflect.TypeOf" {
						continue
					}
					ux, uy := stripConv(cx.Call.Args[0]), stripConv(cy.Call.Args[0])
					va, vb := stripConv(args[ja]), stripConv(args[jb])
					if (ux == va && uy == vb) || (ux == vb && uy == va) {
						found = true
					}
				}
				if !found {
					good = false
				}
			})
		}
		// the function must not escape as a value (then unknown callers exist)
		escapes := false
		for _, f := range p.Funcs {
			allInstrs(f, func(in ssa.Instruction) {
				for _, op := range in.Operands(nil) {
					if *op == ssa.Value(fn) {
						if ci, isCall := in.(ssa.CallInstruction); !isCall || ci.Common().Value != ssa.Value(fn) {
							escapes = true
						}
					}
				}
			})
		}
		if ncall > 0 && good && !escapes {
			return fmt.Sprintf("guarded: %s is tested for this type and all %d call sites run under reflect.TypeOf(%s) == reflect.TypeOf(%s)", pa.Name(), ncall, pa.Name(), pb.Name())
		}
	}
	return ""
}

// ---------------- ADMIT ----------------

func ruleAdmit(p *Prog, r *Result) {
	rows, err := p.registry("funcMap")
	if err != nil {
		r.undecided("%v", err)
		return
	}
	tn := p.typedConsts("Type")
	need := map[string]bool{}
	for _, row := range rows {
		switch tn[row.Ret] {
		case "TSTR", "TNUMBER", "TBOOL":
			if row.Body != nil {
				k, _ := p.bodyKinds(row.Body)
				for x := range k {
					need[x] = true
				}
			}
		}
	}
	// literal and keyword leaves
	for _, t := range p.exprTypes() {
		switch t.Obj().Name() {
		case "StringExpr", "NumberExpr", "FloatExpr", "BoolExpr", "FieldExpr":
			if f := p.Method(t, "Execute"); f != nil {
				k, _ := p.bodyKinds(f)
				for x := range k {
					need[x] = true
				}
			}
		}
	}
	if need["[]uint8"] {
		delete(need, "[]uint8")
		need["[]byte"] = true
	}
	r.note("representations_admitted_for_equality", keysOf(need))
	if len(need) < 4 {
		r.undecided("floor: representations admitted for equality = %d", len(need))
		return
	}
	for _, nm := range []string{"execEqual", "execEqualBatch"} {
		f := p.MethodByName("BinaryOpExpr", nm)
		if f == nil {
			r.undecided("anchor: (*BinaryOpExpr).%s not found", nm)
			continue
		}
		have := switchCases(f, func(v ssa.Value) bool {
			_, isI := v.Type().Underlying().(*types.Interface)
			return isI
		})
		if have["[]uint8"] {
			have["[]byte"] = true
		}
		var missing []string
		for k := range need {
			if !have[k] {
				missing = append(missing, k)
			}
		}
		sort.Strings(missing)
		r.add(len(missing) == 0, "eq|"+nm, p.Pos(f.Pos()), fmt.Sprintf("= / != handle %v; missing %v", keysOf(have), missing))
	}
}
