package main

import (
	"fmt"
	"go/token"
	"go/types"

	"golang.org/x/tools/go/ssa"
)

func init() {
	register("USERIDX", "slices and indexes whose bounds come from user-controlled numbers (toInt results, number literals, the error offset handed to the renderer) are safe by construction: the high bound is bounded by the sliced value's own length (constant under a dominating len test, min(., len-derived), clamp phi, or a dominating comparison with a len-derived value), the low bound is non-negative, low <= high, and an index is below the length", ruleUserIdx)
}

type boundCtx struct {
	p  *Prog
	fn *ssa.Function
	X  ssa.Value // the sliced / indexed value
}

func (c *boundCtx) isLenOfX(v ssa.Value) bool {
	a := lenOf(v)
	if a == nil {
		return false
	}
	return a == c.X || sharesRoot(a, c.X)
}

// lenDerived: v <= len(X) by pure arithmetic: len(X) itself, or (len-derived) - (non-negative).
func (c *boundCtx) lenDerived(v ssa.Value) bool {
	return c.lenDerivedAt(v, nil, 0)
}

func (c *boundCtx) lenDerivedAt(v ssa.Value, atoms []Atom, depth int) bool {
	if depth > 6 || v == nil {
		return false
	}
	if c.isLenOfX(v) {
		return true
	}
	switch x := v.(type) {
	case *ssa.BinOp:
		if x.Op == token.SUB && c.lenDerivedAt(x.X, atoms, depth+1) {
			if k, ok := constInt(x.Y); ok && k >= 0 {
				return true
			}
			return c.lower(x.Y, atoms, depth+1)
		}
	case *ssa.Convert:
		return c.lenDerivedAt(x.X, atoms, depth+1)
	}
	return false
}

// windowSum: hi = a + w where w is (L - a) with L = len(X), or a constant k chosen under (L - a) > k:
// then hi <= len(X).
func (c *boundCtx) windowSum(hi ssa.Value, depth int) bool {
	bo, ok := hi.(*ssa.BinOp)
	if !ok || bo.Op != token.ADD {
		return false
	}
	for _, pair := range [][2]ssa.Value{{bo.X, bo.Y}, {bo.Y, bo.X}} {
		a, w := pair[0], pair[1]
		var okW func(w ssa.Value, atoms []Atom, d int) bool
		okW = func(w ssa.Value, atoms []Atom, d int) bool {
			if d > 4 {
				return false
			}
			if sb, ok := w.(*ssa.BinOp); ok && sb.Op == token.SUB && c.isLenOfX(sb.X) && sb.Y == a {
				return true
			}
			if k, ok := constInt(w); ok {
				for _, at := range atoms {
					x, y, op := at.X, at.Y, at.Op
					if kk, isK := constInt(x); isK {
						_ = kk
						x, y, op = y, x, swapOp(op)
					}
					kk, isK := constInt(y)
					if !isK || kk < k {
						continue
					}
					if sb, ok := x.(*ssa.BinOp); ok && sb.Op == token.SUB && c.isLenOfX(sb.X) && sb.Y == a && (op == token.GTR || op == token.GEQ) {
						return true
					}
				}
				return false
			}
			if ph, ok := w.(*ssa.Phi); ok {
				for i, e := range ph.Edges {
					if !okW(e, edgeAtoms(ph.Block().Preds[i], ph.Block()), d+1) {
						return false
					}
				}
				return true
			}
			return false
		}
		if okW(w, nil, 0) {
			return true
		}
	}
	return false
}

// atomsAt: atoms that hold when control is at block b (dominating edges).
func atomsAt(b *ssa.BasicBlock) []Atom { return dominatingAtoms(b) }

// edgeAtoms: atoms that hold on the edge pred -> succ (dominating pred, plus the edge's own condition).
func edgeAtoms(pred, succ *ssa.BasicBlock) []Atom {
	out := dominatingAtoms(pred)
	for si, s := range pred.Succs {
		if s == succ {
			if a, ok := edgeAtom(pred, si); ok && !(len(pred.Succs) == 2 && pred.Succs[0] == pred.Succs[1]) {
				out = append(out, a)
			}
		}
	}
	return out
}

func isMinCall(v ssa.Value) (a, b ssa.Value, ok bool) {
	c, isC := v.(*ssa.Call)
	if !isC || len(c.Call.Args) != 2 {
		return nil, nil, false
	}
	if bi, isB := c.Call.Value.(*ssa.Builtin); isB && bi.Name() == "min" {
		return c.Call.Args[0], c.Call.Args[1], true
	}
	if f := c.Call.StaticCallee(); f != nil && f.Name() == "min" && f.Signature.Params().Len() == 2 {
		return c.Call.Args[0], c.Call.Args[1], true
	}
	return nil, nil, false
}

// upper: v <= len(X) can be established at the given atoms.
func (c *boundCtx) upper(v ssa.Value, atoms []Atom, depth int) bool {
	if depth > 8 || v == nil {
		return false
	}
	if cv, ok := constInt(v); ok {
		if cv <= 0 {
			return true
		}
		for _, a := range atoms {
			x, y, op := a.X, a.Y, a.Op
			if c.isLenOfX(y) {
				x, y, op = y, x, swapOp(op)
			}
			if c.isLenOfX(x) {
				if k, ok := constInt(y); ok {
					if (op == token.GTR && k >= cv-0 && k >= cv) || (op == token.GTR && k+1 >= cv) || (op == token.GEQ && k >= cv) {
						return true
					}
				}
			}
		}
		return false
	}
	if c.lenDerivedAt(v, atoms, 0) || c.windowSum(v, 0) {
		return true
	}
	if a, b, ok := isMinCall(v); ok {
		return c.upper(a, atoms, depth+1) || c.upper(b, atoms, depth+1)
	}
	// dominating comparison v <= L / v < L with L len-derived
	for _, a := range atoms {
		x, y, op := a.X, a.Y, a.Op
		if y == v {
			x, y, op = y, x, swapOp(op)
		}
		if x == v && (op == token.LEQ || op == token.LSS) && (c.lenDerived(y) || c.upperNoAtoms(y)) {
			return true
		}
	}
	switch x := v.(type) {
	case *ssa.BinOp:
		if x.Op == token.SUB {
			if k, ok := constInt(x.Y); ok && k >= 0 {
				return c.upper(x.X, atoms, depth+1)
			}
		}
	case *ssa.Phi:
		for i, e := range x.Edges {
			pred := x.Block().Preds[i]
			if !c.upper(e, edgeAtoms(pred, x.Block()), depth+1) {
				return false
			}
		}
		return true
	case *ssa.Convert:
		return c.upper(x.X, atoms, depth+1)
	}
	return false
}

func (c *boundCtx) upperNoAtoms(v ssa.Value) bool {
	return c.lenDerived(v)
}

// lower: v >= 0 can be established.
func (c *boundCtx) lower(v ssa.Value, atoms []Atom, depth int) bool {
	if depth > 8 || v == nil {
		return false
	}
	if cv, ok := constInt(v); ok {
		return cv >= 0
	}
	if lenOf(v) != nil {
		return true
	}
	for _, a := range atoms {
		x, y, op := a.X, a.Y, a.Op
		if y == v {
			x, y, op = y, x, swapOp(op)
		}
		if x == v {
			if k, ok := constInt(y); ok {
				if (op == token.GEQ && k >= 0) || (op == token.GTR && k >= -1) {
					return true
				}
			}
		}
	}
	switch x := v.(type) {
	case *ssa.BinOp:
		if x.Op == token.SUB {
			// x.X - k with x.X > k' (k' >= k-1) or >= k
			if k, ok := constInt(x.Y); ok {
				for _, a := range atoms {
					ax, ay, op := a.X, a.Y, a.Op
					if ay == x.X {
						ax, ay, op = ay, ax, swapOp(op)
					}
					if ax == x.X {
						if kk, ok := constInt(ay); ok {
							if (op == token.GTR && kk >= k-1) || (op == token.GEQ && kk >= k) {
								return true
							}
						}
					}
				}
			}
			// a - b with b <= a known, or a == len(X) exactly and b bounded by len(X)
			for _, a := range atoms {
				ax, ay, op := a.X, a.Y, a.Op
				if ax == x.Y && ay == x.X && (op == token.LSS || op == token.LEQ) {
					return true
				}
				if ax == x.X && ay == x.Y && (op == token.GTR || op == token.GEQ) {
					return true
				}
			}
			if c.isLenOfX(x.X) && c.upper(x.Y, atoms, depth+1) {
				return true
			}
		}
		if x.Op == token.ADD {
			return c.lower(x.X, atoms, depth+1) && c.lower(x.Y, atoms, depth+1)
		}
	case *ssa.Phi:
		for i, e := range x.Edges {
			pred := x.Block().Preds[i]
			if !c.lower(e, edgeAtoms(pred, x.Block()), depth+1) {
				return false
			}
		}
		return true
	case *ssa.Convert:
		return c.lower(x.X, atoms, depth+1)
	}
	if a, b, ok := isMinCall(v); ok {
		return c.lower(a, atoms, depth+1) && c.lower(b, atoms, depth+1)
	}
	return false
}

// ordered: lo <= hi can be established.
func (c *boundCtx) ordered(lo, hi ssa.Value, atoms []Atom) bool {
	if lo == nil {
		return true
	}
	if k, ok := constInt(lo); ok && k == 0 {
		return true
	}
	if hi == nil {
		return c.upper(lo, atoms, 0)
	}
	for _, a := range atoms {
		x, y, op := a.X, a.Y, a.Op
		if x == hi && y == lo {
			x, y, op = y, x, swapOp(op)
		}
		if x == lo && y == hi && (op == token.LEQ || op == token.LSS) {
			return true
		}
	}
	if bo, ok := hi.(*ssa.BinOp); ok && bo.Op == token.ADD {
		if bo.X == lo && c.lower(bo.Y, atoms, 0) {
			return true
		}
		if bo.Y == lo && c.lower(bo.X, atoms, 0) {
			return true
		}
	}
	if kl, ok := constInt(lo); ok {
		if kh, ok := constInt(hi); ok && kl <= kh {
			return true
		}
	}
	return false
}

func ruleUserIdx(p *Prog, r *Result) {
	toInt := p.Func("toInt")
	// renderer closure: functions statically reachable from the Error methods of the error types
	render := map[*ssa.Function]bool{}
	for _, tn := range []string{"SyntaxError", "ExecuteError"} {
		if f := p.MethodByName(tn, "Error"); f != nil {
			for _, g := range p.staticClosure(f, 3, nil) {
				render[g] = true
			}
		} else {
			r.undecided("anchor: (*%s).Error not found", tn)
		}
	}
	isTaintSource := func(fn *ssa.Function) func(ssa.Value) bool {
		return func(v ssa.Value) bool {
			if c, ok := v.(*ssa.Call); ok && toInt != nil && c.Call.StaticCallee() == toInt {
				return true
			}
			if isFieldLoad(v, "NumberExpr", "Int") {
				return true
			}
			if pa, ok := v.(*ssa.Parameter); ok && render[fn] {
				if b, ok := pa.Type().Underlying().(*types.Basic); ok && b.Kind() == types.Int {
					return true
				}
			}
			return false
		}
	}
	tainted := func(fn *ssa.Function, v ssa.Value) bool {
		if v == nil {
			return false
		}
		src := isTaintSource(fn)
		found := false
		p.traceBack(v, traceOpts{ThroughArgs: true, MaxDepth: 3}, func(x ssa.Value) bool {
			if found {
				return false
			}
			if src(x) {
				found = true
				return false
			}
			return true
		})
		if found {
			return true
		}
		return mentions(v, src, 6)
	}
	nSl, nIx := 0, 0
	for _, fn := range p.Funcs {
		si, ii := 0, 0
		allInstrs(fn, func(in ssa.Instruction) {
			switch x := in.(type) {
			case *ssa.Slice:
				if !tainted(fn, x.Low) && !tainted(fn, x.High) && !render[fn] {
					return
				}
				if render[fn] {
					// in the renderer every slice of the query text is in scope
					if b, ok := x.X.Type().Underlying().(*types.Basic); !ok || b.Kind() != types.String {
						return
					}
				}
				nSl++
				si++
				key := fmt.Sprintf("%s|slice#%d", p.FName(fn), si)
				c := &boundCtx{p: p, fn: fn, X: x.X}
				atoms := atomsAt(x.Block())
				bad := ""
				if x.High != nil && !c.upper(x.High, atoms, 0) {
					bad = "the high bound is not bounded by the length of the sliced value"
				}
				if bad == "" && x.Low != nil && !c.lower(x.Low, atoms, 0) {
					bad = "the low bound may be negative"
				}
				if bad == "" && !c.ordered(x.Low, x.High, atoms) {
					bad = "low <= high is not established"
				}
				r.add(bad == "", key, p.InstrPos(x), firstNonEmpty(bad, "bounds established"))
			case *ssa.IndexAddr:
				if !tainted(fn, x.Index) {
					return
				}
				if _, isC := constInt(x.Index); isC {
					return
				}
				if _, isSl := x.X.Type().Underlying().(*types.Slice); !isSl {
					return
				}
				nIx++
				ii++
				key := fmt.Sprintf("%s|index#%d", p.FName(fn), ii)
				c := &boundCtx{p: p, fn: fn, X: x.X}
				okv := false
				for _, a := range atomsAt(x.Block()) {
					ax, ay, op := a.X, a.Y, a.Op
					if ay == x.Index {
						ax, ay, op = ay, ax, swapOp(op)
					}
					if ax == x.Index && op == token.LSS && c.isLenOfX(ay) {
						okv = true
					}
				}
				r.add(okv, key, p.InstrPos(x), "a user-supplied index is used only under index < len(list) (number literals are non-negative: the lexer emits no signed number token)")
			}
		})
	}
	// the EOF sentinel (-1) of an offset parameter is resolved before the offset takes part in any
	// comparison or arithmetic: every such use of the raw parameter (or of a phi still carrying it) is
	// dominated by `param != -1`
	for fn := range render {
		for _, pa := range fn.Params {
			b, ok := pa.Type().Underlying().(*types.Basic)
			if !ok || b.Kind() != types.Int {
				continue
			}
			// does the function test this parameter against -1 at all?
			tests := false
			allInstrs(fn, func(in ssa.Instruction) {
				if bo, ok := in.(*ssa.BinOp); ok && (bo.Op == token.EQL || bo.Op == token.NEQ) && bo.X == ssa.Value(pa) {
					if k, ok := constInt(bo.Y); ok && k == -1 {
						tests = true
					}
				}
			})
			if !tests {
				continue
			}
			carriers := map[ssa.Value]bool{pa: true}
			changed := true
			for changed {
				changed = false
				allInstrs(fn, func(in ssa.Instruction) {
					if ph, ok := in.(*ssa.Phi); ok && !carriers[ph] {
						for i, e := range ph.Edges {
							if !carriers[e] {
								continue
							}
							// an edge on which `param != -1` holds carries a resolved offset
							resolved := false
							for _, a := range edgeAtoms(ph.Block().Preds[i], ph.Block()) {
								if a.Op == token.NEQ && a.X == ssa.Value(pa) {
									if k, ok := constInt(a.Y); ok && k == -1 {
										resolved = true
									}
								}
							}
							if !resolved {
								carriers[ph] = true
								changed = true
							}
						}
					}
				})
			}
			bad := ""
			allInstrs(fn, func(in ssa.Instruction) {
				bo, ok := in.(*ssa.BinOp)
				if !ok || !(carriers[bo.X] || carriers[bo.Y]) {
					return
				}
				if k, ok := constInt(bo.Y); ok && k == -1 && (bo.Op == token.EQL || bo.Op == token.NEQ) {
					return // the sentinel test itself
				}
				guarded := false
				for _, a := range dominatingAtoms(bo.Block()) {
					if a.Op == token.NEQ && a.X == ssa.Value(pa) {
						if k, ok := constInt(a.Y); ok && k == -1 {
							guarded = true
						}
					}
				}
				if !guarded {
					bad = "the offset may still be the EOF sentinel -1 when it is used at " + p.InstrPos(bo)
				}
			})
			r.add(bad == "", fmt.Sprintf("%s|sentinel|%s", p.FName(fn), pa.Name()), p.Pos(fn.Pos()), firstNonEmpty(bad, "the EOF sentinel is resolved before the offset is compared or used in arithmetic"))
		}
	}
	r.note("tainted_slices", nSl)
	r.note("tainted_indexes", nIx)
	r.floor("user-number-driven slice sites", nSl, 3)
	r.floor("user-number-driven index sites", nIx, 4)
}
