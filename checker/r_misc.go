package main

import (
	"fmt"
	"go/constant"
	"go/token"
	"go/types"
	"regexp"
	"strings"

	"golang.org/x/tools/go/ssa"
)

func init() {
	register("CHUNKKEY", "the chunk cache key is built from the alias name and the chunk's first key with a constant separator between them, identically where it is written and where it is read (otherwise entries of different aliases collide)", ruleChunkKey)
	register("LOCKSTEP", "the SELECT parser appends to the field, field-name and field-type lists in lock step (one column per announced name), and the projections evaluate Fields[i], look up FieldNames[i] and fill column i with one and the same i", ruleLockStep)
	register("NOTWRAP", "the unary-expression parser returns a NotExpr node for every `!` it consumes (it never drops or collapses the operator, so the operand type test in NotExpr.Check is always applied)", ruleNotWrap)
	register("RENDER", "canonical rendering: a binary node renders as ( left op right ) with the operator's canonical spelling and operands in order; string literals render their text verbatim between quotes (the language has no escapes); other literals and names render their source text", ruleRender)
}

// flattenConcat lists the leaves of a string concatenation tree in order.
func flattenConcat(v ssa.Value, out *[]ssa.Value) {
	if bo, ok := v.(*ssa.BinOp); ok && bo.Op == token.ADD {
		flattenConcat(bo.X, out)
		flattenConcat(bo.Y, out)
		return
	}
	*out = append(*out, v)
}

var framedFormat = regexp.MustCompile(`%[a-zA-Z][^%]+%[a-zA-Z]`)

// keyLeaves lists, in order, the pieces a composite key is assembled from: string concatenation, append chains
// (a `buf[:0]` start is empty), conversions, a scratch buffer kept in a field (the value last stored into it in
// the same function), package helpers returning the key, and fmt.Sprintf (constant pieces and one variable per verb).
// An opaque piece is reported as nil.
func (p *Prog) keyLeaves(v ssa.Value, depth int) []ssa.Value {
	if depth > 6 || v == nil {
		return []ssa.Value{nil}
	}
	switch x := v.(type) {
	case *ssa.Const:
		return []ssa.Value{x}
	case *ssa.Parameter:
		return []ssa.Value{x}
	case *ssa.Convert:
		return p.keyLeaves(x.X, depth+1)
	case *ssa.ChangeType:
		return p.keyLeaves(x.X, depth+1)
	case *ssa.BinOp:
		if x.Op == token.ADD {
			return append(p.keyLeaves(x.X, depth+1), p.keyLeaves(x.Y, depth+1)...)
		}
	case *ssa.Slice:
		if x.High != nil {
			if c, ok := constInt(x.High); ok && c == 0 {
				return nil // buf[:0]
			}
		}
		return []ssa.Value{nil}
	case *ssa.UnOp:
		if x.Op == token.MUL {
			if o, f, _, ok := fieldOfAddr(x.X); ok && o != nil {
				// the value last stored into this field before the load, in this function
				var last ssa.Value
				fn := x.Parent()
				allInstrs(fn, func(in ssa.Instruction) {
					if st, ok := in.(*ssa.Store); ok {
						if o2, f2, _, ok := fieldOfAddr(st.Addr); ok && o2 == o && f2 == f && instrDominates(st, x) {
							last = st.Val
						}
					}
				})
				if last != nil {
					return p.keyLeaves(last, depth+1)
				}
			}
		}
		return []ssa.Value{x}
	case *ssa.Call:
		if b, ok := x.Call.Value.(*ssa.Builtin); ok && b.Name() == "append" && len(x.Call.Args) == 2 {
			return append(p.keyLeaves(x.Call.Args[0], depth+1), p.keyLeaves(x.Call.Args[1], depth+1)...)
		}
		switch p.calleeName(&x.Call) {
		case "strconv.Itoa", "strconv.FormatInt", "strconv.FormatUint":
			// the decimal text of a length: the piece is that length
			if len(x.Call.Args) > 0 {
				if lv := stripConv(x.Call.Args[0]); lenOf(lv) != nil {
					return []ssa.Value{lv}
				}
			}
			return []ssa.Value{x}
		}
		if p.calleeName(&x.Call) == "fmt.Sprintf" {
			f, ok := constString(x.Call.Args[0])
			if !ok {
				return []ssa.Value{nil}
			}
			// the values behind the verbs: the elements of the variadic argument
			var vargs []ssa.Value
			if len(x.Call.Args) > 1 {
				if sl, ok := x.Call.Args[1].(*ssa.Slice); ok {
					if al, ok := sl.X.(*ssa.Alloc); ok {
						if at, ok := deref(al.Type()).Underlying().(*types.Array); ok {
							vargs = make([]ssa.Value, at.Len())
							for _, ref := range *al.Referrers() {
								if ia, ok := ref.(*ssa.IndexAddr); ok {
									if i, ok := constInt(ia.Index); ok {
										for _, r2 := range *ia.Referrers() {
											if st, ok := r2.(*ssa.Store); ok && int(i) < len(vargs) {
												vargs[i] = stripConv(st.Val)
											}
										}
									}
								}
							}
						}
					}
				}
			}
			var out []ssa.Value
			rest := f
			nverb := 0
			for {
				i := strings.IndexByte(rest, '%')
				if i < 0 || i+1 >= len(rest) {
					break
				}
				if i > 0 {
					out = append(out, ssa.NewConst(constant.MakeString(rest[:i]), types.Typ[types.String]))
				}
				var piece ssa.Value = x // one variable piece per verb
				if nverb < len(vargs) && vargs[nverb] != nil {
					piece = vargs[nverb]
				}
				out = append(out, piece)
				nverb++
				rest = rest[i+2:]
			}
			if rest != "" {
				out = append(out, ssa.NewConst(constant.MakeString(rest), types.Typ[types.String]))
			}
			return out
		}
		if g := x.Call.StaticCallee(); g != nil && p.InPkg(g) && len(g.Blocks) > 0 && g.Signature.Results().Len() == 1 {
			var first []ssa.Value
			n := 0
			for _, b := range g.Blocks {
				if ret := retOf(b); ret != nil {
					n++
					lv := p.keyLeaves(retVal(ret, 0), depth+1)
					if n == 1 {
						first = lv
					} else if len(lv) != len(first) {
						return []ssa.Value{nil}
					}
				}
			}
			if n > 0 {
				return first
			}
		}
		return []ssa.Value{nil}
	}
	return []ssa.Value{v}
}

// keyConstruction describes how a composite string key is built and whether its variable parts are separated.
func (p *Prog) keyConstruction(v ssa.Value) (desc string, framed bool) {
	leaves := p.keyLeaves(v, 0)
	var parts []string
	lastVar, sepSeen, framedOK := -1, false, len(leaves) > 0
	nvars := 0
	for i, l := range leaves {
		if l == nil {
			parts = append(parts, "?")
			framedOK = false
			continue
		}
		if s, ok := constString(l); ok {
			parts = append(parts, fmt.Sprintf("%q", s))
			if s != "" && lastVar >= 0 {
				sepSeen = true
			}
			continue
		}
		// a variable part goes into the key whole: a key cut to its first n bytes lets two chunks whose first keys
		// share those bytes answer for each other
		if cutValue(l, 0) {
			parts = append(parts, "var[cut]")
			framedOK = false
			nvars++
			lastVar = i
			sepSeen = false
			continue
		}
		parts = append(parts, "var")
		nvars++
		if lastVar >= 0 && !sepSeen {
			framedOK = false
		}
		lastVar = i
		sepSeen = false
	}
	if nvars < 2 {
		framedOK = false
	}
	// a separator alone is not enough when the first part can contain it (field names are arbitrary, `n-a`):
	// the first variable part must be preceded by its own length and a constant that is not a digit
	lengthFramed := false
	for i := 0; i+2 < len(leaves); i++ {
		if leaves[i] == nil || leaves[i+2] == nil {
			continue
		}
		lv := lenOf(stripConv(leaves[i]))
		if lv == nil {
			continue
		}
		if sc, ok := constString(leaves[i+1]); !ok || sc == "" || (sc[0] >= '0' && sc[0] <= '9') {
			continue
		}
		if stripConv(leaves[i+2]) == stripConv(lv) {
			lengthFramed = true
		}
	}
	return strings.Join(parts, "+"), framedOK && lengthFramed
}

func ruleChunkKey(p *Prog, r *Result) {
	ct := p.Named("ExecuteCtx")
	if ct == nil {
		r.undecided("anchor: ExecuteCtx not found")
		return
	}
	var descs []string
	n := 0
	for _, fn := range p.methodsOf(ct) {
		allInstrs(fn, func(in ssa.Instruction) {
			var m, k ssa.Value
			switch x := in.(type) {
			case *ssa.Lookup:
				m, k = x.X, x.Index
			case *ssa.MapUpdate:
				m, k = x.Map, x.Key
			default:
				return
			}
			if !p.derivesFromField(m, "ExecuteCtx", "FieldChunkKeyCaches", traceOpts{}) {
				return
			}
			n++
			d, framed := p.keyConstruction(k)
			descs = append(descs, d)
			r.add(framed, fmt.Sprintf("%s|key#%d", p.FName(fn), n), p.InstrPos(in), "chunk cache key "+d+" must give the length of the field name, a constant, the name, a constant and the chunk's first key (a separator alone lets names that contain it collide)")
		})
	}
	same := true
	for _, d := range descs {
		if d != descs[0] {
			same = false
		}
	}
	r.add(same && n > 0, "same-construction", "", fmt.Sprintf("reader and writer build the key the same way: %v", descs))
	r.floor("chunk key cache accesses", n, 3)
}

// ---------------- LOCKSTEP ----------------

func ruleLockStep(p *Prog, r *Result) {
	fn := p.MethodByName("Parser", "parseSelect")
	if fn == nil {
		r.undecided("anchor: (*Parser).parseSelect not found")
		return
	}
	lists := map[string][]*ssa.Call{}
	allInstrs(fn, func(in ssa.Instruction) {
		st, ok := in.(*ssa.Store)
		if !ok {
			return
		}
		o, f, _, ok := fieldOfAddr(st.Addr)
		if !ok || o == nil || o.Obj().Name() != "SelectStmt" {
			return
		}
		if f == "Fields" || f == "FieldNames" || f == "FieldTypes" {
			lists[f] = appendsInto(st.Val)
		}
	})
	if len(lists) != 3 {
		r.undecided("anchor: stores to SelectStmt.Fields/FieldNames/FieldTypes not found (%d)", len(lists))
		return
	}
	blocksOf := func(cs []*ssa.Call) map[*ssa.BasicBlock]int {
		m := map[*ssa.BasicBlock]int{}
		for _, c := range cs {
			m[c.Block()]++
		}
		return m
	}
	bf, bn, bt := blocksOf(lists["Fields"]), blocksOf(lists["FieldNames"]), blocksOf(lists["FieldTypes"])
	okv := len(bf) > 0
	for b, k := range bf {
		if bn[b] != k || bt[b] != k {
			okv = false
		}
	}
	if len(bn) != len(bf) || len(bt) != len(bf) {
		okv = false
	}
	r.add(okv, "parseSelect|appends", p.Pos(fn.Pos()), fmt.Sprintf("fields/fieldNames/fieldTypes are appended together (%d/%d/%d append sites)", len(lists["Fields"]), len(lists["FieldNames"]), len(lists["FieldTypes"])))
	// the type recorded is the appended field's ReturnType
	typeOK := false
	for _, c := range lists["FieldTypes"] {
		for _, e := range appendedElems(c) {
			if call, ok := e.(*ssa.Call); ok && call.Call.IsInvoke() && call.Call.Method.Name() == "ReturnType" {
				for _, fc := range lists["Fields"] {
					for _, fe := range appendedElems(fc) {
						if fe == call.Call.Value && fc.Block() == c.Block() {
							typeOK = true
						}
					}
				}
			}
		}
	}
	r.add(typeOK, "parseSelect|type-of-same-field", p.Pos(fn.Pos()), "the recorded field type is ReturnType() of the field appended in the same step")

	// projections: one index
	for _, mn := range []string{"processProjection", "processProjectionBatch"} {
		pf := p.MethodByName("ProjectionPlan", mn)
		if pf == nil {
			r.undecided("anchor: (*ProjectionPlan).%s not found", mn)
			continue
		}
		var iFields, iNames ssa.Value
		allInstrs(pf, func(in ssa.Instruction) {
			ia, ok := in.(*ssa.IndexAddr)
			if !ok {
				return
			}
			if p.derivesFromField(ia.X, "ProjectionPlan", "Fields", traceOpts{}) {
				iFields = ia.Index
			}
			if p.derivesFromField(ia.X, "ProjectionPlan", "FieldNames", traceOpts{}) {
				iNames = ia.Index
			}
		})
		// the name look-up may sit in a method of the plan that takes the field's index (cachedChunkColumn(i, ctx)):
		// the index it is given at the call is the index the name is consulted under
		if iNames == nil {
			allInstrs(pf, func(in ssa.Instruction) {
				c, ok := in.(*ssa.Call)
				if !ok || iNames != nil {
					return
				}
				g := c.Call.StaticCallee()
				if g == nil || !p.InPkg(g) || g.Signature.Recv() == nil || typeName(deref(g.Signature.Recv().Type())) != "ProjectionPlan" {
					return
				}
				allInstrs(g, func(x ssa.Instruction) {
					ia, ok := x.(*ssa.IndexAddr)
					if !ok || !p.derivesFromField(ia.X, "ProjectionPlan", "FieldNames", traceOpts{}) {
						return
					}
					for k, pa := range g.Params {
						if ia.Index == ssa.Value(pa) && k < len(c.Call.Args) {
							iNames = c.Call.Args[k]
						}
					}
				})
			})
		}
		// destination of the evaluated column: a store into a slice element indexed by the same value
		destOK := false
		allInstrs(pf, func(in ssa.Instruction) {
			st, ok := in.(*ssa.Store)
			if !ok {
				return
			}
			ia, ok := st.Addr.(*ssa.IndexAddr)
			if !ok || ia.Index != iFields {
				return
			}
			if mentions(st.Val, func(v ssa.Value) bool {
				c, ok := v.(*ssa.Call)
				return ok && c.Call.IsInvoke() && (c.Call.Method.Name() == "Execute" || c.Call.Method.Name() == "ExecuteBatch")
			}, 6) {
				destOK = true
			}
		})
		r.add(iFields != nil && iFields == iNames, mn+"|name-index", p.Pos(pf.Pos()), "the cache is consulted under FieldNames[i] for the expression Fields[i]")
		r.add(destOK, mn+"|column-index", p.Pos(pf.Pos()), "the value of Fields[i] is stored in column i")
	}
}

// ---------------- NOTWRAP ----------------

func ruleNotWrap(p *Prog, r *Result) {
	fn := p.MethodByName("Parser", "parseUnaryExpr")
	if fn == nil {
		r.undecided("anchor: (*Parser).parseUnaryExpr not found")
		return
	}
	n := 0
	for _, b := range fn.Blocks {
		ret := retOf(b)
		if ret == nil || len(ret.Results) != 2 {
			continue
		}
		if !isNilConst(retVal(ret, 1)) {
			continue
		}
		inBang := false
		for _, a := range dominatingAtoms(b) {
			if a.Op == token.EQL && isFieldLoad(a.X, "Token", "Data") {
				if s, ok := constString(a.Y); ok && s == "!" {
					inBang = true
				}
			}
		}
		if !inBang {
			continue
		}
		n++
		v := stripConv(retVal(ret, 0))
		al, isAl := v.(*ssa.Alloc)
		okv := isAl && typeName(al.Type()) == "NotExpr"
		if okv {
			// its operand is the recursively parsed expression
			okv = false
			for _, ref := range *al.Referrers() {
				if fa, ok := ref.(*ssa.FieldAddr); ok {
					if _, f, _, _ := fieldOfAddr(fa); f == "Right" {
						for _, r2 := range *fa.Referrers() {
							if st, ok := r2.(*ssa.Store); ok {
								if ex, ok := st.Val.(*ssa.Extract); ok {
									if c, ok := ex.Tuple.(*ssa.Call); ok && c.Call.StaticCallee() == fn {
										okv = true
									}
								}
							}
						}
					}
				}
			}
		}
		r.add(okv, fmt.Sprintf("return#%d", n), p.InstrPos(ret), "after consuming `!` the parser returns a NotExpr wrapping the operand it parsed")
	}
	r.floor("success returns after `!`", n, 1)
}

// ---------------- RENDER ----------------

func ruleRender(p *Prog, r *Result) {
	sprintfIn := func(fn *ssa.Function) []*ssa.Call {
		var out []*ssa.Call
		allInstrs(fn, func(in ssa.Instruction) {
			if c, ok := in.(*ssa.Call); ok && p.calleeName(&c.Call) == "fmt.Sprintf" {
				out = append(out, c)
			}
		})
		return out
	}
	variadic := func(c *ssa.Call) []ssa.Value {
		if len(c.Call.Args) < 2 {
			return nil
		}
		sl, ok := c.Call.Args[1].(*ssa.Slice)
		if !ok {
			return nil
		}
		al, ok := sl.X.(*ssa.Alloc)
		if !ok {
			return nil
		}
		at, ok := deref(al.Type()).Underlying().(*types.Array)
		if !ok {
			return nil
		}
		out := make([]ssa.Value, at.Len())
		for _, ref := range *al.Referrers() {
			if ia, ok := ref.(*ssa.IndexAddr); ok {
				if i, ok := constInt(ia.Index); ok {
					for _, r2 := range *ia.Referrers() {
						if st, ok := r2.(*ssa.Store); ok {
							out[i] = stripConv(st.Val)
						}
					}
				}
			}
		}
		return out
	}
	// string literal
	if fn := p.MethodByName("StringExpr", "String"); fn != nil {
		okv := false
		for _, c := range sprintfIn(fn) {
			f, _ := constString(c.Call.Args[0])
			args := variadic(c)
			if (f == "'%s'" || f == "\"%s\"") && len(args) == 1 && isFieldLoad(args[0], "StringExpr", "Data") {
				okv = true
			}
		}
		r.add(okv, "StringExpr", p.Pos(fn.Pos()), "a string literal renders as quote + Data verbatim + quote (no escaping exists in the language)")
	} else {
		r.undecided("anchor: (*StringExpr).String not found")
	}
	for _, tn := range []string{"NumberExpr", "FloatExpr", "BoolExpr", "NameExpr"} {
		fn := p.MethodByName(tn, "String")
		if fn == nil {
			r.undecided("anchor: (*%s).String not found", tn)
			continue
		}
		okv := false
		for _, b := range fn.Blocks {
			if ret := retOf(b); ret != nil && isFieldLoad(retVal(ret, 0), tn, "Data") {
				okv = true
			}
		}
		for _, c := range sprintfIn(fn) {
			f, _ := constString(c.Call.Args[0])
			args := variadic(c)
			if f == "%s" && len(args) == 1 && isFieldLoad(args[0], tn, "Data") {
				okv = true
			}
		}
		r.add(okv, tn, p.Pos(fn.Pos()), tn+" renders its source text verbatim")
		if tn == "NameExpr" {
			// a name can be any text (everything between backticks is taken verbatim): it is printed bare only behind
			// a test that asks the lexer whether the bare text reads back as a name, and in backticks otherwise
			asksLexer := false
			for g := range p.Reach([]*ssa.Function{fn}, nil) {
				if g.Name() == "Split" || g.Name() == "buildToken" {
					asksLexer = true
				}
			}
			quoted := false
			for _, c := range sprintfIn(fn) {
				f, _ := constString(c.Call.Args[0])
				args := variadic(c)
				if f == "`%s`" && len(args) == 1 && isFieldLoad(args[0], tn, "Data") {
					quoted = true
				}
			}
			// (the back-quoted form may also be a concatenation "`" + Data + "`")
			for _, b := range fn.Blocks {
				ret := retOf(b)
				if ret == nil {
					continue
				}
				ticks, data := 0, false
				var leaves func(v ssa.Value, d int)
				leaves = func(v ssa.Value, d int) {
					if bo, ok := v.(*ssa.BinOp); ok && bo.Op == token.ADD && d < 4 {
						leaves(bo.X, d+1)
						leaves(bo.Y, d+1)
						return
					}
					if sc, ok := constString(v); ok && sc == "`" {
						ticks++
					}
					if isFieldLoad(v, tn, "Data") {
						data = true
					}
				}
				leaves(retVal(ret, 0), 0)
				if ticks == 2 && data {
					quoted = true
				}
			}
			bareUnconditional := false
			for _, b := range fn.Blocks {
				ret := retOf(b)
				if ret == nil {
					continue
				}
				bare := isFieldLoad(retVal(ret, 0), tn, "Data")
				if c, ok := retVal(ret, 0).(*ssa.Call); ok && p.calleeName(&c.Call) == "fmt.Sprintf" {
					if f, _ := constString(c.Call.Args[0]); f == "%s" {
						bare = true
					}
				}
				if bare && len(dominatingAtoms(b)) == 0 {
					bareUnconditional = true
				}
			}
			// ... and printing has no memory: the answer depends on the spelling of this very name, so nothing
			// reachable from the method keeps state between calls (a cache keyed by a folded form of the name
			// answers for another spelling)
			stateful := ""
			for _, g := range p.staticClosure(fn, 4, nil) {
				if !p.InPkg(g) {
					continue
				}
				allInstrs(g, func(in ssa.Instruction) {
					switch x := in.(type) {
					case *ssa.Call:
						if n := p.calleeName(&x.Call); strings.HasPrefix(n, "(*sync.Map).") {
							stateful = n + " at " + p.InstrPos(in)
						}
					case *ssa.Store:
						if _, isG := x.Addr.(*ssa.Global); isG {
							stateful = "store to a package variable at " + p.InstrPos(in)
						}
					case *ssa.MapUpdate:
						if u, ok := x.Map.(*ssa.UnOp); ok {
							if _, isG := u.X.(*ssa.Global); isG {
								stateful = "update of a package-level map at " + p.InstrPos(in)
							}
						}
					}
				})
			}
			r.add(stateful == "", tn+"|stateless", p.Pos(fn.Pos()), firstNonEmpty(stateful, "printing a name keeps no state between calls"))
			r.add(asksLexer && quoted && !bareUnconditional, tn+"|quoted", p.Pos(fn.Pos()), "a name is printed bare only behind a test that asks the lexer whether the bare text reads back as this name, and between backticks otherwise (`KEY`, `a b`, `1`, `in` are names whose bare text reads back as something else)")
		}
	}
	// binary node
	if fn := p.MethodByName("BinaryOpExpr", "String"); fn != nil {
		n, bad := 0, ""
		betweenOp, hasBetween := p.constOf("Between")
		for _, c := range sprintfIn(fn) {
			f, _ := constString(c.Call.Args[0])
			args := variadic(c)
			if strings.Count(f, "%s") != 3 || len(args) != 3 {
				continue
			}
			n++
			if !strings.HasPrefix(f, "(") || !strings.HasSuffix(f, ")") {
				bad = "binary expression is not rendered fully parenthesised"
			}
			isStringOf := func(v ssa.Value, field string) bool {
				c, ok := v.(*ssa.Call)
				return ok && c.Call.IsInvoke() && c.Call.Method.Name() == "String" && p.derivesFromField(c.Call.Value, "BinaryOpExpr", field, traceOpts{})
			}
			if !isStringOf(args[0], "Left") {
				bad = "first rendered operand is not Left"
			}
			if strings.Contains(f, "BETWEEN") {
				// the special form is chosen by the operator, not by the shape of the right operand (`x in (a, b)` has a two-element list too)
				guarded := false
				for _, a := range dominatingAtoms(c.Block()) {
					if a.Op != token.EQL {
						continue
					}
					if s, ok := constString(a.Y); ok && s == "between" {
						if _, isLk := a.X.(*ssa.Lookup); isLk {
							guarded = true
						}
					}
					if k, ok := constInt(a.Y); ok && hasBetween && k == betweenOp && isFieldLoad(a.X, "BinaryOpExpr", "Op") {
						guarded = true
					}
				}
				if !guarded {
					bad = "the BETWEEN form is not chosen by the operator being between"
				}
				continue
			}
			if !isStringOf(args[2], "Right") {
				bad = "last rendered operand is not Right"
			}
			// operator spelling from OperatorToString[e.Op]
			okOp := false
			backward(args[1], func(v ssa.Value) bool {
				if lk, ok := v.(*ssa.Lookup); ok {
					if derivesFrom(lk.X, func(x ssa.Value) bool { g, ok := x.(*ssa.Global); return ok && g.Name() == "OperatorToString" }) && isFieldLoad(lk.Index, "BinaryOpExpr", "Op") {
						okOp = true
					}
					return false
				}
				return true
			})
			if !okOp {
				bad = "the rendered operator is not OperatorToString[e.Op]"
			}
		}
		if n == 0 {
			bad = "no three-part rendering found"
		}
		r.add(bad == "", "BinaryOpExpr", p.Pos(fn.Pos()), firstNonEmpty(bad, "binary nodes render as (Left op Right) with the canonical operator spelling"))
	} else {
		r.undecided("anchor: (*BinaryOpExpr).String not found")
	}
	if fn := p.MethodByName("NotExpr", "String"); fn != nil {
		okv := false
		for _, c := range sprintfIn(fn) {
			f, _ := constString(c.Call.Args[0])
			if strings.HasPrefix(f, "!") && strings.Count(f, "%s") == 1 {
				okv = true
			}
		}
		r.add(okv, "NotExpr", p.Pos(fn.Pos()), "a negation renders with a leading `!`")
	}
}

// cutValue: v is (on some way) a sub-slice of another value.
func cutValue(v ssa.Value, d int) bool {
	if d > 5 {
		return false
	}
	v = stripConv(v)
	switch x := v.(type) {
	case *ssa.Slice:
		return x.Low != nil || x.High != nil
	case *ssa.Phi:
		for _, e := range x.Edges {
			if cutValue(e, d+1) {
				return true
			}
		}
	}
	return false
}
