package main

import (
	"fmt"
	"go/token"
	"go/types"

	"golang.org/x/tools/go/ssa"
)

func init() {
	register("CONSUMED", "offset skipping in batch mode: the skipped-rows counter is advanced by the full length of a fetched batch only under the strict guard len(batch) < remaining (so the batch can never reach the emit loop); `remaining` is recomputed from the counter inside the loop; the partial branch advances the counter by `remaining` and continues with batch[remaining:]", ruleConsumed)
	register("LIMITGATE", "a plan with a pushed-down limit returns the raw, unlimited child rows only under the test Limit < 0 (nothing else may bypass offset/count handling)", ruleLimitGate)
	register("LIMITMAP", "`limit n` stores n as Count; `limit s, n` stores s as Start and n as Count; every plan constructor puts stmt.Limit.Start into its offset field and stmt.Limit.Count into its count field (defaults 0 / -1 for the aggregate push-down)", ruleLimitMap)
	register("FETCHLOOPEND", "every loop that pulls rows from a child plan, a cursor or the aggregate emitter leaves the loop when the fetch reports end of stream (empty batch / nil row): otherwise an exhausted child makes the statement spin forever", ruleFetchLoopEnd)
}

// fieldStoreAdd: st stores (load recv.F) + delta into recv.F; returns field name and delta.
func fieldStoreAdd(st *ssa.Store) (owner *types.Named, field string, delta ssa.Value, ok bool) {
	o, f, base, isF := fieldOfAddr(st.Addr)
	if !isF {
		return nil, "", nil, false
	}
	bo, isB := st.Val.(*ssa.BinOp)
	if !isB || bo.Op != token.ADD {
		return nil, "", nil, false
	}
	for _, pair := range [][2]ssa.Value{{bo.X, bo.Y}, {bo.Y, bo.X}} {
		if o2, f2, b2, isL := loadedField(pair[0]); isL && o2 == o && f2 == f && b2 == base {
			return o, f, pair[1], true
		}
	}
	return nil, "", nil, false
}

func lenOf(v ssa.Value) ssa.Value {
	c, ok := v.(*ssa.Call)
	if !ok {
		return nil
	}
	if b, ok := c.Call.Value.(*ssa.Builtin); ok && b.Name() == "len" {
		return c.Call.Args[0]
	}
	return nil
}

func ruleConsumed(p *Prog, r *Result) {
	plans, finals, err := p.planTypes()
	if err != nil {
		r.undecided("%v", err)
		return
	}
	n := 0
	for _, t := range append(append([]*types.Named{}, plans...), finals...) {
		for _, fn := range p.methodsOf(t) {
			loops := naturalLoops(fn)
			// find stores  recv.A += len(R)  with R fetched
			allInstrs(fn, func(in ssa.Instruction) {
				st, ok := in.(*ssa.Store)
				if !ok {
					return
				}
				_, fld, delta, ok := fieldStoreAdd(st)
				if !ok {
					return
				}
				R := lenOf(delta)
				if R == nil || !isFetched(p, R) {
					return
				}
				n++
				key := fmt.Sprintf("%s|%s+=len(batch)", p.FName(fn), fld)
				pos := p.InstrPos(st)
				// the guard: an atom relating delta (=len R) with rest = Start - A
				var rest ssa.Value
				strict := false
				found := false
				for _, a := range dominatingAtoms(st.Block()) {
					x, y, op := a.X, a.Y, a.Op
					// len(rows) is evaluated anew wherever it is written: any len of the same fetched slice
					isDelta := func(v ssa.Value) bool { return v == delta || (lenOf(v) != nil && lenOf(v) == R) }
					if isDelta(y) {
						x, y, op = y, x, swapOp(op)
					}
					if !isDelta(x) {
						continue
					}
					sub, isSub := y.(*ssa.BinOp)
					if !isSub || sub.Op != token.SUB {
						continue
					}
					if _, f2, _, isL := loadedField(sub.Y); !isL || f2 != fld {
						continue
					}
					found = true
					rest = y
					if op == token.LSS {
						strict = true
					}
				}
				if !found {
					r.hit(key, pos, "the skipped-rows counter is advanced by a whole fetched batch without a guard comparing the batch length with the remaining offset")
					return
				}
				if !strict {
					r.hit(key, pos, "guard admits len(batch) == remaining: the counter then reaches the offset, the skip loop ends, and the batch just counted as skipped flows into the emit loop (rows 0.. are returned instead of rows offset..)")
				} else {
					r.ok(key, pos, "full-batch skip only under len(batch) < remaining")
				}
				// rest recomputed inside the skip loop
				var L *Loop
				for _, l := range loops {
					if l.Body[st.Block()] && (L == nil || len(l.Body) < len(L.Body)) {
						L = l
					}
				}
				restIn, isI := rest.(ssa.Instruction)
				if L == nil || !isI {
					r.hit(key+"|fresh", pos, "skip step is not inside a loop")
					return
				}
				r.add(L.Body[restIn.Block()], key+"|fresh", p.InstrPos(restIn), "remaining = offset - skipped must be recomputed in every iteration of the skip loop (a value hoisted out of the loop is stale after the first batch)")
				// partial branch: A += rest and R[rest:]
				okInc, okSlice := false, false
				allInstrs(fn, func(in2 ssa.Instruction) {
					if st2, ok := in2.(*ssa.Store); ok {
						if _, f2, d2, ok := fieldStoreAdd(st2); ok && f2 == fld && d2 == rest {
							okInc = true
						}
						// skipped + (offset - skipped) written as what it is: skipped = offset
						if _, f2, _, ok := fieldOfAddr(st2.Addr); ok && f2 == fld {
							if sub, isSub := rest.(*ssa.BinOp); isSub {
								_, fo, _, ok1 := loadedField(sub.X)
								_, fv, _, ok2 := loadedField(st2.Val)
								if ok1 && ok2 && fo == fv {
									okInc = true
								}
							}
						}
					}
					if sl, ok := in2.(*ssa.Slice); ok && sl.Low == rest && sl.High == nil && derivesFromNoElem(sl.X, func(x ssa.Value) bool { return x == R }) {
						okSlice = true
					}
				})
				r.add(okInc, key+"|partial-count", pos, "the partial branch advances the counter by exactly `remaining`")
				r.add(okSlice, key+"|partial-slice", pos, "the partial branch continues with batch[remaining:]")
			})
		}
	}
	r.note("skip_sites", n)
	r.floor("batch-skip sites", n, 3)
}

// ---------------- LIMITGATE ----------------

func ruleLimitGate(p *Prog, r *Result) {
	_, finals, err := p.planTypes()
	if err != nil {
		r.undecided("%v", err)
		return
	}
	n := 0
	for _, t := range finals {
		st, ok := t.Underlying().(*types.Struct)
		if !ok {
			continue
		}
		hasLimit := false
		for i := 0; i < st.NumFields(); i++ {
			if st.Field(i).Name() == "Limit" {
				hasLimit = true
			}
		}
		if !hasLimit {
			continue
		}
		for _, mn := range []string{"Next", "Batch"} {
			fn := p.Method(t, mn)
			if fn == nil {
				continue
			}
			// returns that forward a same-type method's results directly (raw rows)
			for _, b := range fn.Blocks {
				ret := retOf(b)
				if ret == nil || len(ret.Results) != 2 {
					continue
				}
				ex, ok := retVal(ret, 0).(*ssa.Extract)
				if !ok {
					continue
				}
				c, ok := ex.Tuple.(*ssa.Call)
				if !ok || c.Block() != b {
					continue
				}
				callee := c.Call.StaticCallee()
				if callee == nil || callee.Signature.Recv() == nil || namedOf(callee.Signature.Recv().Type()) != t {
					continue
				}
				ex1, ok := retVal(ret, 1).(*ssa.Extract)
				if !ok || ex1.Tuple != ex.Tuple {
					continue
				}
				n++
				key := fmt.Sprintf("%s|raw-return", p.FName(fn))
				gated := false
				for _, a := range dominatingAtoms(b) {
					if a.Op == token.LSS && isFieldLoad(a.X, t.Obj().Name(), "Limit") {
						if c, ok := constInt(a.Y); ok && c == 0 {
							gated = true
						}
					}
				}
				r.add(gated, key, p.InstrPos(ret), "returning the unlimited rows of "+p.FName(callee)+" must be conditional on Limit < 0 alone")
			}
		}
	}
	r.floor("raw-row returns in limit-carrying plans", n, 2)
}

// ---------------- LIMITMAP ----------------

func ruleLimitMap(p *Prog, r *Result) {
	// parser side: stores to LimitStmt.Start / .Count
	nParser := 0
	for _, fn := range p.Funcs {
		allInstrs(fn, func(in ssa.Instruction) {
			st, ok := in.(*ssa.Store)
			if !ok {
				return
			}
			o, f, _, ok := fieldOfAddr(st.Addr)
			if !ok || o == nil || o.Obj().Name() != "LimitStmt" || (f != "Start" && f != "Count") {
				return
			}
			// which literal index feeds it, and under which len(exprs) == k
			idx := int64(-1)
			var sliceV ssa.Value
			backward(st.Val, func(x ssa.Value) bool {
				if ia, ok := x.(*ssa.IndexAddr); ok {
					if c, ok := constInt(ia.Index); ok {
						idx = c
						sliceV = ia.X
					}
					return false
				}
				return true
			})
			if idx < 0 {
				if _, isC := st.Val.(*ssa.Const); isC {
					return // zero initialisation of a literal
				}
				r.hit(fmt.Sprintf("parse|%s|%s", p.FName(fn), f), p.InstrPos(st), "LimitStmt."+f+" is not taken from a literal position of the parsed number list")
				return
			}
			nParser++
			lenK := int64(-1)
			for _, a := range dominatingAtoms(st.Block()) {
				if a.Op != token.EQL {
					continue
				}
				if lv := lenOf(a.X); lv != nil && sharesRoot(lv, sliceV) {
					if c, ok := constInt(a.Y); ok {
						lenK = c
					}
				}
			}
			key := fmt.Sprintf("parse|%s|%s<-numbers[%d]|n=%d", p.FName(fn), f, idx, lenK)
			want := (f == "Count" && ((lenK == 1 && idx == 0) || (lenK == 2 && idx == 1))) || (f == "Start" && lenK == 2 && idx == 0)
			r.add(want, key, p.InstrPos(st), "limit n => Count=n; limit s,n => Start=s, Count=n")
		})
	}
	r.floor("LimitStmt field stores in the parser", nParser, 3)
	// plan side
	type tgt struct{ typ, field, src string }
	targets := []tgt{
		{"FinalLimitPlan", "Start", "Start"}, {"FinalLimitPlan", "Count", "Count"},
		{"LimitPlan", "Start", "Start"}, {"LimitPlan", "Count", "Count"},
		{"AggregatePlan", "Start", "Start"}, {"AggregatePlan", "Limit", "Count"},
	}
	for _, tg := range targets {
		nst := 0
		for _, fn := range p.Funcs {
			allInstrs(fn, func(in ssa.Instruction) {
				st, ok := in.(*ssa.Store)
				if !ok {
					return
				}
				o, f, _, ok := fieldOfAddr(st.Addr)
				if !ok || o == nil || o.Obj().Name() != tg.typ || f != tg.field {
					return
				}
				nst++
				key := fmt.Sprintf("plan|%s|%s.%s", p.FName(fn), tg.typ, tg.field)
				// all non-constant sources must be loads of LimitStmt.<src>
				bad := ""
				good := false
				backward(st.Val, func(x ssa.Value) bool {
					switch y := x.(type) {
					case *ssa.Const:
						return false
					case *ssa.Phi, *ssa.Convert, *ssa.ChangeType:
						return true
					case *ssa.UnOp:
						if o2, f2, _, ok := loadedField(y); ok && o2 != nil && o2.Obj().Name() == "LimitStmt" {
							if f2 == tg.src {
								good = true
							} else {
								bad = "takes LimitStmt." + f2
							}
							return false
						}
						bad = "value not derived from the LIMIT clause"
						return false
					default:
						bad = "value not derived from the LIMIT clause"
						return false
					}
				})
				r.add(bad == "" && good, key, p.InstrPos(st), fmt.Sprintf("%s.%s must receive stmt.Limit.%s %s", tg.typ, tg.field, tg.src, bad))
			})
		}
		if nst == 0 {
			r.hit(fmt.Sprintf("plan|%s.%s|never-set", tg.typ, tg.field), "", "field is never initialised from the LIMIT clause")
		}
	}
}

// ---------------- FETCHLOOPEND ----------------

// isRowFetch: a call that pulls the next row/batch: Plan/FinalPlan Next|Batch, Cursor.Next,
// or a same-package method returning (rows, error) used as the aggregate emitter.
func isRowFetch(p *Prog, c *ssa.Call) bool {
	if c.Call.IsInvoke() {
		tn := typeName(c.Call.Value.Type())
		m := c.Call.Method.Name()
		return ((tn == "Plan" || tn == "FinalPlan") && (m == "Next" || m == "Batch")) || (tn == "Cursor" && m == "Next")
	}
	f := c.Call.StaticCallee()
	if f == nil || !p.InPkg(f) || f.Signature.Recv() == nil {
		return false
	}
	if f.Name() != "next" && f.Name() != "batch" {
		return false
	}
	rn := namedOf(f.Signature.Recv().Type())
	plans, finals, _ := p.planTypes()
	for _, t := range append(append([]*types.Named{}, plans...), finals...) {
		if t == rn {
			return true
		}
	}
	return false
}

func ruleFetchLoopEnd(p *Prog, r *Result) {
	n := 0
	for _, fn := range p.Funcs {
		loops := naturalLoops(fn)
		li := 0
		for _, L := range loops {
			var fetches []*ssa.Call
			for _, b := range orderedBlocks(fn, L.Body) {
				for _, in := range b.Instrs {
					if c, ok := in.(*ssa.Call); ok && isRowFetch(p, c) {
						// only fetches whose innermost loop is L
						inner := true
						for _, L2 := range loops {
							if L2 != L && L2.Body[b] && len(L2.Body) < len(L.Body) {
								inner = false
							}
						}
						if inner {
							fetches = append(fetches, c)
						}
					}
				}
			}
			for _, c := range fetches {
				n++
				li++
				key := fmt.Sprintf("%s|fetch#%d|%s", p.FName(fn), li, callDesc(p, c))
				first := extractOf(c, 0)
				if first == nil {
					r.hit(key, p.InstrPos(c), "rows of the fetch are discarded")
					continue
				}
				// an exit edge (or return) inside the loop guarded by: first == nil, or len(first) == 0
				ended := false
				for _, b := range orderedBlocks(fn, L.Body) {
					for si := range b.Succs {
						a, ok := edgeAtom(b, si)
						if !ok {
							continue
						}
						isEnd := false
						if a.Op == token.EQL {
							if a.X == first && isNilConst(a.Y) {
								isEnd = true
							}
							if lv := lenOf(a.X); lv != nil && derivesFromNoElem(lv, func(x ssa.Value) bool { return x == first }) {
								if c0, ok := constInt(a.Y); ok && c0 == 0 {
									isEnd = true
								}
							}
						}
						if !isEnd {
							continue
						}
						// the edge must leave the loop, possibly through further `other result == nil`
						// tests of the same fetch (the repo's `k == nil && v == nil && err == nil` idiom)
						cur := b.Succs[si]
						for steps := 0; steps < 6; steps++ {
							if !L.Body[cur] || retOf(cur) != nil {
								ended = true
								break
							}
							if len(cur.Succs) == 1 {
								cur = cur.Succs[0]
								continue
							}
							next := -1
							for sj := range cur.Succs {
								a2, ok2 := edgeAtom(cur, sj)
								if !ok2 || a2.Op != token.EQL || !isNilConst(a2.Y) {
									continue
								}
								if ex, isEx := a2.X.(*ssa.Extract); isEx && ex.Tuple == ssa.Value(c) {
									next = sj
								}
							}
							if next < 0 {
								break
							}
							cur = cur.Succs[next]
						}
					}
				}
				r.add(ended, key, p.InstrPos(c), "loop must stop when the fetch returns no rows")
			}
		}
	}
	r.note("fetches_in_loops", n)
	r.floor("row fetches inside loops", n, 12)
}
