package main

import (
	"fmt"
	"go/constant"
	"go/token"
	"go/types"
	"sort"
	"strings"

	"golang.org/x/tools/go/ssa"
)

func init() {
	register("CARETALIGN", "the caret is re-based together with the text it points into (outputQueryAndErrPos): over all ways the shown stretch of the query is chosen, `caret offset + number of bytes cut off on the left` is one and the same value (a stretch cut at `trim` shifts the offset by exactly `trim`), and over all ways the line's prefix is chosen, `caret column - length of the prefix` is one and the same value (a `... ` marker shifts the caret by its own length)", ruleCaretAlign)
}

// ---------------- CARETALIGN ----------------

// lin is a linear form over SSA values: sum coef[v]*v + k.
type lin struct {
	coef map[ssa.Value]int64
	k    int64
}

func linOf(v ssa.Value, depth int) lin {
	out := lin{coef: map[ssa.Value]int64{}}
	var rec func(v ssa.Value, sign int64, d int)
	rec = func(v ssa.Value, sign int64, d int) {
		if c, ok := constInt(v); ok {
			out.k += sign * c
			return
		}
		if bo, ok := v.(*ssa.BinOp); ok && d < depth {
			switch bo.Op {
			case token.ADD:
				rec(bo.X, sign, d+1)
				rec(bo.Y, sign, d+1)
				return
			case token.SUB:
				rec(bo.X, sign, d+1)
				rec(bo.Y, -sign, d+1)
				return
			}
		}
		out.coef[v] += sign
		if out.coef[v] == 0 {
			delete(out.coef, v)
		}
	}
	rec(v, 1, 0)
	return out
}

func (a lin) plus(b lin, sign int64) lin {
	out := lin{coef: map[ssa.Value]int64{}, k: a.k + sign*b.k}
	for v, c := range a.coef {
		out.coef[v] = c
	}
	for v, c := range b.coef {
		out.coef[v] += sign * c
		if out.coef[v] == 0 {
			delete(out.coef, v)
		}
	}
	return out
}

func (a lin) String() string {
	var parts []string
	for v, c := range a.coef {
		parts = append(parts, fmt.Sprintf("%+d*%s", c, v.Name()))
	}
	sort.Strings(parts)
	return fmt.Sprintf("%s%+d", strings.Join(parts, ""), a.k)
}

func ruleCaretAlign(p *Prog, r *Result) {
	fn := p.Func("outputQueryAndErrPos")
	if fn == nil {
		r.undecided("anchor: outputQueryAndErrPos not found")
		return
	}
	// the caret loop: `for i := 0; i < E; i++ { ret += " " }` -- the loop whose body appends a one-blank constant
	E := blankLoopBound(p, fn)
	if E == nil {
		// the blanks may come from a helper: a package function with one int parameter that appends a blank
		// per iteration up to that parameter, or strings.Repeat(" ", n)
		allInstrs(fn, func(in ssa.Instruction) {
			c, ok := in.(*ssa.Call)
			if !ok || E != nil {
				return
			}
			g := c.Call.StaticCallee()
			if g == nil {
				return
			}
			if p.qualName(g) == "strings.Repeat" && len(c.Call.Args) == 2 {
				if sp, ok := constString(c.Call.Args[0]); ok && sp == " " {
					E = c.Call.Args[1]
				}
				return
			}
			if !p.InPkg(g) || len(g.Params) != 1 || len(c.Call.Args) != 1 {
				return
			}
			if bound := blankLoopBound(p, g); bound != nil && bound == ssa.Value(g.Params[0]) {
				E = c.Call.Args[0]
			}
		})
	}
	if E == nil {
		r.undecided("anchor: the caret loop (`i < errPos`, appending blanks) was not found in outputQueryAndErrPos")
		return
	}
	// the shown text T and its prefix X: the string concatenation `X + T` where T derives from strings.TrimSpace(query)
	fromTrim := func(v ssa.Value) bool {
		seen := map[ssa.Value]bool{}
		var rec func(v ssa.Value) bool
		rec = func(v ssa.Value) bool {
			if seen[v] {
				return false
			}
			seen[v] = true
			switch x := v.(type) {
			case *ssa.Call:
				g := x.Call.StaticCallee()
				return g != nil && (p.qualName(g) == "strings.TrimSpace" || p.qualName(g) == "strings.Trim")
			case *ssa.Slice:
				return rec(x.X)
			case *ssa.Phi:
				for _, e := range x.Edges {
					if rec(e) {
						return true
					}
				}
			}
			return false
		}
		return rec(v)
	}
	var T, X ssa.Value
	allInstrs(fn, func(in ssa.Instruction) {
		bo, ok := in.(*ssa.BinOp)
		if !ok || bo.Op != token.ADD {
			return
		}
		if bt, isB := bo.Type().Underlying().(*types.Basic); !isB || bt.Kind() != types.String {
			return
		}
		if fromTrim(bo.Y) && !fromTrim(bo.X) {
			T, X = bo.Y, bo.X
		}
	})
	if T == nil {
		r.undecided("anchor: the concatenation `prefix + shown text` was not found in outputQueryAndErrPos")
		return
	}
	// (0) the renderer and the lexer agree on what a blank is: the shown text is the query without the blanks at
	// its ends, and an offset is an offset into the query as the lexer read it. The lexer separates words at its
	// own set of (ASCII) blanks and takes every other byte as part of a word, so the renderer trims exactly that
	// set - strings.TrimSpace also removes the Unicode blanks, which the lexer reports as (part of) a token
	if split := p.MethodByName("Lexer", "Split"); split != nil {
		lexBlanks := map[byte]bool{}
		allInstrs(split, func(in ssa.Instruction) {
			if bo, ok := in.(*ssa.BinOp); ok && bo.Op == token.EQL {
				if k, ok := constInt(bo.Y); ok && (k == ' ' || (k >= 9 && k <= 13)) {
					lexBlanks[byte(k)] = true
				}
			}
		})
		trimOK, trimDesc := false, "no trimming call found"
		allInstrs(fn, func(in ssa.Instruction) {
			c, ok := in.(*ssa.Call)
			if !ok {
				return
			}
			switch p.calleeName(&c.Call) {
			case "strings.TrimSpace":
				trimDesc = "strings.TrimSpace at " + p.InstrPos(c) + " (removes the Unicode blanks too)"
			case "strings.Trim":
				if cs, ok := constString(c.Call.Args[1]); ok {
					set := map[byte]bool{}
					for i := 0; i < len(cs); i++ {
						set[cs[i]] = true
					}
					same := len(set) == len(lexBlanks)
					for b := range lexBlanks {
						if !set[b] {
							same = false
						}
					}
					trimDesc = fmt.Sprintf("strings.Trim(.., %q) at %s", cs, p.InstrPos(c))
					if same {
						trimOK = true
					}
				}
			}
		})
		r.add(trimOK && len(lexBlanks) > 0, "trim-set", p.Pos(fn.Pos()), fmt.Sprintf("the shown text is the query trimmed by exactly the %d blank characters the lexer separates words at: %s", len(lexBlanks), trimDesc))
	}
	// (1) prefix pairing: expand X and E in lock-step
	type pe struct {
		x, e ssa.Value
	}
	var pairs []pe
	var expandXE func(x, e ssa.Value, d int)
	expandXE = func(x, e ssa.Value, d int) {
		xp, xok := x.(*ssa.Phi)
		ep, eok := e.(*ssa.Phi)
		switch {
		case d > 6:
			pairs = append(pairs, pe{x, e})
		case xok && eok && xp.Block() == ep.Block():
			for k := range xp.Edges {
				expandXE(xp.Edges[k], ep.Edges[k], d+1)
			}
		case xok:
			for k := range xp.Edges {
				expandXE(xp.Edges[k], e, d+1)
			}
		case eok:
			for k := range ep.Edges {
				expandXE(x, ep.Edges[k], d+1)
			}
		default:
			pairs = append(pairs, pe{x, e})
		}
	}
	expandXE(X, E, 0)
	var ref *lin
	okPrefix := true
	var forms []string
	for _, q := range pairs {
		s, isC := constString(q.x)
		if !isC {
			okPrefix = false
			forms = append(forms, "prefix is not a constant")
			continue
		}
		l := linOf(q.e, 6)
		l.k -= int64(len(s))
		forms = append(forms, fmt.Sprintf("%q: %s", s, l))
		if ref == nil {
			ref = &l
		} else if ref.plus(l, -1).String() != "+0" {
			okPrefix = false
		}
	}
	r.add(okPrefix && len(pairs) > 0, "prefix", p.Pos(fn.Pos()), fmt.Sprintf("caret column minus the length of the line's prefix is the same on every way the prefix is chosen (%s)", strings.Join(forms, "; ")))
	if ref == nil {
		return
	}
	// (2) window pairing: the offset variable P inside the caret column, expanded in lock-step with T
	var P ssa.Value
	for v, c := range ref.coef {
		if _, isParam := v.(*ssa.Parameter); isParam {
			continue
		}
		if c == 1 && P == nil {
			P = v
		} else {
			P = nil
			break
		}
	}
	if P == nil {
		// the offset may be the parameter itself (no re-basing at all)
		for v, c := range ref.coef {
			if pa, isParam := v.(*ssa.Parameter); isParam && c == 1 && len(fn.Params) > 1 && pa == fn.Params[1] {
				P = v
			}
		}
	}
	if P == nil {
		r.undecided("the caret column %s is not `offset + constants/parameters`", ref)
		return
	}
	// (1b) re-basing: what is taken off the caller's offset to make it an offset into the shown (trimmed) text is
	// computed from that text - strings.Index(query, trimmed), or a difference of lengths of the query and a trimmed
	// form of it - not by a separate count of blanks, which has to agree with TrimSpace on what a blank is
	{
		leafSet := map[ssa.Value]bool{}
		seenV := map[ssa.Value]bool{}
		var collect func(v ssa.Value, d int)
		onStack := map[ssa.Value]bool{}
		collect = func(v ssa.Value, d int) {
			if onStack[v] {
				// a loop-carried counter: not a quantity computed from the text
				leafSet[v] = true
				return
			}
			if seenV[v] || d > 8 {
				return
			}
			seenV[v] = true
			if ph, ok := v.(*ssa.Phi); ok {
				onStack[v] = true
				for _, e := range ph.Edges {
					collect(e, d+1)
				}
				delete(onStack, v)
				return
			}
			for k := range linOf(v, 6).coef {
				if _, isPhi := k.(*ssa.Phi); isPhi {
					collect(k, d+1)
					continue
				}
				leafSet[k] = true
			}
		}
		collect(P, 0)
		bad := ""
		for v := range leafSet {
			if _, isParam := v.(*ssa.Parameter); isParam {
				continue
			}
			okLeaf := false
			if c, ok := v.(*ssa.Call); ok {
				nm := p.calleeName(&c.Call)
				if bi, isB := c.Call.Value.(*ssa.Builtin); isB {
					nm = bi.Name()
				}
				switch {
				case strings.HasPrefix(nm, "strings.Index") || nm == "strings.LastIndex":
					for _, a := range c.Call.Args {
						if fromTrim(a) {
							okLeaf = true
						}
					}
				case nm == "len" && len(c.Call.Args) == 1:
					a := c.Call.Args[0]
					if _, isParam := a.(*ssa.Parameter); isParam {
						okLeaf = true
					}
					if ac, ok := a.(*ssa.Call); ok && strings.HasPrefix(p.calleeName(&ac.Call), "strings.Trim") {
						okLeaf = true
					}
				case nm == "min" || nm == "max":
					okLeaf = true
				}
			}
			if !okLeaf {
				bad = fmt.Sprintf("%s (%s)", v.Name(), v.String())
			}
		}
		// ... and does not go below the start of the shown text: an error reported at offset 0 (a statement-level
		// error) in a query with blanks in front re-bases to a negative offset, so the re-based offset is bounded
		// below by 0 - a merge with the constant 0, or max(.., 0)
		clamped := false
		seenC := map[ssa.Value]bool{}
		var walkC func(v ssa.Value, d int)
		walkC = func(v ssa.Value, d int) {
			if seenC[v] || d > 8 {
				return
			}
			seenC[v] = true
			switch x := v.(type) {
			case *ssa.Phi:
				for _, e := range x.Edges {
					if k, ok := constInt(e); ok && k == 0 {
						clamped = true
					}
					walkC(e, d+1)
				}
			case *ssa.Call:
				// max / min: the builtins, or package functions of that name with two parameters
				name := ""
				if bi, ok := x.Call.Value.(*ssa.Builtin); ok {
					name = bi.Name()
				} else if g := x.Call.StaticCallee(); g != nil && g.Signature.Params().Len() == 2 {
					name = g.Name()
				}
				if name == "max" || name == "min" {
					for _, a := range x.Call.Args {
						if k, ok := constInt(a); ok && k == 0 && name == "max" {
							clamped = true
						}
						walkC(a, d+1)
					}
				}
			case *ssa.BinOp:
				walkC(x.X, d+1)
				walkC(x.Y, d+1)
			}
		}
		walkC(P, 0)
		r.add(clamped, "clamp-low", p.Pos(fn.Pos()), "the re-based offset is bounded below by 0 (an offset in front of the shown text puts the caret under the prompt)")
		r.add(bad == "", "rebase", p.Pos(fn.Pos()), firstNonEmpty(map[bool]string{true: "the offset is re-based by " + bad + ", which is not computed from the trimmed text: a separate count of leading blanks has to agree with strings.TrimSpace on every blank"}[bad != ""], "the offset is re-based by a quantity computed from the trimmed text itself"))
	}
	type tp struct {
		t, p ssa.Value
	}
	var leaves []tp
	var expandTP func(t, pv ssa.Value, d int)
	expandTP = func(t, pv ssa.Value, d int) {
		th, tok := t.(*ssa.Phi)
		if !tok || d > 6 {
			leaves = append(leaves, tp{t, pv})
			return
		}
		// the offset on this edge: a phi of the same block is taken edge-wise; a linear form over such a phi too
		for k := range th.Edges {
			leaves2 := substPhi(pv, th.Block(), k)
			expandTP(th.Edges[k], leaves2, d+1)
		}
	}
	expandTP(T, P, 0)
	var wref *lin
	okWin := true
	forms = nil
	ncut := 0
	for _, lf := range leaves {
		l := linOf(lf.p, 6)
		cut := "0"
		if sl, ok := lf.t.(*ssa.Slice); ok && sl.Low != nil {
			lo := linOf(sl.Low, 6)
			l = l.plus(lo, 1)
			cut = lo.String()
			if cut != "+0" {
				ncut++
			}
		}
		forms = append(forms, fmt.Sprintf("cut %s: %s", cut, l))
		if wref == nil {
			wref = &l
		} else if wref.plus(l, -1).String() != "+0" {
			okWin = false
		}
	}
	r.add(okWin && len(leaves) > 0, "window", p.Pos(fn.Pos()), fmt.Sprintf("caret offset plus the number of bytes cut off on the left is the same on every way the shown stretch is chosen (%s)", strings.Join(forms, "; ")))
	r.note("window_ways", len(leaves))
	r.note("window_ways_cut_left", ncut)
}

// blankLoopBound: the bound E of a loop `for i := 0; i < E; i++` whose body appends a one-blank constant
// (or strings.Repeat(" ", E)).
func blankLoopBound(p *Prog, fn *ssa.Function) ssa.Value {
	var E ssa.Value
	for _, L := range naturalLoops(fn) {
		blank := false
		for b := range L.Body {
			for _, in := range b.Instrs {
				if bo, ok := in.(*ssa.BinOp); ok && bo.Op == token.ADD {
					if s, ok := constString(bo.Y); ok && s == " " {
						blank = true
					}
				}
			}
		}
		if !blank {
			continue
		}
		if f := ifOf(L.Header); f != nil {
			if bo, ok := f.Cond.(*ssa.BinOp); ok && bo.Op == token.LSS {
				if ph, ok := bo.X.(*ssa.Phi); ok && ph.Block() == L.Header {
					E = bo.Y
				}
			}
		}
	}
	if E == nil {
		allInstrs(fn, func(in ssa.Instruction) {
			if c, ok := in.(*ssa.Call); ok {
				if g := c.Call.StaticCallee(); g != nil && p.qualName(g) == "strings.Repeat" && len(c.Call.Args) == 2 {
					if sp, ok := constString(c.Call.Args[0]); ok && sp == " " {
						E = c.Call.Args[1]
					}
				}
			}
		})
	}
	return E
}

// substPhi: the value v has on edge k into block b when v is a phi of b (other values are unchanged on that edge).
func substPhi(v ssa.Value, b *ssa.BasicBlock, k int) ssa.Value {
	if ph, ok := v.(*ssa.Phi); ok && ph.Block() == b {
		return ph.Edges[k]
	}
	return v
}

// ---------------- NUMCOMBO ----------------

func init() {
	register("NUMCOMBO", "numeric helpers accept every combination of integer and float operands: in each package function that classifies two `any` operands with convertToInt and convertToFloat, under each of the four assumptions (left, right) in {int64, float64}^2 and each operator constant the function compares its operator parameter with, abstract evaluation of the branch conditions reaches no failing return other than one behind a test of the divisor against zero (the type checker accepts number-with-number, so none of these combinations may end in an operand-type error)", ruleNumCombo)
}

func ruleNumCombo(p *Prog, r *Result) {
	ci, cf := p.Func("convertToInt"), p.Func("convertToFloat")
	if ci == nil || cf == nil {
		r.undecided("anchor: convertToInt / convertToFloat not found")
		return
	}
	strCode := func(s string) int64 {
		var h int64 = 1469598103934665603
		for i := 0; i < len(s); i++ {
			h = (h ^ int64(s[i])) * 1099511628211
		}
		return h
	}
	nfn := 0
	for _, fn := range p.Funcs {
		if fn == ci || fn == cf || len(fn.Blocks) == 0 {
			continue
		}
		ints, floats := map[*ssa.Parameter]bool{}, map[*ssa.Parameter]bool{}
		allInstrs(fn, func(in ssa.Instruction) {
			c, ok := in.(*ssa.Call)
			if !ok || len(c.Call.Args) != 1 {
				return
			}
			pa, isP := c.Call.Args[0].(*ssa.Parameter)
			if !isP {
				return
			}
			switch c.Call.StaticCallee() {
			case ci:
				ints[pa] = true
			case cf:
				floats[pa] = true
			}
		})
		var operands []*ssa.Parameter
		for _, pa := range fn.Params {
			if ints[pa] && floats[pa] {
				operands = append(operands, pa)
			}
		}
		if len(operands) != 2 {
			continue
		}
		nfn++
		// the operator parameter and the constants it is compared with
		var opParam *ssa.Parameter
		var ops []int64
		var opNames []string
		seenOp := map[int64]bool{}
		allInstrs(fn, func(in ssa.Instruction) {
			bo, ok := in.(*ssa.BinOp)
			if !ok || bo.Op != token.EQL {
				return
			}
			pa, isP := bo.X.(*ssa.Parameter)
			if !isP || pa == operands[0] || pa == operands[1] {
				return
			}
			var code int64
			var name string
			if s, ok := constString(bo.Y); ok {
				code, name = strCode(s), s
			} else if k, ok := constInt(bo.Y); ok {
				code, name = k, string(rune(k))
			} else {
				return
			}
			opParam = pa
			if !seenOp[code] {
				seenOp[code] = true
				ops = append(ops, code)
				opNames = append(opNames, name)
			}
		})
		if opParam == nil {
			r.undecided("%s: operator parameter not found", p.FName(fn))
			continue
		}
		for _, lk := range []string{"int", "float"} {
			for _, rk := range []string{"int", "float"} {
				var bad []string
				for oi, opc := range ops {
					as := &assumption{p: p}
					as.ignoreRet = func(f *ssa.Function, ret *ssa.Return) bool { return zeroGuarded(ret) }
					as.leaf = func(f *ssa.Function, v ssa.Value, bound map[*ssa.Parameter]string) (aval, bool) {
						if s, ok := constString(v); ok {
							return aval{kind: 1, i: strCode(s)}, true
						}
						if pa, ok := v.(*ssa.Parameter); ok && bound[pa] == "op" {
							return aval{kind: 1, i: opc}, true
						}
						return aval{}, false
					}
					as.typeTest = func(f *ssa.Function, ta *ssa.TypeAssert, bound map[*ssa.Parameter]string) (abool, bool) {
						pa, ok := stripConv(ta.X).(*ssa.Parameter)
						if !ok || bound[pa] == "" {
							return abBoth, false
						}
						bt, isB := ta.AssertedType.(*types.Basic)
						if !isB {
							return abFalse, true
						}
						if (bound[pa] == "int" && bt.Kind() == types.Int64) || (bound[pa] == "float" && bt.Kind() == types.Float64) {
							return abTrue, true
						}
						return abFalse, true
					}
					as.bind = func(f *ssa.Function, arg ssa.Value, bound map[*ssa.Parameter]string) string {
						if pa, ok := stripConv(arg).(*ssa.Parameter); ok {
							return bound[pa]
						}
						return ""
					}
					res := as.run(fn, map[*ssa.Parameter]string{operands[0]: lk, operands[1]: rk, opParam: "op"})
					for _, ret := range res.rets {
						if len(ret.Results) == 0 {
							continue
						}
						e := res.ev(retVal(ret, len(ret.Results)-1))
						if e.kind == 3 && e.isNil == abTrue {
							continue
						}
						if !zeroGuarded(ret) {
							bad = append(bad, fmt.Sprintf("%q at %s", opNames[oi], p.InstrPos(ret)))
						}
					}
				}
				r.add(len(bad) == 0, fmt.Sprintf("%s|left=%s,right=%s", p.FName(fn), lk, rk), p.Pos(fn.Pos()), fmt.Sprintf("with a %s left and a %s right operand every known operator (%d) ends in a successful return or a division-by-zero error (failing: %v)", lk, rk, len(ops), bad))
			}
		}
	}
	r.floor("functions classifying two operands with convertToInt and convertToFloat", nfn, 2)
}

// ---------------- TWINUSE ----------------

func init() {
	register("TWINUSE", "two operands of one comparison are classified alike: when a function passes two of its parameters of the same type (directly, or through type assertions and conversions) to the same classifying/parsing callee, it uses the same results of both calls (a success flag or `is float` result read for the left operand and dropped for the right one decides the comparison from one side only)", ruleTwinUse)
}

func ruleTwinUse(p *Prog, r *Result) {
	rootParam := func(v ssa.Value) *ssa.Parameter {
		for d := 0; d < 6; d++ {
			switch x := v.(type) {
			case *ssa.Parameter:
				return x
			case *ssa.TypeAssert:
				v = x.X
			case *ssa.Convert:
				v = x.X
			case *ssa.ChangeType:
				v = x.X
			case *ssa.ChangeInterface:
				v = x.X
			case *ssa.MakeInterface:
				v = x.X
			case *ssa.Extract:
				if ta, ok := x.Tuple.(*ssa.TypeAssert); ok && x.Index == 0 {
					v = ta.X
				} else {
					return nil
				}
			default:
				return nil
			}
		}
		return nil
	}
	used := func(c *ssa.Call) string {
		var idx []int
		for _, ref := range *c.Referrers() {
			if ex, ok := ref.(*ssa.Extract); ok && len(*ex.Referrers()) > 0 {
				idx = append(idx, ex.Index)
			}
		}
		sort.Ints(idx)
		return fmt.Sprint(idx)
	}
	n := 0
	for _, fn := range p.Funcs {
		type site struct {
			c  *ssa.Call
			pa *ssa.Parameter
		}
		byCallee := map[*ssa.Function][]site{}
		var order []*ssa.Function
		allInstrs(fn, func(in ssa.Instruction) {
			c, ok := in.(*ssa.Call)
			if !ok || c.Call.IsInvoke() {
				return
			}
			g := c.Call.StaticCallee()
			if g == nil || g.Signature.Results().Len() < 2 {
				return
			}
			// exactly one argument rooted in a parameter
			var pa *ssa.Parameter
			cnt := 0
			for _, a := range c.Call.Args {
				if q := rootParam(a); q != nil {
					pa = q
					cnt++
				}
			}
			if cnt != 1 {
				return
			}
			if _, seen := byCallee[g]; !seen {
				order = append(order, g)
			}
			byCallee[g] = append(byCallee[g], site{c, pa})
		})
		for _, g := range order {
			sites := byCallee[g]
			// group per parameter; twins = two parameters of identical type
			per := map[*ssa.Parameter][]site{}
			var ps []*ssa.Parameter
			for _, s := range sites {
				if _, ok := per[s.pa]; !ok {
					ps = append(ps, s.pa)
				}
				per[s.pa] = append(per[s.pa], s)
			}
			if len(ps) != 2 || !types.Identical(ps[0].Type(), ps[1].Type()) || len(per[ps[0]]) != len(per[ps[1]]) {
				continue
			}
			n++
			okv := true
			detail := ""
			for i := range per[ps[0]] {
				a, b := per[ps[0]][i], per[ps[1]][i]
				if ua, ub := used(a.c), used(b.c); ua != ub {
					okv = false
					detail = fmt.Sprintf("%s(%s) at %s uses results %s, %s(%s) at %s uses %s", g.Name(), ps[0].Name(), p.InstrPos(a.c), ua, g.Name(), ps[1].Name(), p.InstrPos(b.c), ub)
				}
			}
			r.add(okv, fmt.Sprintf("%s|%s", p.FName(fn), p.qualName(g)), p.Pos(fn.Pos()), firstNonEmpty(detail, fmt.Sprintf("both operands (%s, %s) are classified by %s with the same results used", ps[0].Name(), ps[1].Name(), g.Name())))
		}
	}
	r.floor("twin classifications of two operands", n, 3)
}

// ---------------- ERRFRESH, ASTFRESH ----------------

func init() {
	register("ERRFRESH", "positional errors are values of their own: BindQuery / SetPadding write into the error, so every *SyntaxError / *ExecuteError is allocated where it is reported - no constructor call or literal of these types in a package initialiser (a shared sentinel would carry one statement's query text and padding into another statement's message), and no package-level variable of these types", ruleErrFresh)
	register("ASTFRESH", "every plan is built from a tree of its own: each successful return of (*Optimizer).init is dominated by a call of (*Parser).Parse whose result is what is stored into the optimizer's statement field (plans keep per-execution state in the tree: aggregate results, folded constants)", ruleAstFresh)
}

func ruleErrFresh(p *Prog, r *Result) {
	isPosErr := func(t types.Type) bool {
		n := typeName(deref(t))
		return n == "SyntaxError" || n == "ExecuteError"
	}
	nsites := 0
	perFn := map[*ssa.Function]int{}
	var order []*ssa.Function
	for _, fn := range p.Funcs {
		allInstrs(fn, func(in ssa.Instruction) {
			hit := false
			switch x := in.(type) {
			case *ssa.Call:
				if g := x.Call.StaticCallee(); g != nil && (g.Name() == "NewSyntaxError" || g.Name() == "NewExecuteError") && p.InPkg(g) {
					hit = true
				}
			case *ssa.Alloc:
				if x.Heap && isPosErr(x.Type()) {
					hit = true
				}
			}
			if hit {
				if _, ok := perFn[fn]; !ok {
					order = append(order, fn)
				}
				perFn[fn]++
				nsites++
			}
		})
	}
	for _, fn := range order {
		isInit := fn.Synthetic != "" || fn.Name() == "init" || strings.HasPrefix(fn.Name(), "init#")
		r.add(!isInit, p.FName(fn), p.Pos(fn.Pos()), fmt.Sprintf("%d positional error(s) built here; a package initialiser would make them shared between statements", perFn[fn]))
	}
	for _, m := range p.SPkg.Members {
		g, ok := m.(*ssa.Global)
		if !ok {
			continue
		}
		if isPosErr(deref(g.Type())) {
			r.hit("global|"+g.Name(), p.Pos(g.Pos()), "package-level variable of a positional error type")
		}
	}
	r.floor("positional error construction sites", nsites, 20)
}

func ruleAstFresh(p *Prog, r *Result) {
	fn := p.MethodByName("Optimizer", "init")
	parse := p.MethodByName("Parser", "Parse")
	if fn == nil || parse == nil {
		r.undecided("anchor: (*Optimizer).init / (*Parser).Parse not found")
		return
	}
	var calls []*ssa.Call
	allInstrs(fn, func(in ssa.Instruction) {
		if c := isStaticCallTo(in, parse); c != nil {
			calls = append(calls, c)
		}
	})
	n := 0
	for _, b := range fn.Blocks {
		ret := retOf(b)
		if ret == nil || len(ret.Results) == 0 {
			continue
		}
		if !isNilConst(retVal(ret, len(ret.Results)-1)) {
			if _, isPhi := retVal(ret, len(ret.Results)-1).(*ssa.Phi); !isPhi {
				continue
			}
		}
		n++
		dom := false
		for _, c := range calls {
			if c.Block().Dominates(b) {
				dom = true
			}
		}
		r.add(dom, fmt.Sprintf("(*Optimizer).init|return#%d", n), p.InstrPos(ret), "a successful return of the optimizer's init is dominated by a fresh Parse of the query")
	}
	// what is stored into the statement field is the parse result
	stored := 0
	allInstrs(fn, func(in ssa.Instruction) {
		st, ok := in.(*ssa.Store)
		if !ok {
			return
		}
		o, f, _, ok := fieldOfAddr(st.Addr)
		if !ok || o == nil || o.Obj().Name() != "Optimizer" || f != "stmt" {
			return
		}
		stored++
		fromParse := false
		backward(st.Val, func(x ssa.Value) bool {
			if c, ok := x.(*ssa.Call); ok && c.Call.StaticCallee() == parse {
				fromParse = true
				return false
			}
			return true
		})
		r.add(fromParse, fmt.Sprintf("(*Optimizer).init|stmt-store#%d", stored), p.InstrPos(st), "the statement the plan is built from is the result of this call's Parse")
	})
	r.floor("successful returns of (*Optimizer).init", n, 1)
	r.floor("stores to Optimizer.stmt in init", stored, 1)
}

// ---------------- ANDORFOLD ----------------

func init() {
	register("ANDORFOLD", "the Boolean simplifier follows the truth table: tryOptimizeAndOr is evaluated abstractly for each operator in {&, |} and each operand in {literal true, literal false, not a literal}; the node it returns must be the other operand (identity element), a fresh literal of the absorbing value, the literal of the conjunction/disjunction (two literals), or the unchanged node (no literal)", ruleAndOrFold)
}

func ruleAndOrFold(p *Prog, r *Result) {
	fn := p.MethodByName("ExpressionOptimizer", "tryOptimizeAndOr")
	if fn == nil {
		r.undecided("anchor: (*ExpressionOptimizer).tryOptimizeAndOr not found")
		return
	}
	andOp, ok1 := p.constOf("And")
	orOp, ok2 := p.constOf("Or")
	if !ok1 || !ok2 {
		r.undecided("anchor: operators And / Or not found")
		return
	}
	// which operand does a value come from: e.Left / e.Right (possibly through a type assertion)
	var side func(v ssa.Value, d int) string
	side = func(v ssa.Value, d int) string {
		if d > 6 {
			return ""
		}
		switch x := v.(type) {
		case *ssa.Extract:
			return side(x.Tuple, d+1)
		case *ssa.TypeAssert:
			return side(x.X, d+1)
		case *ssa.ChangeInterface:
			return side(x.X, d+1)
		case *ssa.MakeInterface:
			return side(x.X, d+1)
		}
		if o, f, _, ok := loadedField(v); ok && o != nil && o.Obj().Name() == "BinaryOpExpr" && (f == "Left" || f == "Right") {
			return f
		}
		return ""
	}
	// classify the returned node
	var classify func(v ssa.Value, d int, ev func(ssa.Value) aval) string
	classify = func(v ssa.Value, d int, ev func(ssa.Value) aval) string {
		if d > 6 {
			return "?"
		}
		if s := side(v, 0); s != "" {
			return s
		}
		switch x := v.(type) {
		case *ssa.MakeInterface:
			return classify(x.X, d+1, ev)
		case *ssa.ChangeInterface:
			return classify(x.X, d+1, ev)
		case *ssa.Call:
			// a package helper that builds the literal (boolLiteral(pos, val)): its reachable returns under the
			// values of the arguments
			g := x.Call.StaticCallee()
			if g == nil || !p.InPkg(g) || len(g.Blocks) == 0 || ev == nil {
				return "?"
			}
			argv := map[*ssa.Parameter]aval{}
			for i, pa := range g.Params {
				if i < len(x.Call.Args) {
					argv[pa] = ev(x.Call.Args[i])
				}
			}
			sub := &assumption{p: p}
			sub.leaf = func(f *ssa.Function, v ssa.Value, bound map[*ssa.Parameter]string) (aval, bool) {
				if pa, ok := v.(*ssa.Parameter); ok && f == g {
					a := argv[pa]
					return a, a.kind != 0
				}
				return aval{}, false
			}
			sub.bind = func(*ssa.Function, ssa.Value, map[*ssa.Parameter]string) string { return "" }
			res2 := sub.run(g, map[*ssa.Parameter]string{})
			out := ""
			for _, ret := range res2.rets {
				if len(ret.Results) == 0 {
					continue
				}
				c := classify(retVal(ret, 0), d+1, res2.ev)
				if out == "" {
					out = c
				} else if out != c {
					return "?"
				}
			}
			if out == "" || out == "same" {
				return "?"
			}
			return out
		case *ssa.Alloc:
			if typeName(deref(x.Type())) != "BoolExpr" {
				return "?"
			}
			for _, ref := range *x.Referrers() {
				if fa, ok := ref.(*ssa.FieldAddr); ok {
					if _, f, _, _ := fieldOfAddr(fa); f == "Bool" {
						for _, r2 := range *fa.Referrers() {
							if st, ok := r2.(*ssa.Store); ok {
								if bv, isB := constBool(st.Val); isB {
									return fmt.Sprint(bv)
								}
								if ev != nil {
									if a := ev(st.Val); a.kind == 2 && a.b != abBoth {
										return fmt.Sprint(a.b == abTrue)
									}
								}
							}
						}
					}
				}
			}
			return "?"
		case *ssa.Parameter:
			return "same"
		case *ssa.Extract:
			if ta, ok := x.Tuple.(*ssa.TypeAssert); ok {
				if _, isP := ta.X.(*ssa.Parameter); isP {
					return "same"
				}
			}
		case *ssa.TypeAssert:
			if _, isP := x.X.(*ssa.Parameter); isP {
				return "same"
			}
		}
		return "?"
	}
	// package functions that look for an aggregate call below a node
	aggrProbe := map[*ssa.Function]bool{}
	for _, f := range p.Funcs {
		if f == fn || f.Signature.Results().Len() != 1 {
			continue
		}
		if b, ok := f.Signature.Results().At(0).Type().Underlying().(*types.Basic); !ok || b.Kind() != types.Bool {
			continue
		}
		if f.Signature.Params().Len() != 1 || typeName(f.Signature.Params().At(0).Type()) != "Expression" {
			continue
		}
		for g := range p.Reach([]*ssa.Function{f}, nil) {
			if g.Name() == "IsAggrFuncExpr" || g.Name() == "IsAggrFunc" {
				aggrProbe[f] = true
			}
		}
	}
	kinds := []string{"true", "false", "expr"}
	for _, op := range []struct {
		name string
		code int64
	}{{"&", andOp}, {"|", orOp}} {
		for _, lk := range kinds {
			for _, rk := range kinds {
				for _, withAggr := range []bool{false, true} {
					if withAggr && (lk == "expr") == (rk == "expr") {
						continue
					}
					want := "same"
					isAnd := op.name == "&"
					switch {
					case lk != "expr" && rk != "expr":
						l, rr := lk == "true", rk == "true"
						if isAnd {
							want = fmt.Sprint(l && rr)
						} else {
							want = fmt.Sprint(l || rr)
						}
					case lk != "expr":
						if (lk == "true") == isAnd {
							want = "Right" // identity element
						} else {
							want = lk // absorbing
						}
					case rk != "expr":
						if (rk == "true") == isAnd {
							want = "Left"
						} else {
							want = rk
						}
					}
					kindOf := map[string]string{"Left": lk, "Right": rk}
					if withAggr && want != "Left" && want != "Right" {
						// the operand that would be dropped holds an aggregate call: dropping it turns an aggregate
						// field (one row per group) into a plain one (one row per pair), so the node stays
						want = "same"
					}
					as := &assumption{p: p}
					as.leaf = func(f *ssa.Function, v ssa.Value, bound map[*ssa.Parameter]string) (aval, bool) {
						if f != fn {
							return aval{}, false
						}
						if c, ok := v.(*ssa.Call); ok {
							if g := c.Call.StaticCallee(); g != nil && aggrProbe[g] && len(c.Call.Args) == 1 {
								if sd := side(stripConv(c.Call.Args[0]), 0); sd != "" && kindOf[sd] == "expr" {
									if withAggr {
										return aval{kind: 2, b: abTrue}, true
									}
									return aval{kind: 2, b: abFalse}, true
								}
							}
						}
						if o, fl, base, ok := loadedField(v); ok && o != nil {
							if o.Obj().Name() == "BinaryOpExpr" && fl == "Op" {
								return aval{kind: 1, i: op.code}, true
							}
							if o.Obj().Name() == "BoolExpr" && fl == "Bool" {
								if s := side(base, 0); s != "" && kindOf[s] != "expr" {
									if kindOf[s] == "true" {
										return aval{kind: 2, b: abTrue}, true
									}
									return aval{kind: 2, b: abFalse}, true
								}
							}
						}
						return aval{}, false
					}
					as.typeTest = func(f *ssa.Function, ta *ssa.TypeAssert, bound map[*ssa.Parameter]string) (abool, bool) {
						if f != fn {
							return abBoth, false
						}
						if _, isP := ta.X.(*ssa.Parameter); isP && typeName(deref(ta.AssertedType)) == "BinaryOpExpr" {
							return abTrue, true
						}
						if s := side(ta.X, 0); s != "" {
							if typeName(deref(ta.AssertedType)) == "BoolExpr" && kindOf[s] != "expr" {
								return abTrue, true
							}
							return abFalse, true
						}
						return abBoth, false
					}
					as.bind = func(*ssa.Function, ssa.Value, map[*ssa.Parameter]string) string { return "" }
					res := as.run(fn, map[*ssa.Parameter]string{})
					var got []string
					for _, ret := range res.rets {
						if len(ret.Results) == 0 {
							continue
						}
						c := classify(retVal(ret, 0), 0, res.ev)
						// a fresh literal built for one side of a two-literal fold still has to carry the right value
						got = append(got, c)
					}
					sort.Strings(got)
					okv := len(got) > 0
					for _, g := range got {
						if g != want {
							// returning the operand itself is as good as a literal of its value
							if v, isSide := kindOf[g]; isSide && v == want {
								continue
							}
							okv = false
						}
					}
					r.add(okv, fmt.Sprintf("%s|left=%s,right=%s%s", map[string]string{"&": "and", "|": "or"}[op.name], lk, rk, map[bool]string{true: "+aggr"}[withAggr]), p.Pos(fn.Pos()), fmt.Sprintf("(%s %s %s)%s must simplify to %s; reachable returns give %v", lk, op.name, rk, map[bool]string{true: " where the expression holds an aggregate call"}[withAggr], want, got))
				}
			}
		}
	}
}

// zeroGuarded: the return lies behind a test `x == 0` (division by zero is a data error, not an operand-type error).
func zeroGuarded(ret *ssa.Return) bool {
	for _, a := range dominatingAtoms(ret.Block()) {
		if a.Op != token.EQL {
			continue
		}
		if c, ok := a.Y.(*ssa.Const); ok && c.Value != nil && (c.Value.Kind() == constant.Int || c.Value.Kind() == constant.Float) && constant.Sign(c.Value) == 0 {
			return true
		}
	}
	return false
}

// ---------------- ALIASGUARD ----------------

func init() {
	register("ALIASGUARD", "alias resolution cannot build a cyclic tree unnoticed: name-to-alias rewriting (the creation of a FieldReferenceExpr whose target comes from CheckCtx.GetNamedExpr) happens only inside Check methods, and in the validation of the select list every call that reaches a Check method is dominated by a call of a guard - a package function that consults the same name table (GetNamedExpr), reaches no Check, and whose error is returned when it is not nil (a reference cycle makes ReturnType recurse until the stack overflows, which cannot be recovered)", ruleAliasGuard)
}

func ruleAliasGuard(p *Prog, r *Result) {
	vf := p.MethodByName("SelectStmt", "ValidateFields")
	get := p.MethodByName("CheckCtx", "GetNamedExpr")
	if vf == nil || get == nil {
		r.undecided("anchor: (*SelectStmt).ValidateFields / (*CheckCtx).GetNamedExpr not found")
		return
	}
	reachesCheck := func(f *ssa.Function) bool {
		found := false
		for _, g := range p.staticClosure(f, 3, nil) {
			allInstrs(g, func(in ssa.Instruction) {
				if c, ok := in.(ssa.CallInstruction); ok && c.Common().IsInvoke() && c.Common().Method.Name() == "Check" {
					found = true
				}
			})
		}
		return found
	}
	// behindCycleGuard: the instruction (in ValidateFields or in a function literal made there) is only reached after
	// the alias-cycle guard ran in ValidateFields: resolving names before the fields are checked is as safe as
	// resolving them while they are checked
	var behindCycleGuard func(caller *ssa.Function, in ssa.Instruction) bool
	reachesGet := func(f *ssa.Function) bool {
		found := false
		for _, g := range p.staticClosure(f, 3, nil) {
			allInstrs(g, func(in ssa.Instruction) {
				if c, ok := in.(ssa.CallInstruction); ok && c.Common().StaticCallee() == get {
					found = true
				}
			})
		}
		return found
	}
	behindCycleGuard = func(caller *ssa.Function, in ssa.Instruction) bool {
		at := in
		for caller != vf {
			par := caller.Parent()
			if par == nil {
				return false
			}
			var mk ssa.Instruction
			allInstrs(par, func(x ssa.Instruction) {
				if mc, ok := x.(*ssa.MakeClosure); ok && mc.Fn == ssa.Value(caller) {
					mk = x
				}
			})
			if mk == nil {
				return false
			}
			caller, at = par, mk
		}
		okg := false
		allInstrs(vf, func(x ssa.Instruction) {
			c, ok := x.(*ssa.Call)
			if !ok {
				return
			}
			g := c.Call.StaticCallee()
			if g == nil || !p.InPkg(g) || reachesCheck(g) || !reachesGet(g) {
				return
			}
			if instrDominates(x, at) {
				okg = true
			}
		})
		return okg
	}
	// (1) rewriting sites live in Check methods (or helpers called only from them)
	nsites := 0
	for _, fn := range p.Funcs {
		allInstrs(fn, func(in ssa.Instruction) {
			al, ok := in.(*ssa.Alloc)
			if !ok || typeName(deref(al.Type())) != "FieldReferenceExpr" {
				return
			}
			fromTable := false
			for _, ref := range *al.Referrers() {
				fa, ok := ref.(*ssa.FieldAddr)
				if !ok {
					continue
				}
				if _, f, _, _ := fieldOfAddr(fa); f != "FieldExpr" {
					continue
				}
				for _, r2 := range *fa.Referrers() {
					if st, ok := r2.(*ssa.Store); ok {
						backward(st.Val, func(x ssa.Value) bool {
							if c, ok := x.(*ssa.Call); ok && c.Call.StaticCallee() == get {
								fromTable = true
								return false
							}
							return true
						})
					}
				}
			}
			if !fromTable {
				return
			}
			nsites++
			okv := fn.Name() == "Check"
			if !okv {
				// a helper: every static caller is a Check method
				ncall := 0
				okv = true
				for _, caller := range p.Funcs {
					allInstrs(caller, func(in2 ssa.Instruction) {
						if c, ok := in2.(ssa.CallInstruction); ok && c.Common().StaticCallee() == fn {
							ncall++
							if caller.Name() != "Check" && !behindCycleGuard(caller, in2) {
								okv = false
							}
						}
					})
				}
				okv = okv && ncall > 0
			}
			r.add(okv, fmt.Sprintf("site|%s#%d", p.FName(fn), nsites), p.InstrPos(al), "a name is rewritten into a reference to its alias only while an expression is checked")
		})
	}
	r.floor("name-to-alias rewriting sites", nsites, 2)
	// (2) the guard dominates every Check-reaching call of the select-list validation
	var guards, checks []*ssa.Call
	allInstrs(vf, func(in ssa.Instruction) {
		c, ok := in.(*ssa.Call)
		if !ok {
			return
		}
		g := c.Call.StaticCallee()
		if g == nil || !p.InPkg(g) {
			if c.Call.IsInvoke() && c.Call.Method.Name() == "Check" {
				checks = append(checks, c)
			}
			return
		}
		switch {
		case reachesCheck(g):
			checks = append(checks, c)
		case reachesGet(g) && g.Signature.Results().Len() == 1 && isErrorType(g.Signature.Results().At(0).Type()):
			// the error must be returned when it is not nil
			returned := false
			for _, b := range vf.Blocks {
				ret := retOf(b)
				if ret == nil || len(ret.Results) == 0 || retVal(ret, 0) != ssa.Value(c) {
					continue
				}
				for _, a := range dominatingAtoms(b) {
					if a.Op == token.NEQ && a.X == ssa.Value(c) && isNilConst(a.Y) {
						returned = true
					}
				}
			}
			if returned {
				guards = append(guards, c)
			}
		}
	})
	r.floor("Check-reaching calls in the select-list validation", len(checks), 1)
	for i, c := range checks {
		dom := false
		for _, g := range guards {
			if instrDominates(g, c) {
				dom = true
			}
		}
		r.add(dom, fmt.Sprintf("(*SelectStmt).ValidateFields|check#%d", i+1), p.InstrPos(c), "checking a select field (which resolves names to aliases) is preceded on every path by the alias-cycle guard, whose error ends the validation")
	}
	// what a reference stands for is decided once, where the reference is made: nothing stores into the FieldExpr
	// of a reference it did not just allocate (re-pointing references by name after the fact binds a duplicated
	// name to another field than the checker and the projection do, and can close a cycle behind the guard)
	nRef := 0
	for _, fn := range p.Funcs {
		allInstrs(fn, func(in ssa.Instruction) {
			st, ok := in.(*ssa.Store)
			if !ok {
				return
			}
			o, f, base, ok := fieldOfAddr(st.Addr)
			if !ok || o == nil || o.Obj().Name() != "FieldReferenceExpr" || f != "FieldExpr" {
				return
			}
			nRef++
			_, fresh := base.(*ssa.Alloc)
			r.add(fresh, fmt.Sprintf("%s|retarget#%d", p.FName(fn), nRef), p.InstrPos(in), "the target of an alias reference is set where the reference is allocated, never on an existing reference")
		})
	}
	r.floor("stores into FieldReferenceExpr.FieldExpr", nRef, 2)
}

// ---------------- RTPURE ----------------

func init() {
	register("RTPURE", "static types are recomputed, never remembered: no ReturnType method of an expression node (nor anything it calls in the package) stores into a node, a map or a package variable - the checker rewrites names into alias references after types were first asked for, so a remembered type goes stale and an ill-typed statement is accepted (or a well-typed one rejected)", ruleRTPure)
}

func ruleRTPure(p *Prog, r *Result) {
	n := 0
	for _, fn := range p.Funcs {
		if fn.Name() != "ReturnType" || fn.Signature.Recv() == nil || len(fn.Blocks) == 0 {
			continue
		}
		n++
		bad := ""
		for _, f := range p.staticClosure(fn, 3, nil) {
			allInstrs(f, func(in ssa.Instruction) {
				switch x := in.(type) {
				case *ssa.Store:
					// stores into memory allocated by this activation (locals, fresh literals) are fine
					root := x.Addr
					for d := 0; d < 6; d++ {
						switch a := root.(type) {
						case *ssa.FieldAddr:
							root = a.X
							continue
						case *ssa.IndexAddr:
							root = a.X
							continue
						}
						break
					}
					if _, fresh := root.(*ssa.Alloc); fresh {
						return
					}
					bad = fmt.Sprintf("%s stores to %s at %s", p.FName(f), x.Addr.String(), p.InstrPos(x))
				case *ssa.MapUpdate:
					bad = fmt.Sprintf("%s updates a map at %s", p.FName(f), p.InstrPos(x))
				}
			})
		}
		r.add(bad == "", p.FName(fn), p.Pos(fn.Pos()), firstNonEmpty(bad, "computes the static type from the node's children without storing anything"))
	}
	// ... and types are static: neither ReturnType nor Check (nor the package helpers they call directly) evaluates
	// an expression. An evaluation asks its operands for their types again, so typing by evaluating costs a
	// constant factor per nesting level (exponential in the depth), and it runs parts of a statement that has not
	// been checked yet
	for _, fn := range p.Funcs {
		if (fn.Name() != "ReturnType" && fn.Name() != "Check") || fn.Signature.Recv() == nil || len(fn.Blocks) == 0 {
			continue
		}
		bad := ""
		for _, f := range p.staticClosure(fn, 3, nil) {
			allInstrs(f, func(in ssa.Instruction) {
				ci, ok := in.(ssa.CallInstruction)
				if !ok {
					return
				}
				cc := ci.Common()
				if cc.IsInvoke() && (cc.Method.Name() == "Execute" || cc.Method.Name() == "ExecuteBatch") && typeName(cc.Value.Type()) == "Expression" {
					bad = fmt.Sprintf("%s evaluates an expression at %s", p.FName(f), p.InstrPos(in))
				}
			})
		}
		r.add(bad == "", p.FName(fn)+"|no-eval", p.Pos(fn.Pos()), firstNonEmpty(bad, "decides from the shape of the tree, without evaluating any of it"))
	}
	r.floor("ReturnType methods", n, 8)
}

// ---------------- VECFRESH ----------------

func init() {
	register("VECFRESH", "a column handed out by vector evaluation belongs to the caller: the vectorised operators write their results into the column of their left operand, so every []any returned by an ExecuteBatch method or a registered vector body is traced back (through re-slicing, append, phis, package helpers and their parameters) to memory made in this call (make, append to nil), to a column received from another ExecuteBatch / vector body, or to nil - never to a slice loaded from a field of a node or of the context or from a map - and a column that is returned is not also stored into a field or a map", ruleVecFresh)
}

func ruleVecFresh(p *Prog, r *Result) {
	isCol := func(t types.Type) bool {
		sl, ok := t.Underlying().(*types.Slice)
		if !ok {
			return false
		}
		_, isI := sl.Elem().Underlying().(*types.Interface)
		return isI
	}
	var entries []*ssa.Function
	seenE := map[*ssa.Function]bool{}
	add := func(f *ssa.Function) {
		if f != nil && !seenE[f] && len(f.Blocks) > 0 {
			seenE[f] = true
			entries = append(entries, f)
		}
	}
	for _, t := range p.exprTypes() {
		add(p.Method(t, "ExecuteBatch"))
	}
	if rows, err := p.registry("funcMap"); err == nil {
		for _, row := range rows {
			add(row.BodyVec)
		}
	}
	// roots of a column value: "" when every root is fresh/owned, otherwise a description of the first foreign root
	type ctxT struct {
		fn   *ssa.Function
		args map[*ssa.Parameter]ssa.Value
		up   *ctxT
	}
	var roots func(v ssa.Value, c *ctxT, depth int, seen map[ssa.Value]bool, fresh map[ssa.Value]bool) string
	roots = func(v ssa.Value, c *ctxT, depth int, seen map[ssa.Value]bool, fresh map[ssa.Value]bool) string {
		if v == nil || seen[v] {
			return ""
		}
		seen[v] = true
		if depth > 10 {
			return "provenance too deep at " + p.Pos(v.Pos())
		}
		switch x := v.(type) {
		case *ssa.Const:
			return ""
		case *ssa.MakeSlice:
			fresh[x] = true
			return ""
		case *ssa.Alloc:
			fresh[x] = true
			return ""
		case *ssa.Slice:
			return roots(x.X, c, depth, seen, fresh)
		case *ssa.ChangeType:
			return roots(x.X, c, depth, seen, fresh)
		case *ssa.Phi:
			for _, e := range x.Edges {
				if m := roots(e, c, depth, seen, fresh); m != "" {
					return m
				}
			}
			return ""
		case *ssa.Extract:
			if x.Index == 0 {
				return roots(x.Tuple, c, depth, seen, fresh)
			}
			return ""
		case *ssa.Parameter:
			if c != nil && c.args != nil {
				if a, ok := c.args[x]; ok {
					return roots(a, c.up, depth+1, map[ssa.Value]bool{}, fresh)
				}
			}
			return "" // a column parameter of an entry point: owned by the caller
		case *ssa.Call:
			if b, ok := x.Call.Value.(*ssa.Builtin); ok {
				if b.Name() == "append" {
					return roots(x.Call.Args[0], c, depth, seen, fresh)
				}
				return ""
			}
			if x.Call.IsInvoke() {
				if x.Call.Method.Name() == "ExecuteBatch" {
					return ""
				}
				return "column produced by dynamic call " + x.Call.Method.Name() + " at " + p.InstrPos(x)
			}
			g := x.Call.StaticCallee()
			if g == nil {
				// a call through a function value: the registered vector bodies
				if _, f, _, ok := loadedField(x.Call.Value); ok && f == "BodyVec" {
					return ""
				}
				return "column produced by a call through a function value at " + p.InstrPos(x)
			}
			if g.Name() == "ExecuteBatch" {
				return ""
			}
			if !p.InPkg(g) || len(g.Blocks) == 0 {
				if strings.HasPrefix(p.qualName(g), "slices.") {
					if len(x.Call.Args) > 0 {
						return roots(x.Call.Args[0], c, depth, seen, fresh)
					}
				}
				return "column produced by " + p.qualName(g) + " at " + p.InstrPos(x)
			}
			nc := &ctxT{fn: g, args: map[*ssa.Parameter]ssa.Value{}, up: c}
			for i, pa := range g.Params {
				if i < len(x.Call.Args) {
					nc.args[pa] = x.Call.Args[i]
				}
			}
			for _, b := range g.Blocks {
				ret := retOf(b)
				if ret == nil || len(ret.Results) == 0 || !isCol(retVal(ret, 0).Type()) {
					continue
				}
				if m := roots(retVal(ret, 0), nc, depth+1, map[ssa.Value]bool{}, fresh); m != "" {
					return m
				}
			}
			return ""
		case *ssa.UnOp:
			if x.Op == token.MUL {
				if o, f, _, ok := fieldOfAddr(x.X); ok && o != nil {
					return fmt.Sprintf("the column is the slice held in field %s.%s (read at %s)", o.Obj().Name(), f, p.InstrPos(x))
				}
				if _, ok := x.X.(*ssa.Global); ok {
					return "the column is held in a package variable"
				}
				if al, ok := x.X.(*ssa.Alloc); ok {
					for _, sv := range storedInto(al) {
						if m := roots(sv, c, depth+1, seen, fresh); m != "" {
							return m
						}
					}
					return ""
				}
				if ia, ok := x.X.(*ssa.IndexAddr); ok {
					// an element of a slice of columns: where that slice's elements come from
					return roots(ia.X, c, depth+1, seen, fresh)
				}
			}
			return "column computed by " + x.String() + " at " + p.InstrPos(x)
		case *ssa.Lookup:
			return "the column is read from a map at " + p.InstrPos(x)
		case *ssa.TypeAssert:
			return roots(x.X, c, depth, seen, fresh)
		case *ssa.MakeInterface:
			return roots(x.X, c, depth, seen, fresh)
		}
		return "column of unknown origin (" + v.String() + ") at " + p.Pos(v.Pos())
	}
	n := 0
	for _, fn := range entries {
		bad := ""
		fresh := map[ssa.Value]bool{}
		nret := 0
		for _, b := range fn.Blocks {
			ret := retOf(b)
			if ret == nil || len(ret.Results) == 0 || !isCol(retVal(ret, 0).Type()) {
				continue
			}
			nret++
			if m := roots(retVal(ret, 0), &ctxT{fn: fn}, 0, map[ssa.Value]bool{}, fresh); m != "" {
				bad = m
			}
		}
		if nret == 0 {
			continue
		}
		n++
		// a returned column made here is not kept anywhere else
		if bad == "" {
			allInstrs(fn, func(in ssa.Instruction) {
				var val ssa.Value
				switch x := in.(type) {
				case *ssa.Store:
					if _, _, _, ok := fieldOfAddr(x.Addr); ok {
						val = x.Val
					} else if _, ok := x.Addr.(*ssa.Global); ok {
						val = x.Val
					}
				case *ssa.MapUpdate:
					val = x.Value
				}
				if val == nil || !isCol(val.Type()) {
					return
				}
				f2 := map[ssa.Value]bool{}
				roots(val, &ctxT{fn: fn}, 0, map[ssa.Value]bool{}, f2)
				for k := range f2 {
					if fresh[k] {
						bad = "a column that is returned is also kept at " + p.InstrPos(in)
					}
				}
			})
		}
		r.add(bad == "", p.FName(fn), p.Pos(fn.Pos()), firstNonEmpty(bad, "every returned column is made in this call or received from an operand's evaluation"))
	}
	r.floor("vector entry points returning a column", n, 20)
}

// ---------------- SUBCHUNK ----------------

func init() {
	register("SUBCHUNK", "the per-chunk caches of the context are by position and are found by the chunk's first key, so above the scans a chunk is evaluated as it was received: wherever a function outside the scan plans hands a []KVPair together with an execution context to vector evaluation (ExecuteBatch, FilterBatch, or a package function taking both), the chunk is one of its own parameters or the batch its child plan just returned - not a re-slice, a filtered copy or a chunk assembled here (those would hit the columns cached for the whole chunk)", ruleSubChunk)
}

func ruleSubChunk(p *Prog, r *Result) {
	isChunk := func(t types.Type) bool {
		sl, ok := t.Underlying().(*types.Slice)
		return ok && typeName(sl.Elem()) == "KVPair"
	}
	isCtx := func(t types.Type) bool { return typeName(deref(t)) == "ExecuteCtx" }
	plans, _, _ := p.planTypes()
	scanFns := map[*ssa.Function]bool{}
	for _, t := range plans {
		cl := p.planClass(t)
		if cl == "range" || cl == "prefix" || cl == "full" || cl == "point" {
			for _, m := range p.methodsOf(t) {
				scanFns[m] = true
				for _, g := range p.staticClosure(m, 2, nil) {
					if g.Signature.Recv() != nil && typeName(deref(g.Signature.Recv().Type())) == t.Obj().Name() {
						scanFns[g] = true
					}
				}
			}
		}
	}
	n := 0
	for _, fn := range p.Funcs {
		if scanFns[fn] || len(fn.Blocks) == 0 {
			continue
		}
		idx := 0
		allInstrs(fn, func(in ssa.Instruction) {
			ci, ok := in.(ssa.CallInstruction)
			if !ok {
				return
			}
			cc := ci.Common()
			var chunk, ctx ssa.Value
			for _, a := range cc.Args {
				if isChunk(a.Type()) {
					chunk = a
				}
				if isCtx(a.Type()) {
					ctx = a
				}
			}
			if chunk == nil || ctx == nil || isNilConst(ctx) {
				return
			}
			name := ""
			if cc.IsInvoke() {
				name = cc.Method.Name()
			} else if g := cc.StaticCallee(); g != nil && p.InPkg(g) {
				name = g.Name()
			} else {
				return
			}
			// only callees that can reach vector evaluation matter (the row-mode filter loops over Execute)
			if g := cc.StaticCallee(); g != nil {
				reachesVec := g.Name() == "ExecuteBatch"
				for _, h := range p.staticClosure(g, 3, nil) {
					allInstrs(h, func(in2 ssa.Instruction) {
						if c2, ok := in2.(ssa.CallInstruction); ok && c2.Common().IsInvoke() && c2.Common().Method.Name() == "ExecuteBatch" {
							reachesVec = true
						}
					})
				}
				if !reachesVec {
					return
				}
			}
			n++
			idx++
			okv := false
			// a context emptied just before holds no column of another chunk
			allInstrs(fn, func(in2 ssa.Instruction) {
				if c2, ok := in2.(*ssa.Call); ok {
					if g := c2.Call.StaticCallee(); g != nil && g.Name() == "Clear" && len(c2.Call.Args) > 0 && c2.Call.Args[0] == ctx && instrDominates(c2, in) {
						okv = true
					}
				}
			})
			// a full re-slice (chunk[:len(chunk)]) is the chunk itself
			for d := 0; d < 3; d++ {
				sl, isSl := chunk.(*ssa.Slice)
				if !isSl {
					break
				}
				lowOK := sl.Low == nil
				if c, ok := constInt(sl.Low); sl.Low != nil && ok && c == 0 {
					lowOK = true
				}
				highOK := sl.High == nil || lenOf(sl.High) == sl.X
				if !lowOK || !highOK {
					break
				}
				chunk = sl.X
			}
			switch x := chunk.(type) {
			case *ssa.Parameter:
				okv = true
			case *ssa.Extract:
				if c, isC := x.Tuple.(*ssa.Call); isC && x.Index == 0 {
					if c.Call.IsInvoke() && c.Call.Method.Name() == "Batch" {
						okv = true
					} else if g := c.Call.StaticCallee(); g != nil && g.Name() == "Batch" {
						okv = true
					}
				}
			case *ssa.Phi:
				// the same batch on every way (e.g. refilled in a loop): each edge a parameter or a child batch
				okv = true
				for _, e := range x.Edges {
					switch y := e.(type) {
					case *ssa.Parameter:
					case *ssa.Extract:
						c, isC := y.Tuple.(*ssa.Call)
						if !isC || y.Index != 0 || !((c.Call.IsInvoke() && c.Call.Method.Name() == "Batch") || (c.Call.StaticCallee() != nil && c.Call.StaticCallee().Name() == "Batch")) {
							okv = false
						}
					case *ssa.Const:
					default:
						okv = false
					}
				}
			}
			r.add(okv, fmt.Sprintf("%s|%s#%d", p.FName(fn), name, idx), p.InstrPos(in), "the chunk given to "+name+" together with the context is the function's own chunk parameter or the batch just returned by the child plan")
		})
	}
	r.floor("calls handing a chunk and a context to vector evaluation", n, 30)
}

// ---------------- PLANSTACK ----------------

func init() {
	register("PLANSTACK", "the plans that evaluate expressions on whole chunks (their methods reach ExecuteBatch) sit directly on a scan: every value stored into the pair-level ChildPlan field of such a plan is traced back (through interface boxing, phis, parameters and the builders' returns) to scan plans only - never to a pair-level plan built here that drops, reorders or re-slices rows (a limit pushed below the projection): the scan leaves by-position columns in the context for exactly the rows it returned", rulePlanStack)
}

func rulePlanStack(p *Prog, r *Result) {
	plans, finals, err := p.planTypes()
	if err != nil {
		r.undecided("%v", err)
		return
	}
	scan := map[string]bool{}
	for _, t := range plans {
		switch p.planClass(t) {
		case "range", "prefix", "full", "point", "no-read":
			wrapper := false
			if st, ok := t.Underlying().(*types.Struct); ok {
				for i := 0; i < st.NumFields(); i++ {
					if st.Field(i).Name() == "ChildPlan" {
						wrapper = true
					}
				}
			}
			if !wrapper {
				scan[t.Obj().Name()] = true
			}
		}
	}
	// consumers: final plans with a pair-level child whose methods reach vector evaluation
	consumer := map[string]bool{}
	for _, t := range finals {
		st, ok := t.Underlying().(*types.Struct)
		if !ok {
			continue
		}
		hasPairChild := false
		for i := 0; i < st.NumFields(); i++ {
			if st.Field(i).Name() == "ChildPlan" && typeName(st.Field(i).Type()) == "Plan" {
				hasPairChild = true
			}
		}
		if !hasPairChild {
			continue
		}
		vec := false
		for _, m := range p.methodsOf(t) {
			for _, g := range p.staticClosure(m, 2, nil) {
				allInstrs(g, func(in ssa.Instruction) {
					if c, ok := in.(ssa.CallInstruction); ok && c.Common().IsInvoke() && c.Common().Method.Name() == "ExecuteBatch" {
						vec = true
					}
				})
			}
		}
		if vec {
			consumer[t.Obj().Name()] = true
		}
	}
	r.note("scan_plans", keysOf(scan))
	r.note("chunk_evaluating_plans", keysOf(consumer))
	var roots func(v ssa.Value, depth int, seen map[ssa.Value]bool) string
	roots = func(v ssa.Value, depth int, seen map[ssa.Value]bool) string {
		if v == nil || seen[v] {
			return ""
		}
		seen[v] = true
		if depth > 8 {
			return "provenance too deep"
		}
		switch x := v.(type) {
		case *ssa.MakeInterface:
			return roots(x.X, depth, seen)
		case *ssa.ChangeInterface:
			return roots(x.X, depth, seen)
		case *ssa.Phi:
			for _, e := range x.Edges {
				if m := roots(e, depth, seen); m != "" {
					return m
				}
			}
			return ""
		case *ssa.Alloc:
			tn := typeName(deref(x.Type()))
			if scan[tn] {
				return ""
			}
			return "a " + tn + " built at " + p.InstrPos(x)
		case *ssa.Extract:
			return roots(x.Tuple, depth, seen)
		case *ssa.TypeAssert:
			return roots(x.X, depth, seen)
		case *ssa.Call:
			g := x.Call.StaticCallee()
			if g == nil || !p.InPkg(g) || len(g.Blocks) == 0 {
				return "result of " + callDesc(p, x)
			}
			for _, b := range g.Blocks {
				if ret := retOf(b); ret != nil && len(ret.Results) > 0 {
					if m := roots(retVal(ret, 0), depth+1, seen); m != "" {
						return m
					}
				}
			}
			return ""
		case *ssa.Parameter:
			fn := x.Parent()
			idx := -1
			for i, pa := range fn.Params {
				if pa == x {
					idx = i
				}
			}
			ncall := 0
			for _, caller := range p.Funcs {
				var msg string
				allInstrs(caller, func(in ssa.Instruction) {
					ci, ok := in.(ssa.CallInstruction)
					if !ok || ci.Common().StaticCallee() != fn || msg != "" || idx >= len(ci.Common().Args) {
						return
					}
					ncall++
					msg = roots(ci.Common().Args[idx], depth+1, seen)
				})
				if msg != "" {
					return msg
				}
			}
			if ncall == 0 {
				return "" // public entry: the caller's plan
			}
			return ""
		case *ssa.UnOp:
			if x.Op == token.MUL {
				if al, ok := x.X.(*ssa.Alloc); ok {
					for _, sv := range storedInto(al) {
						if m := roots(sv, depth+1, seen); m != "" {
							return m
						}
					}
					return ""
				}
			}
		case *ssa.Const:
			return ""
		}
		return "value of unknown origin " + v.String()
	}
	n := 0
	for _, fn := range p.Funcs {
		allInstrs(fn, func(in ssa.Instruction) {
			st, ok := in.(*ssa.Store)
			if !ok {
				return
			}
			o, f, _, ok := fieldOfAddr(st.Addr)
			if !ok || o == nil || f != "ChildPlan" || !consumer[o.Obj().Name()] {
				return
			}
			n++
			m := roots(st.Val, 0, map[ssa.Value]bool{})
			r.add(m == "", fmt.Sprintf("%s|%s.ChildPlan#%d", p.FName(fn), o.Obj().Name(), n), p.InstrPos(st), firstNonEmpty(map[bool]string{true: "the child of " + o.Obj().Name() + " can be " + m}[m != ""], "the child of "+o.Obj().Name()+" is a scan plan on every way"))
		})
	}
	r.floor("stores to the pair-level ChildPlan of chunk-evaluating plans", n, 2)
}

// ---------------- AGGRKIND ----------------

func init() {
	register("AGGRKIND", "the kind of an aggregate's result depends only on the kinds of its inputs: (a) in every Complete method, for each assignment of the accumulator's Boolean fields all successful returns box one and the same Go type (a result that is int64 for some groups and float64 for others makes arithmetic around it and ORDER BY on it behave differently per group); (b) such a Boolean field is set (outside constructors) only to a value, or under a test, derived from the classification of the argument's kind (the Boolean result of convertToNumber / a type assertion) - never under a test of the values accumulated so far", ruleAggrKind)
}

func ruleAggrKind(p *Prog, r *Result) {
	n := 0
	conv := p.Func("convertToNumber")
	for _, fn := range p.Funcs {
		if fn.Name() != "Complete" || fn.Signature.Recv() == nil || len(fn.Blocks) == 0 || fn.Signature.Results().Len() != 2 {
			continue
		}
		recvT := namedOf(deref(fn.Signature.Recv().Type()))
		if recvT == nil {
			continue
		}
		tname := recvT.Obj().Name()
		// the Boolean fields the method branches on
		flags := map[string]bool{}
		for _, b := range fn.Blocks {
			if f := ifOf(b); f != nil {
				if a, ok := condAtom(f.Cond, true); ok {
					if o, fl, _, isF := loadedField(a.X); isF && o != nil && o.Obj().Name() == tname {
						if _, isB := constBool(a.Y); isB {
							flags[fl] = true
						}
					}
				}
			}
		}
		names := keysOf(flags)
		n++
		bad := ""
		for mask := 0; mask < 1<<len(names); mask++ {
			val := map[string]bool{}
			for i, nm := range names {
				val[nm] = mask&(1<<i) != 0
			}
			reach := walkAssuming(fn, decideAtoms(func(a Atom) (bool, bool) {
				if o, fl, _, isF := loadedField(a.X); isF && o != nil && o.Obj().Name() == tname && flags[fl] {
					if bv, isB := constBool(a.Y); isB {
						return true, ((a.Op == token.EQL) == bv) == val[fl]
					}
				}
				return false, false
			}))
			kinds := map[string]bool{}
			for _, b := range orderedBlocks(fn, reach) {
				ret := retOf(b)
				if ret == nil || !isNilConst(retVal(ret, 1)) {
					continue
				}
				switch x := retVal(ret, 0).(type) {
				case *ssa.MakeInterface:
					kinds[types.TypeString(x.X.Type(), func(*types.Package) string { return "" })] = true
				case *ssa.Const:
					// nil result: no value
				default:
					kinds["?"+x.Type().String()] = true
				}
			}
			if len(kinds) > 1 {
				bad = fmt.Sprintf("with %v the successful returns box %v", val, keysOf(kinds))
			}
		}
		r.add(bad == "", tname+".Complete", p.Pos(fn.Pos()), firstNonEmpty(bad, fmt.Sprintf("one result kind per assignment of %v", names)))
		// (b) where the flags are set
		for _, m := range p.methodsOf(recvT) {
			if m.Name() == "Complete" {
				continue
			}
			idx := 0
			allInstrs(m, func(in ssa.Instruction) {
				st, ok := in.(*ssa.Store)
				if !ok {
					return
				}
				o, fl, base, ok := fieldOfAddr(st.Addr)
				if !ok || o == nil || o.Obj().Name() != tname || !flags[fl] {
					return
				}
				if _, fresh := base.(*ssa.Alloc); fresh {
					return // a literal being built
				}
				idx++
				isKindFlag := func(v ssa.Value) bool {
					return mentions(v, func(x ssa.Value) bool {
						ex, ok := x.(*ssa.Extract)
						if !ok {
							return false
						}
						switch t := ex.Tuple.(type) {
						case *ssa.Call:
							return conv != nil && t.Call.StaticCallee() == conv && ex.Index == 2
						case *ssa.TypeAssert:
							return ex.Index == 1
						}
						return false
					}, 6)
				}
				okv := false
				if _, isC := constBool(st.Val); !isC {
					okv = isKindFlag(st.Val)
				} else {
					// a constant: every test on the way here that is not about the flag itself or the kind must be absent
					okv = true
					kindSeen := false
					for _, a := range dominatingAtoms(st.Block()) {
						if isKindFlag(a.X) || isKindFlag(a.Y) {
							kindSeen = true
							continue
						}
						if o2, f2, _, isF := loadedField(a.X); isF && o2 != nil && o2.Obj().Name() == tname && flags[f2] {
							continue
						}
						// a test on what was accumulated so far (any other field of the accumulator)
						onState := func(v ssa.Value) bool {
							return mentions(v, func(x ssa.Value) bool {
								o3, f3, _, isF := loadedField(x)
								return isF && o3 != nil && o3.Obj().Name() == tname && !flags[f3]
							}, 6)
						}
						if onState(a.X) || onState(a.Y) {
							okv = false
						}
					}
					okv = okv && kindSeen
				}
				r.add(okv, fmt.Sprintf("%s.%s|%s#%d", tname, m.Name(), fl, idx), p.InstrPos(st), "the result-kind flag "+fl+" is set from the kind of the argument only")
			})
		}
	}
	// (c) integers are compared as integers only when both are integers: in an Update method, an ordering comparison of
	// int64 values one of which comes from convertToNumber's integer result (the truncated integer part of a float
	// argument) is dominated by `the argument is not a float`
	if conv != nil {
		ncmp := 0
		for _, fn := range p.Funcs {
			if fn.Name() != "Update" || fn.Signature.Recv() == nil {
				continue
			}
			idx := 0
			allInstrs(fn, func(in ssa.Instruction) {
				bo, ok := in.(*ssa.BinOp)
				if !ok {
					return
				}
				switch bo.Op {
				case token.LSS, token.GTR, token.LEQ, token.GEQ:
				default:
					return
				}
				fromInt := func(v ssa.Value) bool {
					ex, ok := v.(*ssa.Extract)
					if !ok || ex.Index != 0 {
						return false
					}
					c, ok := ex.Tuple.(*ssa.Call)
					return ok && c.Call.StaticCallee() == conv
				}
				if !fromInt(bo.X) && !fromInt(bo.Y) {
					return
				}
				ncmp++
				idx++
				guarded := false
				for _, a := range dominatingAtoms(bo.Block()) {
					ex, ok := a.X.(*ssa.Extract)
					if !ok || ex.Index != 2 {
						continue
					}
					if c, ok := ex.Tuple.(*ssa.Call); ok && c.Call.StaticCallee() == conv {
						if bv, isB := constBool(a.Y); isB && ((a.Op == token.EQL) == bv) == false {
							guarded = true
						}
					}
				}
				r.add(guarded, fmt.Sprintf("%s|int-compare#%d", p.FName(fn), idx), p.InstrPos(bo), "the integer comparison is made only when the argument is not a float (its integer image is truncated)")
			})
		}
		r.floor("integer comparisons of an accumulator with its argument", ncmp, 2)
		// ... and every value counts: between reading the argument as a number and the test `is this the first value`
		// no way leads out of Update. (The reader answers 0 for what it cannot read - and for the integer 0: a guard
		// that skips `what is not a number` by that answer drops the zeros.)
		nskip := 0
		for _, fn := range p.Funcs {
			if fn.Name() != "Update" || fn.Signature.Recv() == nil || len(fn.Blocks) == 0 {
				continue
			}
			var conv2 ssa.Instruction
			allInstrs(fn, func(in ssa.Instruction) {
				if c, ok := in.(*ssa.Call); ok && c.Call.StaticCallee() == conv && conv2 == nil {
					conv2 = in
				}
			})
			if conv2 == nil {
				continue
			}
			var firstTest *ssa.BasicBlock
			for _, b := range fn.Blocks {
				f := ifOf(b)
				if f == nil {
					continue
				}
				v := f.Cond
				if u, ok := v.(*ssa.UnOp); ok && u.Op == token.NOT {
					v = u.X
				}
				if _, fl, base, ok := loadedField(v); ok && base == ssa.Value(fn.Params[0]) && fl != "" {
					if bt, isB := v.Type().Underlying().(*types.Basic); isB && bt.Kind() == types.Bool && firstTest == nil && conv2.Block().Dominates(b) {
						firstTest = b
					}
				}
			}
			if firstTest == nil {
				continue
			}
			nskip++
			early := ""
			for _, b := range fn.Blocks {
				ret := retOf(b)
				if ret == nil || !conv2.Block().Dominates(b) || b == conv2.Block() {
					continue
				}
				if !firstTest.Dominates(b) {
					early = p.InstrPos(ret)
				}
			}
			r.add(early == "", p.FName(fn)+"|every-value", p.Pos(fn.Pos()), firstNonEmpty(map[bool]string{true: "Update returns at " + early + " after reading the argument but before the test for the first value: some values are skipped"}[early != ""], "every value read reaches the accumulator"))
		}
		r.note("accumulators_with_a_first_value_flag", nskip)
	}
	r.floor("accumulator Complete methods", n, 6)
}

// ---------------- BETWEENORDER ----------------

func init() {
	register("BETWEENORDER", "BETWEEN means lower <= x <= upper with the boundaries as written: every evaluator the Between operator is dispatched to compares its two boundary values with each other and, when lower > upper, answers false for that pair - no error, no swap. The scan-range optimizer turns `key between a and b` into the region [a, b] as written, which is empty when a > b: an evaluator accepting reversed boundaries would select rows the access path never reads, and one raising an error disagrees with the planner (which reads nothing and reports nothing) as soon as the clause is or-ed with something else", ruleBetweenOrder)
}

// answersFalse: the block ends the evaluation of one pair with the answer false and no error - it returns
// (false, nil), or (vector code) stores the constant false into the result column.
func answersFalse(b *ssa.BasicBlock) bool {
	if ret := retOf(b); ret != nil && len(ret.Results) == 2 {
		v := retVal(ret, 0)
		if mi, ok := v.(*ssa.MakeInterface); ok {
			v = mi.X
		}
		if bv, isB := constBool(v); isB && !bv && isNilConst(retVal(ret, 1)) {
			return true
		}
	}
	for _, in := range b.Instrs {
		st, ok := in.(*ssa.Store)
		if !ok {
			continue
		}
		if _, isIA := st.Addr.(*ssa.IndexAddr); !isIA {
			continue
		}
		v := st.Val
		if mi, ok := v.(*ssa.MakeInterface); ok {
			v = mi.X
		}
		if bv, isB := constBool(v); isB && !bv {
			return true
		}
	}
	return false
}

func ruleBetweenOrder(p *Prog, r *Result) {
	row := p.MethodByName("BinaryOpExpr", "Execute")
	bat := p.MethodByName("BinaryOpExpr", "ExecuteBatch")
	if row == nil || bat == nil {
		r.undecided("anchor: (*BinaryOpExpr).Execute/ExecuteBatch not found")
		return
	}
	fns := map[*ssa.Function]bool{}
	for _, top := range []*ssa.Function{row, bat} {
		tab, err := p.dispatchTable(top)
		if err != nil {
			r.undecided("%v", err)
			return
		}
		for _, cls := range []string{"str", "num"} {
			if e := tab["Between"][cls]; e != nil {
				fns[e.Callee] = true
			}
		}
	}
	isLeftDerived := func(v ssa.Value) bool {
		return derivesFrom(v, func(x ssa.Value) bool {
			c, ok := x.(*ssa.Call)
			if !ok || !c.Call.IsInvoke() {
				return false
			}
			if nm := c.Call.Method.Name(); nm != "Execute" && nm != "ExecuteBatch" {
				return false
			}
			return p.derivesFromField(c.Call.Value, "BinaryOpExpr", "Left", traceOpts{})
		})
	}
	n := 0
	var names []*ssa.Function
	for f := range fns {
		names = append(names, f)
	}
	sort.Slice(names, func(i, j int) bool { return names[i].Name() < names[j].Name() })
	for _, fn := range names {
		n++
		results := map[ssa.Value]bool{} // Boolean results of comparisons of the two boundaries
		allInstrs(fn, func(in ssa.Instruction) {
			c, ok := in.(*ssa.Call)
			if !ok || len(c.Call.Args) != 3 {
				return
			}
			if !isCompareHelperCall(p, c) {
				return
			}
			if isLeftDerived(c.Call.Args[0]) || isLeftDerived(c.Call.Args[1]) {
				return
			}
			if res := extractOf(c, 0); res != nil {
				results[res] = true
			}
		})
		found := len(results)
		failing := map[ssa.Value]bool{}
		for _, b := range fn.Blocks {
			f := ifOf(b)
			if f == nil {
				continue
			}
			a, ok := condAtom(f.Cond, true)
			if !ok {
				continue
			}
			var tested []ssa.Value
			for _, v := range []ssa.Value{a.X, a.Y} {
				if results[v] {
					tested = append(tested, v)
				}
				if ph, isPhi := v.(*ssa.Phi); isPhi {
					all := len(ph.Edges) > 0
					for _, e := range ph.Edges {
						if !results[e] {
							all = false
						}
					}
					if all {
						tested = append(tested, ph.Edges...)
					}
				}
			}
			if len(tested) == 0 {
				continue
			}
			for si, sc := range b.Succs {
				if !edgeDominates(b, si, sc) {
					continue
				}
				if answersFalse(sc) {
					for _, t := range tested {
						failing[t] = true
					}
				}
			}
		}
		fails := len(failing)
		// ... and only for lower > upper: equal boundaries are a legal (one-key) range
		strictBad := ""
		var boundIdx func(v ssa.Value) int
		boundIdx = func(v ssa.Value) int {
			idx := -1
			mentions(v, func(x ssa.Value) bool {
				// the boundaries may be handed out by a package helper (lexpr, uexpr, err := e.betweenBoundaries())
				if ex, isEx := x.(*ssa.Extract); isEx && idx < 0 {
					if c, isC := ex.Tuple.(*ssa.Call); isC {
						if g := c.Call.StaticCallee(); g != nil && p.InPkg(g) && len(g.Blocks) > 0 {
							for _, gb := range g.Blocks {
								ret := retOf(gb)
								if ret == nil || ex.Index >= len(ret.Results) || isNilConst(ret.Results[ex.Index]) {
									continue
								}
								if k := boundIdx(ret.Results[ex.Index]); k >= 0 && idx < 0 {
									idx = k
								}
							}
						}
					}
				}
				ia, ok := x.(*ssa.IndexAddr)
				if !ok {
					return false
				}
				if !p.derivesFromField(ia.X, "ListExpr", "List", traceOpts{}) {
					return false
				}
				if k, ok := constInt(ia.Index); ok && idx < 0 {
					idx = int(k)
				}
				return false
			}, 12)
			return idx
		}
		for res := range results {
			ex, _ := res.(*ssa.Extract)
			if ex == nil {
				continue
			}
			c, _ := ex.Tuple.(*ssa.Call)
			if c == nil {
				continue
			}
			op, isS := constString(c.Call.Args[2])
			i0, i1 := boundIdx(c.Call.Args[0]), boundIdx(c.Call.Args[1])
			if !isS || i0 < 0 || i1 < 0 || i0 == i1 {
				strictBad = "the boundary comparison at " + p.InstrPos(c) + " could not be read (operands " + fmt.Sprint(i0, i1) + ")"
				continue
			}
			// normalise to lower OP upper
			if i0 == 1 {
				op = map[string]string{"<": ">", "<=": ">=", ">": "<", ">=": "<=", "=": "="}[op]
			}
			// which outcome fails: find the If on this result (or its phi) whose successor returns the error
			failsWhen := ""
			for _, b := range fn.Blocks {
				f := ifOf(b)
				if f == nil {
					continue
				}
				a, ok := condAtom(f.Cond, true)
				if !ok {
					continue
				}
				hit := a.X == res
				if ph, isPhi := a.X.(*ssa.Phi); isPhi {
					for _, e := range ph.Edges {
						if e == res {
							hit = true
						}
					}
				}
				if !hit {
					continue
				}
				for si, sc := range b.Succs {
					if !edgeDominates(b, si, sc) {
						continue
					}
					if answersFalse(sc) {
						ea, _ := edgeAtom(b, si)
						bv, _ := constBool(ea.Y)
						if (ea.Op == token.EQL) == bv {
							failsWhen = "true"
						} else {
							failsWhen = "false"
						}
					}
				}
			}
			okStrict := (op == "<=" && failsWhen == "false") || (op == ">" && failsWhen == "true")
			if !okStrict {
				strictBad = fmt.Sprintf("the evaluator answers false when (lower %s upper) is %s: equal boundaries give no match", op, failsWhen)
			}
		}
		if found > 0 {
			r.add(strictBad == "", p.FName(fn)+"|equal-allowed", p.Pos(fn.Pos()), firstNonEmpty(strictBad, "the evaluator answers false without looking at the value exactly when lower > upper"))
		}
		r.add(found > 0 && fails >= found, p.FName(fn), p.Pos(fn.Pos()), fmt.Sprintf("the two boundaries are compared with each other (%d comparison(s)) and on one outcome the answer is false, without an error and without a swap (%d)", found, fails))
	}
	r.floor("evaluators of BETWEEN", n, 2)
}

// ---------------- INITRESET ----------------

func init() {
	register("INITRESET", "Init rewinds a plan: every field of a plan that its Next / Batch (or the methods they call on the same plan) write - positions, counters, finished flags, prepared flags, buffers - is also written by its Init (directly or through methods of the same plan), so a plan that is initialised again runs again, whatever access path was chosen for it", ruleInitReset)
}

func ruleInitReset(p *Prog, r *Result) {
	plans, finals, err := p.planTypes()
	if err != nil {
		r.undecided("%v", err)
		return
	}
	n := 0
	for _, t := range append(append([]*types.Named{}, plans...), finals...) {
		tname := t.Obj().Name()
		own := func(f *ssa.Function) bool {
			return f.Signature.Recv() != nil && typeName(deref(f.Signature.Recv().Type())) == tname
		}
		written := func(root *ssa.Function) map[string]string {
			out := map[string]string{}
			if root == nil {
				return out
			}
			for _, f := range p.staticClosure(root, 3, func(g *ssa.Function) bool { return !own(g) }) {
				if !own(f) {
					continue
				}
				allInstrs(f, func(in ssa.Instruction) {
					st, ok := in.(*ssa.Store)
					if !ok {
						return
					}
					o, fl, base, ok := fieldOfAddr(st.Addr)
					if !ok || o == nil || o.Obj().Name() != tname {
						return
					}
					if _, fresh := base.(*ssa.Alloc); fresh {
						return
					}
					if _, seen := out[fl]; !seen {
						out[fl] = p.InstrPos(st)
					}
				})
			}
			return out
		}
		initFn := p.Method(t, "Init")
		if initFn == nil {
			continue
		}
		reset := written(initFn)
		adv := map[string]string{}
		for _, nm := range []string{"Next", "Batch"} {
			for k, v := range written(p.Method(t, nm)) {
				if _, ok := adv[k]; !ok {
					adv[k] = v
				}
			}
		}
		var advNames []string
		for k := range adv {
			advNames = append(advNames, k)
		}
		sort.Strings(advNames)
		for _, fl := range advNames {
			n++
			_, ok := reset[fl]
			r.add(ok, tname+"."+fl, adv[fl], fmt.Sprintf("field %s is written while the plan runs (first at %s); Init must write it too", fl, adv[fl]))
		}
	}
	r.floor("plan fields written by Next/Batch", n, 15)
	// ... and a plan with a child initialises the child whenever its own Init succeeds: the child holds the cursor,
	// and `nothing was read yet` (counters at zero) is also the state after a run that found no rows, so an Init that
	// returns early on it leaves an exhausted cursor in place
	nChild := 0
	for _, fn := range p.Funcs {
		if fn.Name() != "Init" || fn.Signature.Recv() == nil || len(fn.Blocks) == 0 {
			continue
		}
		rt := namedOf(deref(fn.Signature.Recv().Type()))
		if rt == nil {
			continue
		}
		st, ok := rt.Underlying().(*types.Struct)
		if !ok {
			continue
		}
		childField := ""
		for i := 0; i < st.NumFields(); i++ {
			tn := typeName(st.Field(i).Type())
			if (tn == "Plan" || tn == "FinalPlan") && st.Field(i).Name() != "" {
				if _, isI := st.Field(i).Type().Underlying().(*types.Interface); isI {
					childField = st.Field(i).Name()
				}
			}
		}
		if childField == "" {
			continue
		}
		var inits []ssa.Instruction
		allInstrs(fn, func(in ssa.Instruction) {
			if c, ok := in.(*ssa.Call); ok && c.Call.IsInvoke() && c.Call.Method.Name() == "Init" && p.derivesFromField(c.Call.Value, rt.Obj().Name(), childField, traceOpts{}) {
				inits = append(inits, in)
			}
		})
		if len(inits) == 0 {
			continue // a plan that leaves the child's initialisation to its builder
		}
		nChild++
		bad := ""
		for _, b := range fn.Blocks {
			ret := retOf(b)
			if ret == nil || len(ret.Results) == 0 || !isNilConst(retVal(ret, len(ret.Results)-1)) {
				continue
			}
			dom := false
			for _, ci := range inits {
				if instrDominates(ci, ret) {
					dom = true
				}
			}
			if !dom {
				bad = p.InstrPos(ret)
			}
		}
		r.add(bad == "", rt.Obj().Name()+".Init|child-init", p.Pos(fn.Pos()), firstNonEmpty(map[bool]string{true: "Init can report success at " + bad + " without having initialised its child plan: the child keeps the cursor of the previous run"}[bad != ""], "every successful return of Init follows the initialisation of the child plan"))
	}
	r.note("plans_initialising_a_child", nChild)
}

// ---------------- CHECKORDER ----------------

func init() {
	register("CHECKORDER", "names are resolved before they are looked at: in the parser function that builds the select statement's checking context, the call that validates the select fields (which runs the alias-cycle guard and resolves the names the fields use) dominates every other call that can reach a Check method or asks a select field for its type (ORDER BY / GROUP BY field lookup, the WHERE check); and the field types kept in the statement are stored from ReturnType after the fields were checked (types taken from unresolved names are wrong: `a + 'x'` is a number while `a` is only a name)", ruleCheckOrder)
}

func ruleCheckOrder(p *Prog, r *Result) {
	vf := p.MethodByName("SelectStmt", "ValidateFields")
	if vf == nil {
		r.undecided("anchor: (*SelectStmt).ValidateFields not found")
		return
	}
	// the parser function that allocates the CheckCtx carrying the select fields
	var host *ssa.Function
	for _, fn := range p.Funcs {
		if fn.Signature.Recv() == nil || typeName(deref(fn.Signature.Recv().Type())) != "Parser" {
			continue
		}
		allInstrs(fn, func(in ssa.Instruction) {
			st, ok := in.(*ssa.Store)
			if !ok {
				return
			}
			if o, f, base, ok := fieldOfAddr(st.Addr); ok && o != nil && o.Obj().Name() == "CheckCtx" && f == "Fields" {
				if _, fresh := base.(*ssa.Alloc); fresh && !isNilConst(st.Val) {
					host = fn
				}
			}
		})
	}
	if host == nil {
		r.undecided("anchor: the parser function building the select statement's CheckCtx was not found")
		return
	}
	reaches := func(g *ssa.Function, names ...string) bool {
		found := false
		for _, h := range p.staticClosure(g, 3, nil) {
			allInstrs(h, func(in ssa.Instruction) {
				if c, ok := in.(ssa.CallInstruction); ok && c.Common().IsInvoke() {
					for _, nm := range names {
						if c.Common().Method.Name() == nm {
							found = true
						}
					}
				}
			})
		}
		return found
	}
	var guard *ssa.Call
	allInstrs(host, func(in ssa.Instruction) {
		if c := isStaticCallTo(in, vf); c != nil && guard == nil {
			guard = c
		}
	})
	if guard == nil {
		r.hit(p.FName(host)+"|validates-fields", p.Pos(host.Pos()), "the select fields are not validated in the function that builds their checking context")
		return
	}
	// the guard's error ends the function
	returned := false
	for _, b := range host.Blocks {
		for _, a := range dominatingAtoms(b) {
			if a.Op == token.NEQ && a.X == ssa.Value(guard) && isNilConst(a.Y) {
				if ret := retOf(b); ret != nil {
					returned = true
				}
			}
		}
	}
	r.add(returned, p.FName(host)+"|validates-fields", p.InstrPos(guard), "the error of the select-field validation ends the parse")
	n := 0
	allInstrs(host, func(in ssa.Instruction) {
		c, ok := in.(*ssa.Call)
		if !ok || c == guard {
			return
		}
		what := ""
		if c.Call.IsInvoke() {
			if nm := c.Call.Method.Name(); nm == "Check" || nm == "ReturnType" {
				what = nm
			}
		} else if g := c.Call.StaticCallee(); g != nil && p.InPkg(g) && g != vf && reaches(g, "Check", "ReturnType") {
			// only calls made once the checking context exists matter: those that receive the statement or the context
			uses := false
			for _, a := range c.Call.Args {
				if tn := typeName(deref(a.Type())); tn == "SelectStmt" || tn == "CheckCtx" {
					uses = true
				}
			}
			if uses {
				what = g.Name()
			}
		}
		if what == "" {
			return
		}
		n++
		r.add(instrDominates(guard, c), fmt.Sprintf("%s|%s#%d", p.FName(host), what, n), p.InstrPos(c), "a call that checks an expression or asks a select field for its type comes after the select fields were validated")
	})
	r.floor("calls that look at the select fields", n, 3)
	// field types recomputed after the check
	refreshed := false
	for _, f := range p.staticClosure(vf, 2, nil) {
		allInstrs(f, func(in ssa.Instruction) {
			st, ok := in.(*ssa.Store)
			if !ok {
				return
			}
			ia, ok := st.Addr.(*ssa.IndexAddr)
			if !ok || !isFieldLoad(ia.X, "SelectStmt", "FieldTypes") {
				return
			}
			if c, ok := st.Val.(*ssa.Call); ok && c.Call.IsInvoke() && c.Call.Method.Name() == "ReturnType" {
				// after the checks: not inside the loop that still checks fields (no Check-reaching call can follow it on a path back)
				// no check can follow the store: from its block no block with a Check-reaching call is reachable
				okPos := true
				seenB := map[*ssa.BasicBlock]bool{}
				var walk func(b *ssa.BasicBlock)
				walk = func(b *ssa.BasicBlock) {
					if seenB[b] {
						return
					}
					seenB[b] = true
					for _, in2 := range b.Instrs {
						if c2, ok := in2.(*ssa.Call); ok {
							g := c2.Call.StaticCallee()
							if (c2.Call.IsInvoke() && c2.Call.Method.Name() == "Check") || (g != nil && p.InPkg(g) && reaches(g, "Check")) {
								okPos = false
							}
						}
					}
					for _, sc := range b.Succs {
						walk(sc)
					}
				}
				for _, sc := range st.Block().Succs {
					walk(sc)
				}
				if okPos {
					refreshed = true
				}
			}
		})
	}
	r.add(refreshed, "(*SelectStmt).ValidateFields|types-refreshed", p.Pos(vf.Pos()), "after the fields were checked their types are stored into FieldTypes from ReturnType")
	// the names in ALL fields are resolved before the first field is typed: while a field is checked its operands
	// are asked for their types, and a field listed later whose own names are still plain names has another type
	// than it will have (`a + 'x'` is a number as long as `a` is just a name). So every call in ValidateFields
	// that reaches a Check lies behind a loop that reaches the name rewriting (tryRewriteExpr) but no Check
	reachesStatic := func(g *ssa.Function, name string) bool {
		for _, h := range p.staticClosure(g, 3, nil) {
			if h.Name() == name {
				return true
			}
		}
		return false
	}
	var resolveLoops []*Loop
	for _, L := range naturalLoops(vf) {
		res, chk := false, false
		for b := range L.Body {
			for _, in := range b.Instrs {
				ci, ok := in.(ssa.CallInstruction)
				if !ok {
					continue
				}
				var callees []*ssa.Function
				if g := ci.Common().StaticCallee(); g != nil {
					callees = append(callees, g)
				}
				for _, a := range ci.Common().Args {
					if mc, ok := a.(*ssa.MakeClosure); ok {
						callees = append(callees, mc.Fn.(*ssa.Function))
					}
					if ct, ok := a.(*ssa.ChangeType); ok {
						if mc, ok := ct.X.(*ssa.MakeClosure); ok {
							callees = append(callees, mc.Fn.(*ssa.Function))
						}
					}
				}
				isWalk := (ci.Common().IsInvoke() && ci.Common().Method.Name() == "Walk") || (ci.Common().StaticCallee() != nil && ci.Common().StaticCallee().Name() == "Walk")
				for _, g := range callees {
					if !p.InPkg(g) {
						continue
					}
					// the names are resolved at every depth: through a Walk over the field, or a function that calls
					// itself (the type of `a + 'x' + 'y'` hangs on a name two operators down)
					recursive := false
					for _, h := range p.staticClosure(g, 3, nil) {
						allInstrs(h, func(x ssa.Instruction) {
							if c, ok := x.(ssa.CallInstruction); ok && c.Common().StaticCallee() == g {
								recursive = true
							}
						})
					}
					if reachesStatic(g, "tryRewriteExpr") && (isWalk || recursive) {
						res = true
					}
					if reaches(g, "Check") || g.Name() == "Check" {
						chk = true
					}
				}
				if ci.Common().IsInvoke() && ci.Common().Method.Name() == "Check" {
					chk = true
				}
			}
		}
		if res && !chk {
			resolveLoops = append(resolveLoops, L)
		}
	}
	nChk := 0
	allInstrs(vf, func(in ssa.Instruction) {
		c, ok := in.(*ssa.Call)
		if !ok {
			return
		}
		g := c.Call.StaticCallee()
		if g == nil || !p.InPkg(g) || !(reaches(g, "Check") || g.Name() == "Check") {
			return
		}
		// the alias-cycle guard consults the names only
		if reachesStatic(g, "GetNamedExpr") && !reaches(g, "Check") {
			return
		}
		nChk++
		behind := false
		for _, L := range resolveLoops {
			if !L.Body[in.Block()] && L.Header.Dominates(in.Block()) {
				behind = true
			}
		}
		r.add(behind, fmt.Sprintf("(*SelectStmt).ValidateFields|resolve-first#%d", nChk), p.InstrPos(in), "a select field is type-checked only after a loop has resolved the names in all the fields (a field listed earlier may use one listed later)")
	})
	// ... and the types a plan announces for its columns are the types the fields were checked with: the sort picks
	// its comparator from them and parses the text of a number group key back with them, so no FieldTypeList method
	// writes a type constant of its own into the list
	nFT := 0
	for _, fn := range p.Funcs {
		if fn.Name() != "FieldTypeList" || fn.Signature.Recv() == nil || len(fn.Blocks) == 0 || !strings.Contains(typeName(deref(fn.Signature.Recv().Type())), "Aggregate") {
			continue
		}
		nFT++
		own := ""
		allInstrs(fn, func(in ssa.Instruction) {
			st, ok := in.(*ssa.Store)
			if !ok || typeName(st.Val.Type()) != "Type" {
				return
			}
			if _, isC := st.Val.(*ssa.Const); isC {
				own = p.InstrPos(in)
			}
		})
		r.add(own == "", p.FName(fn)+"|as-checked", p.Pos(fn.Pos()), firstNonEmpty(map[bool]string{true: "a type constant is written into the announced list at " + own}[own != ""], "the announced column types are the checked ones"))
	}
	r.floor("FieldTypeList methods of aggregate plans", nFT, 1)
	// ... and the sort compares a column by the checked type of the select field it orders by: either the order plan
	// takes the type from the announced list (FieldTypes[idx]), or - when it asks the order field's own expression -
	// that expression is the select field itself (handed out by the look-up in the select list), never a second
	// parse of the ORDER BY text, whose names nobody resolved. One of the two has to hold; each of the two edits
	// that give them up is harmless while the other still stands
	if oi := p.MethodByName("FinalOrderPlan", "Init"); oi != nil {
		fromList := true
		nT := 0
		allInstrs(oi, func(in ssa.Instruction) {
			st, ok := in.(*ssa.Store)
			if !ok {
				return
			}
			_, f, _, ok := fieldOfAddr(st.Addr)
			if !ok || f != "orderTypes" {
				return
			}
			for _, ap := range appendsInto(st.Val) {
				for _, a := range ap.Call.Args[1:] {
					// the appended element: a one-element slice of a fresh array
					elemFromList := false
					mentions(a, func(x ssa.Value) bool {
						if _, fl, _, ok := loadedField(x); ok && fl == "FieldTypes" {
							elemFromList = true
						}
						return false
					}, 10)
					if sl, ok := a.(*ssa.Slice); ok {
						if al, ok := sl.X.(*ssa.Alloc); ok {
							for _, sv := range storedInto(al) {
								nT++
								okv := false
								mentions(sv, func(x ssa.Value) bool {
									if _, fl, _, ok := loadedField(x); ok && fl == "FieldTypes" {
										okv = true
									}
									return false
								}, 10)
								if !okv {
									fromList = false
								}
							}
							continue
						}
					}
					nT++
					if !elemFromList {
						fromList = false
					}
				}
			}
		})
		fieldIsSelected := true
		nF := 0
		for _, fn := range p.Funcs {
			if fn.Signature.Recv() == nil || typeName(deref(fn.Signature.Recv().Type())) != "Parser" {
				continue
			}
			lookup := p.MethodByName("Parser", "findFieldInSelect")
			allInstrs(fn, func(in ssa.Instruction) {
				st, ok := in.(*ssa.Store)
				if !ok {
					return
				}
				o, f, _, ok := fieldOfAddr(st.Addr)
				if !ok || o == nil || o.Obj().Name() != "OrderField" || f != "Field" {
					return
				}
				nF++
				okv := false
				v := st.Val
				if ex, isEx := v.(*ssa.Extract); isEx {
					if c, isC := ex.Tuple.(*ssa.Call); isC && lookup != nil && c.Call.StaticCallee() == lookup {
						okv = true
					}
				}
				if !okv {
					fieldIsSelected = false
				}
			})
		}
		if nT > 0 && nF > 0 {
			r.add(fromList || fieldIsSelected, "(*FinalOrderPlan).Init|order-types", p.Pos(oi.Pos()), fmt.Sprintf("the comparison type of an order column is the checked type of the select field: taken from FieldTypes (%v), or from an order field that is the select field itself (%v)", fromList, fieldIsSelected))
		} else {
			r.undecided("anchor: the order types / order fields could not be traced (%d type stores, %d field stores)", nT, nF)
		}
	}
}

// ---------------- NAMEOWNER ----------------

func init() {
	register("NAMEOWNER", "the field caches are keyed by field name, and a name can be given to several select fields (it stands for the first): wherever a projection reads a cached value for field i by FieldNames[i], the read is guarded by a test that no earlier field carries the same name (a package function comparing two elements of FieldNames, or such a comparison in place)", ruleNameOwner)
}

func ruleNameOwner(p *Prog, r *Result) {
	ct := p.Named("ExecuteCtx")
	pt := p.Named("ProjectionPlan")
	if ct == nil || pt == nil {
		r.undecided("anchor: ExecuteCtx / ProjectionPlan not found")
		return
	}
	// reads of a cache by name: methods of ExecuteCtx that look a map field up with their name parameter and return the value
	readers := map[*ssa.Function]bool{}
	for _, m := range p.methodsOf(ct) {
		if len(m.Params) < 2 || m.Signature.Results().Len() != 2 {
			continue
		}
		allInstrs(m, func(in ssa.Instruction) {
			if lk, ok := in.(*ssa.Lookup); ok && lk.Index == ssa.Value(m.Params[1]) && lk.CommaOk {
				readers[m] = true
			}
		})
	}
	comparesNames := func(f *ssa.Function) bool {
		found := false
		allInstrs(f, func(in ssa.Instruction) {
			bo, ok := in.(*ssa.BinOp)
			if !ok || bo.Op != token.EQL && bo.Op != token.NEQ {
				return
			}
			isNameElem := func(v ssa.Value) bool {
				ld, ok := v.(*ssa.UnOp)
				if !ok {
					return false
				}
				ia, ok := ld.X.(*ssa.IndexAddr)
				return ok && p.derivesFromField(ia.X, "ProjectionPlan", "FieldNames", traceOpts{})
			}
			if isNameElem(bo.X) && isNameElem(bo.Y) {
				found = true
			}
		})
		return found
	}
	n := 0
	for _, fn := range p.methodsOf(pt) {
		idx := 0
		allInstrs(fn, func(in ssa.Instruction) {
			c, ok := in.(*ssa.Call)
			if !ok || !readers[c.Call.StaticCallee()] {
				return
			}
			n++
			idx++
			guarded := false
			for _, a := range dominatingAtoms(c.Block()) {
				for _, v := range []ssa.Value{a.X, a.Y} {
					if gc, ok := v.(*ssa.Call); ok {
						if g := gc.Call.StaticCallee(); g != nil && p.InPkg(g) && comparesNames(g) {
							if bv, isB := constBool(a.Y); isB && ((a.Op == token.EQL) == bv) {
								guarded = true
							}
						}
					}
				}
			}
			r.add(guarded, fmt.Sprintf("%s|%s#%d", p.FName(fn), c.Call.StaticCallee().Name(), idx), p.InstrPos(c), "the cached value of a field name is read only for the first field that carries the name")
		})
	}
	r.floor("reads of the field caches by name in the projection", n, 2)
	// a name stands for the FIRST field that carries it, in every look-up (the checker, ORDER BY, GROUP BY and the
	// projection's cache agree on that): a look-up that scans FieldNames returns at its first match by construction;
	// one that indexes the names in a map first must not let a later field overwrite an earlier one - the update is
	// made only behind `the name is not in the map yet`
	nIdx := 0
	for _, fn := range p.Funcs {
		allInstrs(fn, func(in ssa.Instruction) {
			mu, ok := in.(*ssa.MapUpdate)
			if !ok {
				return
			}
			fromNames := false
			mentions(mu.Key, func(x ssa.Value) bool {
				if ia, ok := x.(*ssa.IndexAddr); ok {
					if _, f, _, ok := loadedField(ia.X); ok && f == "FieldNames" {
						fromNames = true
					}
				}
				// range over the slice: the element is extracted from a Next on a range iterator of FieldNames
				if _, f, _, ok := loadedField(x); ok && f == "FieldNames" {
					fromNames = true
				}
				return false
			}, 8)
			if !fromNames {
				return
			}
			nIdx++
			guarded := false
			for _, a := range dominatingAtoms(in.Block()) {
				ex, ok := a.X.(*ssa.Extract)
				if !ok || ex.Index != 1 {
					continue
				}
				lk, ok := ex.Tuple.(*ssa.Lookup)
				if !ok || !lk.CommaOk {
					continue
				}
				if bv, isB := constBool(a.Y); isB && ((a.Op == token.EQL) == bv) == false {
					guarded = true
				}
			}
			r.add(guarded, fmt.Sprintf("%s|first-wins#%d", p.FName(fn), nIdx), p.InstrPos(in), "an index of the field names keeps the first field of a name: the entry is written only when the name is not in the map yet")
		})
	}
	r.note("name_indexes_built", nIdx)
}

// ---------------- AGGRDETECT ----------------

func init() {
	register("AGGRDETECT", "a select statement in which an aggregate call was found is planned as an aggregate statement: in the final-plan builder, after the true outcome of the test that finds an aggregate call in a select field, no way leads to the construction of a ProjectionPlan (the possible values of the Boolean locals are followed edge by edge: a later assignment that can make the flag false again leaves that way open)", ruleAggrDetect)
}

func ruleAggrDetect(p *Prog, r *Result) {
	fn := p.MethodByName("Optimizer", "buildFinalPlan")
	isAggr := p.Func("IsAggrFuncExpr")
	if fn == nil || isAggr == nil {
		r.undecided("anchor: (*Optimizer).buildFinalPlan / IsAggrFuncExpr not found")
		return
	}
	reachesDetect := func(g *ssa.Function) bool {
		for _, h := range p.staticClosure(g, 3, nil) {
			if h == isAggr {
				return true
			}
		}
		return false
	}
	n := 0
	for _, b := range fn.Blocks {
		f := ifOf(b)
		if f == nil {
			continue
		}
		c, ok := f.Cond.(*ssa.Call)
		if !ok {
			continue
		}
		g := c.Call.StaticCallee()
		if g == nil || !p.InPkg(g) || !reachesDetect(g) {
			continue
		}
		n++
		reached := exploreAfterFailure(fn, b, b.Succs[0], map[ssa.Value]int{c: 2})
		bad := ""
		for _, rb := range orderedBlocks(fn, reached) {
			for _, in := range rb.Instrs {
				if al, ok := in.(*ssa.Alloc); ok && typeName(deref(al.Type())) == "ProjectionPlan" {
					bad = "a ProjectionPlan can still be built at " + p.InstrPos(al)
				}
			}
		}
		r.add(bad == "", fmt.Sprintf("(*Optimizer).buildFinalPlan|found#%d", n), p.InstrPos(f), firstNonEmpty(bad, "once an aggregate call was found the statement cannot be planned as a plain projection"))
	}
	r.floor("aggregate detection tests in buildFinalPlan", n, 1)
}

// ---------------- CMPMIXED ----------------

func init() {
	register("CMPMIXED", "ORDER BY orders numbers, whatever their representation: the comparator entry of the sort (the method that receives the field's static type and two cells) is evaluated abstractly with the type Number and each assignment of {int64, float64} to the two cells; no reachable return yields the constant `equal` - every outcome comes from a comparison helper (a column can mix integer and float cells: aggregates are integers for all-integer groups)", ruleCmpMixed)
}

func ruleCmpMixed(p *Prog, r *Result) {
	tnum, ok := p.constOf("TNUMBER")
	if !ok {
		r.undecided("anchor: TNUMBER not found")
		return
	}
	// the entry: a method with a Type parameter and two parameters of one interface type, returning int
	var fn *ssa.Function
	for _, f := range p.Funcs {
		if f.Signature.Recv() == nil || typeName(deref(f.Signature.Recv().Type())) != "orderColumnsRow" || len(f.Params) < 4 {
			continue
		}
		if typeName(f.Params[1].Type()) == "Type" {
			fn = f
		}
	}
	if fn == nil {
		r.undecided("anchor: the comparator entry (Type, cell, cell) of orderColumnsRow was not found")
		return
	}
	// the float comparator is a total order: NaN is neither equal to, less than nor greater than anything, so a
	// comparator built from == and < alone calls it `after everything` from both sides, which is not transitive and
	// lets the heap emit the ordinary numbers out of order. It tests for NaN (x != x, or math.IsNaN)
	for _, f := range p.Funcs {
		if f.Signature.Recv() == nil || typeName(deref(f.Signature.Recv().Type())) != "orderColumnsRow" || len(f.Params) < 3 {
			continue
		}
		isF := func(pa *ssa.Parameter) bool {
			bt, ok := pa.Type().Underlying().(*types.Basic)
			return ok && bt.Kind() == types.Float64
		}
		if !isF(f.Params[1]) || !isF(f.Params[2]) {
			continue
		}
		nan := false
		for _, g := range p.staticClosure(f, 2, nil) {
			allInstrs(g, func(in ssa.Instruction) {
				switch x := in.(type) {
				case *ssa.BinOp:
					if x.Op == token.NEQ && x.X == x.Y {
						nan = true
					}
				case *ssa.Call:
					if p.calleeName(&x.Call) == "math.IsNaN" {
						nan = true
					}
				}
			})
		}
		r.add(nan, p.FName(f)+"|nan-total", p.Pos(f.Pos()), "the float comparator gives NaN a place of its own (a comparator built from == and < alone is not transitive once a NaN is among the values)")
	}
	tpParam, lp, rp := fn.Params[1], fn.Params[2], fn.Params[3]
	tstr, _ := p.constOf("TSTR")
	// numbers that arrive as text under the declared type Number (the aggregate plan hands out number group keys as
	// their text) reach the comparator that two integer cells reach: compared byte-wise, 10 sorts before 9
	{
		calleeOf := func(lk, rk string) (*ssa.Function, string) {
			as := &assumption{p: p}
			as.leaf = func(f *ssa.Function, v ssa.Value, bound map[*ssa.Parameter]string) (aval, bool) {
				if f == fn && v == ssa.Value(tpParam) {
					return aval{kind: 1, i: tnum}, true
				}
				if pa, ok := v.(*ssa.Parameter); ok && bound[pa] == "tp" {
					return aval{kind: 1, i: tnum}, true
				}
				if bo, ok := v.(*ssa.BinOp); ok && (bo.Op == token.EQL || bo.Op == token.NEQ) {
					isTO := func(x ssa.Value) bool {
						c, ok := x.(*ssa.Call)
						return ok && p.calleeName(&c.Call) == "reflect.TypeOf"
					}
					if isTO(bo.X) && isTO(bo.Y) {
						if bo.Op == token.EQL {
							return aval{kind: 2, b: abTrue}, true
						}
						return aval{kind: 2, b: abFalse}, true
					}
				}
				return aval{}, false
			}
			as.typeTest = func(f *ssa.Function, ta *ssa.TypeAssert, bound map[*ssa.Parameter]string) (abool, bool) {
				pa, ok := stripConv(ta.X).(*ssa.Parameter)
				if !ok || bound[pa] == "" {
					return abBoth, false
				}
				switch bound[pa] {
				case "int":
					if bt, isB := ta.AssertedType.(*types.Basic); isB && bt.Kind() == types.Int64 {
						return abTrue, true
					}
				case "bytes":
					if sl, isS := ta.AssertedType.(*types.Slice); isS {
						if bt, isB := sl.Elem().(*types.Basic); isB && bt.Kind() == types.Byte {
							return abTrue, true
						}
					}
				}
				return abFalse, true
			}
			as.bind = func(f *ssa.Function, arg ssa.Value, bound map[*ssa.Parameter]string) string {
				if pa, ok := stripConv(arg).(*ssa.Parameter); ok {
					return bound[pa]
				}
				return ""
			}
			res := as.run(fn, map[*ssa.Parameter]string{lp: lk, rp: rk, tpParam: "tp"})
			var callee *ssa.Function
			where := ""
			for _, ret := range res.rets {
				if len(ret.Results) != 1 {
					continue
				}
				if c, ok := retVal(ret, 0).(*ssa.Call); ok {
					if g := c.Call.StaticCallee(); g != nil {
						if callee != nil && callee != g {
							return nil, "several comparators are reachable: " + p.FName(callee) + ", " + p.FName(g)
						}
						callee, where = g, p.InstrPos(c)
					}
				}
			}
			return callee, where
		}
		ci, _ := calleeOf("int", "int")
		ct, wt := calleeOf("bytes", "bytes")
		okText := ci != nil && ct == ci
		msg := "number texts under the declared type Number reach the number comparator"
		if !okText {
			msg = fmt.Sprintf("two number texts under the declared type Number reach %s (%s), two integers reach %s", p.FName(ct), wt, p.FName(ci))
		}
		r.add(okText, p.FName(fn)+"|left=text,right=text|declared=TNUMBER", p.Pos(fn.Pos()), msg)
	}
	// declared: the type the column was declared with. A field access (json(value)['n'], list[1]) is declared as
	// text whatever it yields, so numbers also arrive under the declared type text - and must still be compared
	for _, declared := range []struct {
		name string
		code int64
	}{{"", tnum}, {"|declared=TSTR", tstr}} {
		for _, lk := range []string{"int", "float"} {
			for _, rk := range []string{"int", "float"} {
				declared := declared
				as := &assumption{p: p}
				as.leaf = func(f *ssa.Function, v ssa.Value, bound map[*ssa.Parameter]string) (aval, bool) {
					if f == fn && v == ssa.Value(tpParam) {
						return aval{kind: 1, i: declared.code}, true
					}
					// reflect.TypeOf(l) ==/!= reflect.TypeOf(r): the scenario fixes both dynamic types (int64, float64)
					if bo, ok := v.(*ssa.BinOp); ok && (bo.Op == token.EQL || bo.Op == token.NEQ) {
						kindOf := func(x ssa.Value) string {
							c, ok := x.(*ssa.Call)
							if !ok || p.calleeName(&c.Call) != "reflect.TypeOf" || len(c.Call.Args) != 1 {
								return ""
							}
							if pa, ok := stripConv(c.Call.Args[0]).(*ssa.Parameter); ok {
								return bound[pa]
							}
							return ""
						}
						if a, b := kindOf(bo.X), kindOf(bo.Y); a != "" && b != "" {
							if (a == b) == (bo.Op == token.EQL) {
								return aval{kind: 2, b: abTrue}, true
							}
							return aval{kind: 2, b: abFalse}, true
						}
					}
					return aval{}, false
				}
				as.typeTest = func(f *ssa.Function, ta *ssa.TypeAssert, bound map[*ssa.Parameter]string) (abool, bool) {
					pa, ok := stripConv(ta.X).(*ssa.Parameter)
					if !ok || bound[pa] == "" {
						return abBoth, false
					}
					bt, isB := ta.AssertedType.(*types.Basic)
					if !isB {
						return abFalse, true
					}
					if (bound[pa] == "int" && bt.Kind() == types.Int64) || (bound[pa] == "float" && bt.Kind() == types.Float64) {
						return abTrue, true
					}
					return abFalse, true
				}
				as.bind = func(f *ssa.Function, arg ssa.Value, bound map[*ssa.Parameter]string) string {
					if pa, ok := stripConv(arg).(*ssa.Parameter); ok {
						return bound[pa]
					}
					return ""
				}
				res := as.run(fn, map[*ssa.Parameter]string{lp: lk, rp: rk})
				bad := ""
				for _, ret := range res.rets {
					if len(ret.Results) != 1 {
						continue
					}
					if c, ok := constInt(retVal(ret, 0)); ok && c == 0 {
						bad = "the constant 0 (`equal`) is returned at " + p.InstrPos(ret)
					}
					if ev := res.ev(retVal(ret, 0)); ev.kind == 1 && ev.i == 0 {
						bad = "the value returned at " + p.InstrPos(ret) + " is the constant 0 (`equal`) of a helper that has no case for numbers"
					}
					// two integers are compared as integers: converted to float64 first, distinct integers above
					// 2^53 become equal
					if lk == "int" && rk == "int" {
						if c, ok := retVal(ret, 0).(*ssa.Call); ok {
							for _, a := range c.Call.Args {
								if bt, isB := a.Type().Underlying().(*types.Basic); isB && bt.Info()&types.IsFloat != 0 {
									bad = "two integer cells reach the float comparison at " + p.InstrPos(c) + ": integers above 2^53 that differ compare as equal"
								}
							}
						}
					}
				}
				r.add(bad == "", fmt.Sprintf("%s|left=%s,right=%s%s", p.FName(fn), lk, rk, declared.name), p.Pos(fn.Pos()), firstNonEmpty(bad, "the outcome comes from a comparison helper"))
			}
		}
	}
}

// ---------------- QUANTRANGE ----------------

func init() {
	register("QUANTRANGE", "a user number handed to third-party code that indexes with it is range-checked first: the quantile given to the quantile stream (perks/quantile computes a slice index from it) is, on every way to the construction of the stream, known to be >= 0 and <= 1 by comparisons whose failing outcome returns an error (written so that NaN fails them)", ruleQuantRange)
}

func ruleQuantRange(p *Prog, r *Result) {
	n := 0
	for _, fn := range p.Funcs {
		allInstrs(fn, func(in ssa.Instruction) {
			c, ok := in.(*ssa.Call)
			if !ok {
				return
			}
			g := c.Call.StaticCallee()
			if g == nil || g.Pkg == nil || !strings.HasSuffix(g.Pkg.Pkg.Path(), "perks/quantile") || !strings.HasPrefix(g.Name(), "New") {
				return
			}
			n++
			// the float64 keys put into the map argument
			var q ssa.Value
			allInstrs(fn, func(in2 ssa.Instruction) {
				if mu, ok := in2.(*ssa.MapUpdate); ok && len(c.Call.Args) > 0 && mu.Map == c.Call.Args[0] {
					q = mu.Key
				}
			})
			if q == nil {
				r.hit(p.FName(fn)+"|quantile", p.InstrPos(c), "the quantile handed to the stream could not be identified")
				return
			}
			var inRange func(v ssa.Value, at *ssa.BasicBlock, depth int) (bool, bool)
			inRange = func(v ssa.Value, at *ssa.BasicBlock, depth int) (lower, upper bool) {
				for _, a := range dominatingAtoms(at) {
					if a.X != v {
						continue
					}
					// a negated float comparison proves nothing: `!(q < 0)` holds for NaN
					if bt, isB := v.Type().Underlying().(*types.Basic); isB && bt.Info()&types.IsFloat != 0 && a.Neg {
						continue
					}
					k, ok := a.Y.(*ssa.Const)
					if !ok || k.Value == nil {
						continue
					}
					f, _ := constant.Float64Val(constant.ToFloat(k.Value))
					switch a.Op {
					case token.GEQ, token.GTR:
						if f >= 0 {
							lower = true
						}
					case token.LEQ, token.LSS:
						if f <= 1 {
							upper = true
						}
					}
				}
				if lower && upper || depth > 3 {
					return
				}
				// a field that only ever receives checked values (or copies of itself)
				if o, fl, _, ok := loadedField(v); ok && o != nil {
					all, any := true, false
					for _, g2 := range p.Funcs {
						allInstrs(g2, func(in3 ssa.Instruction) {
							st, ok := in3.(*ssa.Store)
							if !ok {
								return
							}
							o2, f2, _, ok := fieldOfAddr(st.Addr)
							if !ok || o2 != o || f2 != fl {
								return
							}
							any = true
							if o3, f3, _, ok := loadedField(st.Val); ok && o3 == o && f3 == fl {
								return
							}
							if ph, ok := st.Val.(*ssa.UnOp); ok {
								if al, ok := ph.X.(*ssa.Alloc); ok {
									okAll := true
									for _, sv := range storedInto(al) {
										if o3, f3, _, ok := loadedField(sv); !(ok && o3 == o && f3 == fl) {
											okAll = false
										}
									}
									if okAll {
										return
									}
								}
							}
							l2, u2 := inRange(st.Val, st.Block(), depth+1)
							if !l2 || !u2 {
								all = false
							}
						})
					}
					if any && all {
						return true, true
					}
				}
				return
			}
			lower, upper := inRange(q, c.Block(), 0)
			if pa, isParam := q.(*ssa.Parameter); isParam && !(lower && upper) {
				// a helper that builds the stream for the quantile it is given: every static call site hands it a
				// checked one
				idx := -1
				for k, qq := range fn.Params {
					if qq == pa {
						idx = k
					}
				}
				sites, okSites := 0, true
				for _, caller := range p.Funcs {
					allInstrs(caller, func(x ssa.Instruction) {
						cc, isC := x.(*ssa.Call)
						if !isC || cc.Call.StaticCallee() != fn || idx < 0 || idx >= len(cc.Call.Args) {
							return
						}
						sites++
						l2, u2 := inRange(cc.Call.Args[idx], cc.Block(), 1)
						if !l2 || !u2 {
							okSites = false
						}
					})
				}
				if sites > 0 && okSites {
					lower, upper = true, true
				}
			}
			r.add(lower && upper, p.FName(fn)+"|quantile", p.InstrPos(c), fmt.Sprintf("the quantile is known to lie in [0, 1] where the stream is built (lower bound %v, upper bound %v; positive comparisons, so NaN is refused)", lower, upper))
		})
	}
	r.floor("constructions of a quantile stream", n, 1)
}

// ---------------- TOKSEEN ----------------

func init() {
	register("TOKSEEN", "the parser consumes no token it has not looked at: (a) Parser.expect compares the current token's text with the wanted token's text (all operators and operator words share one token kind, so the kind alone accepts `or` for `and`); (b) in every parser method, each call of next() is reached only along ways on which, since the previous token was consumed, the current token's kind or text was compared with a constant with a positive outcome, or the token was found to be absent (a list loop that skips `whatever comes after an item` drops tokens)", ruleTokSeen)
}

func ruleTokSeen(p *Prog, r *Result) {
	pt := p.Named("Parser")
	if pt == nil {
		r.undecided("anchor: Parser not found")
		return
	}
	next := p.Method(pt, "next")
	expect := p.Method(pt, "expect")
	if next == nil || expect == nil {
		r.undecided("anchor: (*Parser).next / expect not found")
		return
	}
	isTokField := func(v ssa.Value, field string) bool {
		o, f, base, ok := loadedField(v)
		if !ok || o == nil || o.Obj().Name() != "Token" || f != field {
			return false
		}
		_ = base
		return true
	}
	// (a)
	cmpData := false
	allInstrs(expect, func(in ssa.Instruction) {
		if bo, ok := in.(*ssa.BinOp); ok && (bo.Op == token.EQL || bo.Op == token.NEQ) && isTokField(bo.X, "Data") && isTokField(bo.Y, "Data") {
			cmpData = true
		}
	})
	r.add(cmpData, "expect|text", p.Pos(expect.Pos()), "expect compares the text of the current token with the text of the wanted token")
	// (b)
	isCurTok := func(v ssa.Value) bool { // p.tok
		return isFieldLoad(v, "Parser", "tok")
	}
	positive := func(pr *ssa.BasicBlock, si int) bool {
		// `case A && B, C:` of a tagless switch evaluates A && B as a value: the condition is a merge of `false`
		// (A failed) and B. Its true edge is a positive look when every way to `true` is a positive comparison
		if f := ifOf(pr); f != nil && si == 0 {
			if ph, isPhi := f.Cond.(*ssa.Phi); isPhi {
				all := len(ph.Edges) > 0
				for _, e := range ph.Edges {
					if bv, isB := constBool(e); isB && !bv {
						continue
					}
					bo, isBo := e.(*ssa.BinOp)
					if !isBo || bo.Op != token.EQL {
						all = false
						continue
					}
					_, isC := bo.Y.(*ssa.Const)
					if !(isC && (isTokField(bo.X, "Tp") || isTokField(bo.X, "Data"))) {
						all = false
					}
				}
				if all {
					return true
				}
			}
		}
		a, ok := edgeAtom(pr, si)
		if !ok {
			return false
		}
		if a.Op == token.EQL {
			if isTokField(a.X, "Tp") || isTokField(a.X, "Data") {
				if _, isC := a.Y.(*ssa.Const); isC {
					return true
				}
			}
			if isCurTok(a.X) && isNilConst(a.Y) {
				return true
			}
		}
		return false
	}
	consumes := func(in ssa.Instruction) bool {
		c, ok := in.(*ssa.Call)
		if !ok {
			return false
		}
		g := c.Call.StaticCallee()
		if g == nil {
			return false
		}
		if g == next || g == expect {
			return true
		}
		// any other parser method may consume tokens
		return g.Signature.Recv() != nil && typeName(deref(g.Signature.Recv().Type())) == "Parser" && strings.HasPrefix(g.Name(), "parse")
	}
	n := 0
	// walkBack: "" when every way to instruction `upto` of block b crosses a positive look at the token after the last
	// consuming call (a parse method whose own successful returns are all reached after such a look counts as one)
	var returnsLooked func(g *ssa.Function, depth int) bool
	memo := map[*ssa.Function]int{}
	walkBack := func(fn *ssa.Function, b0 *ssa.BasicBlock, upto0 int, depth int) string {
		bad := ""
		seen := map[*ssa.BasicBlock]bool{}
		var back func(b *ssa.BasicBlock, upto int)
		back = func(b *ssa.BasicBlock, upto int) {
			for i := upto - 1; i >= 0; i-- {
				if consumes(b.Instrs[i]) {
					if c, ok := b.Instrs[i].(*ssa.Call); ok {
						if g := c.Call.StaticCallee(); g != nil && g != next && g != expect && depth < 3 && returnsLooked(g, depth+1) {
							return
						}
					}
					bad = "reached from " + p.InstrPos(b.Instrs[i]) + " without a look at the token"
					return
				}
			}
			if len(b.Preds) == 0 {
				if fn.Name() != "Parse" { // the entry point primes the first token
					bad = "reached from the entry without a look at the token"
				}
				return
			}
			for _, pr := range b.Preds {
				for si, sc := range pr.Succs {
					if sc != b {
						continue
					}
					if positive(pr, si) {
						continue
					}
					if seen[pr] {
						continue
					}
					seen[pr] = true
					back(pr, len(pr.Instrs))
				}
			}
		}
		back(b0, upto0)
		return bad
	}
	returnsLooked = func(g *ssa.Function, depth int) bool {
		if v, ok := memo[g]; ok {
			return v == 1
		}
		memo[g] = 2
		okAll, nret := true, 0
		for _, b := range g.Blocks {
			ret := retOf(b)
			if ret == nil || len(ret.Results) == 0 {
				continue
			}
			if ev := retVal(ret, len(ret.Results)-1); isErrorType(ev.Type()) && !isNilConst(ev) {
				if _, isPhi := ev.(*ssa.Phi); !isPhi {
					continue // failing return
				}
			}
			nret++
			if walkBack(g, b, len(b.Instrs)-1, depth) != "" {
				okAll = false
			}
		}
		if okAll && nret > 0 {
			memo[g] = 1
			return true
		}
		return false
	}
	for _, fn := range p.methodsOf(pt) {
		if fn == next || fn == expect {
			continue
		}
		idx := 0
		allInstrs(fn, func(in ssa.Instruction) {
			c, ok := in.(*ssa.Call)
			if !ok || c.Call.StaticCallee() != next {
				return
			}
			n++
			idx++
			at := 0
			for i, x := range c.Block().Instrs {
				if x == ssa.Instruction(c) {
					at = i
				}
			}
			bad := walkBack(fn, c.Block(), at, 0)
			r.add(bad == "", fmt.Sprintf("%s|next#%d", p.FName(fn), idx), p.InstrPos(c), firstNonEmpty(bad, "the consumed token was looked at on every way here"))
		})
	}
	r.floor("calls of next() in parser methods", n, 10)
}

// ---------------- FLOATLIT ----------------

func init() {
	register("FLOATLIT", "a float literal built by the constant folder prints as a float literal: the text stored into FloatExpr.Data by the expression optimizer comes from a function (or code) in which the formatted number is tested for a decimal point and given one when it has none, and the format is the plain decimal one (strconv 'f' with precision -1: `%v` prints 2.0 as 2, which reads back as an integer, and 1e21 with an exponent the lexer splits)", ruleFloatLit)
}

func ruleFloatLit(p *Prog, r *Result) {
	ot := p.Named("ExpressionOptimizer")
	if ot == nil {
		r.undecided("anchor: ExpressionOptimizer not found")
		return
	}
	goodFormatter := func(f *ssa.Function) bool {
		plain, dotTest, dotAdd := false, false, false
		lossyToo := false
		allInstrs(f, func(in ssa.Instruction) {
			switch x := in.(type) {
			case *ssa.Call:
				switch p.calleeName(&x.Call) {
				case "strconv.FormatFloat", "strconv.AppendFloat":
					n := len(x.Call.Args)
					fm, ok1 := constInt(x.Call.Args[n-3])
					pr, ok2 := constInt(x.Call.Args[n-2])
					if ok1 && ok2 && fm == 'f' && pr == -1 {
						plain = true
					} else {
						// any other rendering in the same formatter (a capped number of decimals, an exponent) is a
						// text that need not read back as the value the node carries
						lossyToo = true
					}
				case "strings.Contains", "strings.ContainsRune", "strings.IndexByte", "strings.ContainsAny", "strings.IndexRune":
					if len(x.Call.Args) == 2 {
						if sc, ok := constString(x.Call.Args[1]); ok && strings.Contains(sc, ".") {
							dotTest = true
						}
						if k, ok := constInt(x.Call.Args[1]); ok && k == '.' {
							dotTest = true
						}
					}
				}
			case *ssa.BinOp:
				if x.Op == token.ADD {
					if sc, ok := constString(x.Y); ok && strings.HasPrefix(sc, ".") {
						dotAdd = true
					}
				}
			}
		})
		return plain && dotTest && dotAdd && !lossyToo
	}
	n := 0
	for _, fn := range p.methodsOf(ot) {
		idx := 0
		allInstrs(fn, func(in ssa.Instruction) {
			st, ok := in.(*ssa.Store)
			if !ok {
				return
			}
			o, f, base, ok := fieldOfAddr(st.Addr)
			if !ok || o == nil || o.Obj().Name() != "FloatExpr" || f != "Data" {
				return
			}
			if _, fresh := base.(*ssa.Alloc); !fresh {
				return
			}
			n++
			idx++
			okv := false
			if c, isC := st.Val.(*ssa.Call); isC {
				if g := c.Call.StaticCallee(); g != nil && p.InPkg(g) && goodFormatter(g) {
					okv = true
				}
			}
			if !okv && goodFormatter(fn) {
				okv = true
			}
			r.add(okv, fmt.Sprintf("%s|FloatExpr.Data#%d", p.FName(fn), idx), p.InstrPos(st), "the text of a folded float literal is plain decimal and always has a decimal point")
		})
	}
	r.floor("float literals built by the folder", n, 1)
	// ... and has a spelling at all: the language has no negative literal (`-` is a binary operator only) and no
	// spelling for NaN or the infinities, so a computed value becomes a literal only behind a test that it is not
	// negative (integers: value >= 0 on the edge; floats: a package predicate that consults math.Signbit or compares
	// with zero, and math.IsNaN and math.IsInf)
	floatPred := func(g *ssa.Function) bool {
		sign, nan, inf := false, false, false
		for _, f := range p.staticClosure(g, 2, nil) {
			allInstrs(f, func(in ssa.Instruction) {
				switch x := in.(type) {
				case *ssa.Call:
					switch p.calleeName(&x.Call) {
					case "math.Signbit":
						sign = true
					case "math.IsNaN":
						nan = true
					case "math.IsInf":
						inf = true
					}
				case *ssa.BinOp:
					if x.Op == token.LSS || x.Op == token.GEQ || x.Op == token.GTR || x.Op == token.LEQ {
						sign = true
					}
					if x.Op == token.NEQ && x.X == x.Y {
						nan = true
					}
				}
			})
		}
		return sign && nan && inf
	}
	nonNegative := func(v ssa.Value, at *ssa.BasicBlock) bool {
		for d := 0; d < 3; d++ {
			if cv, ok := v.(*ssa.Convert); ok {
				v = cv.X
				continue
			}
			break
		}
		for _, a := range dominatingAtoms(at) {
			if a.X == v {
				if c, ok := constIntOrFloatZero(a.Y); ok {
					if (a.Op == token.GEQ && c == 0) || (a.Op == token.GTR && (c == 0 || c == -1)) {
						return true
					}
				}
			}
			if c, ok := a.X.(*ssa.Call); ok {
				bv, isB := constBool(a.Y)
				if !isB || ((a.Op == token.EQL) == bv) == false {
					continue
				}
				if g := c.Call.StaticCallee(); g != nil && p.InPkg(g) && len(c.Call.Args) == 1 && c.Call.Args[0] == v && floatPred(g) {
					return true
				}
			}
		}
		return false
	}
	nv := 0
	for _, fn := range p.methodsOf(ot) {
		idx := 0
		allInstrs(fn, func(in ssa.Instruction) {
			st, ok := in.(*ssa.Store)
			if !ok {
				return
			}
			o, f, base, ok := fieldOfAddr(st.Addr)
			if !ok || o == nil || !((o.Obj().Name() == "FloatExpr" && f == "Float") || (o.Obj().Name() == "NumberExpr" && f == "Int")) {
				return
			}
			if _, fresh := base.(*ssa.Alloc); !fresh {
				return
			}
			if _, isConst := st.Val.(*ssa.Const); isConst {
				return
			}
			nv++
			idx++
			r.add(nonNegative(st.Val, st.Block()), fmt.Sprintf("%s|%s.%s#%d|spellable", p.FName(fn), o.Obj().Name(), f, idx), p.InstrPos(st), "a computed value becomes a literal only when the language can spell it: not negative, not NaN, not infinite (otherwise the statement shown by EXPLAIN cannot be read back)")
		})
	}
	r.floor("numeric literals built by the folder from computed values", nv, 2)
	// ... and stands where the checker allows it: the checker refuses a literal zero divisor, so the folder does not
	// put one there (`x / (2 - 2)` stays as written). In the function that folds the operands of a binary node, some
	// store into the node's Right field lies behind `operator is Div` and a package predicate that compares a
	// literal's value with zero
	if fold := p.MethodByName("ExpressionOptimizer", "tryOptimizeBinaryOpExecute"); fold != nil {
		divOp, okDiv := p.constOf("Div")
		zeroPred := func(g *ssa.Function) bool {
			if g == nil || !p.InPkg(g) {
				return false
			}
			found := false
			allInstrs(g, func(in ssa.Instruction) {
				if bo, ok := in.(*ssa.BinOp); ok && (bo.Op == token.EQL || bo.Op == token.NEQ) {
					if _, f, _, ok := loadedField(bo.X); ok && (f == "Int" || f == "Float") {
						if k, ok := constIntOrFloatZero(bo.Y); ok && k == 0 {
							found = true
						}
					}
				}
			})
			return found
		}
		guarded := false
		allInstrs(fold, func(in ssa.Instruction) {
			st, ok := in.(*ssa.Store)
			if !ok {
				return
			}
			o, f, _, ok := fieldOfAddr(st.Addr)
			if !ok || o == nil || o.Obj().Name() != "BinaryOpExpr" || f != "Right" {
				return
			}
			isDiv, isZero := false, false
			for _, a := range dominatingAtoms(in.Block()) {
				if _, f2, _, ok := loadedField(a.X); ok && f2 == "Op" && a.Op == token.EQL {
					if k, ok := constInt(a.Y); ok && okDiv && k == divOp {
						isDiv = true
					}
				}
				if c, ok := a.X.(*ssa.Call); ok && zeroPred(c.Call.StaticCallee()) {
					if bv, isB := constBool(a.Y); isB && ((a.Op == token.EQL) == bv) {
						isZero = true
					}
				}
			}
			// ... whichever way the right operand became a literal: the test does not sit inside an arm of the switch
			// on the right operand's node kind (a divisor folded from a function call is a literal too)
			inArm := false
			for _, b := range fold.Blocks {
				f := ifOf(b)
				if f == nil {
					continue
				}
				ex, ok := f.Cond.(*ssa.Extract)
				if !ok {
					continue
				}
				ta, ok := ex.Tuple.(*ssa.TypeAssert)
				if !ok || !p.derivesFromField(ta.X, "BinaryOpExpr", "Right", traceOpts{}) {
					continue
				}
				if edgeDominates(b, 0, in.Block()) {
					inArm = true
				}
			}
			if isDiv && isZero && !inArm {
				guarded = true
			}
		})
		r.add(guarded, p.FName(fold)+"|zero-divisor", p.Pos(fold.Pos()), "a divisor that folds to the literal zero is put back as it was written (the checker refuses `x / 0`, so the folded tree would have no accepted spelling)")
	}
}

// constIntOrFloatZero: the constant's value as an integer when it is an integer or an integral float.
func constIntOrFloatZero(v ssa.Value) (int64, bool) {
	if k, ok := constInt(v); ok {
		return k, true
	}
	if c, ok := v.(*ssa.Const); ok && c.Value != nil && c.Value.Kind() == constant.Float {
		f, _ := constant.Float64Val(c.Value)
		if f == float64(int64(f)) {
			return int64(f), true
		}
	}
	return 0, false
}

// ---------------- REORDERKIND ----------------

func init() {
	register("REORDERKIND", "re-association combines the two constants first, so it is made only for constants that combine to the same value whatever the left operand is: every store that re-associates (a fresh BinaryOpExpr of two constants put into the outer node) is dominated by the positive outcome of a guard - a package function of the two constants - which, evaluated abstractly for each assignment of {text, integer, float literal} to them, is false whenever the two kinds differ and whenever a float literal is involved (an integer and a float constant round differently once added first; float addition is not associative)", ruleReorderKind)
}

func ruleReorderKind(p *Prog, r *Result) {
	t := p.Named("ExpressionOptimizer")
	if t == nil {
		r.undecided("anchor: ExpressionOptimizer not found")
		return
	}
	isExprT := func(tt types.Type) bool { return typeName(tt) == "Expression" }
	guardOK := map[string]string{}
	// checkGuard: g is called at `site`; its Expression arguments loaded from a Right field are the two constants,
	// one loaded from a Left field is the operand the constants are re-associated away from
	checkGuard := func(g *ssa.Function, site *ssa.Call) string {
		var ps []*ssa.Parameter
		var operand *ssa.Parameter
		roles := ""
		for i, pa := range g.Params {
			if !isExprT(pa.Type()) || i >= len(site.Call.Args) {
				continue
			}
			_, fl, _, ok := loadedField(stripConv(site.Call.Args[i]))
			switch {
			case ok && fl == "Left" && operand == nil:
				operand = pa
				roles += "o"
			default:
				ps = append(ps, pa)
				roles += "c"
			}
		}
		ck := p.FName(g) + "/" + roles
		if m, ok := guardOK[ck]; ok {
			return m
		}
		if len(ps) != 2 || g.Signature.Results().Len() != 1 {
			guardOK[ck] = "not a predicate of two constants (and the operand)"
			return guardOK[ck]
		}
		nodeOf := map[string]string{"text": "StringExpr", "int": "NumberExpr", "float": "FloatExpr", "operand-float": "FloatExpr", "operand-ref": "FieldReferenceExpr", "operand-call": "FunctionCallExpr"}
		bad := ""
		tnumber, _ := p.constOf("TNUMBER")
		// roleOf: the binding of the parameter a value was obtained from (through assertions, conversions, and - for
		// parts of the operand - field and element loads)
		var roleOf func(v ssa.Value, bound map[*ssa.Parameter]string, d int) (string, bool)
		roleOf = func(v ssa.Value, bound map[*ssa.Parameter]string, d int) (role string, part bool) {
			if d > 8 {
				return "", false
			}
			switch x := v.(type) {
			case *ssa.Parameter:
				return bound[x], false
			case *ssa.Extract:
				return roleOf(x.Tuple, bound, d+1)
			case *ssa.TypeAssert:
				return roleOf(x.X, bound, d+1)
			case *ssa.ChangeInterface:
				return roleOf(x.X, bound, d+1)
			case *ssa.MakeInterface:
				return roleOf(x.X, bound, d+1)
			case *ssa.UnOp:
				rl, _ := roleOf(x.X, bound, d+1)
				return rl, true
			case *ssa.FieldAddr:
				rl, _ := roleOf(x.X, bound, d+1)
				return rl, true
			case *ssa.IndexAddr:
				rl, _ := roleOf(x.X, bound, d+1)
				return rl, true
			}
			return "", false
		}
		opName := ""
		runWith := func(bindings map[*ssa.Parameter]string, what string) {
			as := &assumption{p: p}
			as.leaf = func(f *ssa.Function, v ssa.Value, bound map[*ssa.Parameter]string) (aval, bool) {
				if sc, ok := constString(v); ok {
					return aval{kind: 1, i: strCodeOf(sc)}, true
				}
				// the static type of the operand (and of its parts) is Number: that covers integers and floats
				if c, ok := v.(*ssa.Call); ok {
					var recv ssa.Value
					isRT := false
					if c.Call.IsInvoke() && c.Call.Method.Name() == "ReturnType" {
						recv, isRT = c.Call.Value, true
					} else if g := c.Call.StaticCallee(); g != nil && g.Name() == "ReturnType" && len(c.Call.Args) > 0 {
						recv, isRT = c.Call.Args[0], true
					}
					if isRT {
						if rl, _ := roleOf(recv, bound, 0); strings.HasPrefix(rl, "operand") {
							return aval{kind: 1, i: tnumber}, true
						}
					}
				}
				// the name of the called function, when the operand is a call
				if ex, ok := v.(*ssa.Extract); ok {
					if c, ok := ex.Tuple.(*ssa.Call); ok {
						if g := c.Call.StaticCallee(); g != nil && g.Name() == "GetFuncNameFromExpr" && len(c.Call.Args) == 1 {
							if rl, part := roleOf(c.Call.Args[0], bound, 0); strings.HasPrefix(rl, "operand") && !part && opName != "" {
								if ex.Index == 0 {
									return aval{kind: 1, i: strCodeOf(opName)}, true
								}
								return aval{kind: 3, isNil: abTrue}, true
							}
						}
					}
				}
				return aval{}, false
			}
			as.typeTest = func(f *ssa.Function, ta *ssa.TypeAssert, bound map[*ssa.Parameter]string) (abool, bool) {
				rl, part := roleOf(ta.X, bound, 0)
				if rl == "" || part {
					return abBoth, false
				}
				if typeName(deref(ta.AssertedType)) == nodeOf[rl] {
					return abTrue, true
				}
				if _, isIface := ta.AssertedType.Underlying().(*types.Interface); isIface {
					return abBoth, false
				}
				return abFalse, true
			}
			as.bind = func(f *ssa.Function, arg ssa.Value, bound map[*ssa.Parameter]string) string {
				if rl, part := roleOf(arg, bound, 0); !part {
					return rl
				}
				return ""
			}
			res := as.run(g, bindings)
			for _, ret := range res.rets {
				ev := res.ev(retVal(ret, 0))
				if !(ev.kind == 2 && ev.b == abFalse) {
					bad = fmt.Sprintf("%s can be true for %s (%s)", g.Name(), what, p.InstrPos(ret))
				}
			}
		}
		for _, k1 := range []string{"text", "int", "float"} {
			for _, k2 := range []string{"text", "int", "float"} {
				if k1 == k2 && k1 != "float" {
					continue
				}
				runWith(map[*ssa.Parameter]string{ps[0]: k1, ps[1]: k2}, fmt.Sprintf("a %s and a %s constant", k1, k2))
			}
		}
		// two integer constants may only be combined when the operand they are taken away from is an integer too:
		// float arithmetic rounds after every step, (x * 10) * 10 is not x * 100
		b := map[*ssa.Parameter]string{ps[0]: "int", ps[1]: "int"}
		what := "two integer constants whatever the operand they are re-associated away from is (the guard does not see it)"
		if operand != nil {
			b[operand] = "operand-float"
			what = "two integer constants next to a float operand"
		}
		runWith(b, what)
		if operand != nil {
			// ... and an operand whose static type is Number is not thereby an integer: an alias of a float
			// field, a call of float(), an aggregate over floats
			b[operand] = "operand-ref"
			runWith(b, "two integer constants next to a field reference of static type Number (which may be a float)")
			b[operand] = "operand-call"
			for _, nm := range []string{"float", "sum", "min", "max", "avg"} {
				opName = nm
				runWith(b, "two integer constants next to a call of "+nm+"() (whose result may be a float)")
			}
			opName = ""
		}
		guardOK[ck] = bad
		return bad
	}
	n := 0
	for _, fn := range p.methodsOf(t) {
		idx := 0
		handle := func(f *ssa.Function, ctxOf func(*ssa.Store) []*ssa.BasicBlock) {
			allInstrs(f, func(in ssa.Instruction) {
				st, ok := in.(*ssa.Store)
				if !ok {
					return
				}
				o, fl, base, ok := fieldOfAddr(st.Addr)
				if !ok || o == nil || o.Obj().Name() != "BinaryOpExpr" || fl != "Right" {
					return
				}
				if _, isParam := cellRoot(base).(*ssa.Parameter); !isParam {
					return
				}
				fresh := false
				if mi, ok := st.Val.(*ssa.MakeInterface); ok {
					if al, ok := mi.X.(*ssa.Alloc); ok && typeName(deref(al.Type())) == "BinaryOpExpr" {
						fresh = true
					}
				}
				if !fresh {
					return
				}
				n++
				idx++
				msg := ""
				blocks := ctxOf(st)
				if len(blocks) == 0 {
					msg = "the rewrite sits in a local function that is never called"
				}
				for _, cb := range blocks {
					m1 := "no guard on the kinds of the two constants dominates the rewrite"
					for _, a := range dominatingAtoms(cb) {
						c, ok := a.X.(*ssa.Call)
						if !ok {
							continue
						}
						bv, isB := constBool(a.Y)
						if !isB || ((a.Op == token.EQL) == bv) == false {
							continue
						}
						g := c.Call.StaticCallee()
						if g == nil || !p.InPkg(g) {
							continue
						}
						if m := checkGuard(g, c); m == "" {
							m1 = ""
						} else if m1 != "" {
							m1 = m
						}
					}
					if m1 != "" {
						msg = m1
					}
				}
				r.add(msg == "", fmt.Sprintf("%s|rewrite#%d", p.FName(fn), idx), p.InstrPos(st), firstNonEmpty(msg, "the rewrite is made only for two texts, or for two integer constants next to an operand that is not a float"))
			})
		}
		handle(fn, func(st *ssa.Store) []*ssa.BasicBlock { return []*ssa.BasicBlock{st.Block()} })
		for _, af := range fn.AnonFuncs {
			var sites []*ssa.BasicBlock
			allInstrs(fn, func(in ssa.Instruction) {
				if c, ok := in.(ssa.CallInstruction); ok {
					if mc, ok := c.Common().Value.(*ssa.MakeClosure); ok && mc.Fn == ssa.Value(af) {
						sites = append(sites, in.Block())
					}
				}
			})
			handle(af, func(*ssa.Store) []*ssa.BasicBlock { return sites })
		}
	}
	r.floor("re-association sites", n, 1)
}

// ---------------- SUBSTREND ----------------

func init() {
	register("SUBSTREND", "substr(value, start, end) cuts at positions: in both bodies registered for `substr`, the upper index of the slice that is returned is the user's end position limited by the length of the value itself (min(end, len(value))) - not by the length minus the start, which treats the end as a length and returns nothing for the documented substr(key, 3, 4)", ruleSubstrEnd)
}

func ruleSubstrEnd(p *Prog, r *Result) {
	rows, err := p.registry("funcMap")
	if err != nil {
		r.undecided("%v", err)
		return
	}
	n := 0
	for _, row := range rows {
		if row.Key != "substr" {
			continue
		}
		for which, body := range map[string]*ssa.Function{"Body": row.Body, "BodyVec": row.BodyVec} {
			if body == nil {
				continue
			}
			idx := 0
			// (the cut may sit in a package helper both bodies share)
			var scope []ssa.Instruction
			for _, f := range p.staticClosure(body, 2, nil) {
				allInstrs(f, func(in ssa.Instruction) { scope = append(scope, in) })
			}
			seenSl := map[ssa.Instruction]bool{}
			for _, in := range scope {
				sl, ok := in.(*ssa.Slice)
				if !ok || sl.High == nil || seenSl[in] {
					continue
				}
				seenSl[in] = true
				if bt, isB := sl.X.Type().Underlying().(*types.Basic); !isB || bt.Kind() != types.String {
					continue
				}
				n++
				idx++
				okv := false
				var visit func(v ssa.Value, d int)
				visit = func(v ssa.Value, d int) {
					if d > 4 {
						return
					}
					if a, b, isMin := isMinCall(v); isMin {
						for _, x := range []ssa.Value{a, b} {
							if lv := lenOf(x); lv != nil && lv == sl.X {
								okv = true
							}
						}
						return
					}
					if ph, isPhi := v.(*ssa.Phi); isPhi {
						for _, e := range ph.Edges {
							visit(e, d+1)
						}
					}
				}
				visit(sl.High, 0)
				r.add(okv, fmt.Sprintf("substr|%s|slice#%d", which, idx), p.InstrPos(sl), "the end of the cut is min(end, len(value))")
			}
		}
	}
	r.floor("slices of the value in the substr bodies", n, 2)
}

// ---------------- TWINERR ----------------

func init() {
	register("TWINERR", "row and batch twins treat a failing comparison alike: for every operator whose row and batch evaluators call the comparison helpers (exec*Compare), the ways their errors are handled - returned as an error, or absorbed into a result (`not in the list`) - are the same sets in both twins (an element that cannot be compared with the left operand makes `x in f(..)` false in one mode and an operand-type error in the other)", ruleTwinErr)
}

func ruleTwinErr(p *Prog, r *Result) {
	row := p.MethodByName("BinaryOpExpr", "Execute")
	bat := p.MethodByName("BinaryOpExpr", "ExecuteBatch")
	if row == nil || bat == nil {
		r.undecided("anchor: (*BinaryOpExpr).Execute/ExecuteBatch not found")
		return
	}
	rt, err1 := p.dispatchTable(row)
	bt, err2 := p.dispatchTable(bat)
	if err1 != nil || err2 != nil {
		r.undecided("dispatch table extraction failed: %v %v", err1, err2)
		return
	}
	handling := func(fn *ssa.Function) map[string]bool {
		out := map[string]bool{}
		for _, f := range p.staticClosure(fn, 1, nil) {
			if f != fn && (f.Signature.Recv() == nil || typeName(deref(f.Signature.Recv().Type())) != "BinaryOpExpr") {
				continue
			}
			allInstrs(f, func(in ssa.Instruction) {
				c, ok := in.(*ssa.Call)
				if !ok {
					return
				}
				if !isCompareHelperCall(p, c) {
					return
				}
				e := extractOf(c, 1)
				if e == nil {
					out["ignored"] = true
					return
				}
				vals := map[ssa.Value]bool{e: true}
				for _, ref := range *e.Referrers() {
					if ph, ok := ref.(*ssa.Phi); ok {
						vals[ph] = true
					}
					if _, isRet := ref.(*ssa.Return); isRet {
						out["returned"] = true // `return helper(..)`: handed on as it is
					}
				}
				for _, b := range f.Blocks {
					fi := ifOf(b)
					if fi == nil {
						continue
					}
					for si := range b.Succs {
						a, ok := edgeAtom(b, si)
						if !ok || a.Op != token.NEQ || !vals[a.X] || !isNilConst(a.Y) {
							continue
						}
						sc := b.Succs[si]
						if ret := retOf(sc); ret != nil && len(ret.Results) > 0 {
							if isNilConst(retVal(ret, len(ret.Results)-1)) {
								out["absorbed"] = true
							} else {
								out["returned"] = true
							}
						} else {
							out["absorbed"] = true
						}
					}
				}
			})
		}
		return out
	}
	n := 0
	for _, name := range sortedKeys(rt) {
		for _, cls := range []string{"str", "num"} {
			re, be := rt[name][cls], bt[name][cls]
			if re == nil || be == nil {
				continue
			}
			hr, hb := handling(re.Callee), handling(be.Callee)
			if len(hr) == 0 && len(hb) == 0 {
				continue
			}
			n++
			r.add(fmt.Sprint(keysOf(hr)) == fmt.Sprint(keysOf(hb)), fmt.Sprintf("%s|%s", name, cls), p.Pos(be.Callee.Pos()), fmt.Sprintf("errors of the comparison helpers: row twin %s %v, batch twin %s %v", re.Callee.Name(), keysOf(hr), be.Callee.Name(), keysOf(hb)))
		}
	}
	r.floor("operator twins calling comparison helpers", n, 4)
}

// isCompareHelperCall: a call of a package-level exec*Compare function, directly or through a function value that
// can only hold such functions (`compare := execStringCompare; if number { compare = execNumberCompare }`).
func isCompareHelperCall(p *Prog, c *ssa.Call) bool {
	isCmp := func(g *ssa.Function) bool {
		return g != nil && p.InPkg(g) && g.Signature.Recv() == nil && strings.Contains(g.Name(), "Compare")
	}
	if g := c.Call.StaticCallee(); g != nil {
		if isCmp(g) {
			return true
		}
		// a wrapper that only hands on the results of comparison helpers
		if p.InPkg(g) && g.Signature.Recv() == nil {
			fw := forwardedCallees(p, g)
			if len(fw) == 0 {
				return false
			}
			for _, nm := range fw {
				if !strings.Contains(nm, "Compare") {
					return false
				}
			}
			return true
		}
		return false
	}
	if c.Call.IsInvoke() {
		return false
	}
	var all func(v ssa.Value, d int) bool
	all = func(v ssa.Value, d int) bool {
		if d > 4 {
			return false
		}
		switch x := v.(type) {
		case *ssa.Function:
			return isCmp(x)
		case *ssa.Phi:
			for _, e := range x.Edges {
				if !all(e, d+1) {
					return false
				}
			}
			return len(x.Edges) > 0
		case *ssa.ChangeType:
			return all(x.X, d+1)
		}
		return false
	}
	return all(c.Call.Value, 0)
}

// ---------------- AGGRPLACE ----------------

func init() {
	register("AGGRPLACE", "an aggregate function is only computed for select fields (the plan builder looks for aggregate calls there and nowhere else), but its name has a static type everywhere, so the type checker alone accepts `where count(1) > 0`, `remove count(1)` or `put ('a', count(1))` - statements that fail with `Cannot find function` once rows are read. Wherever a statement expression is type-checked outside the Check methods themselves (the Validate methods and their helpers, the WHERE clause in Parse), the same expression is also handed to a placement check: a package function with an error result that can reach the aggregate registry test", ruleAggrPlace)
}

func ruleAggrPlace(p *Prog, r *Result) {
	placement := map[*ssa.Function]bool{}
	for _, f := range p.Funcs {
		res := f.Signature.Results()
		if res.Len() != 1 || res.At(0).Type().String() != "error" || f.Name() == "Check" {
			continue
		}
		hasExpr := false
		for i := 0; i < f.Signature.Params().Len(); i++ {
			if typeName(f.Signature.Params().At(i).Type()) == "Expression" {
				hasExpr = true
			}
		}
		if !hasExpr {
			continue
		}
		for _, g := range p.staticClosure(f, 3, nil) {
			if g.Name() == "IsAggrFuncExpr" || g.Name() == "IsAggrFunc" {
				placement[f] = true
			}
		}
	}
	var sig func(v ssa.Value, d int) string
	sig = func(v ssa.Value, d int) string {
		if d > 6 {
			return "?"
		}
		v = stripConv(v)
		switch x := v.(type) {
		case *ssa.Parameter:
			return x.Name()
		case *ssa.UnOp:
			switch a := x.X.(type) {
			case *ssa.FieldAddr:
				_, f, _, _ := fieldOfAddr(a)
				return sig(a.X, d+1) + "." + f
			case *ssa.IndexAddr:
				return sig(a.X, d+1) + "[]"
			}
		case *ssa.FieldAddr:
			_, f, _, _ := fieldOfAddr(x)
			return sig(x.X, d+1) + "." + f
		case *ssa.Extract:
			return sig(x.Tuple, d+1)
		case *ssa.Call:
			if g := x.Call.StaticCallee(); g != nil {
				return g.Name() + "()"
			}
		case *ssa.Alloc:
			return "new " + typeName(deref(x.Type()))
		}
		return v.Name()
	}
	n := 0
	for _, fn := range p.Funcs {
		if fn.Name() == "Check" || strings.HasPrefix(fn.Name(), "check") || strings.HasPrefix(fn.Name(), "tryRewrite") || placement[fn] {
			continue
		}
		placed := map[string]bool{}
		allInstrs(fn, func(in ssa.Instruction) {
			c, ok := in.(*ssa.Call)
			if !ok {
				return
			}
			g := c.Call.StaticCallee()
			if g == nil || !placement[g] {
				return
			}
			for _, a := range c.Call.Args {
				if typeName(a.Type()) == "Expression" {
					placed[sig(a, 0)] = true
				}
			}
		})
		idx := 0
		allInstrs(fn, func(in ssa.Instruction) {
			c, ok := in.(*ssa.Call)
			if !ok || !c.Call.IsInvoke() || c.Call.Method.Name() != "Check" || typeName(c.Call.Value.Type()) != "Expression" {
				return
			}
			idx++
			n++
			s := sig(c.Call.Value, 0)
			r.add(placed[s], fmt.Sprintf("%s|%s#%d", p.FName(fn), s, idx), p.InstrPos(in), "the expression that is type-checked here is also handed to a check of where aggregate calls stand (an aggregate outside an evaluated select-field position passes the type check and fails when the first row is read)")
		})
	}
	r.floor("statement expressions type-checked outside Check methods", n, 5)
}

// ---------------- ALIASWALK ----------------

func init() {
	register("ALIASWALK", "an alias reference points into the tree of another select field, so the tree is a DAG: `a0+a0 as a1, a1+a1 as a2, ...` reaches a0 over 2^n paths. Whatever follows a reference visits its target once: a function that loads FieldReferenceExpr.FieldExpr and hands it to a call consults a map keyed by that target first (evaluation is covered by the context memo of ROWCACHE, ReturnType by asking at most one operand per operator); a callback handed to the generic Walk recognises references and keeps such a map", ruleAliasWalk)
}

var aliasWalkExempt = map[string]string{
	"(*Optimizer).canOptimizeDeletePlanToRemovePlan": "walks the WHERE tree of a DELETE: a DELETE has no select fields, so the checker never rewrites a name into a reference there",
}

func ruleAliasWalk(p *Prog, r *Result) {
	isTargetLoad := func(v ssa.Value) bool {
		return isFieldLoad(stripConv(v), "FieldReferenceExpr", "FieldExpr")
	}
	n := 0
	for _, fn := range p.Funcs {
		recvName := ""
		if fn.Signature.Recv() != nil {
			recvName = typeName(deref(fn.Signature.Recv().Type()))
		}
		follows, comesBack := "", false
		allInstrs(fn, func(in ssa.Instruction) {
			ci, ok := in.(ssa.CallInstruction)
			if !ok {
				return
			}
			cc := ci.Common()
			hit := cc.IsInvoke() && isTargetLoad(cc.Value)
			for _, a := range cc.Args {
				if isTargetLoad(a) {
					hit = true
				}
			}
			if !hit {
				return
			}
			follows = p.InstrPos(in)
			// only a walk that can come back to this function multiplies: handing the target to a function that
			// never returns here is a single visit (that function has its own obligation)
			callees := p.Callees(ci)
			if len(callees) == 0 {
				comesBack = true
			}
			for _, g := range callees {
				if g == fn || p.Reach([]*ssa.Function{g}, nil)[fn] {
					comesBack = true
				}
			}
		})
		if follows == "" {
			continue
		}
		n++
		key := p.FName(fn) + "|follows"
		switch {
		case recvName == "FieldReferenceExpr" && (fn.Name() == "Execute" || fn.Name() == "ExecuteBatch"):
			r.add(true, key, follows, "evaluation: memoised per row / per chunk in the context (ROWCACHE memo-context, chunk caches)")
		case recvName == "FieldReferenceExpr" && fn.Name() == "Walk":
			r.add(true, key, follows, "the generic traversal: the obligation is on the callbacks handed to Walk")
		case recvName == "FieldReferenceExpr" && fn.Name() == "ReturnType":
			// linear as long as no operator asks more than one operand for its type on a path
			bad := ""
			if bt := p.MethodByName("BinaryOpExpr", "ReturnType"); bt != nil {
				cnt := 0
				allInstrs(bt, func(in ssa.Instruction) {
					if c, ok := in.(*ssa.Call); ok && c.Call.IsInvoke() && c.Call.Method.Name() == "ReturnType" {
						cnt++
					}
				})
				if cnt > 1 {
					bad = fmt.Sprintf("(*BinaryOpExpr).ReturnType asks %d operands for their types: through references that is 2^n", cnt)
				}
			}
			r.add(bad == "", key, follows, firstNonEmpty(bad, "static typing follows a reference, and an operator asks at most one operand for its type"))
		case !comesBack:
			r.add(true, key, follows, "hands the target to a function that never comes back here: one visit per reference")
		default:
			memo := false
			allInstrs(fn, func(in ssa.Instruction) {
				if lk, ok := in.(*ssa.Lookup); ok {
					if _, isMap := lk.X.Type().Underlying().(*types.Map); isMap && isTargetLoad(lk.Index) {
						memo = true
					}
				}
			})
			r.add(memo, key, follows, "a function that follows an alias reference looks its target up in a map of the targets already visited (the fields form a DAG: without it a chain of fields that use each other twice is walked 2^n times)")
		}
	}
	// callbacks handed to Walk
	for _, fn := range p.Funcs {
		if fn.Name() == "Walk" {
			continue
		}
		idx := 0
		allInstrs(fn, func(in ssa.Instruction) {
			ci, ok := in.(ssa.CallInstruction)
			if !ok {
				return
			}
			cc := ci.Common()
			name := ""
			if cc.IsInvoke() {
				name = cc.Method.Name()
			} else if g := cc.StaticCallee(); g != nil {
				name = g.Name()
			}
			if name != "Walk" {
				return
			}
			idx++
			n++
			key := fmt.Sprintf("%s|walk#%d", p.FName(fn), idx)
			root := fn
			for root.Parent() != nil {
				root = root.Parent()
			}
			if why, ex := aliasWalkExempt[p.FName(root)]; ex {
				r.Exempt = append(r.Exempt, key+": "+why)
				return
			}
			okv := false
			for _, a := range cc.Args {
				for {
					if ct, ok := a.(*ssa.ChangeType); ok {
						a = ct.X
						continue
					}
					break
				}
				var cb *ssa.Function
				switch x := a.(type) {
				case *ssa.MakeClosure:
					cb = x.Fn.(*ssa.Function)
				case *ssa.Function:
					cb = x
				}
				if cb == nil {
					continue
				}
				sees, memo := false, false
				allInstrs(cb, func(x ssa.Instruction) {
					if ta, ok := x.(*ssa.TypeAssert); ok && typeName(deref(ta.AssertedType)) == "FieldReferenceExpr" {
						sees = true
					}
					if lk, ok := x.(*ssa.Lookup); ok {
						if _, isMap := lk.X.Type().Underlying().(*types.Map); isMap && isTargetLoad(lk.Index) {
							memo = true
						}
					}
				})
				if sees && memo {
					okv = true
				}
				// ... or never walks into a reference at all: behind the test for a reference it only returns false
				if sees && !memo {
					cuts := true
					found := false
					allInstrs(cb, func(x ssa.Instruction) {
						ta, ok := x.(*ssa.TypeAssert)
						if !ok || typeName(deref(ta.AssertedType)) != "FieldReferenceExpr" || !ta.CommaOk {
							return
						}
						okv2 := extractOf2(ta, 1)
						if okv2 == nil {
							return
						}
						found = true
						for _, b := range cb.Blocks {
							ret := retOf(b)
							if ret == nil || !trueEdgeDominates(okv2, b) {
								continue
							}
							if bv, isB := constBool(retVal(ret, 0)); !isB || bv {
								cuts = false
							}
						}
						// some return must lie behind the test
						any := false
						for _, b := range cb.Blocks {
							if retOf(b) != nil && trueEdgeDominates(okv2, b) {
								any = true
							}
						}
						if !any {
							cuts = false
						}
					})
					if found && cuts {
						okv = true
					}
				}
			}
			r.add(okv, key, p.InstrPos(in), "the callback handed to Walk recognises alias references and cuts the walk at a target it has already visited")
		})
	}
	r.floor("functions following alias references, and Walk callers", n, 4)
}

// ---------------- STMTKEEP ----------------

func init() {
	register("STMTKEEP", "what the parser accepted is what is planned: the element lists of a parsed statement (the pairs of a PUT, the keys of a REMOVE, the fields of a SELECT) are stored only where the statement is built - a later stage that drops or reorders elements (a PUT pair whose key is written again further on, say) plans another statement than the one that was checked, and an element that is dropped is never evaluated, so its failure no longer stops the statement; and a scan plan's constructor keeps the bounds it is given (nil is an open bound, the empty slice is the empty key)", ruleStmtKeep)
}

func ruleStmtKeep(p *Prog, r *Result) {
	lists := map[string]string{"PutStmt": "KVPairs", "RemoveStmt": "Keys", "SelectStmt": "Fields"}
	n := 0
	for _, fn := range p.Funcs {
		allInstrs(fn, func(in ssa.Instruction) {
			st, ok := in.(*ssa.Store)
			if !ok {
				return
			}
			o, f, base, ok := fieldOfAddr(st.Addr)
			if !ok || o == nil || lists[o.Obj().Name()] != f {
				return
			}
			n++
			_, fresh := base.(*ssa.Alloc)
			inParser := fn.Signature.Recv() != nil && typeName(deref(fn.Signature.Recv().Type())) == "Parser"
			r.add(fresh || inParser, fmt.Sprintf("%s|%s.%s#%d", p.FName(fn), o.Obj().Name(), f, n), p.InstrPos(in), "the element list of a statement is written where the statement is built (a fresh node, or the parser)")
		})
	}
	r.floor("stores into statement element lists", n, 3)
	// constructors of the scan plans store their byte-string parameters as they are
	nc := 0
	for _, cn := range []string{"NewRangeScanPlan", "NewPrefixScanPlan"} {
		fn := p.Func(cn)
		if fn == nil {
			continue
		}
		allInstrs(fn, func(in ssa.Instruction) {
			st, ok := in.(*ssa.Store)
			if !ok {
				return
			}
			_, f, base, ok := fieldOfAddr(st.Addr)
			if !ok || (f != "Start" && f != "End" && f != "Prefix") {
				return
			}
			if _, fresh := base.(*ssa.Alloc); !fresh {
				return
			}
			nc++
			v := st.Val
			if cv, ok := v.(*ssa.Convert); ok {
				v = cv.X
			}
			_, direct := v.(*ssa.Parameter)
			r.add(direct, cn+"|"+f+"|as-given", p.InstrPos(in), "the constructor keeps the bound it is given (it does not turn an empty bound into an open one or the reverse)")
		})
	}
	r.floor("bounds stored by scan plan constructors", nc, 3)
}
