package main

import (
	"fmt"
	"go/token"
	"go/types"
	"sort"
	"strings"

	"golang.org/x/tools/go/ssa"
)

// Rules added after the third round of independent breakages.

func init() {
	register("PARSEARGS", "numbers are read from text in one way everywhere in the package: strconv.ParseInt with base 10 and bit size 64, strconv.ParseFloat with bit size 64; where a function parses the same text both ways, the integer result comes from ParseInt and ParseFloat is only the fallback after ParseInt failed (an integer above 2^53 must not pass through float64)", ruleParseArgs)
	register("LITDATA", "literal nodes keep the text the user wrote: the Data field of a String/Number/Float/Bool literal built by the parser's constructors is the constructor's text parameter itself (the canonical printed form shows Data; re-formatting it from the parsed value changes the kind or spelling that is re-parsed)", ruleLitData)
	register("RMKEYFLOW", "REMOVE deletes the evaluated keys: every key handed to Delete/BatchDelete by RemovePlan is the text image of the result of Execute on that key expression (the same evaluation PUT and SELECT use), never text taken from the syntax tree", ruleRmKeyFlow)
	register("LISTTYPE", "IN and BETWEEN lists are homogeneous and of the left operand's type: the operator's typing helper compares every element with the left type, or it compares one element and ListExpr.Check compares every other element with that one", ruleListType)
	register("IFACEEQ", "values are never compared by Go interface equality in evaluation code: no == / != on two interface operands and no map keyed by an interface type in anything reachable from Execute / ExecuteBatch / the registered function bodies (interface equality is type-strict: int64(2) != float64(2), while the language compares numbers numerically)", ruleIfaceEq)
	register("ROWALIAS", "vector evaluation produces one value per row: a reference-typed object (map, slice, pointer) allocated outside the row loop is not stored into the result column of every row while being rewritten inside the loop", ruleRowAlias)
	register("ARGFRESH", "function bodies and vector helpers do not write into their inputs: no store through a slice that is (an element of) the argument list, an operand column or an evaluated value; results are built in memory allocated by the function (arguments can be key/value bytes owned by the storage, or a folded constant shared by all rows)", ruleArgFresh)
}

// ---------------- PARSEARGS ----------------

func ruleParseArgs(p *Prog, r *Result) {
	n := 0
	for _, fn := range p.Funcs {
		var ints, floats []*ssa.Call
		allInstrs(fn, func(in ssa.Instruction) {
			c, ok := in.(*ssa.Call)
			if !ok {
				return
			}
			g := c.Call.StaticCallee()
			if g == nil {
				return
			}
			switch p.qualName(g) {
			case "strconv.ParseInt":
				ints = append(ints, c)
			case "strconv.ParseFloat":
				floats = append(floats, c)
			}
		})
		for i, c := range ints {
			n++
			base, ok1 := constInt(c.Call.Args[1])
			bits, ok2 := constInt(c.Call.Args[2])
			r.add(ok1 && ok2 && base == 10 && bits == 64, fmt.Sprintf("%s|ParseInt#%d", p.FName(fn), i+1), p.InstrPos(c), "integers are read in base 10 into 64 bits")
		}
		for i, c := range floats {
			n++
			bits, ok := constInt(c.Call.Args[1])
			r.add(ok && bits == 64, fmt.Sprintf("%s|ParseFloat#%d", p.FName(fn), i+1), p.InstrPos(c), "floats are read with bit size 64 (32 rounds every literal and stored number to float32)")
		}
		// float -> int64 conversions of a ParseFloat result: only as a fallback after ParseInt failed on the same path
		idx := 0
		allInstrs(fn, func(in ssa.Instruction) {
			cv, ok := in.(*ssa.Convert)
			if !ok {
				return
			}
			bt, isB := cv.Type().Underlying().(*types.Basic)
			if !isB || bt.Info()&types.IsInteger == 0 {
				return
			}
			var src *ssa.Call
			for _, c := range floats {
				if derivesFrom(cv.X, func(v ssa.Value) bool { return v == ssa.Value(c) }) {
					src = c
				}
			}
			if src == nil {
				return
			}
			n++
			idx++
			key := fmt.Sprintf("%s|float-to-int#%d", p.FName(fn), idx)
			// some ParseInt call of this function must have failed on every path to the ParseFloat call
			okv := false
			for _, ic := range ints {
				ev := extractOf(ic, 1)
				if ev == nil {
					continue
				}
				for _, a := range dominatingAtoms(src.Block()) {
					if a.X == ev && a.Op == token.NEQ && isNilConst(a.Y) {
						okv = true
					}
				}
			}
			r.add(okv, key, p.InstrPos(cv), "an integer taken from a ParseFloat result is only the fallback after ParseInt failed on the same text")
		})
	}
	r.floor("number-parsing sites", n, 8)
}

// ---------------- LITDATA ----------------

func ruleLitData(p *Prog, r *Result) {
	n := 0
	ctors := map[*ssa.Function]*ssa.Parameter{}
	for _, fn := range p.Funcs {
		if fn.Signature.Recv() != nil {
			continue
		}
		idx := 0
		allInstrs(fn, func(in ssa.Instruction) {
			st, ok := in.(*ssa.Store)
			if !ok {
				return
			}
			o, f, base, ok := fieldOfAddr(st.Addr)
			if !ok || o == nil || f != "Data" || !literalNodeTypes[o.Obj().Name()] {
				return
			}
			if _, fresh := base.(*ssa.Alloc); !fresh {
				return
			}
			// only constructors taking the text as a parameter are in scope (the folder builds literals from values)
			var textParam ssa.Value
			for _, pa := range fn.Params {
				if bt, isB := pa.Type().Underlying().(*types.Basic); isB && bt.Kind() == types.String {
					textParam = pa
				}
			}
			if textParam == nil {
				return
			}
			n++
			idx++
			r.add(stripConv(st.Val) == textParam, fmt.Sprintf("%s|%s.Data#%d", p.FName(fn), o.Obj().Name(), idx), p.InstrPos(st), "the literal node keeps the text it was built from")
			ctors[fn] = textParam.(*ssa.Parameter)
		})
	}
	r.floor("literal constructors taking text", n, 2)
	// ... and inside the parser that text is a token's text as it stands: a sign or a re-spelling glued on by the
	// caller gives literals the lexer cannot produce (negative list indexes, texts that re-lex differently)
	ncall := 0
	for _, caller := range p.Funcs {
		if caller.Signature.Recv() == nil || typeName(deref(caller.Signature.Recv().Type())) != "Parser" {
			continue
		}
		k := 0
		allInstrs(caller, func(in ssa.Instruction) {
			c, ok := in.(*ssa.Call)
			if !ok {
				return
			}
			pa, isCtor := ctors[c.Call.StaticCallee()]
			if !isCtor {
				return
			}
			ai := -1
			for i, q := range c.Call.StaticCallee().Params {
				if q == pa {
					ai = i
				}
			}
			if ai < 0 || ai >= len(c.Call.Args) {
				return
			}
			ncall++
			k++
			arg := stripConv(c.Call.Args[ai])
			okv := isFieldLoad(arg, "Token", "Data")
			if ph, isPhi := arg.(*ssa.Phi); isPhi {
				okv = true
				for _, e := range ph.Edges {
					if !isFieldLoad(stripConv(e), "Token", "Data") {
						okv = false
					}
				}
			}
			r.add(okv, fmt.Sprintf("%s|%s-text#%d", p.FName(caller), c.Call.StaticCallee().Name(), k), p.InstrPos(c), "the parser builds a literal from the token's own text")
		})
	}
	r.floor("literal constructor calls in the parser", ncall, 3)
}

// ---------------- RMKEYFLOW ----------------

func ruleRmKeyFlow(p *Prog, r *Result) {
	rt := p.Named("RemovePlan")
	if rt == nil {
		r.undecided("anchor: RemovePlan not found")
		return
	}
	n := 0
	for _, fn := range p.methodsOf(rt) {
		for _, s := range p.storage().ByFn[fn] {
			if s.Method != "Storage.Delete" && s.Method != "Storage.BatchDelete" {
				continue
			}
			ci := s.Instr.(ssa.CallInstruction)
			arg := ci.Common().Args[0]
			// the key values: elements stored into the key list, or the single key
			var srcs []ssa.Value
			if _, isSl := arg.Type().Underlying().(*types.Slice); isSl {
				if sl, ok := arg.Type().Underlying().(*types.Slice); ok {
					if _, inner := sl.Elem().Underlying().(*types.Slice); inner {
						for root := range sliceRoots(arg) {
							srcs = append(srcs, elementStores(root)...)
						}
					}
				}
			}
			if len(srcs) == 0 {
				srcs = append(srcs, arg)
			}
			for i, v := range srcs {
				n++
				key := fmt.Sprintf("%s|%s|key#%d", p.FName(fn), s.Method, i+1)
				bad := p.keyFromExecute(v, 0)
				r.add(bad == "", key, p.InstrPos(s.Instr), firstNonEmpty(bad, "the deleted key is the text image of the evaluated key expression"))
			}
		}
	}
	r.floor("keys handed to Delete/BatchDelete by RemovePlan", n, 2)
}

// elementStores: values stored into elements of the slice allocated/made at root.
func elementStores(root ssa.Value) []ssa.Value {
	var out []ssa.Value
	seen := map[ssa.Value]bool{}
	var walk func(v ssa.Value)
	walk = func(v ssa.Value) {
		if seen[v] || v.Referrers() == nil {
			return
		}
		seen[v] = true
		for _, ref := range *v.Referrers() {
			switch x := ref.(type) {
			case *ssa.IndexAddr:
				for _, r2 := range *x.Referrers() {
					if st, ok := r2.(*ssa.Store); ok && st.Addr == ssa.Value(x) {
						out = append(out, st.Val)
					}
				}
			case *ssa.Slice:
				walk(x)
			case *ssa.Phi:
				walk(x)
			}
		}
	}
	walk(root)
	return out
}

// keyFromExecute: every way the key value v is produced goes through an invoke of Execute on an
// Expression (possibly inside a static helper); returns a description of an offending source.
func (p *Prog) keyFromExecute(v ssa.Value, depth int) string {
	if depth > 4 {
		return "key provenance too deep to decide"
	}
	seen := map[ssa.Value]bool{}
	var rec func(x ssa.Value) string
	rec = func(x ssa.Value) string {
		if x == nil || seen[x] {
			return ""
		}
		seen[x] = true
		switch y := x.(type) {
		case *ssa.Phi:
			for _, e := range y.Edges {
				if s := rec(e); s != "" {
					return s
				}
			}
			return ""
		case *ssa.Convert:
			return rec(y.X)
		case *ssa.ChangeType:
			return rec(y.X)
		case *ssa.Extract:
			return rec(y.Tuple)
		case *ssa.Slice:
			return rec(y.X)
		case *ssa.UnOp:
			if ia, ok := y.X.(*ssa.IndexAddr); ok {
				for root := range sliceRoots(ia.X) {
					for _, sv := range elementStores(root) {
						if s := rec(sv); s != "" {
							return s
						}
					}
				}
				return ""
			}
			return "key read from " + p.InstrPos(y)
		case *ssa.Call:
			if y.Call.IsInvoke() {
				if y.Call.Method.Name() == "Execute" && typeName(y.Call.Value.Type()) == "Expression" {
					return ""
				}
				return "key produced by " + callDesc(p, y)
			}
			g := y.Call.StaticCallee()
			if g == nil {
				return "key produced by a dynamic call"
			}
			if !p.InPkg(g) || len(g.Blocks) == 0 {
				return "key produced by " + p.qualName(g)
			}
			if g.Name() == "toString" || g.Name() == "convertToByteArray" {
				// text image helpers: their input must be the evaluated value
				if len(y.Call.Args) > 0 {
					return rec(y.Call.Args[0])
				}
			}
			// a plan helper: every value it returns (first result) must itself come from Execute
			for _, b := range g.Blocks {
				ret := retOf(b)
				if ret == nil || len(ret.Results) == 0 {
					continue
				}
				rv := retVal(ret, 0)
				if isNilConst(rv) {
					continue
				}
				if s := p.keyFromExecute(rv, depth+1); s != "" {
					return s + " (in " + p.FName(g) + ")"
				}
			}
			return ""
		case *ssa.Const:
			if isNilConst(y) {
				return ""
			}
			return "constant key"
		case *ssa.Parameter:
			return "key taken from parameter " + y.Name() + " without evaluation"
		}
		if _, f, _, ok := loadedField(x); ok {
			return "key text read from the syntax tree (field " + f + "), not evaluated"
		}
		return fmt.Sprintf("key produced by %T", x)
	}
	return rec(v)
}

// ---------------- LISTTYPE ----------------

func ruleListType(p *Prog, r *Result) {
	lt := p.Named("ListExpr")
	if lt == nil {
		r.undecided("anchor: ListExpr not found")
		return
	}
	lcheck := p.Method(lt, "Check")
	isRT := func(v ssa.Value) bool {
		c, ok := v.(*ssa.Call)
		return ok && ((c.Call.IsInvoke() && c.Call.Method.Name() == "ReturnType") || (c.Call.StaticCallee() != nil && c.Call.StaticCallee().Name() == "ReturnType"))
	}
	rtRecv := func(v ssa.Value) ssa.Value {
		c := v.(*ssa.Call)
		if c.Call.IsInvoke() {
			return c.Call.Value
		}
		return c.Call.Args[0]
	}
	// elemKind: "all" if the receiver is a loop element of list (an index that is not constant), "first" for a constant index 0
	elemKind := func(recv ssa.Value, owner, field string) string {
		kind := ""
		backward(recv, func(x ssa.Value) bool {
			if ia, ok := x.(*ssa.IndexAddr); ok {
				if p.derivesFromField(ia.X, owner, field, traceOpts{}) || isSliceOfField(ia.X, owner, field) {
					if k, isC := constInt(ia.Index); isC {
						if k == 0 && kind == "" {
							kind = "first"
						}
					} else {
						kind = "all"
					}
				}
			}
			return true
		})
		return kind
	}
	// H: ListExpr.Check compares every element's type with one element's type
	H := false
	if lcheck != nil {
		allInstrs(lcheck, func(in ssa.Instruction) {
			bo, ok := in.(*ssa.BinOp)
			if !ok || (bo.Op != token.NEQ && bo.Op != token.EQL) {
				return
			}
			var a, b ssa.Value = bo.X, bo.Y
			resolve := func(v ssa.Value) ssa.Value {
				for {
					if ph, ok := v.(*ssa.Phi); ok && len(ph.Edges) > 0 {
						v = ph.Edges[0]
						continue
					}
					return v
				}
			}
			a, b = resolve(a), resolve(b)
			if !isRT(a) || !isRT(b) {
				return
			}
			ka, kb := elemKind(rtRecv(a), "ListExpr", "List"), elemKind(rtRecv(b), "ListExpr", "List")
			if (ka == "all" && kb != "") || (kb == "all" && ka != "") {
				H = true
			}
		})
	}
	r.note("ListExpr.Check establishes homogeneity", H)
	n := 0
	for _, hn := range []string{"checkWithIn", "checkWithBetween"} {
		h := p.MethodByName("BinaryOpExpr", hn)
		if h == nil {
			r.undecided("anchor: (*BinaryOpExpr).%s not found", hn)
			continue
		}
		n++
		all, first := false, false
		allInstrs(h, func(in ssa.Instruction) {
			bo, ok := in.(*ssa.BinOp)
			if !ok || (bo.Op != token.NEQ && bo.Op != token.EQL) {
				return
			}
			for _, pr := range [][2]ssa.Value{{bo.X, bo.Y}, {bo.Y, bo.X}} {
				e, l := pr[0], pr[1]
				if !isRT(e) {
					continue
				}
				// l: the left operand's type (a ReturnType call on e.Left, possibly through a local)
				isLeft := false
				backward(l, func(x ssa.Value) bool {
					if isRT(x) && p.derivesFromField(rtRecv(x), "BinaryOpExpr", "Left", traceOpts{}) {
						isLeft = true
					}
					return true
				})
				if !isLeft {
					continue
				}
				switch elemKind(rtRecv(e), "ListExpr", "List") {
				case "all":
					all = true
				case "first":
					first = true
				}
			}
		})
		// BETWEEN names its two bounds by constant index: both compared counts as all
		if hn == "checkWithBetween" && !all {
			idxs := map[int64]bool{}
			allInstrs(h, func(in ssa.Instruction) {
				if ia, ok := in.(*ssa.IndexAddr); ok {
					if k, isC := constInt(ia.Index); isC {
						idxs[k] = true
					}
				}
			})
			if idxs[0] && idxs[1] && first {
				all = true
			}
		}
		okv := all || (first && H)
		why := "every element is compared with the left operand's type"
		if !okv {
			why = "not every list element is compared with the left operand's type, and ListExpr.Check does not make the list homogeneous either: key in ('a', 1) is accepted"
		}
		r.add(okv, hn, p.Pos(h.Pos()), why)
	}
	r.floor("list-typed operators", n, 2)
}

func isSliceOfField(v ssa.Value, owner, field string) bool {
	for {
		switch x := v.(type) {
		case *ssa.Slice:
			v = x.X
			continue
		}
		break
	}
	return isFieldLoad(v, owner, field)
}

// ---------------- IFACEEQ ----------------

func (p *Prog) evalFuncs() []*ssa.Function {
	seen := map[*ssa.Function]bool{}
	var out []*ssa.Function
	add := func(f *ssa.Function) {
		if f == nil {
			return
		}
		for _, g := range p.staticClosure(f, 4, func(x *ssa.Function) bool { return metaMethods[x.Name()] }) {
			if !seen[g] && p.InPkg(g) {
				seen[g] = true
				out = append(out, g)
			}
		}
	}
	for _, t := range p.exprTypes() {
		add(p.Method(t, "Execute"))
		add(p.Method(t, "ExecuteBatch"))
	}
	if rows, err := p.registry("funcMap"); err == nil {
		for _, row := range rows {
			add(row.Body)
			add(row.BodyVec)
		}
	}
	sort.Slice(out, func(i, j int) bool { return p.FName(out[i]) < p.FName(out[j]) })
	return out
}

func ruleIfaceEq(p *Prog, r *Result) {
	isIface := func(t types.Type) bool {
		_, ok := t.Underlying().(*types.Interface)
		return ok
	}
	n := 0
	fns := p.evalFuncs()
	for _, fn := range fns {
		idx := 0
		allInstrs(fn, func(in ssa.Instruction) {
			switch x := in.(type) {
			case *ssa.BinOp:
				if (x.Op == token.EQL || x.Op == token.NEQ) && isIface(x.X.Type()) && isIface(x.Y.Type()) && !isNilConst(x.X) && !isNilConst(x.Y) {
					if isErrorType(x.X.Type()) || isErrorType(x.Y.Type()) {
						return
					}
					n++
					idx++
					r.hit(fmt.Sprintf("%s|iface-compare#%d", p.FName(fn), idx), p.InstrPos(x), "two evaluated values are compared with Go interface equality (type-strict: an integer never equals a float)")
				}
			case *ssa.MakeMap:
				if mt, ok := x.Type().Underlying().(*types.Map); ok && isIface(mt.Key()) {
					n++
					idx++
					r.hit(fmt.Sprintf("%s|iface-keyed-map#%d", p.FName(fn), idx), p.InstrPos(x), "a map keyed by an interface type is used in evaluation code (lookups are type-strict: an integer key never matches a float operand)")
				}
			}
		})
	}
	r.note("evaluation_functions", len(fns))
	r.ok("summary", "", fmt.Sprintf("%d evaluation functions examined", len(fns)))
	if len(fns) < 60 {
		r.undecided("floor: evaluation functions = %d, need >= 60", len(fns))
	}
}

// ---------------- ROWALIAS ----------------

func ruleRowAlias(p *Prog, r *Result) {
	isRefT := func(t types.Type) bool {
		switch u := t.Underlying().(type) {
		case *types.Map, *types.Pointer:
			return true
		case *types.Slice:
			_ = u
			return true
		}
		return false
	}
	n := 0
	for _, fn := range p.vectorFuncs() {
		li := 0
		for _, L := range naturalLoops(fn) {
			var idx *ssa.Phi
			for _, in := range L.Header.Instrs {
				ph, ok := in.(*ssa.Phi)
				if !ok {
					continue
				}
				for _, ref := range *ph.Referrers() {
					if ia, ok := ref.(*ssa.IndexAddr); ok && ia.Index == ssa.Value(ph) && isRowContainer(ia.X.Type()) && L.Body[ia.Block()] {
						idx = ph
					}
				}
			}
			if idx == nil {
				continue
			}
			li++
			n++
			key := fmt.Sprintf("%s|rowloop#%d", p.FName(fn), li)
			bad := ""
			for _, b := range orderedBlocks(fn, L.Body) {
				for _, in := range b.Instrs {
					st, ok := in.(*ssa.Store)
					if !ok {
						continue
					}
					ia, ok := st.Addr.(*ssa.IndexAddr)
					if !ok || ia.Index != ssa.Value(idx) || !isRowContainer(ia.X.Type()) {
						continue
					}
					obj := stripConv(st.Val)
					if !isRefT(obj.Type()) {
						continue
					}
					// allocated outside the loop?
					var alloc ssa.Instruction
					var cell *ssa.Alloc // the variable holding the object, when its address is taken (&item)
					switch a := obj.(type) {
					case *ssa.MakeMap:
						alloc = a
					case *ssa.MakeSlice:
						alloc = a
					case *ssa.Alloc:
						alloc = a
					case *ssa.UnOp:
						if c, ok := a.X.(*ssa.Alloc); ok && a.Op == token.MUL {
							inLoopStore := false
							for _, sv := range *c.Referrers() {
								if s2, ok := sv.(*ssa.Store); ok && s2.Addr == ssa.Value(c) && L.Body[s2.Block()] {
									inLoopStore = true // a fresh object is assigned per row
								}
							}
							if !inLoopStore {
								cell, alloc = c, c
							}
						}
					}
					if alloc == nil || L.Body[alloc.Block()] {
						continue
					}
					isObj := func(v ssa.Value) bool {
						if v == obj {
							return true
						}
						if cell != nil {
							if v == ssa.Value(cell) {
								return true
							}
							if ld, ok := v.(*ssa.UnOp); ok && ld.X == ssa.Value(cell) {
								return true
							}
						}
						return false
					}
					// rewritten inside the loop: clear/delete/map update/store through it, or handed (by address) to a call
					mut := ""
					for _, b2 := range orderedBlocks(fn, L.Body) {
						for _, in2 := range b2.Instrs {
							switch y := in2.(type) {
							case *ssa.MapUpdate:
								if isObj(y.Map) {
									mut = p.InstrPos(y)
								}
							case ssa.CallInstruction:
								for _, a := range y.Common().Args {
									if isObj(a) {
										mut = p.InstrPos(in2)
									}
									if mi, ok := a.(*ssa.MakeInterface); ok {
										if al, ok := mi.X.(*ssa.Alloc); ok {
											for _, sv := range storedInto(al) {
												if isObj(sv) {
													mut = p.InstrPos(in2)
												}
											}
										}
										if isObj(mi.X) {
											mut = p.InstrPos(in2)
										}
									}
								}
							case *ssa.Store:
								if y != st {
									if ia2, ok := y.Addr.(*ssa.IndexAddr); ok && isObj(stripConv(ia2.X)) {
										mut = p.InstrPos(y)
									}
								}
							}
						}
					}
					if mut != "" {
						bad = fmt.Sprintf("the object stored for every row at %s is allocated once before the loop and rewritten at %s: all rows end up sharing the last row's content", p.InstrPos(st), mut)
					}
				}
			}
			r.add(bad == "", key, p.InstrPos(firstPosInstr(L.Header)), firstNonEmpty(bad, "row results do not share a rewritten object"))
		}
	}
	r.floor("row loops in vector code", n, 20)
}

// ---------------- ARGFRESH ----------------

func ruleArgFresh(p *Prog, r *Result) {
	n := 0
	rows, err := p.registry("funcMap")
	if err != nil {
		r.undecided("%v", err)
		return
	}
	seen := map[*ssa.Function]bool{}
	var fns []*ssa.Function
	add := func(f *ssa.Function) {
		if f == nil {
			return
		}
		for _, g := range p.staticClosure(f, 3, func(x *ssa.Function) bool { return metaMethods[x.Name()] }) {
			if !seen[g] && p.InPkg(g) {
				seen[g] = true
				fns = append(fns, g)
			}
		}
	}
	for _, row := range rows {
		add(row.Body)
		add(row.BodyVec)
	}
	sort.Slice(fns, func(i, j int) bool { return p.FName(fns[i]) < p.FName(fns[j]) })
	for _, fn := range fns {
		idx := 0
		// inputs: parameters of slice / interface type (argument lists, values, operand columns)
		isInput := func(v ssa.Value) bool {
			pa, ok := v.(*ssa.Parameter)
			if !ok {
				return false
			}
			switch pa.Type().Underlying().(type) {
			case *types.Slice, *types.Interface:
				return true
			}
			return false
		}
		allInstrs(fn, func(in ssa.Instruction) {
			st, ok := in.(*ssa.Store)
			if !ok {
				return
			}
			ia, ok := st.Addr.(*ssa.IndexAddr)
			if !ok {
				return
			}
			// the written slice: is it (derived from) an input, other than being a fresh column?
			wr := ia.X
			fromInput := false
			viaElem := false
			seenV := map[ssa.Value]bool{}
			var rec func(x ssa.Value, elem bool)
			rec = func(x ssa.Value, elem bool) {
				if x == nil || seenV[x] {
					return
				}
				seenV[x] = true
				if isInput(x) {
					fromInput = true
					viaElem = elem
					return
				}
				// an operand column or evaluated value: writing the column's own slots is how vector code returns
				// its result, writing INTO a value taken out of it is not
				if elem && (isExecuteBatchResult(x) || isExecuteResult(x)) {
					fromInput = true
					viaElem = true
					return
				}
				switch y := x.(type) {
				case *ssa.Phi:
					for _, e := range y.Edges {
						rec(e, elem)
					}
				case *ssa.Slice:
					rec(y.X, elem)
				case *ssa.ChangeType:
					rec(y.X, elem)
				case *ssa.TypeAssert:
					rec(y.X, true)
				case *ssa.Extract:
					rec(y.Tuple, elem)
				case *ssa.UnOp:
					if ia2, ok := y.X.(*ssa.IndexAddr); ok {
						rec(ia2.X, true)
					}
				case *ssa.Call:
					// helpers that may hand their argument back unchanged (toFloatList, convertToByteArray, ...)
					g := y.Call.StaticCallee()
					if g != nil && p.InPkg(g) && len(g.Blocks) > 0 && p.mayReturnArg(g) {
						for _, a := range y.Call.Args {
							rec(a, elem)
						}
					}
				}
			}
			rec(wr, false)
			if !fromInput {
				return
			}
			// writing the function's own output column (the []any it was given as `chunk`-sized scratch) is not the
			// case here: an input reached only directly (not through an element / assertion) of type []any is the
			// argument list itself - also an input. Every such store is reported.
			n++
			idx++
			_ = viaElem
			r.hit(fmt.Sprintf("%s|store-into-input#%d", p.FName(fn), idx), p.InstrPos(st), "the function writes into one of its inputs (an argument value, the argument list or an operand column): the caller's data - stored key/value bytes, a folded constant, a cached column - is changed for everyone else")
		})
	}
	r.note("function_body_closure", len(fns))
	r.ok("summary", "", fmt.Sprintf("%d functions of the registered bodies examined, %d stores into inputs", len(fns), n))
	if len(fns) < 40 {
		r.undecided("floor: functions in the closure of the registered bodies = %d, need >= 40", len(fns))
	}
}

// mayReturnArg: some return value of g is (a conversion / assertion of) one of its parameters.
func (p *Prog) mayReturnArg(g *ssa.Function) bool {
	res := false
	for _, b := range g.Blocks {
		ret := retOf(b)
		if ret == nil {
			continue
		}
		for i := range ret.Results {
			v := retVal(ret, i)
			seen := map[ssa.Value]bool{}
			var rec func(x ssa.Value)
			rec = func(x ssa.Value) {
				if x == nil || seen[x] {
					return
				}
				seen[x] = true
				switch y := x.(type) {
				case *ssa.Parameter:
					res = true
				case *ssa.Phi:
					for _, e := range y.Edges {
						rec(e)
					}
				case *ssa.TypeAssert:
					rec(y.X)
				case *ssa.Extract:
					rec(y.Tuple)
				case *ssa.ChangeType:
					rec(y.X)
				case *ssa.Slice:
					rec(y.X)
				case *ssa.MakeInterface:
					rec(y.X)
				}
			}
			rec(v)
		}
	}
	return res
}

var _ = strings.TrimSpace

func isExecuteResult(v ssa.Value) bool {
	ex, ok := v.(*ssa.Extract)
	if !ok || ex.Index != 0 {
		return false
	}
	c, ok := ex.Tuple.(*ssa.Call)
	if !ok {
		return false
	}
	if c.Call.IsInvoke() {
		return c.Call.Method.Name() == "Execute"
	}
	f := c.Call.StaticCallee()
	return f != nil && f.Name() == "Execute"
}

// ---------------- ARMTWIN ----------------

func init() {
	register("ARMTWIN", "text is text whether it arrives as string or []byte: in every type switch of the package that has both a `string` and a `[]byte` arm, the two arms call the same functions (the bytes/strings twins of the standard library counted as one); a conversion that trims, folds or parses in one arm only makes stored values ([]byte) and computed or folded values (string) behave differently", ruleArmTwin)
}

func ruleArmTwin(p *Prog, r *Result) {
	isStringT := func(t types.Type) bool {
		b, ok := t.(*types.Basic)
		return ok && b.Kind() == types.String
	}
	isBytesT := func(t types.Type) bool {
		sl, ok := t.(*types.Slice)
		if !ok {
			return false
		}
		b, ok := sl.Elem().(*types.Basic)
		return ok && b.Kind() == types.Uint8
	}
	norm := func(q string) string {
		q = strings.TrimPrefix(q, "bytes.")
		q = strings.TrimPrefix(q, "strings.")
		return q
	}
	n := 0
	for _, fn := range p.Funcs {
		// assertions grouped by asserted operand
		type arm struct {
			ta    *ssa.TypeAssert
			block *ssa.BasicBlock // success successor
		}
		arms := map[ssa.Value]map[string]arm{}
		for _, b := range fn.Blocks {
			f := ifOf(b)
			if f == nil {
				continue
			}
			ex, ok := f.Cond.(*ssa.Extract)
			if !ok || ex.Index != 1 {
				continue
			}
			ta, ok := ex.Tuple.(*ssa.TypeAssert)
			if !ok || !ta.CommaOk {
				continue
			}
			kind := ""
			if isStringT(ta.AssertedType) {
				kind = "string"
			} else if isBytesT(ta.AssertedType) {
				kind = "[]byte"
			}
			if kind == "" {
				continue
			}
			if arms[ta.X] == nil {
				arms[ta.X] = map[string]arm{}
			}
			arms[ta.X][kind] = arm{ta, b.Succs[0]}
		}
		idx := 0
		var xs []ssa.Value
		for x := range arms {
			xs = append(xs, x)
		}
		sort.Slice(xs, func(i, j int) bool { return xs[i].Pos() < xs[j].Pos() })
		for _, x := range xs {
			m := arms[x]
			sa, ok1 := m["string"]
			ba, ok2 := m["[]byte"]
			if !ok1 || !ok2 || sa.block == ba.block {
				continue // one arm only, or a shared `case string, []byte:` arm
			}
			callsOf := func(entry *ssa.BasicBlock, other *ssa.BasicBlock) map[string]bool {
				out := map[string]bool{}
				for _, b := range fn.Blocks {
					if !(b == entry || entry.Dominates(b)) {
						continue
					}
					if len(entry.Preds) != 1 {
						continue
					}
					for _, in := range b.Instrs {
						if c, ok := in.(ssa.CallInstruction); ok {
							if g := c.Common().StaticCallee(); g != nil {
								if q := p.qualName(g); q == "bytes.Equal" || q == "bytes.Compare" {
									continue // what == and < are for strings
								}
								out[norm(p.qualName(g))] = true
							} else if c.Common().IsInvoke() {
								out["invoke "+c.Common().Method.Name()] = true
							}
						}
					}
				}
				return out
			}
			cs, cb := callsOf(sa.block, ba.block), callsOf(ba.block, sa.block)
			if len(sa.block.Preds) != 1 || len(ba.block.Preds) != 1 {
				continue
			}
			n++
			idx++
			var onlyS, onlyB []string
			for k := range cs {
				if !cb[k] {
					onlyS = append(onlyS, k)
				}
			}
			for k := range cb {
				if !cs[k] {
					onlyB = append(onlyB, k)
				}
			}
			sort.Strings(onlyS)
			sort.Strings(onlyB)
			r.add(len(onlyS) == 0 && len(onlyB) == 0, fmt.Sprintf("%s|switch#%d", p.FName(fn), idx), p.InstrPos(sa.ta), fmt.Sprintf("the string and []byte arms treat their text alike (only in the string arm: %v; only in the []byte arm: %v)", onlyS, onlyB))
		}
	}
	r.floor("type switches with a string and a []byte arm", n, 5)
}

// ---------------- SHORTBATCH ----------------

func init() {
	register("SHORTBATCH", "batch protocol between plans: the end of a child's stream is an empty batch. If some consumer also stops on a batch shorter than PlanBatchSize, then every producer must return a short batch only when it is exhausted: from any append to the returned rows, every path to a successful return crosses a test that the batch is full (its row counter >= PlanBatchSize), that the stream or region ended, or that the limit was reached. Independently of that, a pair-level plan never returns a batch (which may be empty) before a test that it is full or that the stream, region or limit ended: an empty batch ends every consumer", ruleShortBatch)
}

func ruleShortBatch(p *Prog, r *Result) {
	plans, finals, err := p.planTypes()
	if err != nil {
		r.undecided("%v", err)
		return
	}
	all := append(append([]*types.Named{}, plans...), finals...)
	isBatchSize := func(v ssa.Value) bool {
		return derivesFrom(v, func(x ssa.Value) bool {
			ld, ok := x.(*ssa.UnOp)
			if !ok || ld.Op != token.MUL {
				return false
			}
			g, ok := ld.X.(*ssa.Global)
			return ok && g.Name() == "PlanBatchSize"
		})
	}
	isChildBatchRows := func(v ssa.Value) bool {
		return derivesFromNoElem(v, func(x ssa.Value) bool {
			ex, ok := x.(*ssa.Extract)
			if !ok || ex.Index != 0 {
				return false
			}
			c, ok := ex.Tuple.(*ssa.Call)
			return ok && c.Call.IsInvoke() && c.Call.Method.Name() == "Batch"
		})
	}
	lenOfRows := func(v ssa.Value) bool {
		return derivesFrom(v, func(x ssa.Value) bool {
			c, ok := x.(*ssa.Call)
			if !ok {
				return false
			}
			b, ok := c.Call.Value.(*ssa.Builtin)
			return ok && b.Name() == "len" && isChildBatchRows(c.Call.Args[0])
		})
	}
	// (C) consumers that stop on a short batch
	var shortConsumers []string
	shortIfaces := map[string]bool{}
	nCons := 0
	for _, fn := range p.Funcs {
		hasFetch := false
		fetchIface := ""
		allInstrs(fn, func(in ssa.Instruction) {
			if c, ok := in.(*ssa.Call); ok && c.Call.IsInvoke() && c.Call.Method.Name() == "Batch" && (typeName(c.Call.Value.Type()) == "Plan" || typeName(c.Call.Value.Type()) == "FinalPlan") {
				hasFetch = true
				fetchIface = typeName(c.Call.Value.Type())
			}
		})
		if !hasFetch {
			continue
		}
		nCons++
		loops := naturalLoops(fn)
		for _, b := range fn.Blocks {
			for si := range b.Succs {
				a, ok := edgeAtom(b, si)
				if !ok {
					continue
				}
				x, y, op := a.X, a.Y, a.Op
				if lenOfRows(y) && isBatchSize(x) {
					x, y, op = y, x, swapOp(op)
				}
				if !(lenOfRows(x) && isBatchSize(y)) || (op != token.LSS && op != token.LEQ && op != token.NEQ) {
					continue
				}
				// does this edge end the consumption (leave the loop that fetches, or return)?
				s := b.Succs[si]
				ends := retOf(s) != nil
				for _, L := range loops {
					if L.Body[b] && !L.Body[s] {
						ends = true
					}
				}
				if ends {
					shortIfaces[fetchIface] = true
					shortConsumers = append(shortConsumers, fmt.Sprintf("%s (%s)", p.FName(fn), p.InstrPos(b.Instrs[len(b.Instrs)-1])))
				}
			}
		}
	}
	r.note("batch_consumers", nCons)
	r.note("consumers_stopping_on_a_short_batch", shortConsumers)
	if nCons < 4 {
		r.undecided("floor: batch consumers = %d, need >= 4", nCons)
	}
	if len(shortConsumers) == 0 {
		r.ok("consumers", "", "no consumer treats a short batch as the end of the stream (only an empty batch ends it): producers may return short batches, but never an empty one before they are exhausted")
	}
	// (P) producers: a short batch only when exhausted
	// producers examined: the pair-level plans always (an empty batch ends every consumer), the row-level plans
	// only when one of their consumers stops on short batches
	producers := append([]*types.Named{}, plans...)
	if shortIfaces["FinalPlan"] {
		producers = append(producers, finals...)
	}
	isPlanLevel := map[*types.Named]bool{}
	for _, t := range plans {
		isPlanLevel[t] = true
	}
	_ = all
	for _, t := range producers {
		fn := p.Method(t, "Batch")
		if fn == nil || len(fn.Blocks) == 0 {
			continue
		}
		key := "producer|" + p.FName(fn)
		var rets []*ssa.Return
		for _, b := range fn.Blocks {
			ret := retOf(b)
			if ret == nil || len(ret.Results) < 2 || isNilConst(retVal(ret, 0)) || !isNilConst(retVal(ret, 1)) {
				continue
			}
			rets = append(rets, ret)
		}
		if len(rets) == 0 {
			r.ok(key, p.Pos(fn.Pos()), "returns no rows")
			continue
		}
		// appends into the returned rows
		appBlocks := map[*ssa.BasicBlock]bool{}
		var apps []*ssa.Call
		for _, ret := range rets {
			for _, c := range appendsInto(retVal(ret, 0)) {
				appBlocks[c.Block()] = true
				apps = append(apps, c)
			}
		}
		recv := ssa.Value(fn.Params[0])
		isPlanField := func(v ssa.Value) bool {
			_, _, base, ok := loadedField(v)
			return ok && base == recv
		}
		isRowCounter := func(v ssa.Value) bool {
			if c, ok := v.(*ssa.Call); ok {
				if b, isB := c.Call.Value.(*ssa.Builtin); isB && b.Name() == "len" {
					for _, ret := range rets {
						if sliceRootsOverlap(c.Call.Args[0], retVal(ret, 0)) {
							return true
						}
					}
				}
			}
			found := false
			backward(v, func(x ssa.Value) bool {
				if bo, ok := x.(*ssa.BinOp); ok && bo.Op == token.ADD {
					if k, isC := constInt(bo.Y); isC && k == 1 && appBlocks[bo.Block()] {
						found = true
					}
				}
				_, isPhi := x.(*ssa.Phi)
				_, isBin := x.(*ssa.BinOp)
				return isPhi || isBin
			})
			return found
		}
		var allowedEdge func(b *ssa.BasicBlock, si int, depth int) bool
		nonEmptyEdge := func(b *ssa.BasicBlock, si int) bool {
			// the batch is known to hold rows: rowCounter > 0 (or >= 1, != 0)
			a, ok := edgeAtom(b, si)
			if !ok {
				return false
			}
			k, isC := constInt(a.Y)
			if !isC {
				return false
			}
			pos := (a.Op == token.GTR && k == 0) || (a.Op == token.GEQ && k == 1) || (a.Op == token.NEQ && k == 0)
			if isRowCounter(a.X) {
				return pos
			}
			// a pass-through plan (no filter of its own): the child's batch holds rows, and rows are only withheld
			// once the limit is reached
			if pos && lenOfRows(a.X) {
				filters := false
				allInstrs(fn, func(in ssa.Instruction) {
					if c, ok := in.(*ssa.Call); ok {
						if g := c.Call.StaticCallee(); g != nil && (g.Name() == "FilterBatch" || g.Name() == "Filter") {
							filters = true
						}
					}
				})
				return !filters
			}
			return false
		}
		emptyMode := false // while deciding the no-early-empty clause, "the batch holds rows" justifies as well
		var justifiedBlock func(b *ssa.BasicBlock, depth int) bool
		justifiedBlock = func(b *ssa.BasicBlock, depth int) bool {
			// b is dominated by an allowed edge ...
			for _, x := range b.Parent().Blocks {
				for si := range x.Succs {
					if edgeDominates(x, si, b) && (allowedEdge(x, si, depth+1) || (emptyMode && nonEmptyEdge(x, si))) {
						return true
					}
				}
			}
			// ... or every way into b is an allowed edge or comes from such a block (`a || (b && c)` merges)
			if depth > 2 || len(b.Preds) == 0 {
				return false
			}
			for _, pr := range b.Preds {
				okPred := false
				for si, sc := range pr.Succs {
					if sc == b && (allowedEdge(pr, si, depth+1) || (emptyMode && nonEmptyEdge(pr, si))) {
						okPred = true
					}
				}
				if !okPred && !justifiedBlock(pr, depth+1) {
					return false
				}
			}
			return true
		}
		allowedEdge = func(b *ssa.BasicBlock, si int, depth int) bool {
			if depth > 3 {
				return false
			}
			a, ok := edgeAtom(b, si)
			if !ok {
				return false
			}
			x, y, op := a.X, a.Y, a.Op
			// END: fetched key / value nil, child batch empty, region test
			if isNilConst(y) && op == token.EQL {
				if ex, ok := x.(*ssa.Extract); ok {
					if c, ok := ex.Tuple.(*ssa.Call); ok && p.storage().siteOf(c) != nil {
						return true
					}
				}
			}
			if k, isC := constInt(y); isC && k == 0 && op == token.EQL && lenOfRows(x) {
				return true
			}
			if c, ok := x.(*ssa.Call); ok {
				switch p.calleeName(&c.Call) {
				case "bytes.Compare", "bytes.HasPrefix":
					return true
				}
			}
			// FULL: row counter >= PlanBatchSize
			if isBatchSize(x) && !isBatchSize(y) {
				x, y, op = y, x, swapOp(op)
			}
			if isBatchSize(y) && (op == token.GEQ || op == token.GTR) && isRowCounter(x) {
				if yl, ok := y.(*ssa.UnOp); ok {
					if _, isG := yl.X.(*ssa.Global); isG {
						return true
					}
				}
			}
			// END / LIMIT on the plan's own position fields: idx >= numKeys, current >= Count
			if (op == token.GEQ || op == token.GTR) && isPlanField(x) && isPlanField(y) {
				return true
			}
			// flags: a Boolean that is true only where an allowed test held
			if bv, isB := constBool(y); isB && ((op == token.EQL) == bv) {
				switch f := x.(type) {
				case *ssa.Phi:
					okAll, any := true, false
					seen := map[*ssa.Phi]bool{}
					var rec func(ph *ssa.Phi)
					rec = func(ph *ssa.Phi) {
						if seen[ph] {
							return
						}
						seen[ph] = true
						for i, e := range ph.Edges {
							if cv, isC := constBool(e); isC {
								if cv {
									any = true
									if !justifiedBlock(ph.Block().Preds[i], depth) {
										okAll = false
									}
								}
								continue
							}
							if p2, ok := e.(*ssa.Phi); ok {
								rec(p2)
								continue
							}
							okAll = false
						}
					}
					rec(f)
					return okAll && any
				case *ssa.UnOp:
					if _, fl, base, ok := loadedField(f); ok && base == recv {
						okAll, any := true, false
						for _, hf := range p.staticClosure(fn, 2, nil) {
							if hf.Signature.Recv() == nil || namedOf(hf.Signature.Recv().Type()) != t {
								continue
							}
							hrecv := ssa.Value(hf.Params[0])
							allInstrs(hf, func(in ssa.Instruction) {
								if st, ok := in.(*ssa.Store); ok {
									if _, f2, b2, ok := fieldOfAddr(st.Addr); ok && f2 == fl && b2 == hrecv {
										if cv, isC := constBool(st.Val); isC && cv {
											any = true
											if !justifiedBlock(st.Block(), depth) {
												okAll = false
											}
										} else if !isC {
											okAll = false
										}
									}
								}
							})
						}
						if false {
							allInstrs(fn, func(in ssa.Instruction) {
								if st, ok := in.(*ssa.Store); ok {
									if _, f2, b2, ok := fieldOfAddr(st.Addr); ok && f2 == fl && b2 == recv {
										if cv, isC := constBool(st.Val); isC && cv {
											any = true
											if !justifiedBlock(st.Block(), depth) {
												okAll = false
											}
										} else if !isC {
											okAll = false
										}
									}
								}
							})
						}
						return okAll && any
					}
				}
			}
			return false
		}
		// (always, pair-level plans) no empty batch before exhaustion: every path from the entry to a successful
		// return of rows crosses an allowed test
		if isPlanLevel[t] {
			seenE := map[*ssa.BasicBlock]bool{}
			var walkE func(b *ssa.BasicBlock) *ssa.Return
			walkE = func(b *ssa.BasicBlock) *ssa.Return {
				if seenE[b] {
					return nil
				}
				seenE[b] = true
				for _, ret := range rets {
					if ret.Block() == b {
						return ret
					}
				}
				for si, s2 := range b.Succs {
					if allowedEdge(b, si, 0) || nonEmptyEdge(b, si) {
						continue
					}
					if rt := walkE(s2); rt != nil {
						return rt
					}
				}
				return nil
			}
			emptyMode = true
			rt := walkE(fn.Blocks[0])
			emptyMode = false
			r.add(rt == nil, key+"|no-early-empty", p.Pos(fn.Pos()), map[bool]string{true: "every successful return follows a test that the batch is full or that the stream, region or limit ended", false: "a batch can be returned (at " + func() string {
				if rt != nil {
					return p.InstrPos(rt)
				}
				return ""
			}() + ") without the batch being full and without the stream, region or limit having ended: it may be empty although rows remain, and every consumer takes an empty batch for the end"}[rt == nil])
		}
		if len(shortConsumers) == 0 || !(shortIfaces["Plan"] && isPlanLevel[t] || shortIfaces["FinalPlan"] && !isPlanLevel[t]) {
			continue
		}
		// search: from an append block to a successful return without crossing an allowed edge
		bad := ""
		for _, ap := range apps {
			seen := map[*ssa.BasicBlock]bool{}
			var walk func(b *ssa.BasicBlock) bool
			walk = func(b *ssa.BasicBlock) bool {
				if seen[b] {
					return false
				}
				seen[b] = true
				for _, ret := range rets {
					if ret.Block() == b {
						return true
					}
				}
				for si, s := range b.Succs {
					if allowedEdge(b, si, 0) {
						continue
					}
					if walk(s) {
						return true
					}
				}
				return false
			}
			if walk(ap.Block()) {
				bad = fmt.Sprintf("rows appended at %s can be returned without the batch being full and without the stream, region or limit having ended: a short batch that is not the last one, which %v take for the end", p.InstrPos(ap), shortConsumers)
				break
			}
		}
		r.add(bad == "", key, p.Pos(fn.Pos()), firstNonEmpty(bad, "a short batch is returned only when exhausted"))
	}
}

func sliceRootsOverlap(a, b ssa.Value) bool {
	ra, rb := sliceRoots(a), sliceRoots(b)
	for x := range ra {
		if rb[x] {
			return true
		}
	}
	return false
}

// ---------------- FOLDRET ----------------

func init() {
	register("FOLDRET", "the `is a constant` flag of the constant folder means what its consumer takes it for: every function whose Boolean result feeds the operand-is-literal test of tryOptimizeBinaryOpExecute (which then evaluates the operator on an empty pair) returns true only together with a freshly built literal node, and false otherwise - never a computed flag such as `something was rewritten`", ruleFoldRet)
}

func ruleFoldRet(p *Prog, r *Result) {
	root := p.MethodByName("ExpressionOptimizer", "tryOptimizeBinaryOpExecute")
	if root == nil {
		r.undecided("anchor: (*ExpressionOptimizer).tryOptimizeBinaryOpExecute not found")
		return
	}
	// the planning-time evaluation and the Boolean values guarding it
	var exec *ssa.Call
	allInstrs(root, func(in ssa.Instruction) {
		if c, ok := in.(*ssa.Call); ok {
			if g := c.Call.StaticCallee(); g != nil && g.Name() == "Execute" {
				exec = c
			}
		}
	})
	if exec == nil {
		r.undecided("anchor: planning-time Execute not found in tryOptimizeBinaryOpExecute")
		return
	}
	producers := map[*ssa.Function]bool{}
	seen := map[ssa.Value]bool{}
	var trace func(v ssa.Value)
	trace = func(v ssa.Value) {
		if v == nil || seen[v] {
			return
		}
		seen[v] = true
		switch x := v.(type) {
		case *ssa.Phi:
			for _, e := range x.Edges {
				trace(e)
			}
		case *ssa.Extract:
			if c, ok := x.Tuple.(*ssa.Call); ok {
				if g := c.Call.StaticCallee(); g != nil && p.InPkg(g) {
					producers[g] = true
				}
			}
		}
	}
	for _, a := range dominatingAtoms(exec.Block()) {
		if bv, isB := constBool(a.Y); isB && ((a.Op == token.EQL) == bv) {
			trace(a.X)
		}
	}
	if len(producers) == 0 {
		r.hit("producers", p.Pos(root.Pos()), "the operand-is-literal flags guarding the planning-time evaluation do not come from callee results")
		return
	}
	var ps []*ssa.Function
	for g := range producers {
		ps = append(ps, g)
	}
	sort.Slice(ps, func(i, j int) bool { return p.FName(ps[i]) < p.FName(ps[j]) })
	n := 0
	for _, g := range ps {
		idx := 0
		for _, b := range g.Blocks {
			ret := retOf(b)
			if ret == nil || len(ret.Results) != 2 {
				continue
			}
			n++
			idx++
			key := fmt.Sprintf("%s|return#%d", p.FName(g), idx)
			flag := retVal(ret, 1)
			bv, isC := constBool(flag)
			switch {
			case !isC:
				r.hit(key, p.InstrPos(ret), "the flag returned here is computed, not the constant true/false: its consumer reads true as `the returned node is a literal` and evaluates the enclosing operator on an empty pair")
			case bv:
				fresh := p.freshLiteralNode(retVal(ret, 0), 0)
				if c, isCall := stripConv(retVal(ret, 0)).(*ssa.Call); isCall && fresh {
					// a helper that answers nil for `no literal`: true only behind the test that it did not
					mayNil := false
					if h := c.Call.StaticCallee(); h != nil {
						for _, hb := range h.Blocks {
							if hr := retOf(hb); hr != nil && isNilConst(retVal(hr, 0)) {
								mayNil = true
							}
						}
					}
					if mayNil {
						tested := false
						for _, a := range dominatingAtoms(ret.Block()) {
							if a.X == ssa.Value(c) && isNilConst(a.Y) && a.Op == token.NEQ {
								tested = true
							}
						}
						fresh = tested
					}
				}
				r.add(fresh, key, p.InstrPos(ret), "true is returned together with a freshly built literal node")
			default:
				r.ok(key, p.InstrPos(ret), "not a literal: false")
			}
		}
	}
	r.floor("returns of the folder's flag producers", n, 8)
}

// ---------------- ERRPURE / INITFRESH ----------------

func init() {
	register("ERRPURE", "rendering an error is a pure function of its current fields: the Error methods of the library's positional error types (and what they call) store nothing into the error value, so binding the query text or changing the padding after a first rendering is reflected by the next one", ruleErrPure)
	register("INITFRESH", "Init of every cursor plan positions a fresh cursor: the Storage.Cursor call dominates every successful return of Init (a cursor kept from an earlier Init stands wherever the previous execution left it; a range without a lower bound is never re-positioned)", ruleInitFresh)
}

func ruleErrPure(p *Prog, r *Result) {
	n := 0
	for _, tn := range []string{"SyntaxError", "ExecuteError"} {
		t := p.Named(tn)
		if t == nil {
			r.undecided("anchor: %s not found", tn)
			continue
		}
		fn := p.Method(t, "Error")
		if fn == nil {
			r.undecided("anchor: (%s).Error not found", tn)
			continue
		}
		n++
		bad := ""
		for _, f := range p.staticClosure(fn, 3, nil) {
			allInstrs(f, func(in ssa.Instruction) {
				if st, ok := in.(*ssa.Store); ok {
					if o, fl, base, ok := fieldOfAddr(st.Addr); ok && o == t {
						if _, fresh := base.(*ssa.Alloc); !fresh {
							bad = fmt.Sprintf("%s stores into field %s at %s while rendering: a later BindQuery or SetPadding is not seen by the next Error()", p.FName(f), fl, p.InstrPos(st))
						}
					}
				}
			})
		}
		r.add(bad == "", tn+".Error", p.Pos(fn.Pos()), firstNonEmpty(bad, "rendering stores nothing into the error value"))
	}
	r.floor("positional error types", n, 2)
}

func ruleInitFresh(p *Prog, r *Result) {
	plans, _, _ := p.planTypes()
	n := 0
	for _, t := range plans {
		cl := p.planClass(t)
		if cl != "range" && cl != "prefix" && cl != "full" {
			continue
		}
		fn := p.Method(t, "Init")
		if fn == nil {
			continue
		}
		var cur ssa.Instruction
		for _, s := range p.storage().ByFn[fn] {
			if s.Method == "Storage.Cursor" {
				cur = s.Instr
			}
		}
		n++
		key := t.Obj().Name() + ".Init"
		if cur == nil {
			r.hit(key, p.Pos(fn.Pos()), "Init does not create a cursor")
			continue
		}
		bad := ""
		for _, b := range fn.Blocks {
			ret := retOf(b)
			if ret == nil || len(ret.Results) == 0 {
				continue
			}
			// successful return: the error result can be nil
			ev := retVal(ret, len(ret.Results)-1)
			if !isNilConst(ev) {
				// an error value from Cursor/Seek: fine either way, but the cursor call must still precede it
				if !instrDominates(cur, ret) {
					bad = "a return at " + p.InstrPos(ret) + " is reached without creating a cursor"
				}
				continue
			}
			if !instrDominates(cur, ret) {
				bad = "Init can succeed (" + p.InstrPos(ret) + ") without creating a new cursor: the plan keeps the cursor of an earlier Init wherever the previous execution left it"
			}
		}
		r.add(bad == "", key, p.InstrPos(cur), firstNonEmpty(bad, "every return of Init follows the creation of a new cursor"))
		// ... and positions it: a cursor need not stand anywhere before its first Seek (the library's own example
		// storage answers `no more pairs` until then), so no return that can report success is reachable from the
		// creation of the cursor without passing a Seek on it
		seekBlocks := map[*ssa.BasicBlock]bool{}
		for _, sx := range p.storage().ByFn[fn] {
			if sx.Method == "Cursor.Seek" {
				seekBlocks[sx.Instr.Block()] = true
			}
		}
		unpos := ""
		if !seekBlocks[cur.Block()] {
			seen := map[*ssa.BasicBlock]bool{}
			var walk func(b *ssa.BasicBlock)
			walk = func(b *ssa.BasicBlock) {
				if seen[b] || (seekBlocks[b] && b != cur.Block()) {
					return
				}
				seen[b] = true
				if ret := retOf(b); ret != nil && len(ret.Results) > 0 {
					ev := retVal(ret, len(ret.Results)-1)
					nonNil := false
					for _, a := range dominatingAtoms(b) {
						if a.Op == token.NEQ && a.X == ev && isNilConst(a.Y) {
							nonNil = true
						}
					}
					if !nonNil {
						unpos = p.InstrPos(ret)
					}
				}
				for _, sc := range b.Succs {
					walk(sc)
				}
			}
			walk(cur.Block())
		}
		// ... at the start of its region: in a range plan a Seek to anything but the plan's Start is made only where
		// the range has no start (a second Seek behind Seek(Start) moves the cursor out of the region again)
		if cl == "range" {
			var derivesStart func(v ssa.Value, d int) bool
			derivesStart = func(v ssa.Value, d int) bool {
				if d > 5 {
					return false
				}
				if _, f, _, ok := loadedField(stripConv(v)); ok && f == "Start" {
					return true
				}
				if ph, ok := v.(*ssa.Phi); ok {
					for _, e := range ph.Edges {
						if derivesStart(e, d+1) {
							return true
						}
					}
				}
				return false
			}
			elsewhere := ""
			for _, sx := range p.storage().ByFn[fn] {
				if sx.Method != "Cursor.Seek" {
					continue
				}
				c, ok := sx.Instr.(ssa.CallInstruction)
				if !ok || len(c.Common().Args) == 0 || derivesStart(c.Common().Args[0], 0) {
					continue
				}
				noStart := false
				for _, a := range dominatingAtoms(sx.Instr.Block()) {
					if _, f, _, ok := loadedField(a.X); ok && f == "Start" && a.Op == token.EQL && isNilConst(a.Y) {
						noStart = true
					}
				}
				if !noStart {
					elsewhere = p.InstrPos(sx.Instr)
				}
			}
			r.add(elsewhere == "", key+"|at-start", p.InstrPos(cur), firstNonEmpty(map[bool]string{true: "the Seek at " + elsewhere + " goes somewhere else than the range's Start although the range may have one"}[elsewhere != ""], "every Seek goes to the range's Start, or to the first key where the range has no start"))
		}
		r.add(unpos == "", key+"|positioned", p.InstrPos(cur), firstNonEmpty(map[bool]string{true: "Init can report success at " + unpos + " without having positioned the new cursor with Seek: what an unpositioned cursor returns is up to the storage"}[unpos != ""], "every successful return of Init lies behind a Seek on the new cursor"))
	}
	r.floor("cursor plans", n, 3)
}

// ---------------- LIMITGUARD ----------------

func init() {
	register("LIMITGUARD", "typestate of the limit counter in the three limit consumers (FinalLimitPlan, LimitPlan, AggregatePlan): a row is emitted (appended to the returned batch, or returned by Next), and in row mode the row to be emitted is fetched, only in the state `the emitted-rows counter was tested against the limit and found smaller, and has not been incremented since` (or under `no limit`); the counter tested is one that is incremented only where a row is emitted (not the position counter that also counts skipped rows)", ruleLimitGuard)
}

func ruleLimitGuard(p *Prog, r *Result) {
	n := 0
	for _, tn := range []string{"FinalLimitPlan", "LimitPlan", "AggregatePlan"} {
		t := p.Named(tn)
		if t == nil {
			r.undecided("anchor: %s not found", tn)
			continue
		}
		limitField := map[string]bool{"Count": true, "Limit": true}
		for _, mn := range []string{"Next", "Batch"} {
			fn := p.Method(t, mn)
			if fn == nil || len(fn.Blocks) == 0 {
				continue
			}
			recv := ssa.Value(fn.Params[0])
			fieldOfLoad := func(v ssa.Value) string {
				if _, f, base, ok := loadedField(v); ok && base == recv {
					return f
				}
				return ""
			}
			// the counter: the field compared with the limit field
			counter := ""
			type edgeKey struct {
				b  *ssa.BasicBlock
				si int
			}
			pass := map[edgeKey]bool{}
			for _, b := range fn.Blocks {
				for si := range b.Succs {
					a, ok := edgeAtom(b, si)
					if !ok {
						continue
					}
					x, y, op := a.X, a.Y, a.Op
					if limitField[fieldOfLoad(x)] && !limitField[fieldOfLoad(y)] {
						x, y, op = y, x, swapOp(op)
					}
					if limitField[fieldOfLoad(y)] && fieldOfLoad(x) != "" && (op == token.LSS) {
						counter = firstNonEmpty(counter, fieldOfLoad(x))
						if fieldOfLoad(x) == counter {
							pass[edgeKey{b, si}] = true
						}
					}
					// no limit at all: Limit < 0
					if limitField[fieldOfLoad(a.X)] && a.Op == token.LSS {
						if k, isC := constInt(a.Y); isC && k == 0 {
							pass[edgeKey{b, si}] = true
						}
					}
				}
			}
			key := tn + "." + mn
			if counter == "" {
				n++
				r.hit(key+"|test", p.Pos(fn.Pos()), "no comparison of an emitted-rows counter with the limit found")
				continue
			}
			// (b) the counter is incremented only where a row is emitted: all its increments are in this method or its twin,
			// never in a helper that the skip loop uses too
			n++
			badInc := ""
			for _, f2 := range p.staticClosureOfMethods(t) {
				allInstrs(f2, func(in ssa.Instruction) {
					st, ok := in.(*ssa.Store)
					if !ok {
						return
					}
					if o, f, _, ok := fieldOfAddr(st.Addr); ok && o == t && f == counter {
						if k, isC := constInt(st.Val); isC && k == 0 {
							return // reset
						}
						if f2.Name() != "Next" && f2.Name() != "Batch" {
							badInc = fmt.Sprintf("field %s, which is compared with the limit, is also advanced in %s (%s): it counts more than the emitted rows", counter, p.FName(f2), p.InstrPos(st))
						}
					}
				})
			}
			r.add(badInc == "", key+"|counter", p.Pos(fn.Pos()), firstNonEmpty(badInc, "the counter compared with the limit ("+counter+") is advanced only in Next/Batch"))
			// (a) where can control be in the state "counter not tested since the last increment (or since entry)"?
			// Explore forward from the entry and from every increment of the counter, not crossing an edge on which the
			// test passed, tracking the Boolean loop flags (a `finish = true; break` leaves the outer loop).
			incrementsCounter := func(in ssa.Instruction) bool {
				st, ok := in.(*ssa.Store)
				if !ok {
					return false
				}
				o, f, base, ok := fieldOfAddr(st.Addr)
				return ok && o == t && f == counter && base == recv
			}
			blocked := func(from, to *ssa.BasicBlock) bool {
				for si, sc := range from.Succs {
					if sc == to && pass[edgeKey{from, si}] {
						return true
					}
				}
				return false
			}
			untested := map[*ssa.BasicBlock]bool{} // blocks that can be entered untested
			untestedFrom := map[*ssa.BasicBlock]bool{}
			// entry: the whole entry block is untested
			untested[fn.Blocks[0]] = true
			seedEdges := func(b *ssa.BasicBlock) {
				for _, sc := range b.Succs {
					if blocked(b, sc) {
						continue
					}
					for blk := range exploreAfterFailure(fn, b, sc, nil, blocked) {
						untested[blk] = true
					}
				}
			}
			seedEdges(fn.Blocks[0])
			for _, b := range fn.Blocks {
				for _, in := range b.Instrs {
					if incrementsCounter(in) {
						untestedFrom[b] = true
					}
				}
				if untestedFrom[b] {
					seedEdges(b)
				}
			}
			stateAt := func(at ssa.Instruction) bool {
				b := at.Block()
				s := !untested[b]
				for _, in := range b.Instrs {
					if in == at {
						return s
					}
					if incrementsCounter(in) {
						s = false
					}
				}
				return s
			}
			// emissions
			idx := 0
			for _, b := range fn.Blocks {
				ret := retOf(b)
				if ret == nil || len(ret.Results) < 2 || isNilConst(retVal(ret, 0)) || !isNilConst(retVal(ret, 1)) {
					continue
				}
				if mn == "Next" {
					// the fetch of that row (the increment between fetch and return belongs to the emission)
					backward(retVal(ret, 0), func(v ssa.Value) bool {
						if c, ok := v.(*ssa.Call); ok {
							n++
							idx++
							r.add(stateAt(c), fmt.Sprintf("%s|fetch#%d", key, idx), p.InstrPos(c), "the row to be returned is fetched only after the emitted-rows counter was found below the limit (a full window must not pull, and evaluate, one more child row)")
							return false
						}
						return true
					})
				} else {
					for _, ap := range appendsInto(retVal(ret, 0)) {
						n++
						idx++
						r.add(stateAt(ap), fmt.Sprintf("%s|emit#%d", key, idx), p.InstrPos(ap), "a row is appended to the batch only after the emitted-rows counter was found below the limit, with no increment in between (`limit s, 0` must emit nothing)")
					}
				}
			}
		}
	}
	r.floor("limit typestate obligations", n, 12)
	// the offset is applied once, and alike in both modes: along Next and along Batch (the method and what it calls
	// on the same plan) the same number of functions read the plan's Start. A skip moved into the shared preparation
	// and left in one of the two twins skips twice there
	for _, tn := range []string{"FinalLimitPlan", "LimitPlan", "AggregatePlan"} {
		t := p.Named(tn)
		if t == nil {
			continue
		}
		readers := func(mn string) []string {
			m := p.Method(t, mn)
			if m == nil {
				return nil
			}
			var out []string
			for _, f := range p.staticClosure(m, 3, func(c *ssa.Function) bool {
				return c.Signature.Recv() == nil || namedOf(deref(c.Signature.Recv().Type())) != t
			}) {
				reads := false
				allInstrs(f, func(in ssa.Instruction) {
					if u, ok := in.(*ssa.UnOp); ok {
						if fa, ok := u.X.(*ssa.FieldAddr); ok {
							if o, fl, _, ok := fieldOfAddr(fa); ok && o != nil && o.Obj().Name() == tn && (fl == "Start" || fl == "Offset") {
								reads = true
							}
						}
					}
				})
				if reads {
					out = append(out, f.Name())
				}
			}
			sort.Strings(out)
			return out
		}
		nx, bt := readers("Next"), readers("Batch")
		if len(nx) == 0 && len(bt) == 0 {
			continue
		}
		r.add(len(nx) == len(bt), tn+"|offset-once", p.Pos(t.Obj().Pos()), fmt.Sprintf("the offset is read by %v along Next and by %v along Batch: the same number of places in both modes", nx, bt))
	}
	// the two numbers of `limit s, n` are the user's: each can be the largest integer (`limit 1, 9223372036854775807`
	// is the only way to say `everything from row s on`), so their sum is never formed - it wraps around to a
	// negative window end. Counters are compared with each of them separately
	userNum := func(v ssa.Value) string {
		if _, f, _, ok := loadedField(stripConv(v)); ok && (f == "Start" || f == "Limit" || f == "Count" || f == "Offset") {
			if bt, isB := v.Type().Underlying().(*types.Basic); isB && bt.Info()&types.IsInteger != 0 {
				return f
			}
		}
		return ""
	}
	sums := 0
	for _, fn := range p.Funcs {
		allInstrs(fn, func(in ssa.Instruction) {
			bo, ok := in.(*ssa.BinOp)
			if !ok || (bo.Op != token.ADD && bo.Op != token.MUL) {
				return
			}
			if a, b := userNum(bo.X), userNum(bo.Y); a != "" && b != "" {
				// guarded: behind a comparison against `<largest integer> - x`
				guarded := false
				for _, at := range dominatingAtoms(in.Block()) {
					for _, side := range []ssa.Value{at.X, at.Y} {
						if sb, ok := side.(*ssa.BinOp); ok && sb.Op == token.SUB {
							if k, ok := constInt(sb.X); ok && k >= 1<<62 {
								guarded = true
							}
						}
					}
				}
				if guarded {
					return
				}
				sums++
				r.hit(fmt.Sprintf("%s|user-sum#%d", p.FName(fn), sums), p.InstrPos(in), fmt.Sprintf("%s and %s are both numbers the user wrote; their sum or product overflows for `limit s, <largest integer>`", a, b))
			}
		})
	}
	r.note("sums_of_two_user_numbers", sums)
}

// freshLiteralNode: v is a literal node allocated here, or the result of a package helper every non-nil return of
// which is one (foldedArithLiteral(left, pos, ret): nil when the language has no literal for the value).
func (p *Prog) freshLiteralNode(v ssa.Value, depth int) bool {
	if depth > 3 {
		return false
	}
	switch x := stripConv(v).(type) {
	case *ssa.Alloc:
		return literalNodeTypes[typeName(x.Type())]
	case *ssa.Call:
		g := x.Call.StaticCallee()
		if g == nil || !p.InPkg(g) || len(g.Blocks) == 0 || g.Signature.Results().Len() != 1 {
			return false
		}
		any := false
		for _, b := range g.Blocks {
			ret := retOf(b)
			if ret == nil {
				continue
			}
			rv := retVal(ret, 0)
			if isNilConst(rv) {
				continue
			}
			// built in the helper by a composite literal that stores the typed value - not handed on to a
			// constructor that reads the value back from its text (newFloatExpr(pos, toString(v)))
			if _, direct := stripConv(rv).(*ssa.Alloc); !direct || !p.freshLiteralNode(rv, depth+1) {
				return false
			}
			any = true
		}
		return any
	}
	return false
}
