package main

import (
	"fmt"
	"go/token"
	"go/types"
	"sort"
	"strings"

	"golang.org/x/tools/go/ssa"
)

func init() {
	register("GLOBALS", "effect analysis: outside the package initializer and the registration API (AddScalarFunction, AddAggrFunction) no function stores to a package-level variable, updates/deletes in a map reachable from one, or stores through a *Function/*AggrFunc registry row it did not allocate itself; a reference (pointer, map, slice, interface) loaded from a package variable in a statement path is only read in place (looked up, indexed, ranged, measured, compared), never passed to a call, used as a receiver, appended to, stored or returned; the library starts no goroutine and declares no sync-less package cache", ruleGlobals)
}

var globalsAllowedWriters = map[string]string{
	"init":              "package initializer (runs once, before any statement)",
	"AddScalarFunction": "registration API, not a statement path (documented: register before use)",
	"AddAggrFunction":   "registration API, not a statement path (documented: register before use)",
}

func ruleGlobals(p *Prog, r *Result) {
	var globals []*ssa.Global
	for _, mem := range p.SPkg.Members {
		if g, ok := mem.(*ssa.Global); ok {
			if g.Name() == "init$guard" {
				continue
			}
			globals = append(globals, g)
		}
	}
	sort.Slice(globals, func(i, j int) bool { return globals[i].Name() < globals[j].Name() })
	var gnames []string
	for _, g := range globals {
		gnames = append(gnames, g.Name()+" "+deref(g.Type()).String())
	}
	r.note("package_variables", gnames)
	r.floor("package-level variables", len(globals), 5)

	isGlobal := func(v ssa.Value) bool {
		g, ok := v.(*ssa.Global)
		return ok && g.Pkg == p.SPkg
	}
	// addrFromGlobal: the written location is a package variable or lives inside an object
	// reached from one by address arithmetic and pointer/map/slice loads (never through the
	// *contents* of a local object).
	addrFromGlobal := func(v ssa.Value) bool {
		seen := map[ssa.Value]bool{}
		for v != nil && !seen[v] {
			seen[v] = true
			if isGlobal(v) {
				return true
			}
			switch x := v.(type) {
			case *ssa.FieldAddr:
				v = x.X
			case *ssa.IndexAddr:
				v = x.X
			case *ssa.UnOp:
				v = x.X
			case *ssa.Lookup:
				v = x.X
			case *ssa.Slice:
				v = x.X
			case *ssa.ChangeType:
				v = x.X
			case *ssa.Extract:
				v = x.Tuple
			case *ssa.TypeAssert:
				v = x.X
			case *ssa.Phi:
				for _, e := range x.Edges {
					if isGlobal(e) {
						return true
					}
				}
				return false
			default:
				return false
			}
		}
		return false
	}
	// registry row types: pointee types of the values of package-level maps
	rowTypes := map[string]bool{}
	for _, g := range globals {
		if mt, ok := deref(g.Type()).Underlying().(*types.Map); ok {
			if _, isPtr := mt.Elem().(*types.Pointer); !isPtr {
				continue
			}
			if n := namedOf(mt.Elem()); n != nil {
				rowTypes[n.Obj().Name()] = true
			}
		}
	}
	r.note("registry_row_types", keysOf(rowTypes))

	allocatedHere := func(v ssa.Value) bool {
		// the object written through was allocated in this function
		_, ok := v.(*ssa.Alloc)
		return ok
	}
	nWrites := 0
	perFn := map[string]int{}
	for _, fn := range p.Funcs {
		root := fn
		for root.Parent() != nil {
			root = root.Parent()
		}
		allowed := ""
		if why, ok := globalsAllowedWriters[p.FName(root)]; ok && root.Signature.Recv() == nil {
			allowed = why
		} else if root.Signature.Recv() == nil && (root.Name() == "init" || strings.HasPrefix(root.Name(), "init#")) {
			allowed = globalsAllowedWriters["init"]
		}
		idx := 0
		report := func(in ssa.Instruction, what string) {
			nWrites++
			idx++
			perFn[p.FName(fn)]++
			key := fmt.Sprintf("%s|%s#%d", p.FName(fn), what, idx)
			if allowed != "" {
				r.ok(key, p.InstrPos(in), "allowed writer: "+allowed)
				return
			}
			r.hit(key, p.InstrPos(in), "statement-path function writes shared package state: "+what)
		}
		allInstrs(fn, func(in ssa.Instruction) {
			switch x := in.(type) {
			case *ssa.Store:
				if addrFromGlobal(x.Addr) {
					report(in, "store to package variable")
					return
				}
				// store through a registry row pointer not allocated here
				if o, f, base, ok := fieldOfAddr(x.Addr); ok && o != nil && rowTypes[o.Obj().Name()] {
					if !allocatedHere(base) {
						report(in, "store to field "+o.Obj().Name()+"."+f+" of a shared registry row")
					}
				}
			case *ssa.MapUpdate:
				if addrFromGlobal(x.Map) {
					report(in, "map update on package-level map")
				}
			case ssa.CallInstruction:
				if b, ok := x.Common().Value.(*ssa.Builtin); ok && (b.Name() == "delete" || b.Name() == "clear") && len(x.Common().Args) > 0 {
					if addrFromGlobal(x.Common().Args[0]) {
						report(in, b.Name()+" on package-level map")
					}
					return
				}
				// the address of a package variable (or of a part of it) handed to a call or used as a
				// method receiver: the callee may write shared state (sync.Map.Store, mutex, Reset, ...)
				for _, a := range x.Common().Args {
					if _, isPtr := a.Type().Underlying().(*types.Pointer); !isPtr {
						continue
					}
					isAddr := false
					switch y := a.(type) {
					case *ssa.Global:
						isAddr = y.Pkg == p.SPkg
					case *ssa.FieldAddr, *ssa.IndexAddr:
						isAddr = addrFromGlobal(y) && !derivesThroughLoad(y)
					}
					if isAddr {
						report(in, "address of a package variable passed to "+callDesc(p, x))
					}
				}
			}
		})
	}
	// escape clause: a reference (pointer, map, slice, interface, func, chan) loaded from a package
	// variable in a statement path is only read in place: looked up, indexed, ranged, measured,
	// compared, or - for registry rows - dereferenced for field reads and calls of its function
	// fields. It is never passed to a call, used as a receiver, re-sliced and appended to, stored,
	// or returned: whoever receives it could write shared state that two statements see.
	isRef := func(t types.Type) bool {
		switch t.Underlying().(type) {
		case *types.Pointer, *types.Map, *types.Slice, *types.Interface, *types.Signature, *types.Chan:
			return true
		}
		return false
	}
	nLoads := 0
	for _, fn := range p.Funcs {
		root := fn
		for root.Parent() != nil {
			root = root.Parent()
		}
		if _, ok := globalsAllowedWriters[p.FName(root)]; ok && root.Signature.Recv() == nil {
			continue
		}
		if root.Signature.Recv() == nil && (root.Name() == "init" || strings.HasPrefix(root.Name(), "init#")) {
			continue
		}
		idx := 0
		allInstrs(fn, func(in ssa.Instruction) {
			ld, ok := in.(*ssa.UnOp)
			if !ok || ld.Op != token.MUL || !isGlobal(ld.X) {
				return
			}
			if !isRef(ld.Type()) {
				// a struct (or array) value holding references: copying it shares whatever its fields point to
				if containsRef(ld.Type(), 0) {
					nLoads++
					idx++
					g := ld.X.(*ssa.Global)
					key := fmt.Sprintf("%s|load of %s#%d", p.FName(fn), g.Name(), idx)
					bad := ""
					for _, u := range *ld.Referrers() {
						switch x := u.(type) {
						case *ssa.Field:
							if isRef(x.Type()) || containsRef(x.Type(), 0) {
								bad = fmt.Sprintf("a reference held in package variable %s is taken out at %s", g.Name(), p.InstrPos(x))
							}
						case *ssa.DebugRef:
						default:
							bad = fmt.Sprintf("package variable %s (a struct holding maps, slices or pointers) is copied at %s: the copy shares them with every other copy", g.Name(), p.InstrPos(u))
						}
					}
					r.add(bad == "", key, p.InstrPos(ld), firstNonEmpty(bad, "only scalar fields of the loaded value are used"))
				}
				return
			}
			nLoads++
			idx++
			g := ld.X.(*ssa.Global)
			key := fmt.Sprintf("%s|load of %s#%d", p.FName(fn), g.Name(), idx)
			bad := ""
			seen := map[ssa.Value]bool{}
			var walk func(v ssa.Value, row bool)
			walk = func(v ssa.Value, row bool) {
				if seen[v] || bad != "" {
					return
				}
				seen[v] = true
				refs := v.Referrers()
				if refs == nil {
					return
				}
				if n := namedOf(v.Type()); n != nil && rowTypes[n.Obj().Name()] {
					if _, isPtr := v.Type().Underlying().(*types.Pointer); isPtr {
						// a registry row: wherever it travels inside the package, the write clause
						// (no store through a row the function did not allocate) covers it
						return
					}
				}
				for _, u := range *refs {
					switch x := u.(type) {
					case *ssa.Lookup:
						if x.X == v {
							// element of a package-level map: a registry row pointer stays shared
							if isRef(x.Type()) || isTupleWithRef(x.Type()) {
								walk(x, true)
							}
						}
					case *ssa.Extract:
						if isRef(x.Type()) {
							walk(x, row)
						}
					case *ssa.Index, *ssa.Range, *ssa.Next:
						// read in place
					case *ssa.IndexAddr:
						// element address: loads are reads; stores were reported by the write clause
						for _, u2 := range *x.Referrers() {
							if l2, ok := u2.(*ssa.UnOp); ok && isRef(l2.Type()) {
								walk(l2, row)
							}
						}
					case *ssa.FieldAddr:
						for _, u2 := range *x.Referrers() {
							switch y := u2.(type) {
							case *ssa.UnOp:
								// reading a field of a shared row: function-valued fields may be called, other references stay shared
								if _, isFn := y.Type().Underlying().(*types.Signature); isFn {
									for _, u3 := range *y.Referrers() {
										if c, ok := u3.(ssa.CallInstruction); ok && c.Common().Value == ssa.Value(y) {
											continue
										}
										if _, ok := u3.(*ssa.BinOp); ok {
											continue
										}
										bad = fmt.Sprintf("a function value read from shared package state escapes at %s", p.InstrPos(u3))
									}
								} else if isRef(y.Type()) {
									walk(y, row)
								}
							case *ssa.Store:
								// reported by the write clause
							default:
								bad = fmt.Sprintf("the address of a field of shared package state escapes at %s", p.InstrPos(u2))
							}
						}
					case *ssa.BinOp:
						// comparison with nil
					case *ssa.Phi:
						walk(x, row)
					case *ssa.ChangeType:
						walk(x, row)
					case *ssa.MakeInterface, *ssa.ChangeInterface:
						bad = fmt.Sprintf("shared package state is boxed into an interface at %s", p.InstrPos(u))
					case *ssa.Slice:
						walk(x, row)
					case *ssa.UnOp:
						// dereference of a shared pointer: a value copy
					case *ssa.If:
					case *ssa.DebugRef:
					case ssa.CallInstruction:
						c := x.Common()
						if b, isB := c.Value.(*ssa.Builtin); isB && (b.Name() == "len" || b.Name() == "cap") {
							continue
						}
						if b, isB := c.Value.(*ssa.Builtin); isB && (b.Name() == "delete" || b.Name() == "clear") {
							continue // reported by the write clause
						}
						bad = fmt.Sprintf("a reference loaded from package variable %s is handed to %s at %s: the callee can write state shared by all statements", g.Name(), callDesc(p, x), p.InstrPos(u))
					case *ssa.Store:
						if x.Val == v {
							bad = fmt.Sprintf("a reference loaded from package variable %s is stored at %s", g.Name(), p.InstrPos(u))
						}
					case *ssa.Return:
						bad = fmt.Sprintf("a reference loaded from package variable %s is returned at %s", g.Name(), p.InstrPos(u))
					case *ssa.MapUpdate:
						if x.Map != v {
							bad = fmt.Sprintf("a reference loaded from package variable %s is stored into a map at %s", g.Name(), p.InstrPos(u))
						}
					case *ssa.TypeAssert:
						walk(x, row)
					default:
						bad = fmt.Sprintf("a reference loaded from package variable %s is used by %T at %s", g.Name(), u, p.InstrPos(u))
					}
				}
			}
			walk(ld, false)
			r.add(bad == "", key, p.InstrPos(ld), firstNonEmpty(bad, "the loaded reference is only read in place"))
		})
	}
	r.note("reference_loads_of_package_variables_in_statement_paths", nLoads)
	r.note("writes_per_function", perFn)
	// every global must have at least its initialising store in init (sanity: the rule sees writes)
	r.floor("writes to package state seen (all in allowed writers)", nWrites, 5)
	// sync primitives / goroutines are covered by NOREFLECT (go statements)
	r.ok("summary", "", fmt.Sprintf("%d package variables; %d writes, all inside %v", len(globals), nWrites, keysOfS(globalsAllowedWriters)))
}

func keysOfS(m map[string]string) []string {
	var ks []string
	for k := range m {
		ks = append(ks, k)
	}
	sort.Strings(ks)
	return ks
}

// derivesThroughLoad: the address chain passes through a pointer load (then it addresses an object
// the global merely points to, handled by the row-type clause), not the global's own storage.
func derivesThroughLoad(v ssa.Value) bool {
	for {
		switch x := v.(type) {
		case *ssa.FieldAddr:
			v = x.X
		case *ssa.IndexAddr:
			v = x.X
		case *ssa.UnOp:
			return true
		case *ssa.Lookup:
			return true
		default:
			return false
		}
	}
}

func isTupleWithRef(t types.Type) bool {
	tup, ok := t.(*types.Tuple)
	if !ok {
		return false
	}
	for i := 0; i < tup.Len(); i++ {
		switch tup.At(i).Type().Underlying().(type) {
		case *types.Pointer, *types.Map, *types.Slice, *types.Interface, *types.Signature, *types.Chan:
			return true
		}
	}
	return false
}

// containsRef: a struct / array type with a field (recursively) of pointer, map, slice, interface, func or chan type.
func containsRef(t types.Type, depth int) bool {
	if depth > 4 {
		return false
	}
	switch u := t.Underlying().(type) {
	case *types.Struct:
		for i := 0; i < u.NumFields(); i++ {
			ft := u.Field(i).Type()
			switch ft.Underlying().(type) {
			case *types.Pointer, *types.Map, *types.Slice, *types.Interface, *types.Signature, *types.Chan:
				return true
			}
			if containsRef(ft, depth+1) {
				return true
			}
		}
	case *types.Array:
		switch u.Elem().Underlying().(type) {
		case *types.Pointer, *types.Map, *types.Slice, *types.Interface, *types.Signature, *types.Chan:
			return true
		}
		return containsRef(u.Elem(), depth+1)
	}
	return false
}
