package main

import (
	"fmt"
	"go/token"
	"go/types"

	"golang.org/x/tools/go/ssa"
)

func init() {
	register("EXECONCE", "every writer plan (a plan type holding mutating storage calls) performs its writes in Next/Batch only under `executed == false`, sets executed = true on every path after starting them (error path included), and nothing but Init ever resets the flag", ruleExecOnce)
	register("WRITEONCE", "PUT and REMOVE issue one storage write per statement: no mutating call sits in a loop and no path leads from one mutating call to another; every user expression is evaluated before the write (no evaluation is reachable after a mutating call), so an evaluation error leaves the store untouched", ruleWriteOnce)
	register("PUTKEYFLOW", "PUT evaluates each value expression on a pair whose Key field holds that pair's evaluated key; the slice handed to BatchPut is filled position by position in statement order and is passed to nothing but the storage write (no sorting, no reordering)", rulePutKeyFlow)
	register("DELKEYS", "DELETE removes exactly the keys of the rows its child returned in the same iteration: every element of the slice passed to BatchDelete is the Key of the fetched row with the same index, the slice has the batch's length", ruleDelKeys)
	register("RMGUARD", "DELETE is converted to direct key removal only when the statement has no LIMIT and the guard function approves; the guard's tree walk continues below every node except AND nodes and disapproves whenever it has seen an AND (`&` or `and`)", ruleRmGuard)
	register("LIMITWRAP", "when DELETE has a LIMIT, the delete node's child is a LimitPlan wrapping the scan (Start/Count from the clause), installed before the plan is initialised", ruleLimitWrap)
}

// writerTypes: FinalPlan implementors holding mutating sites, with the functions holding them.
func (p *Prog) writerTypes() map[*types.Named][]*storSite {
	m := p.storage()
	out := map[*types.Named][]*storSite{}
	for _, s := range m.Sites {
		if !s.Mut {
			continue
		}
		fn := s.Fn
		for fn.Parent() != nil {
			fn = fn.Parent()
		}
		if fn.Signature.Recv() == nil {
			continue
		}
		if n := namedOf(fn.Signature.Recv().Type()); n != nil {
			out[n] = append(out[n], s)
		}
	}
	return out
}

// reachesMutation: functions of the package that may (transitively, selected call graph) reach a mutating site.
func (p *Prog) mutReaching() map[*ssa.Function]bool {
	m := p.storage()
	out := map[*ssa.Function]bool{}
	var work []*ssa.Function
	for _, s := range m.Sites {
		if s.Mut && !out[s.Fn] {
			out[s.Fn] = true
			work = append(work, s.Fn)
		}
	}
	g := p.CG()
	for len(work) > 0 {
		f := work[len(work)-1]
		work = work[:len(work)-1]
		if n := g.Nodes[f]; n != nil {
			for _, e := range n.In {
				if !out[e.Caller.Func] {
					out[e.Caller.Func] = true
					work = append(work, e.Caller.Func)
				}
			}
		}
	}
	return out
}

func ruleExecOnce(p *Prog, r *Result) {
	wt := p.writerTypes()
	r.floor("writer plan types", len(wt), 3)
	mr := p.mutReaching()
	for t := range wt {
		tn := t.Obj().Name()
		// flag field: bool field stored `true` in Next/Batch
		flag := ""
		for _, mn := range []string{"Next", "Batch"} {
			if fn := p.Method(t, mn); fn != nil {
				allInstrs(fn, func(in ssa.Instruction) {
					if st, ok := in.(*ssa.Store); ok {
						if o, f, _, ok := fieldOfAddr(st.Addr); ok && o == t {
							if bv, isB := constBool(st.Val); isB && bv {
								flag = f
							}
						}
					}
				})
			}
		}
		if flag == "" {
			r.hit(tn+"|flag", p.Pos(t.Obj().Pos()), "writer plan has no `executed` flag set in Next/Batch: every poll would write again")
			continue
		}
		for _, mn := range []string{"Next", "Batch"} {
			fn := p.Method(t, mn)
			if fn == nil {
				continue
			}
			key := fmt.Sprintf("%s.%s", tn, mn)
			var wcalls []*ssa.Call
			allInstrs(fn, func(in ssa.Instruction) {
				if c, ok := in.(*ssa.Call); ok {
					if p.storage().siteOf(c) != nil && p.storage().siteOf(c).Mut {
						wcalls = append(wcalls, c)
						return
					}
					for _, f := range p.Callees(c) {
						if mr[f] {
							wcalls = append(wcalls, c)
							return
						}
					}
				}
			})
			if len(wcalls) == 0 {
				r.hit(key+"|write-call", p.Pos(fn.Pos()), "no call reaching the mutating sites")
				continue
			}
			for i, c := range wcalls {
				k := fmt.Sprintf("%s|write#%d", key, i+1)
				guarded := false
				for _, a := range dominatingAtoms(c.Block()) {
					if isFieldLoad(a.X, tn, flag) {
						if bv, isB := constBool(a.Y); isB && ((a.Op == token.NEQ && bv) || (a.Op == token.EQL && !bv)) {
							guarded = true
						}
					}
				}
				r.add(guarded, k+"|guard", p.InstrPos(c), "the write is performed only under "+flag+" == false")
				// flag set on every path from the call to a return
				setOK := true
				var why string
				var sets []*ssa.Store
				allInstrs(fn, func(in ssa.Instruction) {
					if st, ok := in.(*ssa.Store); ok {
						if o, f, _, ok := fieldOfAddr(st.Addr); ok && o == t && f == flag {
							if bv, isB := constBool(st.Val); isB && bv {
								sets = append(sets, st)
							}
						}
					}
				})
				for b := range reachableFrom(c.Block(), nil) {
					ret := retOf(b)
					if ret == nil {
						continue
					}
					ok := false
					for _, st := range sets {
						// the flag is set on the way to this return, after or (under the same guard) before the write
						if instrDominates(st, ret) && (instrDominates(c, st) || st.Block() == c.Block() || sameGuard(st, c, tn, flag)) {
							ok = true
						}
					}
					if !ok {
						setOK = false
						why = "return at " + p.InstrPos(ret) + " is reachable after the write without " + flag + " = true (a failed execution is retried and re-issues its writes on the next poll)"
					}
				}
				r.add(setOK, k+"|set", p.InstrPos(c), "executed flag set on every path after the write "+why)
			}
		}
		// nothing but Init resets
		for _, fn := range p.Funcs {
			allInstrs(fn, func(in ssa.Instruction) {
				st, ok := in.(*ssa.Store)
				if !ok {
					return
				}
				o, f, _, ok := fieldOfAddr(st.Addr)
				if !ok || o != t || f != flag {
					return
				}
				if bv, isB := constBool(st.Val); isB && bv {
					return
				}
				root := fn
				for root.Parent() != nil {
					root = root.Parent()
				}
				isInit := root.Name() == "Init" && root.Signature.Recv() != nil && namedOf(root.Signature.Recv().Type()) == t
				r.add(isInit, fmt.Sprintf("%s|reset|%s", tn, p.FName(fn)), p.InstrPos(st), "only Init may reset the executed flag")
			})
		}
	}
}

// evalReaching: functions that may reach an Execute/ExecuteBatch method of an Expression implementor.
func (p *Prog) evalReaching() map[*ssa.Function]bool {
	out := map[*ssa.Function]bool{}
	var work []*ssa.Function
	for _, t := range p.exprTypes() {
		for _, mn := range []string{"Execute", "ExecuteBatch"} {
			if f := p.Method(t, mn); f != nil && !out[f] {
				out[f] = true
				work = append(work, f)
			}
		}
	}
	g := p.CG()
	for len(work) > 0 {
		f := work[len(work)-1]
		work = work[:len(work)-1]
		if n := g.Nodes[f]; n != nil {
			for _, e := range n.In {
				if !out[e.Caller.Func] {
					out[e.Caller.Func] = true
					work = append(work, e.Caller.Func)
				}
			}
		}
	}
	return out
}

func ruleWriteOnce(p *Prog, r *Result) {
	wt := p.writerTypes()
	ev := p.evalReaching()
	// DeletePlan loops by design (scan-and-delete in batches): exempt from the single-write clauses.
	exempt := map[string]string{"DeletePlan": "deletes batch by batch by design (C11); its writes are checked by DELKEYS"}
	n := 0
	for t, sites := range wt {
		tn := t.Obj().Name()
		if why, ok := exempt[tn]; ok {
			r.Exempt = append(r.Exempt, tn+": "+why)
			continue
		}
		n++
		byFn := map[*ssa.Function][]*storSite{}
		for _, s := range sites {
			byFn[s.Fn] = append(byFn[s.Fn], s)
		}
		for fn, ss := range byFn {
			loops := naturalLoops(fn)
			for _, s := range ss {
				key := fmt.Sprintf("%s|%s", p.FName(fn), s.Method)
				inLoop := false
				for _, L := range loops {
					if L.Body[s.Instr.Block()] {
						inLoop = true
					}
				}
				r.add(!inLoop, key+"|not-in-loop", p.InstrPos(s.Instr), "a mutating call inside a loop issues several writes per statement (a later failure leaves earlier writes applied)")
				// no other mutating site, and no expression evaluation, reachable after this one
				after := reachableAfter(s.Instr)
				bad := ""
				for _, in := range after {
					if in == s.Instr {
						bad = "the same write is reachable again"
						break
					}
					if ci, ok := in.(ssa.CallInstruction); ok {
						if s2 := p.storage().siteOf(ci); s2 != nil && s2.Mut {
							bad = "a second mutating call (" + s2.Method + " at " + p.InstrPos(in) + ") is reachable after this one"
							break
						}
						isEval := false
						if ci.Common().IsInvoke() && typeName(ci.Common().Value.Type()) == "Expression" && (ci.Common().Method.Name() == "Execute" || ci.Common().Method.Name() == "ExecuteBatch") {
							isEval = true
						}
						for _, f := range p.Callees(ci) {
							if ev[f] {
								isEval = true
							}
						}
						if isEval {
							bad = "an expression evaluation (" + callDesc(p, ci) + " at " + p.InstrPos(in) + ") is reachable after the write: not all-or-nothing"
							break
						}
					}
				}
				r.add(bad == "", key+"|single-write-after-eval", p.InstrPos(s.Instr), firstNonEmpty(bad, "nothing but returns follows the write"))
			}
		}
	}
	r.floor("single-write writer types", n, 2)
}

// reachableAfter lists instructions reachable strictly after `in` (same block tail, then successors).
func reachableAfter(in ssa.Instruction) []ssa.Instruction {
	var out []ssa.Instruction
	b := in.Block()
	idx := instrIndex(in)
	out = append(out, b.Instrs[idx+1:]...)
	seen := map[*ssa.BasicBlock]bool{}
	var walk func(x *ssa.BasicBlock)
	walk = func(x *ssa.BasicBlock) {
		if seen[x] {
			return
		}
		seen[x] = true
		if x == b {
			out = append(out, x.Instrs[:idx+1]...)
		} else {
			out = append(out, x.Instrs...)
		}
		for _, s := range x.Succs {
			walk(s)
		}
	}
	for _, s := range b.Succs {
		walk(s)
	}
	return out
}

func rulePutKeyFlow(p *Prog, r *Result) {
	pt := p.Named("PutPlan")
	if pt == nil {
		r.undecided("anchor: PutPlan not found")
		return
	}
	// (1) value evaluated on a pair whose Key is the evaluated key
	found := 0
	for _, fn := range p.methodsOf(pt) {
		allInstrs(fn, func(in ssa.Instruction) {
			c, ok := in.(*ssa.Call)
			if !ok || !c.Call.IsInvoke() || c.Call.Method.Name() != "Execute" {
				return
			}
			if !p.derivesFromField(c.Call.Value, "PutKVPair", "Value", traceOpts{ThroughArgs: true}) {
				return
			}
			found++
			key := p.FName(fn) + "|value-eval"
			kv := c.Call.Args[0]
			ld, isLd := kv.(*ssa.UnOp)
			var al *ssa.Alloc
			if isLd {
				al, _ = ld.X.(*ssa.Alloc)
			}
			if al == nil {
				r.hit(key, p.InstrPos(c), "the pair given to the value expression is not a local pair whose Key could have been set")
				return
			}
			ok2 := false
			sameKey := true
			for _, ref := range *al.Referrers() {
				fa, isFA := ref.(*ssa.FieldAddr)
				if !isFA {
					continue
				}
				if _, f, _, _ := fieldOfAddr(fa); f != "Key" {
					continue
				}
				for _, r2 := range *fa.Referrers() {
					st, isSt := r2.(*ssa.Store)
					if !isSt || !instrDominates(st, c) {
						continue
					}
					// stored value derives from the Execute of the Key expression
					fromKey := false
					seen := map[ssa.Value]bool{}
					var rec func(v ssa.Value, d int)
					rec = func(v ssa.Value, d int) {
						if v == nil || seen[v] || d > 8 || fromKey {
							return
						}
						seen[v] = true
						if kc, ok := v.(*ssa.Call); ok && kc.Call.IsInvoke() && kc.Call.Method.Name() == "Execute" &&
							p.derivesFromField(kc.Call.Value, "PutKVPair", "Key", traceOpts{ThroughArgs: true}) {
							fromKey = true
							return
						}
						if inn, ok := v.(ssa.Instruction); ok {
							for _, op := range inn.Operands(nil) {
								rec(*op, d+1)
							}
						}
					}
					rec(st.Val, 0)
					if fromKey {
						ok2 = true
					}
					// ... and it is the very key that is written: the same value the function hands back as the pair's key
					fnc := c.Parent()
					for _, b := range fnc.Blocks {
						if ret := retOf(b); ret != nil && len(ret.Results) >= 2 && !isNilConst(retVal(ret, 0)) {
							if stripConv(retVal(ret, 0)) != stripConv(st.Val) {
								sameKey = false
							}
						}
					}
				}
			}
			r.add(ok2, key, p.InstrPos(c), "`key` inside a PUT value expression must be this pair's evaluated key")
			r.add(sameKey, key+"|same-as-written", p.InstrPos(c), "the key the value expression sees is the key that is written for this pair (one conversion of the evaluated key, used for both)")
		})
	}
	if found == 0 {
		r.hit("PutPlan|value-eval-missing", p.Pos(pt.Obj().Pos()), "no evaluation of PutKVPair.Value found in PutPlan")
	}
	// (2) BatchPut argument: filled in order, not passed elsewhere
	m := p.storage()
	nb := 0
	for _, s := range m.Sites {
		if s.Method != "Storage.BatchPut" {
			continue
		}
		nb++
		c := s.Instr.(ssa.CallInstruction)
		arg := c.Common().Args[0]
		key := p.FName(s.Fn) + "|batchput-arg"
		bad := ""
		for root := range sliceRoots(arg) {
			mk, ok := root.(*ssa.MakeSlice)
			if !ok {
				bad = "BatchPut argument is not a slice built by this function"
				continue
			}
			// uses of the slice
			for _, ref := range *mk.Referrers() {
				switch x := ref.(type) {
				case *ssa.IndexAddr:
					// index must be the induction variable of a loop that also indexes KVPairs
					for _, r2 := range *x.Referrers() {
						if _, isSt := r2.(*ssa.Store); isSt {
							if !indexesFieldWithSameIndex(p, s.Fn, x.Index, "PutPlan", "KVPairs") {
								bad = "pairs are not stored at the position of their PUT clause (order of writes changed: a later duplicate key may lose)"
							}
						}
					}
				case *ssa.Call:
					if b, ok := x.Call.Value.(*ssa.Builtin); ok && (b.Name() == "len" || b.Name() == "cap") {
						continue
					}
					if x == s.Instr {
						continue
					}
					bad = "the pair slice is passed to " + callDesc(p, x) + " before the write (reordering / mutation of the statement's pairs)"
				case *ssa.Slice, *ssa.Phi, *ssa.DebugRef:
				case ssa.CallInstruction:
				default:
				}
			}
			// also calls taking reslices
			allInstrs(s.Fn, func(in ssa.Instruction) {
				cc, ok := in.(*ssa.Call)
				if !ok || cc == s.Instr {
					return
				}
				if b, ok := cc.Call.Value.(*ssa.Builtin); ok && (b.Name() == "len" || b.Name() == "cap") {
					return
				}
				if ss := p.storage().siteOf(cc); ss != nil {
					return
				}
				for _, a := range cc.Call.Args {
					if isSliceOf(a, mk) {
						bad = "the pair slice is passed to " + callDesc(p, cc) + " before the write (reordering / mutation of the statement's pairs)"
					}
					// closures capturing it
					if mc, ok := a.(*ssa.MakeClosure); ok {
						for _, bnd := range mc.Bindings {
							if derivesFrom(bnd, func(v ssa.Value) bool { return v == ssa.Value(mk) }) {
								bad = "the pair slice is captured by a function passed to " + callDesc(p, cc)
							}
						}
					}
				}
			})
		}
		r.add(bad == "", key, p.InstrPos(s.Instr), firstNonEmpty(bad, "pairs written in statement order"))
	}
	r.floor("BatchPut sites", nb, 1)
}

func isSliceOf(v ssa.Value, mk *ssa.MakeSlice) bool {
	return derivesFromNoElem(v, func(x ssa.Value) bool { return x == ssa.Value(mk) })
}

// indexesFieldWithSameIndex: idx (or the phi it derives from) is also used to index recv.field in fn.
func indexesFieldWithSameIndex(p *Prog, fn *ssa.Function, idx ssa.Value, owner, field string) bool {
	found := false
	allInstrs(fn, func(in ssa.Instruction) {
		ia, ok := in.(*ssa.IndexAddr)
		if !ok || ia.Index != idx {
			return
		}
		if p.derivesFromField(ia.X, owner, field, traceOpts{}) {
			found = true
		}
	})
	return found
}

// ---------------- DELKEYS ----------------

func ruleDelKeys(p *Prog, r *Result) {
	dt := p.Named("DeletePlan")
	if dt == nil {
		r.undecided("anchor: DeletePlan not found")
		return
	}
	m := p.storage()
	n := 0
	for _, fn := range p.methodsOf(dt) {
		for _, s := range m.ByFn[fn] {
			if !s.Mut {
				continue
			}
			n++
			key := p.FName(fn) + "|" + s.Method
			if s.Method != "Storage.BatchDelete" {
				r.hit(key, p.InstrPos(s.Instr), "DELETE must remove keys with BatchDelete on the fetched batch")
				continue
			}
			arg := s.Instr.(ssa.CallInstruction).Common().Args[0]
			bad := ""
			for root := range sliceRoots(arg) {
				isRows := func(v ssa.Value) bool { return isFetched(p, v) }
				// the collecting loop may live in a helper taking the fetched rows: keys := rowKeys(rows)
				if c, ok := root.(*ssa.Call); ok {
					if g := c.Call.StaticCallee(); g != nil && p.InPkg(g) && len(g.Blocks) > 0 && len(c.Call.Args) == 1 && len(g.Params) == 1 && isFetched(p, c.Call.Args[0]) {
						isRows = func(v ssa.Value) bool { return v == ssa.Value(g.Params[0]) }
						for _, gb := range g.Blocks {
							if ret := retOf(gb); ret != nil {
								for inner := range sliceRoots(retVal(ret, 0)) {
									if b2 := keysOfRows(p, inner, isRows); b2 != "" {
										bad = b2 + " (in " + g.Name() + ")"
									}
								}
							}
						}
						continue
					}
				}
				if b2 := keysOfRows(p, root, isRows); b2 != "" {
					bad = b2
				}
			}
			r.add(bad == "", key, p.InstrPos(s.Instr), firstNonEmpty(bad, "BatchDelete receives exactly the keys of the fetched rows"))
		}
	}
	r.floor("mutating sites in DeletePlan", n, 1)
}

// keysOfRows: root is a slice made with the length of the rows and filled with rows[i].Key at index i.
func keysOfRows(p *Prog, root ssa.Value, isRows func(ssa.Value) bool) string {
	mk, ok := root.(*ssa.MakeSlice)
	if !ok {
		return "the key list is not built from the fetched batch in this function"
	}
	bad := ""
	// length = len(fetched rows)
	R := lenOf(mk.Len)
	if R == nil || !isRows(R) {
		bad = "the key list does not have the length of the fetched batch"
	}
	nst := 0
	for _, ref := range *mk.Referrers() {
		ia, ok := ref.(*ssa.IndexAddr)
		if !ok {
			continue
		}
		for _, r2 := range *ia.Referrers() {
			st, ok := r2.(*ssa.Store)
			if !ok {
				continue
			}
			nst++
			// value = rows[i].Key with same i
			okv := false
			backward(st.Val, func(x ssa.Value) bool {
				if o, f, base, isF := loadedField(x); isF && o != nil && o.Obj().Name() == "KVPair" && f == "Key" {
					okv = elementOfRows(base, ia.Index, isRows) || elementOfRows(x, ia.Index, isRows)
					return false
				}
				if fa, isFA := x.(*ssa.FieldAddr); isFA {
					if _, f, base, _ := fieldOfAddr(fa); f == "Key" {
						okv = elementOfRows(base, ia.Index, isRows)
						return false
					}
				}
				return true
			})
			if !okv {
				bad = "a deleted key is not the Key of the fetched row with the same index"
			}
		}
	}
	if nst == 0 {
		bad = "the key list is never filled"
	}
	return bad
}

// elementOfRows: v is (the address of / a load of) element idx of the rows, possibly via a
// range-copy local variable.
func elementOfRows(v ssa.Value, idx ssa.Value, isRows func(ssa.Value) bool) bool {
	ok := false
	backward(v, func(x ssa.Value) bool {
		if ia, isIA := x.(*ssa.IndexAddr); isIA {
			if isRows(ia.X) && sameIndex(ia.Index, idx) {
				ok = true
			}
			return false
		}
		return true
	})
	return ok
}

func sameIndex(a, b ssa.Value) bool {
	if a == b {
		return true
	}
	return false
}

// ---------------- RMGUARD ----------------

func ruleRmGuard(p *Prog, r *Result) {
	// the conversion function: takes *MultiGetPlan and allocates a RemovePlan
	var conv *ssa.Function
	for _, fn := range p.Funcs {
		hasMG := false
		for _, pa := range fn.Params {
			if typeName(pa.Type()) == "MultiGetPlan" {
				hasMG = true
			}
		}
		if !hasMG {
			continue
		}
		allInstrs(fn, func(in ssa.Instruction) {
			if al, ok := in.(*ssa.Alloc); ok && typeName(al.Type()) == "RemovePlan" {
				conv = fn
			}
		})
	}
	if conv == nil {
		r.undecided("anchor: the DELETE->REMOVE conversion (function taking *MultiGetPlan and building a RemovePlan) not found")
		return
	}
	andOps := map[int64]string{}
	for _, nm := range []string{"And", "KWAnd"} {
		if v, ok := p.constOf(nm); ok {
			andOps[v] = nm
		} else {
			r.undecided("anchor: operator constant %s not found", nm)
		}
	}
	ncalls := 0
	for _, fn := range p.Funcs {
		allInstrs(fn, func(in ssa.Instruction) {
			c := isStaticCallTo(in, conv)
			if c == nil {
				return
			}
			ncalls++
			key := p.FName(fn) + "|convert"
			noLimit, guardOK := false, false
			var guardFn *ssa.Function
			for _, a := range dominatingAtoms(c.Block()) {
				if a.Op == token.EQL && isNilConst(a.Y) && isFieldLoad(a.X, "DeleteStmt", "Limit") {
					noLimit = true
				}
				if gc, ok := a.X.(*ssa.Call); ok {
					if bv, isB := constBool(a.Y); isB && ((a.Op == token.EQL && bv) || (a.Op == token.NEQ && !bv)) {
						if g := gc.Call.StaticCallee(); g != nil && p.InPkg(g) {
							for _, ar := range gc.Call.Args {
								if typeName(ar.Type()) == "MultiGetPlan" {
									guardOK = true
									guardFn = g
								}
							}
						}
					}
				}
			}
			r.add(noLimit, key+"|no-limit", p.InstrPos(c), "direct key removal ignores LIMIT, so it may be chosen only when stmt.Limit == nil")
			r.add(guardOK, key+"|guard", p.InstrPos(c), "direct key removal drops the residual filter, so it may be chosen only when the guard function approved")
			if guardFn != nil {
				checkGuard(p, r, guardFn, andOps)
			}
		})
	}
	r.floor("calls of the DELETE->REMOVE conversion", ncalls, 1)
}

func checkGuard(p *Prog, r *Result, g *ssa.Function, andOps map[int64]string) {
	key := p.FName(g)
	if len(g.AnonFuncs) != 1 {
		r.hit(key+"|callback", p.Pos(g.Pos()), "guard is expected to walk the filter with exactly one callback")
		return
	}
	cb := g.AnonFuncs[0]
	// the walk must be started on the filter expression
	walked := false
	allInstrs(g, func(in ssa.Instruction) {
		if c, ok := in.(*ssa.Call); ok && c.Call.IsInvoke() && c.Call.Method.Name() == "Walk" {
			walked = true
		}
	})
	r.add(walked, key+"|walk", p.Pos(g.Pos()), "guard walks the filter expression")
	// callback: for each AND operator constant: a return false (stop + disapprove) under atom Op == const, with flag store
	seen := map[int64]bool{}
	var flagCell ssa.Value
	for _, b := range cb.Blocks {
		for _, in := range b.Instrs {
			st, ok := in.(*ssa.Store)
			if !ok {
				continue
			}
			if bv, isB := constBool(st.Val); !isB || !bv {
				continue
			}
			if _, isFV := st.Addr.(*ssa.FreeVar); !isFV {
				continue
			}
			flagCell = st.Addr
			// which operator constants lead here? predecessors' edges
			for k := range opConstsLeadingTo(b) {
				seen[k] = true
			}
		}
	}
	for v, nm := range andOps {
		r.add(seen[v], fmt.Sprintf("%s|sees-%s", key, nm), p.Pos(cb.Pos()), "the walk must flag every AND operator ("+nm+")")
	}
	// every return of the callback not under an AND atom returns constant true (keep descending)
	descends := true
	for _, b := range cb.Blocks {
		ret := retOf(b)
		if ret == nil {
			continue
		}
		bv, isB := constBool(retVal(ret, 0))
		if isB && bv {
			continue
		}
		if isB && !bv {
			// allowed only in the flagging block(s)
			flagged := false
			for _, in := range b.Instrs {
				if st, ok := in.(*ssa.Store); ok && st.Addr == flagCell {
					flagged = true
				}
			}
			if flagged {
				continue
			}
		}
		descends = false
	}
	r.add(descends, key+"|descends", p.Pos(cb.Pos()), "the callback must return true (descend) for every node that is not an AND: otherwise an AND nested below OR/other nodes is never seen and the residual filter is dropped")
	// guard returns false whenever the flag is set
	disapproves := false
	if flagCell != nil {
		// find the cell in g: the Alloc bound to the closure
		var cell ssa.Value
		allInstrs(g, func(in ssa.Instruction) {
			if mc, ok := in.(*ssa.MakeClosure); ok && mc.Fn == ssa.Value(cb) {
				for i, fv := range cb.FreeVars {
					if ssa.Value(fv) == flagCell && i < len(mc.Bindings) {
						cell = mc.Bindings[i]
					}
				}
			}
		})
		for _, b := range g.Blocks {
			ret := retOf(b)
			if ret == nil {
				continue
			}
			if bv, isB := constBool(retVal(ret, 0)); isB && !bv {
				for _, a := range dominatingAtoms(b) {
					if ld, ok := a.X.(*ssa.UnOp); ok && ld.X == cell {
						if tv, isB := constBool(a.Y); isB && ((a.Op == token.EQL && tv) || (a.Op == token.NEQ && !tv)) {
							disapproves = true
						}
					}
				}
			}
			// return !flag
			if u, ok := retVal(ret, 0).(*ssa.UnOp); ok && u.Op == token.NOT {
				if ld, ok := u.X.(*ssa.UnOp); ok && ld.X == cell {
					disapproves = true
				}
			}
		}
	}
	r.add(disapproves, key+"|disapproves", p.Pos(g.Pos()), "guard returns false whenever an AND was seen")
}

// opConstsLeadingTo: integer constants c such that block b is entered through an edge `x.Op == c`
// (switch cases with several values make b a join of such edges).
func opConstsLeadingTo(b *ssa.BasicBlock) map[int64]bool {
	out := map[int64]bool{}
	seen := map[*ssa.BasicBlock]bool{}
	var rec func(x *ssa.BasicBlock, d int)
	rec = func(x *ssa.BasicBlock, d int) {
		if seen[x] || d > 4 {
			return
		}
		seen[x] = true
		for _, pr := range x.Preds {
			for si, s := range pr.Succs {
				if s != x {
					continue
				}
				if a, ok := edgeAtom(pr, si); ok && a.Op == token.EQL {
					if _, f, _, isF := loadedField(a.X); isF && f == "Op" {
						if c, ok := constInt(a.Y); ok {
							out[c] = true
							continue
						}
					}
				}
				if len(pr.Succs) == 1 {
					rec(pr, d+1)
				}
			}
		}
	}
	rec(b, 0)
	return out
}

// ---------------- LIMITWRAP ----------------

func ruleLimitWrap(p *Prog, r *Result) {
	n := 0
	for _, fn := range p.Funcs {
		allInstrs(fn, func(in ssa.Instruction) {
			st, ok := in.(*ssa.Store)
			if !ok {
				return
			}
			o, f, _, ok := fieldOfAddr(st.Addr)
			if !ok || o == nil || o.Obj().Name() != "DeletePlan" || f != "ChildPlan" {
				return
			}
			inner := stripConv(st.Val)
			al, isAl := inner.(*ssa.Alloc)
			if !isAl || typeName(al.Type()) != "LimitPlan" {
				return
			}
			n++
			key := p.FName(fn) + "|wrap"
			guarded := false
			for _, a := range dominatingAtoms(st.Block()) {
				if a.Op == token.NEQ && isNilConst(a.Y) && isFieldLoad(a.X, "DeleteStmt", "Limit") {
					guarded = true
				}
			}
			r.add(guarded, key+"|when-limit", p.InstrPos(st), "LimitPlan is installed under stmt.Limit != nil")
			// the LimitPlan wraps the scan: its ChildPlan is set to a Plan value (not itself / nil)
			wraps := false
			for _, ref := range *al.Referrers() {
				if fa, ok := ref.(*ssa.FieldAddr); ok {
					if _, f2, _, _ := fieldOfAddr(fa); f2 == "ChildPlan" {
						for _, r2 := range *fa.Referrers() {
							if s2, ok := r2.(*ssa.Store); ok && !isNilConst(s2.Val) {
								wraps = true
							}
						}
					}
				}
			}
			r.add(wraps, key+"|wraps-scan", p.InstrPos(st), "the LimitPlan's child is the scan plan")
			// installed before Init
			before := true
			allInstrs(fn, func(in2 ssa.Instruction) {
				if c, ok := in2.(*ssa.Call); ok {
					if cf := c.Call.StaticCallee(); cf != nil && cf.Name() == "Init" && cf.Signature.Recv() != nil && typeName(cf.Signature.Recv().Type()) == "DeletePlan" {
						if reach := reachableFrom(c.Block(), nil); reach[st.Block()] && !instrDominates(st, c) {
							before = false
						}
					}
				}
			})
			r.add(before, key+"|before-init", p.InstrPos(st), "the wrapped child is installed before the delete plan is initialised")
		})
	}
	// and on the no-limit... nothing to check. Floor:
	r.floor("LimitPlan installations under DeletePlan", n, 1)
	// the un-wrapped delete must not be returned when a limit exists: every return of a DeletePlan
	// whose ChildPlan was never replaced must be dominated... covered by when-limit + single construction.
}

// sameGuard: the store happens under the same `flag == false` guard as the write call.
func sameGuard(st *ssa.Store, c *ssa.Call, typ, flag string) bool {
	guarded := func(b *ssa.BasicBlock) bool {
		for _, a := range dominatingAtoms(b) {
			if isFieldLoad(a.X, typ, flag) {
				if bv, isB := constBool(a.Y); isB && ((a.Op == token.NEQ && bv) || (a.Op == token.EQL && !bv)) {
					return true
				}
			}
		}
		return false
	}
	return guarded(st.Block()) && guarded(c.Block()) && st.Block().Dominates(c.Block())
}
