package main

import (
	"fmt"
	"go/token"
	"go/types"
	"sort"
	"strings"

	"golang.org/x/tools/go/ssa"
)

func init() {
	register("PLANMAP", "FilterOptimizer.Optimize maps EMPTY to a plan with no storage call, MGET to a plan whose storage calls are Get only (given every key of the scan type), PREFIX/RANGE to the matching cursor plan or the full scan, and anything else to the full scan; scan plans are constructed only by their constructors and those are called only from Optimize (no later substitution of the access path)", rulePlanMap)
	register("ROUTE", "optimizeExpr routes each operator only to a handler that can produce the region kind that operator's executor semantics justify (= -> point, ^= -> prefix, >,>= -> lower-bounded range, <,<= -> upper-bounded range/empty, in -> points, between -> bounded range, &/and -> intersection combinator, |/or -> union combinator); every other operator and node kind yields FULL (only literal false yields EMPTY); both combinators infer both operands", ruleRoute)
	register("NARROWONLYKEY", "a per-atom handler returns a narrowing scan type (anything but FULL) only on paths dominated by the test that the atom's field is the `key` keyword, and the keys it stores come from string literals of the atom", ruleNarrowOnlyKey)
	register("SELECTMINMAX", "when no special pair of scan kinds matches, the OR combinator returns the operand with the greater scan kind (wider region) and the AND combinator the smaller one", ruleSelectMinMax)
	register("ROLECHAIN", "range scan: ScanType.keys[0] reaches Cursor.Seek in Init and keys[1] reaches the end test, which leaves the loop exactly when bytes.Compare(key, End) > 0 (inclusive end) and only if End != nil; prefix scan: keys[0] reaches both Seek and the HasPrefix stop test (key first, prefix second)", ruleRoleChain)
	register("NOREADAFTEREXIT", "once a cursor plan has seen a key outside its region (or end of data) it issues no further Cursor.Next before returning: the loop-control flag is constantly true on every path from the exit edge back to the loop header", ruleNoReadAfterExit)
}

// ---- model helpers ----

type scanAlloc struct {
	Alloc  *ssa.Alloc
	Tp     int64
	TpOK   bool
	Keys   []string // "nil" | "val" per literal position; nil slice if keys is nil/unknown
	KeyVal []ssa.Value
	KeysV  ssa.Value
	Block  *ssa.BasicBlock
}

// scanAllocs lists the ScanType composite literals built in fn.
func scanAllocs(fn *ssa.Function) []*scanAlloc {
	var out []*scanAlloc
	allInstrs(fn, func(in ssa.Instruction) {
		al, ok := in.(*ssa.Alloc)
		if !ok || typeName(al.Type()) != "ScanType" {
			return
		}
		sa := &scanAlloc{Alloc: al, Block: al.Block()}
		for _, ref := range *al.Referrers() {
			fa, ok := ref.(*ssa.FieldAddr)
			if !ok {
				continue
			}
			_, fname, _, _ := fieldOfAddr(fa)
			for _, r2 := range *fa.Referrers() {
				st, ok := r2.(*ssa.Store)
				if !ok {
					continue
				}
				switch fname {
				case "scanTp":
					if c, ok := constInt(st.Val); ok {
						sa.Tp, sa.TpOK = c, true
					}
				case "keys":
					sa.KeysV = st.Val
					if sl, ok := st.Val.(*ssa.Slice); ok {
						if arr, ok := sl.X.(*ssa.Alloc); ok {
							if at, ok := deref(arr.Type()).Underlying().(*types.Array); ok {
								sa.Keys = make([]string, at.Len())
								sa.KeyVal = make([]ssa.Value, at.Len())
								for i := range sa.Keys {
									sa.Keys[i] = "nil"
								}
								for _, r3 := range *arr.Referrers() {
									ia, ok := r3.(*ssa.IndexAddr)
									if !ok {
										continue
									}
									idx, ok := constInt(ia.Index)
									if !ok {
										continue
									}
									for _, r4 := range *ia.Referrers() {
										if s4, ok := r4.(*ssa.Store); ok {
											sa.KeyVal[idx] = s4.Val
											if isNilConst(s4.Val) {
												sa.Keys[idx] = "nil"
											} else {
												sa.Keys[idx] = "val"
											}
										}
									}
								}
							}
						}
					}
				}
			}
		}
		out = append(out, sa)
	})
	return out
}

func (p *Prog) scanConsts() (map[string]int64, []string) {
	out := map[string]int64{}
	var missing []string
	for _, nm := range []string{"EMPTY", "MGET", "PREFIX", "RANGE", "FULL"} {
		if v, ok := p.constOf(nm); ok {
			out[nm] = v
		} else {
			missing = append(missing, nm)
		}
	}
	return out, missing
}

// planClass classifies a Plan implementor by the storage calls of its methods.
func (p *Prog) planClass(t *types.Named) string {
	m := p.storage()
	var ms []string
	hasPrefix, hasCompare := false, false
	for _, f := range p.methodsOf(t) {
		for _, s := range m.ByFn[f] {
			ms = append(ms, s.Method)
		}
		allInstrs(f, func(in ssa.Instruction) {
			if c, ok := in.(*ssa.Call); ok {
				switch p.calleeName(&c.Call) {
				case "bytes.HasPrefix":
					hasPrefix = true
				case "bytes.Compare":
					hasCompare = true
				}
			}
		})
	}
	if len(ms) == 0 {
		return "no-read"
	}
	onlyGet := true
	cursor := false
	for _, x := range ms {
		if x != "Storage.Get" {
			onlyGet = false
		}
		if strings.HasPrefix(x, "Cursor.") || x == "Storage.Cursor" {
			cursor = true
		}
	}
	if onlyGet {
		return "point"
	}
	if cursor {
		switch {
		case hasPrefix && !hasCompare:
			return "prefix"
		case hasCompare && !hasPrefix:
			return "range"
		case !hasPrefix && !hasCompare:
			return "full"
		}
		return "cursor-mixed"
	}
	return "other"
}

// ctorOf: if fn allocates exactly one Plan implementor type and returns it, that type.
func (p *Prog) ctorOf(fn *ssa.Function) *types.Named {
	plans, _, _ := p.planTypes()
	var found *types.Named
	allInstrs(fn, func(in ssa.Instruction) {
		if al, ok := in.(*ssa.Alloc); ok {
			n := namedOf(al.Type())
			for _, t := range plans {
				if t == n {
					found = n
				}
			}
		}
	})
	return found
}

func rulePlanMap(p *Prog, r *Result) {
	opt := p.MethodByName("FilterOptimizer", "Optimize")
	if opt == nil {
		r.undecided("anchor: (*FilterOptimizer).Optimize not found")
		return
	}
	sc, missing := p.scanConsts()
	if len(missing) > 0 {
		r.undecided("anchor: scan kind constants %v not found", missing)
		return
	}
	isScanTp := func(v ssa.Value) bool { return isFieldLoad(v, "ScanType", "scanTp") }
	want := map[string][]string{"EMPTY": {"no-read"}, "MGET": {"point"}, "PREFIX": {"prefix", "full"}, "RANGE": {"range", "full"}, "FULL": {"full"}, "OTHER": {"full"}}
	cases := map[string]int64{"OTHER": 99}
	for k, v := range sc {
		cases[k] = v
	}
	for _, name := range sortedKeys(cases) {
		reach := walkAssuming(opt, decideEqConst(isScanTp, cases[name]))
		classes := map[string]bool{}
		var rets []string
		for _, b := range orderedBlocks(opt, reach) {
			ret := retOf(b)
			if ret == nil {
				continue
			}
			// the returned plan: result of a constructor call
			c, ok := retVal(ret, 0).(*ssa.Call)
			if !ok || c.Call.StaticCallee() == nil {
				classes["unknown"] = true
				continue
			}
			t := p.ctorOf(c.Call.StaticCallee())
			if t == nil {
				classes["unknown"] = true
				continue
			}
			cl := p.planClass(t)
			classes[cl] = true
			rets = append(rets, t.Obj().Name()+":"+cl)
			// argument roles
			if name == "MGET" && cl == "point" {
				// keys argument built from all of stype.keys: a loop over len(keys) storing into the arg slice
				okKeys := false
				for _, a := range c.Call.Args {
					if _, isSl := a.Type().Underlying().(*types.Slice); !isSl {
						continue
					}
					for root := range sliceRoots(a) {
						if mk, ok := root.(*ssa.MakeSlice); ok {
							if lv := lenOf(mk.Len); lv != nil && derivesFrom(lv, func(x ssa.Value) bool { return isFieldLoad(x, "ScanType", "keys") }) {
								okKeys = true
							}
						}
					}
				}
				r.add(okKeys, "MGET|all-keys", p.InstrPos(c), "the point-read plan receives every key of the scan type (slice sized len(keys))")
			}
			if (name == "RANGE" && cl == "range") || (name == "PREFIX" && cl == "prefix") {
				// the cursor plan receives the region's bounds as the algebra computed them: elements of stype.keys,
				// in order, untouched (nil and '' are different bounds: nil is open, '' is the empty key)
				var idxs []int64
				direct := true
				for _, a := range c.Call.Args {
					if cv, isCv := a.(*ssa.Convert); isCv {
						a = cv.X // string(keys[0])
					}
					sl, isSl := a.Type().Underlying().(*types.Slice)
					if !isSl {
						continue
					}
					if bt, isB := sl.Elem().Underlying().(*types.Basic); !isB || bt.Kind() != types.Byte {
						continue
					}
					u, isU := a.(*ssa.UnOp)
					if !isU {
						direct = false
						continue
					}
					ia, isIA := u.X.(*ssa.IndexAddr)
					if !isIA || !isFieldLoad(ia.X, "ScanType", "keys") {
						direct = false
						continue
					}
					k, isK := constInt(ia.Index)
					if !isK {
						direct = false
						continue
					}
					idxs = append(idxs, k)
				}
				inOrder := direct && len(idxs) > 0
				for i, k := range idxs {
					if int64(i) != k {
						inOrder = false
					}
				}
				r.add(inOrder, name+"|bounds", p.InstrPos(c), fmt.Sprintf("the %s plan is built from the scan type's keys themselves, in order (indices %v, direct %v)", strings.ToLower(name), idxs, direct))
			}
		}
		sort.Strings(rets)
		okv := len(classes) > 0
		for cl := range classes {
			allowed := false
			for _, w := range want[name] {
				if w == cl {
					allowed = true
				}
			}
			if !allowed {
				okv = false
			}
		}
		r.add(okv, "map|"+name, p.Pos(opt.Pos()), fmt.Sprintf("scan kind %s -> %v, allowed %v", name, rets, want[name]))
	}
	// PLANCTOR: allocation sites and constructor call sites
	plans, _, _ := p.planTypes()
	scanTypes := map[*types.Named]bool{}
	for _, t := range plans {
		// wrappers around a child plan (LimitPlan) are not access paths
		wrapper := false
		if st, ok := t.Underlying().(*types.Struct); ok {
			for i := 0; i < st.NumFields(); i++ {
				if tn := typeName(st.Field(i).Type()); tn == "Plan" || tn == "FinalPlan" {
					wrapper = true
				}
			}
		}
		if wrapper {
			continue
		}
		switch p.planClass(t) {
		case "no-read", "point", "prefix", "range", "full":
			scanTypes[t] = true
		}
	}
	ctors := map[*ssa.Function]*types.Named{}
	for _, fn := range p.Funcs {
		allInstrs(fn, func(in ssa.Instruction) {
			al, ok := in.(*ssa.Alloc)
			if !ok {
				return
			}
			n := namedOf(al.Type())
			if n == nil || !scanTypes[n] {
				return
			}
			if _, isStruct := deref(al.Type()).Underlying().(*types.Struct); !isStruct {
				return
			}
			root := fn
			for root.Parent() != nil {
				root = root.Parent()
			}
			isCtor := root.Signature.Recv() == nil && root.Signature.Results().Len() == 1 && typeName(root.Signature.Results().At(0).Type()) == "Plan"
			if isCtor {
				ctors[root] = n
			}
			r.add(isCtor, "ctor|alloc|"+n.Obj().Name()+"|"+p.FName(fn), p.InstrPos(al), "scan plan types are allocated only inside their constructor")
		})
	}
	for _, fn := range p.Funcs {
		idx := 0
		allInstrs(fn, func(in ssa.Instruction) {
			c, ok := in.(*ssa.Call)
			if !ok {
				return
			}
			t, isC := ctors[c.Call.StaticCallee()]
			if !isC {
				return
			}
			idx++
			r.add(fn == opt, fmt.Sprintf("ctor|call|%s|%s#%d", t.Obj().Name(), p.FName(fn), idx), p.InstrPos(c), "scan plan constructors are called only from FilterOptimizer.Optimize (the access path chosen there is not replaced later)")
		})
	}
	r.floor("scan plan constructors", len(ctors), 4)
	// the scan plan flows unchanged to the plan builders
	for _, fn := range p.Funcs {
		allInstrs(fn, func(in ssa.Instruction) {
			c := isStaticCallTo(in, opt)
			if c == nil {
				return
			}
			okFlow := false
			for _, b := range fn.Blocks {
				if ret := retOf(b); ret != nil && len(ret.Results) == 1 && retVal(ret, 0) == ssa.Value(c) {
					okFlow = true
				}
			}
			nret := 0
			for _, b := range fn.Blocks {
				if retOf(b) != nil {
					nret++
				}
			}
			r.add(okFlow && nret == 1, "flow|"+p.FName(fn), p.InstrPos(c), "the plan returned by Optimize is returned unchanged")
		})
	}
}

// ---------------- ROUTE ----------------

func ruleRoute(p *Prog, r *Result) {
	oe := p.MethodByName("FilterOptimizer", "optimizeExpr")
	if oe == nil {
		r.undecided("anchor: (*FilterOptimizer).optimizeExpr not found")
		return
	}
	sc, missing := p.scanConsts()
	if len(missing) > 0 {
		r.undecided("anchor: scan kind constants %v not found", missing)
		return
	}
	ops := p.typedConsts("Operator")
	if len(ops) < 15 {
		r.undecided("anchor: Operator constants not found (%d)", len(ops))
		return
	}
	isOp := func(v ssa.Value) bool { return isFieldLoad(v, "BinaryOpExpr", "Op") }
	// allowed shapes per operator name
	type shape struct {
		tp   string
		keys string
	}
	allowed := map[string][]shape{
		"Eq":          {{"MGET", "val"}},
		"PrefixMatch": {{"PREFIX", "val"}},
		"Gt":          {{"RANGE", "val,nil"}},
		"Gte":         {{"RANGE", "val,nil"}},
		"Lt":          {{"RANGE", "nil,val"}, {"EMPTY", ""}},
		"Lte":         {{"RANGE", "nil,val"}, {"EMPTY", ""}},
		"In":          {{"MGET", "*"}},
		"Between":     {{"RANGE", "val,val"}, {"EMPTY", ""}}, // EMPTY: lower > upper (decided sound by ATOMALG)
	}
	combinator := map[string]string{"And": "AND", "KWAnd": "AND", "Or": "OR", "KWOr": "OR"}
	tpName := map[int64]string{}
	for k, v := range sc {
		tpName[v] = k
	}
	handlers := map[string]*ssa.Function{}
	vals := make([]int64, 0, len(ops))
	for v := range ops {
		vals = append(vals, v)
	}
	sort.Slice(vals, func(i, j int) bool { return vals[i] < vals[j] })
	for _, v := range vals {
		name := ops[v]
		reach := walkAssuming(oe, decideEqConst(isOp, v))
		var hs []*ssa.Function
		for _, b := range orderedBlocks(oe, reach) {
			for _, in := range b.Instrs {
				c, ok := in.(*ssa.Call)
				if !ok {
					continue
				}
				f := c.Call.StaticCallee()
				if f == nil || !p.InPkg(f) || f.Signature.Recv() == nil || typeName(f.Signature.Recv().Type()) != "FilterOptimizer" {
					continue
				}
				hs = append(hs, f)
			}
		}
		key := "op|" + name
		if cmb, isC := combinator[name]; isC {
			if len(hs) != 1 {
				r.hit(key, p.Pos(oe.Pos()), fmt.Sprintf("%s must be routed to exactly one combinator, got %v", name, p.fnames(hs)))
				continue
			}
			if prev, ok := handlers[cmb]; ok && prev != hs[0] {
				r.hit(key, p.Pos(oe.Pos()), "the two spellings of "+cmb+" are routed to different combinators")
				continue
			}
			handlers[cmb] = hs[0]
			r.ok(key, p.Pos(oe.Pos()), name+" -> "+p.FName(hs[0]))
			continue
		}
		al, has := allowed[name]
		if !has {
			// must yield FULL directly: no handler
			r.add(len(hs) == 0, key, p.Pos(oe.Pos()), fmt.Sprintf("%s must not narrow the scan (no handler), got %v", name, p.fnames(hs)))
			continue
		}
		if len(hs) != 1 {
			r.hit(key, p.Pos(oe.Pos()), fmt.Sprintf("%s must be routed to exactly one handler, got %v", name, p.fnames(hs)))
			continue
		}
		h := hs[0]
		bad := ""
		narrow := 0
		for _, sa := range scanAllocs(h) {
			if !sa.TpOK {
				bad = "scan kind is not a constant"
				continue
			}
			tn := tpName[sa.Tp]
			if tn == "FULL" {
				continue
			}
			narrow++
			ks := strings.Join(sa.Keys, ",")
			okShape := false
			for _, s := range al {
				if s.tp != tn {
					continue
				}
				if s.keys == "*" || s.keys == ks || (s.keys == "" && sa.Keys == nil) {
					okShape = true
				}
			}
			if !okShape {
				bad = fmt.Sprintf("handler %s can produce %s{%s}, which operator %s does not justify", p.FName(h), tn, ks, name)
			}
		}
		if narrow == 0 && bad == "" {
			// fine (more conservative), but note
		}
		r.add(bad == "", key, p.Pos(h.Pos()), firstNonEmpty(bad, fmt.Sprintf("%s -> %s produces only %v", name, p.FName(h), al)))
	}
	// the shared distinct-handler sanity: comparison handlers for > and < differ
	// direct allocations in optimizeExpr: only FULL, or EMPTY under a false literal
	for _, sa := range scanAllocs(oe) {
		tn := tpName[sa.Tp]
		key := fmt.Sprintf("direct|%s@%s", tn, p.InstrPos(sa.Alloc))
		key = "direct|" + tn
		switch tn {
		case "FULL":
			r.ok(key, p.InstrPos(sa.Alloc), "unhandled operators / node kinds fall back to FULL")
		case "EMPTY":
			// dominated by BoolExpr.Bool == false
			okv := false
			for _, a := range dominatingAtoms(sa.Block) {
				if isFieldLoad(a.X, "BoolExpr", "Bool") {
					if bv, isB := constBool(a.Y); isB && ((a.Op == token.NEQ && bv) || (a.Op == token.EQL && !bv)) {
						okv = true
					}
				}
			}
			r.add(okv, key, p.InstrPos(sa.Alloc), "EMPTY is inferred directly only for the literal false")
		default:
			r.hit(key, p.InstrPos(sa.Alloc), "optimizeExpr itself narrows the scan without an atom handler")
		}
	}
	// combinators infer both operands
	for cmb, h := range handlers {
		for _, side := range []string{"Left", "Right"} {
			found := false
			allInstrs(h, func(in ssa.Instruction) {
				if c := isStaticCallTo(in, oe); c != nil {
					for _, a := range c.Call.Args {
						if p.derivesFromField(a, "BinaryOpExpr", side, traceOpts{}) {
							found = true
						}
					}
				}
			})
			r.add(found, "combinator|"+cmb+"|"+side, p.Pos(h.Pos()), "the "+cmb+" combinator infers the region of its "+side+" operand")
		}
	}
	if handlers["AND"] != nil && handlers["AND"] == handlers["OR"] {
		r.hit("combinator|distinct", p.Pos(oe.Pos()), "AND and OR are routed to the same combinator")
	}
	r.note("combinators", map[string]string{"AND": p.FName(handlers["AND"]), "OR": p.FName(handlers["OR"])})
}

// atomHandlers: the per-atom inference functions = FilterOptimizer methods taking *BinaryOpExpr
// that do not call optimizeExpr (the combinators do).
func (p *Prog) atomHandlers() []*ssa.Function {
	oe := p.MethodByName("FilterOptimizer", "optimizeExpr")
	var out []*ssa.Function
	for _, fn := range p.Funcs {
		if fn.Signature.Recv() == nil || typeName(fn.Signature.Recv().Type()) != "FilterOptimizer" || fn == oe {
			continue
		}
		if fn.Signature.Params().Len() != 1 || typeName(fn.Signature.Params().At(0).Type()) != "BinaryOpExpr" {
			continue
		}
		calls := false
		allInstrs(fn, func(in ssa.Instruction) {
			if isStaticCallTo(in, oe) != nil {
				calls = true
			}
		})
		if !calls {
			out = append(out, fn)
		}
	}
	return out
}

func ruleNarrowOnlyKey(p *Prog, r *Result) {
	sc, missing := p.scanConsts()
	if len(missing) > 0 {
		r.undecided("anchor: scan kind constants %v not found", missing)
		return
	}
	keyKW, ok := p.constOf("KeyKW")
	if !ok {
		r.undecided("anchor: constant KeyKW not found")
		return
	}
	hs := p.atomHandlers()
	r.floor("per-atom handlers", len(hs), 5)
	for _, h := range hs {
		n := 0
		for _, sa := range scanAllocs(h) {
			if sa.TpOK && sa.Tp == sc["FULL"] {
				continue
			}
			n++
			key := fmt.Sprintf("%s|narrow#%d", p.FName(h), n)
			guarded := false
			for _, a := range dominatingAtoms(sa.Block) {
				if a.Op != token.EQL {
					continue
				}
				c, isC := constInt(a.Y)
				if !isC || c != keyKW {
					continue
				}
				if derivesFrom(a.X, func(x ssa.Value) bool { return isFieldLoad(x, "FieldExpr", "Field") }) || p.derivesFromField(a.X, "FieldExpr", "Field", traceOpts{IntoReturns: true, MaxDepth: 3}) {
					guarded = true
				}
			}
			r.add(guarded, key, p.InstrPos(sa.Alloc), "narrowing result only when the atom's field is the key keyword")
			// literal provenance of keys
			lit := true
			why := ""
			check := func(v ssa.Value) {
				if v == nil || isNilConst(v) {
					return
				}
				if !derivesFrom(v, func(x ssa.Value) bool { return isFieldLoad(x, "StringExpr", "Data") }) && !p.derivesFromField(v, "StringExpr", "Data", traceOpts{IntoReturns: true, MaxDepth: 3}) {
					lit = false
					why = "a region bound is not taken from a string literal of the atom"
				}
			}
			if sa.KeyVal != nil {
				for _, kv := range sa.KeyVal {
					check(kv)
				}
			} else if sa.KeysV != nil && !isNilConst(sa.KeysV) {
				// dynamic key list (IN): every appended element must be literal data
				for _, app := range appendsInto(sa.KeysV) {
					for _, e := range appendedElems(app) {
						check(e)
					}
				}
			}
			r.add(lit, key+"|literal", p.InstrPos(sa.Alloc), "region bounds are literals of the atom "+why)
		}
	}
}

// ---------------- SELECTMINMAX ----------------

func ruleSelectMinMax(p *Prog, r *Result) {
	oe := p.MethodByName("FilterOptimizer", "optimizeExpr")
	if oe == nil {
		r.undecided("anchor: (*FilterOptimizer).optimizeExpr not found")
		return
	}
	ops := p.typedConsts("Operator")
	isOp := func(v ssa.Value) bool { return isFieldLoad(v, "BinaryOpExpr", "Op") }
	comb := map[string]*ssa.Function{}
	for v, name := range ops {
		kind := ""
		switch name {
		case "And", "KWAnd":
			kind = "AND"
		case "Or", "KWOr":
			kind = "OR"
		default:
			continue
		}
		reach := walkAssuming(oe, decideEqConst(isOp, v))
		for _, b := range orderedBlocks(oe, reach) {
			for _, in := range b.Instrs {
				if c, ok := in.(*ssa.Call); ok {
					if f := c.Call.StaticCallee(); f != nil && p.InPkg(f) && f.Signature.Recv() != nil && typeName(f.Signature.Recv().Type()) == "FilterOptimizer" {
						comb[kind] = f
					}
				}
			}
		}
	}
	for _, kind := range []string{"AND", "OR"} {
		h := comb[kind]
		if h == nil {
			r.undecided("anchor: %s combinator not found", kind)
			continue
		}
		// L, R = results of the two optimizeExpr calls
		var L, R ssa.Value
		allInstrs(h, func(in ssa.Instruction) {
			if c := isStaticCallTo(in, oe); c != nil {
				for _, a := range c.Call.Args {
					if p.derivesFromField(a, "BinaryOpExpr", "Left", traceOpts{}) {
						L = c
					}
					if p.derivesFromField(a, "BinaryOpExpr", "Right", traceOpts{}) {
						R = c
					}
				}
			}
		})
		if L == nil || R == nil {
			r.hit(kind+"|operands", p.Pos(h.Pos()), "combinator does not infer both operands")
			continue
		}
		// fall-through return: a Return whose value is a 2-edge phi over {L,R}
		found := false
		for _, b := range h.Blocks {
			ret := retOf(b)
			if ret == nil {
				continue
			}
			ph, ok := retVal(ret, 0).(*ssa.Phi)
			if !ok || len(ph.Edges) != 2 {
				continue
			}
			if !((ph.Edges[0] == L && ph.Edges[1] == R) || (ph.Edges[0] == R && ph.Edges[1] == L)) {
				continue
			}
			found = true
			key := kind + "|fallthrough"
			okAll := true
			why := ""
			for i, pred := range ph.Block().Preds {
				// atom on the edge leading into pred (pred is the then/else block) or directly
				var at Atom
				got := false
				src := pred
				for hops := 0; hops < 2 && !got; hops++ {
					if len(src.Preds) == 1 {
						pp := src.Preds[0]
						for si, s := range pp.Succs {
							if s == src {
								if a, ok := edgeAtom(pp, si); ok {
									at, got = a, true
								}
							}
						}
						src = pp
					} else {
						break
					}
				}
				if !got {
					// the phi block's pred may itself be the If block
					for si, s := range pred.Succs {
						if s == ph.Block() {
							if a, ok := edgeAtom(pred, si); ok {
								at, got = a, true
							}
						}
					}
				}
				if !got {
					okAll = false
					why = "cannot relate the choice to a comparison of the scan kinds"
					continue
				}
				// normalise: X,Y are loads of scanTp of L / R
				xIsL := derivesFrom(at.X, func(v ssa.Value) bool { return v == L })
				xIsR := derivesFrom(at.X, func(v ssa.Value) bool { return v == R })
				yIsL := derivesFrom(at.Y, func(v ssa.Value) bool { return v == L })
				yIsR := derivesFrom(at.Y, func(v ssa.Value) bool { return v == R })
				if !((xIsL && yIsR) || (xIsR && yIsL)) || !isFieldLoad(at.X, "ScanType", "scanTp") || !isFieldLoad(at.Y, "ScanType", "scanTp") {
					okAll = false
					why = "the deciding comparison is not between the two operands' scan kinds"
					continue
				}
				xv, yv := L, R
				if xIsR {
					xv, yv = R, L
				}
				// which is greater-or-equal on this edge?
				var greater, smaller ssa.Value
				switch at.Op {
				case token.LSS, token.LEQ:
					greater, smaller = yv, xv
				case token.GTR, token.GEQ:
					greater, smaller = xv, yv
				default:
					okAll = false
					why = "the deciding comparison is not an ordering"
					continue
				}
				chosen := ph.Edges[i]
				if kind == "OR" && chosen != greater {
					okAll = false
					why = "OR falls back to the operand with the smaller scan kind (narrower region): rows of the other operand are lost"
				}
				if kind == "AND" && chosen != smaller {
					okAll = false
					why = "AND falls back to the operand with the greater scan kind (reads more than the pinned region)"
				}
			}
			r.add(okAll, key, p.InstrPos(ret), firstNonEmpty(why, kind+" fall-through picks the correct operand"))
		}
		if !found {
			r.hit(kind+"|fallthrough", p.Pos(h.Pos()), "no fall-through return choosing between the two operand regions was found")
		}
	}
}

// ---------------- ROLECHAIN ----------------

func ruleRoleChain(p *Prog, r *Result) {
	opt := p.MethodByName("FilterOptimizer", "Optimize")
	if opt == nil {
		r.undecided("anchor: (*FilterOptimizer).Optimize not found")
		return
	}
	plans, _, _ := p.planTypes()
	for _, t := range plans {
		cl := p.planClass(t)
		if cl != "range" && cl != "prefix" {
			continue
		}
		tn := t.Obj().Name()
		// field roles
		seekField, stopField := "", ""
		if f := p.Method(t, "Init"); f != nil {
			for _, s := range p.storage().ByFn[f] {
				if s.Method == "Cursor.Seek" {
					arg := s.Instr.(ssa.CallInstruction).Common().Args[0]
					backward(arg, func(x ssa.Value) bool {
						if o, fl, _, ok := loadedField(x); ok && o == t {
							seekField = fl
							return false
						}
						return true
					})
				}
			}
		}
		r.add(seekField != "", tn+"|seek-field", p.Pos(t.Obj().Pos()), "Init seeks to a bound stored in the plan (field "+seekField+")")
		prim := "bytes.Compare"
		if cl == "prefix" {
			prim = "bytes.HasPrefix"
		}
		for _, mn := range []string{"Next", "Batch"} {
			fn := p.Method(t, mn)
			if fn == nil {
				continue
			}
			key := fmt.Sprintf("%s.%s|stop", tn, mn)
			var fetchKey ssa.Value
			for _, s := range p.storage().ByFn[fn] {
				if s.Method == "Cursor.Next" {
					if c, ok := s.Instr.(*ssa.Call); ok {
						fetchKey = extractOf(c, 0)
					}
				}
			}
			if fetchKey == nil {
				// the fetch loop may live in a helper method of the same plan
				var helper *ssa.Function
				allInstrs(fn, func(in ssa.Instruction) {
					c, ok := in.(*ssa.Call)
					if !ok {
						return
					}
					h := c.Call.StaticCallee()
					if h == nil || h.Signature.Recv() == nil || namedOf(h.Signature.Recv().Type()) != t {
						return
					}
					for _, s := range p.storage().ByFn[h] {
						if s.Method == "Cursor.Next" {
							if fc, ok := s.Instr.(*ssa.Call); ok {
								fetchKey, helper = extractOf(fc, 0), h
							}
						}
					}
				})
				if helper != nil {
					fn = helper
				}
			}
			if fetchKey == nil {
				r.hit(key, p.Pos(fn.Pos()), "no Cursor.Next fetch found")
				continue
			}
			loops := naturalLoops(fn)
			okStop, why := false, "no loop exit on the region test found"
			for _, b := range fn.Blocks {
				for si := range b.Succs {
					a, ok := edgeAtom(b, si)
					if !ok {
						continue
					}
					c, isCall := a.X.(*ssa.Call)
					if !isCall {
						continue
					}
					isKey := func(v ssa.Value) bool { return derivesFrom(v, func(x ssa.Value) bool { return x == fetchKey }) }
					guardAtoms := dominatingAtoms(b)
					if p.calleeName(&c.Call) != prim {
						// the region test may live in a predicate helper of the plan: `if p.pastEnd(key) { break }`
						h := c.Call.StaticCallee()
						bv, isB := constBool(a.Y)
						if h == nil || !p.InPkg(h) || !isB || len(h.Blocks) == 0 {
							continue
						}
						helperTrue := (a.Op == token.EQL) == bv
						c2, a2, ok2 := p.predicateCore(h, prim)
						if !ok2 || !helperTrue {
							continue
						}
						outer := c
						isKey = func(v ssa.Value) bool {
							return derivesFrom(v, func(x ssa.Value) bool {
								pa, ok := x.(*ssa.Parameter)
								if !ok {
									return false
								}
								for i, hp := range h.Params {
									if hp == pa && i < len(outer.Call.Args) {
										return derivesFrom(outer.Call.Args[i], func(y ssa.Value) bool { return y == fetchKey })
									}
								}
								return false
							})
						}
						guardAtoms = append(guardAtoms, dominatingAtoms(c2.Block())...)
						c, a = c2, a2
					}
					// is this the exit edge? the successor leaves the innermost loop containing b
					var inner *Loop
					for _, L := range loops {
						if L.Body[b] && (inner == nil || len(L.Body) < len(inner.Body)) {
							inner = L
						}
					}
					if inner == nil || inner.Body[b.Succs[si]] {
						continue
					}
					a0, a1 := c.Call.Args[0], c.Call.Args[1]
					keyFirst := isKey(a0)
					var boundArg ssa.Value = a1
					if !keyFirst {
						if isKey(a1) {
							boundArg = a0
						} else {
							why = "the region test does not examine the fetched key"
							continue
						}
					}
					fld := ""
					backward(boundArg, func(x ssa.Value) bool {
						if o, fl, _, ok := loadedField(x); ok && o == t {
							fld = fl
							return false
						}
						return true
					})
					if fld == "" {
						why = "the region test does not use a bound stored in the plan"
						continue
					}
					stopField = fld
					if cl == "range" {
						cv, isC := constInt(a.Y)
						op := a.Op
						if !keyFirst {
							op = swapOp(op)
						}
						if !isC {
							why = "Compare result is not tested against a constant"
							continue
						}
						incl := (op == token.GTR && cv == 0) || (op == token.GEQ && cv == 1)
						if !incl {
							why = fmt.Sprintf("the scan stops on Compare(key, End) %s %d: the end bound must be inclusive (stop only when key > End), as `<=` and BETWEEN require", op, cv)
							continue
						}
						// guarded by End != nil
						nilGuard := false
						for _, da := range guardAtoms {
							if da.Op == token.NEQ && isNilConst(da.Y) && isFieldLoad(da.X, tn, fld) {
								nilGuard = true
							}
						}
						if !nilGuard {
							why = "the end test is applied even when End is nil (open range)"
							continue
						}
						okStop = true
					} else {
						bv, isB := constBool(a.Y)
						stopsWhenFalse := isB && ((a.Op == token.NEQ && bv) || (a.Op == token.EQL && !bv))
						if !stopsWhenFalse {
							why = "the prefix scan does not stop when the key lacks the prefix"
							continue
						}
						if !keyFirst {
							why = "HasPrefix arguments swapped (prefix tested against the key)"
							continue
						}
						okStop = true
					}
				}
			}
			r.add(okStop, key, p.Pos(fn.Pos()), firstNonEmpty(map[bool]string{true: "", false: why}[okStop], "region exit test correct"))
		}
		// constructor and Optimize: keys[j] -> field
		var ctor *ssa.Function
		for _, fn := range p.Funcs {
			if p.ctorOf(fn) == t && fn.Signature.Recv() == nil {
				ctor = fn
			}
		}
		if ctor == nil {
			r.hit(tn+"|ctor", p.Pos(t.Obj().Pos()), "constructor not found")
			continue
		}
		paramField := map[int]string{}
		allInstrs(ctor, func(in ssa.Instruction) {
			if st, ok := in.(*ssa.Store); ok {
				if o, fl, _, ok := fieldOfAddr(st.Addr); ok && o == t {
					for i, pa := range ctor.Params {
						if st.Val == ssa.Value(pa) {
							paramField[i] = fl
						}
					}
				}
			}
		})
		allInstrs(opt, func(in ssa.Instruction) {
			c := isStaticCallTo(in, ctor)
			if c == nil {
				return
			}
			for i, a := range c.Call.Args {
				fl, ok := paramField[i]
				if !ok || (fl != seekField && fl != stopField) {
					continue
				}
				idx := int64(-1)
				backward(a, func(x ssa.Value) bool {
					if ia, ok := x.(*ssa.IndexAddr); ok && derivesFrom(ia.X, func(y ssa.Value) bool { return isFieldLoad(y, "ScanType", "keys") }) {
						if cv, ok := constInt(ia.Index); ok {
							idx = cv
						}
						return false
					}
					return true
				})
				want := int64(0)
				if cl == "range" && fl == stopField && fl != seekField {
					want = 1
				}
				r.add(idx == want, fmt.Sprintf("%s|keys[%d]->%s", tn, want, fl), p.InstrPos(c), fmt.Sprintf("field %s must receive keys[%d] of the scan type (got keys[%d])", fl, want, idx))
			}
		})
		if cl == "prefix" {
			r.add(seekField != "" && seekField == stopField, tn+"|same-prefix", p.Pos(t.Obj().Pos()), "the prefix is used both to seek and to stop")
		} else {
			r.add(seekField != "" && stopField != "" && seekField != stopField, tn+"|two-bounds", p.Pos(t.Obj().Pos()), "start and end are different fields (seek "+seekField+", stop "+stopField+")")
		}
	}
}

// ---------------- NOREADAFTEREXIT ----------------

func ruleNoReadAfterExit(p *Prog, r *Result) {
	plans, _, _ := p.planTypes()
	n := 0
	for _, t := range plans {
		cl := p.planClass(t)
		if cl != "range" && cl != "prefix" && cl != "full" {
			continue
		}
		for _, mn := range []string{"Next", "Batch"} {
			fn := p.Method(t, mn)
			if fn == nil {
				continue
			}
			var fetch *ssa.Call
			for _, s := range p.storage().ByFn[fn] {
				if s.Method == "Cursor.Next" {
					fetch, _ = s.Instr.(*ssa.Call)
				}
			}
			if fetch == nil {
				continue
			}
			loops := naturalLoops(fn)
			var inner *Loop
			for _, L := range loops {
				if L.Body[fetch.Block()] && (inner == nil || len(L.Body) < len(inner.Body)) {
					inner = L
				}
			}
			if inner == nil {
				continue
			}
			// exit edges of the inner loop that are not error returns and not the plain loop condition
			ei := 0
			for _, b := range orderedBlocks(fn, inner.Body) {
				for si, s := range b.Succs {
					if inner.Body[s] || returnsNonNilErrorFrom(s) {
						continue
					}
					if b == inner.Header {
						continue // batch window full: more reads are legitimate
					}
					n++
					ei++
					key := fmt.Sprintf("%s.%s|exit#%d", t.Obj().Name(), mn, ei)
					// from s, can the fetch be reached again?
					reach := reachableFrom(s, nil)
					if !reach[fetch.Block()] {
						r.ok(key, p.InstrPos(b.Instrs[len(b.Instrs)-1]), "no Cursor.Next reachable after leaving the region")
						continue
					}
					// reachable only through an outer loop header guarded by a flag that is constantly true after this exit
					okFlag := false
					why := "Cursor.Next is reachable again after the scan left its region"
					for _, L := range loops {
						if L == inner || !L.Body[fetch.Block()] {
							continue
						}
						hif := ifOf(L.Header)
						if hif == nil {
							continue
						}
						// loop continues while flag is false: header cond = !flag (or flag == false)
						a, ok := condAtom(hif.Cond, true)
						if !ok {
							continue
						}
						flag, isPhi := a.X.(*ssa.Phi)
						if !isPhi || flag.Block() != L.Header {
							continue
						}
						// which successor stays in the loop
						stayIdx := 0
						if !L.Body[L.Header.Succs[0]] {
							stayIdx = 1
						}
						sa, _ := edgeAtom(L.Header, stayIdx)
						bv, isB := constBool(sa.Y)
						staysWhenFalse := isB && ((sa.Op == token.NEQ && bv) || (sa.Op == token.EQL && !bv))
						if !staysWhenFalse {
							continue
						}
						// evaluate the flag's back-edge values restricted to paths from this exit edge
						if flagTrueAfter(L, flag, b, si) {
							okFlag = true
						} else {
							why = "after the scan left its region the loop-control flag is not constantly true: the outer loop can run again and read beyond the region"
						}
					}
					r.add(okFlag, key, p.InstrPos(b.Instrs[len(b.Instrs)-1]), firstNonEmpty(map[bool]string{true: "", false: why}[okFlag], "loop flag is true on every path from the exit back to the header"))
				}
			}
		}
	}
	r.floor("region exits of cursor plans", n, 6)
}

// flagTrueAfter: on every path from exit edge (eb -> eb.Succs[si]) back to L.Header, the value that
// the header phi `flag` receives is the constant true.
func flagTrueAfter(L *Loop, flag *ssa.Phi, eb *ssa.BasicBlock, si int) bool {
	start := eb.Succs[si]
	reach := reachableFrom(start, map[*ssa.BasicBlock]bool{L.Header: true})
	onPath := func(b *ssa.BasicBlock) bool { return reach[b] || b == eb }
	var eval func(v ssa.Value, at *ssa.BasicBlock, depth int) int // 1 true, 0 not-true
	eval = func(v ssa.Value, at *ssa.BasicBlock, depth int) int {
		if depth > 12 {
			return 0
		}
		if bv, ok := constBool(v); ok {
			if bv {
				return 1
			}
			return 0
		}
		ph, ok := v.(*ssa.Phi)
		if !ok {
			return 0
		}
		if ph == flag {
			// the flag's value from before the exit: unknown (the loop was running, so false)
			return 0
		}
		res := 1
		any := false
		for i, pr := range ph.Block().Preds {
			if !onPath(pr) {
				continue
			}
			// edge eb->start: only count pred eb if this phi is in start
			if pr == eb && ph.Block() != start {
				continue
			}
			any = true
			if eval(ph.Edges[i], pr, depth+1) == 0 {
				res = 0
			}
		}
		if !any {
			return 0
		}
		return res
	}
	res := true
	any := false
	for i, pr := range L.Header.Preds {
		if !L.Body[pr] || !onPath(pr) {
			continue
		}
		any = true
		if eval(flag.Edges[i], pr, 0) == 0 {
			res = false
		}
	}
	return any && res
}

// predicateCore: h is a Boolean predicate helper whose result is true only when a call of
// primitive prim satisfies one comparison: `return guard && prim(..) OP k`. Returns that
// call and the atom (on the call) under which h returns true.
func (p *Prog) predicateCore(h *ssa.Function, prim string) (*ssa.Call, Atom, bool) {
	res := h.Signature.Results()
	if res.Len() != 1 {
		return nil, Atom{}, false
	}
	if bt, ok := res.At(0).Type().Underlying().(*types.Basic); !ok || bt.Kind() != types.Bool {
		return nil, Atom{}, false
	}
	var core ssa.Value
	okAll := true
	var visit func(v ssa.Value, d int)
	visit = func(v ssa.Value, d int) {
		if bv, isC := constBool(v); isC {
			if bv {
				okAll = false // an unconditional true
			}
			return
		}
		if ph, ok := v.(*ssa.Phi); ok && d < 4 {
			for _, e := range ph.Edges {
				visit(e, d+1)
			}
			return
		}
		if core != nil && core != v {
			okAll = false
			return
		}
		core = v
	}
	for _, b := range h.Blocks {
		if ret := retOf(b); ret != nil {
			visit(retVal(ret, 0), 0)
		}
	}
	if !okAll || core == nil {
		return nil, Atom{}, false
	}
	a, ok := condAtom(core, true)
	if !ok {
		return nil, Atom{}, false
	}
	c, isCall := a.X.(*ssa.Call)
	if !isCall || p.calleeName(&c.Call) != prim {
		return nil, Atom{}, false
	}
	return c, a, true
}
