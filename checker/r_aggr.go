package main

import (
	"fmt"
	"go/token"
	"go/types"

	"golang.org/x/tools/go/ssa"
)

func init() {
	register("ASTIMMUT", "expression evaluation is pure with respect to the syntax tree: no function reachable (by static calls) from an Execute/ExecuteBatch method or a registered function body stores into a field of an expression node (a cached column or result inside a node would be shared by later chunks and rows)", ruleAstImmut)
	register("AGGRSEM", "accumulators follow their definitions: count adds exactly 1 per row; sum/avg add the converted value to the integer and the float sum, avg also counts rows and divides by the count; min replaces the stored value only when stored > new, max only when stored < new, comparing int64 fields with the integer image and float64 fields with the float image", ruleAggrSem)
	register("CLONEFRESH", "Clone of every aggregate accumulator returns a fresh object (never the receiver), and no field that Update writes is copied from the receiver", ruleCloneFresh)
	register("ROWCLONE", "every accumulator placed into a per-group row is the result of a Clone() call on the plan's template accumulator (groups never share state)", ruleRowClone)
	register("KEYFRAME", "the group-map key is not the bare concatenation of the rendered GROUP BY values: each component is framed (length prefix / delimiter constant), otherwise distinct value tuples collide", ruleKeyFrame)
	register("RESULTIDX", "when a group row is emitted, FuncExprs[i].Result receives Funcs[i].Complete() with the same index i", ruleResultIdx)
}

func ruleAstImmut(p *Prog, r *Result) {
	ets := map[*types.Named]bool{}
	for _, t := range p.exprTypes() {
		ets[t] = true
	}
	var roots []*ssa.Function
	for t := range ets {
		for _, mn := range []string{"Execute", "ExecuteBatch"} {
			if f := p.Method(t, mn); f != nil {
				roots = append(roots, f)
			}
		}
	}
	if rows, err := p.registry("funcMap"); err == nil {
		for _, row := range rows {
			if row.Body != nil {
				roots = append(roots, row.Body)
			}
			if row.BodyVec != nil {
				roots = append(roots, row.BodyVec)
			}
		}
	} else {
		r.undecided("%v", err)
	}
	seen := map[*ssa.Function]bool{}
	n := 0
	for _, root := range roots {
		for _, f := range p.staticClosure(root, 5, nil) {
			if seen[f] {
				continue
			}
			seen[f] = true
			n++
			idx := 0
			allInstrs(f, func(in ssa.Instruction) {
				st, ok := in.(*ssa.Store)
				if !ok {
					return
				}
				o, fl, base, ok := fieldOfAddr(st.Addr)
				if !ok || o == nil || !ets[o] {
					return
				}
				if _, fresh := base.(*ssa.Alloc); fresh {
					return // a node being constructed
				}
				idx++
				r.hit(fmt.Sprintf("%s|%s.%s#%d", p.FName(f), o.Obj().Name(), fl, idx), p.InstrPos(st), "evaluation writes into a syntax-tree node")
			})
		}
	}
	r.note("functions_in_evaluation_closure", n)
	r.floor("functions in the evaluation closure", n, 60)
	r.ok("summary", "", fmt.Sprintf("%d evaluation functions write to no expression node", n))
}

// ---------------- AGGRSEM ----------------

// aggrTypeOf resolves the accumulator type registered under name.
func (p *Prog) aggrTypeOf(name string) *types.Named {
	rows, err := p.registry("aggrFuncMap")
	if err != nil {
		return nil
	}
	for _, row := range rows {
		if row.Key != name || row.Body == nil {
			continue
		}
		var t *types.Named
		allInstrs(row.Body, func(in ssa.Instruction) {
			if al, ok := in.(*ssa.Alloc); ok {
				if n := namedOf(al.Type()); n != nil {
					if _, isS := n.Underlying().(*types.Struct); isS {
						t = n
					}
				}
			}
		})
		return t
	}
	return nil
}

func ruleAggrSem(p *Prog, r *Result) {
	conv := p.Func("convertToNumber")
	if conv == nil {
		r.undecided("anchor: convertToNumber not found")
		return
	}
	basicKind := func(v ssa.Value) types.BasicKind {
		if b, ok := v.Type().Underlying().(*types.Basic); ok {
			return b.Kind()
		}
		return types.Invalid
	}
	// the numeric images of the row's value inside an Update: extracts of convertToNumber
	images := func(fn *ssa.Function) (iv, fv ssa.Value) {
		allInstrs(fn, func(in ssa.Instruction) {
			if c := isStaticCallTo(in, conv); c != nil {
				iv, fv = extractOf(c, 0), extractOf(c, 1)
			}
		})
		return
	}
	// count
	if t := p.aggrTypeOf("count"); t != nil {
		up, co := p.Method(t, "Update"), p.Method(t, "Complete")
		okInc, fld := false, ""
		if up != nil {
			allInstrs(up, func(in ssa.Instruction) {
				if st, ok := in.(*ssa.Store); ok {
					if o, f, d, ok := fieldStoreAdd(st); ok && o == t {
						if c, isC := constInt(d); isC && c == 1 {
							okInc, fld = true, f
						} else {
							okInc = false
						}
					}
				}
			})
		}
		r.add(okInc, "count|update", p.Pos(t.Obj().Pos()), "count adds exactly 1 per row")
		okRet := false
		if co != nil && fld != "" {
			for _, b := range co.Blocks {
				if ret := retOf(b); ret != nil && derivesFrom(retVal(ret, 0), func(v ssa.Value) bool { return isFieldLoad(v, t.Obj().Name(), fld) }) {
					okRet = true
				}
			}
		}
		r.add(okRet, "count|complete", p.Pos(t.Obj().Pos()), "count returns its counter")
	} else {
		r.undecided("anchor: aggregate `count` not registered")
	}
	// sum, avg
	for _, name := range []string{"sum", "avg"} {
		t := p.aggrTypeOf(name)
		if t == nil {
			r.undecided("anchor: aggregate `%s` not registered", name)
			continue
		}
		up := p.Method(t, "Update")
		if up == nil {
			continue
		}
		iv, fv := images(up)
		addI, addF, cnt := false, false, ""
		allInstrs(up, func(in ssa.Instruction) {
			st, ok := in.(*ssa.Store)
			if !ok {
				return
			}
			o, f, d, ok := fieldStoreAdd(st)
			if !ok || o != t {
				return
			}
			if iv != nil && d == iv {
				addI = true
			}
			if fv != nil && d == fv {
				addF = true
			}
			if c, isC := constInt(d); isC && c == 1 {
				cnt = f
			}
		})
		r.add(addI && addF, name+"|update", p.Pos(t.Obj().Pos()), "every row's integer image is added to the integer sum and its float image to the float sum")
		if name == "avg" {
			r.add(cnt != "", "avg|count", p.Pos(t.Obj().Pos()), "avg counts rows (+1 per row)")
			co := p.Method(t, "Complete")
			okDiv := false
			if co != nil && cnt != "" {
				allInstrs(co, func(in ssa.Instruction) {
					if b, ok := in.(*ssa.BinOp); ok && b.Op == token.QUO {
						if derivesFrom(b.Y, func(v ssa.Value) bool { return isFieldLoad(v, t.Obj().Name(), cnt) }) &&
							!derivesFrom(b.X, func(v ssa.Value) bool { return isFieldLoad(v, t.Obj().Name(), cnt) }) {
							okDiv = true
						}
					}
				})
			}
			r.add(okDiv, "avg|complete", p.Pos(t.Obj().Pos()), "avg divides the sum by the row count")
		}
	}
	// min, max
	for _, name := range []string{"min", "max"} {
		t := p.aggrTypeOf(name)
		if t == nil {
			r.undecided("anchor: aggregate `%s` not registered", name)
			continue
		}
		up := p.Method(t, "Update")
		if up == nil {
			continue
		}
		iv, fv := images(up)
		wantOp := token.GTR // stored > new  => replace (min)
		if name == "max" {
			wantOp = token.LSS
		}
		okInt, okFloat := false, false
		badDir := ""
		type cand struct {
			a    Atom
			succ *ssa.BasicBlock
		}
		var cands []cand
		for _, b := range up.Blocks {
			for si := range b.Succs {
				if a, ok := edgeAtom(b, si); ok {
					cands = append(cands, cand{a, b.Succs[si]})
				}
			}
			// the comparison may be computed into a Boolean first: `smaller = f.fmin > fval` ... `if smaller {`
			if f := ifOf(b); f != nil {
				if ph, ok := f.Cond.(*ssa.Phi); ok {
					for _, e := range ph.Edges {
						if a, ok := condAtom(e, true); ok {
							cands = append(cands, cand{a, b.Succs[0]})
						}
					}
				}
			}
		}
		{
			for _, cd := range cands {
				a := cd.a
				x, y, op := a.X, a.Y, a.Op
				if o, _, _, isL := loadedField(y); isL && o == t {
					x, y, op = y, x, swapOp(op)
				}
				o, _, _, isL := loadedField(x)
				if !isL || o != t {
					continue
				}
				if y != iv && y != fv {
					continue
				}
				// the edge on which the stored fields are overwritten
				replaces := false
				for _, in := range cd.succ.Instrs {
					if st, ok := in.(*ssa.Store); ok {
						if o2, _, _, ok := fieldOfAddr(st.Addr); ok && o2 == t {
							replaces = true
						}
					}
				}
				if !replaces {
					continue
				}
				if op != wantOp {
					badDir = fmt.Sprintf("%s replaces the stored value when stored %s new", name, op)
					continue
				}
				if y == iv && basicKind(x) == types.Int64 {
					okInt = true
				}
				if y == fv && basicKind(x) == types.Float64 {
					okFloat = true
				}
			}
		}
		r.add(badDir == "", name+"|direction", p.Pos(t.Obj().Pos()), firstNonEmpty(badDir, name+" replaces in the right direction"))
		r.add(okInt, name+"|int-compare", p.Pos(t.Obj().Pos()), name+" of integers is decided by comparing the int64 field with the integer image (not the float images, which lose precision above 2^53)")
		r.add(okFloat, name+"|float-compare", p.Pos(t.Obj().Pos()), name+" of floats is decided by comparing the float64 field with the float image")
	}
}

// ---------------- CLONEFRESH ----------------

func ruleCloneFresh(p *Prog, r *Result) {
	it := p.Iface("AggrFunction")
	if it == nil {
		r.undecided("interface AggrFunction not found")
		return
	}
	impls := p.Implementors(it)
	r.floor("AggrFunction implementors", len(impls), 6)
	for _, t := range impls {
		cl, up := p.Method(t, "Clone"), p.Method(t, "Update")
		if cl == nil || up == nil {
			r.undecided("Clone/Update of %s not found", t.Obj().Name())
			continue
		}
		key := t.Obj().Name()
		// fields written by Update (and its static callees)
		written := map[string]bool{}
		for _, f := range p.staticClosure(up, 2, nil) {
			allInstrs(f, func(in ssa.Instruction) {
				if st, ok := in.(*ssa.Store); ok {
					if o, fl, _, ok := fieldOfAddr(st.Addr); ok && o == t {
						written[fl] = true
					}
				}
			})
		}
		// returned value: fresh
		fresh := true
		why := ""
		for _, b := range cl.Blocks {
			ret := retOf(b)
			if ret == nil {
				continue
			}
			v := stripConv(retVal(ret, 0))
			okFresh := false
			switch x := v.(type) {
			case *ssa.Alloc:
				okFresh = true
				fromRecv := func(y ssa.Value) bool { return len(cl.Params) > 0 && y == ssa.Value(cl.Params[0]) }
				// whole-struct copy of the receiver: every field Update writes must be re-initialised afterwards
				for _, ref := range *x.Referrers() {
					st, ok := ref.(*ssa.Store)
					if !ok || st.Addr != ssa.Value(x) || !derivesFrom(st.Val, fromRecv) {
						continue
					}
					for _, fl := range sortedKeys(written) {
						reinit := false
						for _, r2 := range *x.Referrers() {
							if fa, ok := r2.(*ssa.FieldAddr); ok {
								if _, f2, _, _ := fieldOfAddr(fa); f2 == fl {
									for _, r3 := range *fa.Referrers() {
										if s3, ok := r3.(*ssa.Store); ok && !derivesFrom(s3.Val, fromRecv) {
											reinit = true
										}
									}
								}
							}
						}
						if !reinit {
							okFresh = false
							why = "Clone copies the whole receiver, including field " + fl + " which Update writes (slices and maps stay shared between groups)"
						}
					}
				}
				// field initialisers copied from the receiver
				for _, ref := range *x.Referrers() {
					fa, ok := ref.(*ssa.FieldAddr)
					if !ok {
						continue
					}
					_, fl, _, _ := fieldOfAddr(fa)
					for _, r2 := range *fa.Referrers() {
						if st, ok := r2.(*ssa.Store); ok && written[fl] {
							if derivesFrom(st.Val, func(y ssa.Value) bool { return len(cl.Params) > 0 && y == ssa.Value(cl.Params[0]) }) {
								okFresh = false
								why = "Clone copies field " + fl + ", which Update writes, from the receiver (groups would share or inherit state)"
							}
						}
					}
				}
			case *ssa.Extract:
				if c, ok := x.Tuple.(*ssa.Call); ok {
					if g := c.Call.StaticCallee(); g != nil && p.InPkg(g) {
						// constructor returning a fresh allocation
						for _, gb := range g.Blocks {
							if gr := retOf(gb); gr != nil {
								if _, isAl := stripConv(retVal(gr, 0)).(*ssa.Alloc); isAl {
									okFresh = true
								}
							}
						}
					}
				}
			}
			if !okFresh {
				fresh = false
				if why == "" {
					why = "Clone does not return a fresh accumulator"
				}
			}
		}
		r.add(fresh, key, p.Pos(cl.Pos()), firstNonEmpty(why, "Clone returns a fresh accumulator"))
	}
}

// ---------------- ROWCLONE ----------------

func ruleRowClone(p *Prog, r *Result) {
	n := 0
	for _, fn := range p.Funcs {
		// functions that allocate an AggrPlanField inside a loop (per-group row construction)
		loops := naturalLoops(fn)
		var inLoop *ssa.Alloc
		allInstrs(fn, func(in ssa.Instruction) {
			al, ok := in.(*ssa.Alloc)
			if !ok || typeName(al.Type()) != "AggrPlanField" {
				return
			}
			for _, L := range loops {
				if L.Body[al.Block()] {
					inLoop = al
				}
			}
		})
		if inLoop == nil {
			continue
		}
		// skip the template construction: it receives accumulators from the registry constructors
		isRowBuilder := false
		allInstrs(fn, func(in ssa.Instruction) {
			if c, ok := in.(*ssa.Call); ok && c.Call.IsInvoke() && c.Call.Method.Name() == "Clone" {
				isRowBuilder = true
			}
		})
		hasKVParam := false
		for _, pa := range fn.Params {
			if typeName(pa.Type()) == "KVPair" {
				hasKVParam = true
			}
		}
		if !isRowBuilder && !hasKVParam {
			continue
		}
		n++
		key := p.FName(fn)
		bad := ""
		allInstrs(fn, func(in ssa.Instruction) {
			st, ok := in.(*ssa.Store)
			if !ok {
				return
			}
			o, fl, _, ok := fieldOfAddr(st.Addr)
			if !ok || o == nil || o.Obj().Name() != "AggrPlanField" || fl != "Funcs" {
				return
			}
			if isNilConst(st.Val) {
				return
			}
			if mk, ok := st.Val.(*ssa.MakeSlice); ok {
				// pre-sized list filled by index: every element stored is a Clone() result
				nfill := 0
				allInstrs(fn, func(in2 ssa.Instruction) {
					st2, ok := in2.(*ssa.Store)
					if !ok {
						return
					}
					ia, ok := st2.Addr.(*ssa.IndexAddr)
					if !ok || !(ia.X == ssa.Value(mk) || isFieldLoad(ia.X, "AggrPlanField", "Funcs")) {
						return
					}
					nfill++
					c, ok := st2.Val.(*ssa.Call)
					if !ok || !c.Call.IsInvoke() || c.Call.Method.Name() != "Clone" {
						bad = "an accumulator stored into a per-group row is not a Clone() result"
					}
				})
				if nfill == 0 {
					bad = "per-group row receives a fresh accumulator list that is never filled with Clone() results"
				}
				return
			}
			apps := appendsInto(st.Val)
			if len(apps) == 0 {
				bad = "per-group row receives an accumulator list that is not built from Clone() calls (state shared with the template or another group)"
				return
			}
			for _, app := range apps {
				for _, e := range appendedElems(app) {
					c, ok := e.(*ssa.Call)
					if !ok || !c.Call.IsInvoke() || c.Call.Method.Name() != "Clone" {
						bad = "an accumulator added to a per-group row is not a Clone() result"
					}
				}
			}
		})
		r.add(bad == "", key, p.Pos(fn.Pos()), firstNonEmpty(bad, "per-group accumulators are clones"))
	}
	r.floor("per-group row builders", n, 1)
}

// ---------------- KEYFRAME ----------------

func ruleKeyFrame(p *Prog, r *Result) {
	at := p.Named("AggregatePlan")
	if at == nil {
		r.undecided("anchor: AggregatePlan not found")
		return
	}
	conv := p.Method(at, "convertToBytes")
	n := 0
	for _, fn := range p.methodsOf(at) {
		// group-key builders: loops over GroupByFields-derived data accumulating rendered values
		loops := naturalLoops(fn)
		for _, L := range loops {
			// accumulator: header phi of string or []byte type whose back-edge value is phi + something
			for _, in := range L.Header.Instrs {
				ph, ok := in.(*ssa.Phi)
				if !ok {
					continue
				}
				isStr := false
				if b, ok := ph.Type().Underlying().(*types.Basic); ok && b.Kind() == types.String {
					isStr = true
				}
				isBytes := false
				if sl, ok := ph.Type().Underlying().(*types.Slice); ok {
					if b, ok := sl.Elem().(*types.Basic); ok && b.Kind() == types.Uint8 {
						isBytes = true
					}
				}
				if !isStr && !isBytes {
					continue
				}
				// contributions on back edges
				var contrib []ssa.Value
				isAcc := false
				for i, e := range ph.Edges {
					if !L.Body[L.Header.Preds[i]] {
						continue
					}
					cur := e
					for steps := 0; steps < 8; steps++ {
						if cur == ssa.Value(ph) {
							isAcc = true
							break
						}
						switch x := cur.(type) {
						case *ssa.BinOp:
							if x.Op == token.ADD {
								contrib = append(contrib, x.Y)
								cur = x.X
								continue
							}
						case *ssa.Call:
							if b, ok := x.Call.Value.(*ssa.Builtin); ok && b.Name() == "append" {
								contrib = append(contrib, x.Call.Args[1])
								cur = x.Call.Args[0]
								continue
							}
							if isAppendLike(x) {
								contrib = append(contrib, x)
								cur = x.Call.Args[0]
								continue
							}
						}
						break
					}
				}
				if !isAcc || len(contrib) == 0 {
					continue
				}
				// is this the group key? a contribution derives from convertToBytes
				fromConv := false
				for _, cv := range contrib {
					if mentions(cv, func(v ssa.Value) bool {
						c, ok := v.(*ssa.Call)
						return ok && conv != nil && c.Call.StaticCallee() == conv
					}, 8) {
						fromConv = true
					}
				}
				if !fromConv {
					continue
				}
				n++
				framed := false
				for _, cv := range contrib {
					if isFraming(cv, ph) {
						framed = true
					}
				}
				// a length prefix must be the component's length: len(key so far) is an offset and frames nothing
				for _, cv := range contrib {
					if mentions(cv, func(v ssa.Value) bool {
						c, ok := v.(*ssa.Call)
						if !ok {
							return false
						}
						b, ok := c.Call.Value.(*ssa.Builtin)
						return ok && b.Name() == "len" && derivesFrom(c.Call.Args[0], func(z ssa.Value) bool { return z == ssa.Value(ph) })
					}, 8) {
						framed = false
					}
				}
				r.add(framed, p.FName(fn)+"|group-key", p.InstrPos(ph), "group key components must be framed (delimiter or length), not bare-concatenated: ('a','bc') and ('ab','c') would share a group")
				// a length written as variable-width text is a frame only if something that is not a digit ends it
				var seq []ssa.Value
				for i := len(contrib) - 1; i >= 0; i-- {
					seq = append(seq, concatPieces(contrib[i], 0)...)
				}
				nlen, okDelim := 0, true
				for i, pc := range seq {
					if !isTextLength(p, pc) {
						continue
					}
					nlen++
					if i+1 >= len(seq) || !isNonDigitConst(seq[i+1]) {
						okDelim = false
					}
				}
				if nlen > 0 {
					r.add(okDelim, p.FName(fn)+"|group-key|length-delimited", p.InstrPos(ph), "a component length rendered as decimal text is followed by a constant that is not a digit (a bare variable-width length is not self-delimiting: 1|2.. and 12|.. read the same)")
				}
			}
		}
	}
	// the rendering of a component is injective: the function that turns a group value into bytes does not print
	// floats with a fixed number of digits (0.0000001 and 0.0000002 would share a group)
	if conv != nil {
		lossy := ""
		allInstrs(conv, func(in ssa.Instruction) {
			c, ok := in.(*ssa.Call)
			if !ok {
				return
			}
			switch p.calleeName(&c.Call) {
			case "fmt.Sprintf", "fmt.Sprint", "fmt.Appendf":
				if f, ok := constString(c.Call.Args[0]); ok {
					for i := 0; i+1 < len(f); i++ {
						if f[i] != '%' {
							continue
						}
						j := i + 1
						for j < len(f) && (f[j] == '.' || f[j] == '-' || f[j] == '+' || (f[j] >= '0' && f[j] <= '9')) {
							j++
						}
						if j < len(f) && (f[j] == 'f' || f[j] == 'F' || f[j] == 'e' || f[j] == 'E' || (f[j] == 'g' && j > i+1)) {
							lossy = fmt.Sprintf("format %q at %s", f, p.InstrPos(c))
						}
					}
				}
			case "strconv.FormatFloat", "strconv.AppendFloat":
				// (f, fmt, prec, bitSize) / (dst, f, fmt, prec, bitSize): precision -1 is the shortest exact text
				pi := len(c.Call.Args) - 2
				if k, ok := constInt(c.Call.Args[pi]); !ok || k != -1 {
					lossy = "fixed precision at " + p.InstrPos(c)
				}
			}
		})
		// ... and equal numbers have one rendering: the two zeros are equal but print as "0" and "-0", so the float
		// that is rendered is a merge of the value with the constant zero (chosen under a comparison with zero)
		signed := ""
		nFloat := 0
		allInstrs(conv, func(in ssa.Instruction) {
			c, ok := in.(*ssa.Call)
			if !ok {
				return
			}
			nm := p.calleeName(&c.Call)
			if nm != "strconv.FormatFloat" && nm != "strconv.AppendFloat" {
				return
			}
			nFloat++
			x := c.Call.Args[len(c.Call.Args)-4]
			zeroEdge := false
			seen := map[ssa.Value]bool{}
			var walk func(v ssa.Value)
			walk = func(v ssa.Value) {
				if seen[v] {
					return
				}
				seen[v] = true
				switch y := v.(type) {
				case *ssa.Convert:
					walk(y.X)
				case *ssa.Phi:
					for _, e := range y.Edges {
						walk(e)
					}
				case *ssa.Const:
					if k, ok := constIntOrFloatZero(y); ok && k == 0 {
						zeroEdge = true
					}
				case *ssa.BinOp:
					// v + 0: IEEE addition turns -0 into +0 and leaves every other value alone
					if y.Op == token.ADD {
						for _, o := range []ssa.Value{y.X, y.Y} {
							if k, ok := constIntOrFloatZero(o); ok && k == 0 {
								zeroEdge = true
							}
						}
					}
				case *ssa.Call:
					// a package helper returning the merge
					if g := y.Call.StaticCallee(); g != nil && p.InPkg(g) {
						for _, b := range g.Blocks {
							if ret := retOf(b); ret != nil && len(ret.Results) == 1 {
								walk(ret.Results[0])
							}
						}
					}
				}
			}
			walk(x)
			if !zeroEdge {
				signed = p.InstrPos(c)
			}
		})
		if nFloat > 0 {
			r.add(signed == "", p.FName(conv)+"|float-zero", p.Pos(conv.Pos()), firstNonEmpty(map[bool]string{true: "the float rendered at " + signed + " keeps the sign of a negative zero: 0.0 and -0.0, which are equal, land in two groups"}[signed != ""], "a zero is rendered as the constant zero whatever its sign"))
		}
		r.add(lossy == "", p.FName(conv)+"|float-exact", p.Pos(conv.Pos()), firstNonEmpty(map[bool]string{true: "floats are rendered with a fixed number of digits: " + lossy}[lossy != ""], "group values are rendered with all their digits (distinct floats give distinct key components)"))
	}
	// the same for keys written into a strings.Builder / bytes.Buffer inside a loop
	for _, fn := range p.methodsOf(at) {
		loops := naturalLoops(fn)
		inLoop := func(b *ssa.BasicBlock) bool {
			for _, L := range loops {
				if L.Body[b] {
					return true
				}
			}
			return false
		}
		allInstrs(fn, func(in ssa.Instruction) {
			al, ok := in.(*ssa.Alloc)
			if !ok {
				return
			}
			if tn := typeName(deref(al.Type())); tn != "Builder" && tn != "Buffer" {
				return
			}
			var seq []ssa.Value
			for _, b := range fn.Blocks {
				if !inLoop(b) {
					continue
				}
				for _, in2 := range b.Instrs {
					c, ok := in2.(*ssa.Call)
					if !ok || len(c.Call.Args) != 2 || c.Call.Args[0] != ssa.Value(al) {
						continue
					}
					g := c.Call.StaticCallee()
					if g == nil {
						continue
					}
					switch g.Name() {
					case "WriteString", "WriteByte", "WriteRune", "Write":
						seq = append(seq, concatPieces(c.Call.Args[1], 0)...)
					}
				}
			}
			if len(seq) == 0 {
				return
			}
			fromConv := false
			for _, cv := range seq {
				if mentions(cv, func(v ssa.Value) bool {
					c, ok := v.(*ssa.Call)
					return ok && conv != nil && c.Call.StaticCallee() == conv
				}, 8) {
					fromConv = true
				}
			}
			if !fromConv {
				return
			}
			n++
			framed := false
			for _, cv := range seq {
				if isFraming(cv, nil) {
					framed = true
				}
			}
			r.add(framed, p.FName(fn)+"|group-key", p.InstrPos(al), "group key components must be framed (delimiter or length), not bare-concatenated: ('a','bc') and ('ab','c') would share a group")
			nlen, okDelim := 0, true
			for i, pc := range seq {
				if !isTextLength(p, pc) {
					continue
				}
				nlen++
				if i+1 >= len(seq) || !isNonDigitConst(seq[i+1]) {
					okDelim = false
				}
			}
			if nlen > 0 {
				r.add(okDelim, p.FName(fn)+"|group-key|length-delimited", p.InstrPos(al), "a component length rendered as decimal text is followed by a constant that is not a digit (a bare variable-width length is not self-delimiting: 1|2.. and 12|.. read the same)")
			}
		})
	}
	r.floor("group-key builders", n, 1)
}

// isFraming: the appended operand carries a constant delimiter or a length encoding.
func isFraming(v ssa.Value, acc ssa.Value) bool {
	found := false
	seen := map[ssa.Value]bool{}
	var rec func(x ssa.Value, d int)
	rec = func(x ssa.Value, d int) {
		if x == nil || seen[x] || d > 6 || found {
			return
		}
		seen[x] = true
		switch y := x.(type) {
		case *ssa.Const:
			if s, ok := constString(y); ok && s != "" {
				found = true
			}
			if _, ok := constInt(y); ok {
				if b, isB := y.Type().Underlying().(*types.Basic); isB && (b.Kind() == types.Uint8 || b.Kind() == types.Int32) {
					found = true
				}
			}
		case *ssa.Call:
			if b, ok := y.Call.Value.(*ssa.Builtin); ok && b.Name() == "len" {
				// the length of the component, not of the key built so far (len(acc) is an offset: not injective)
				if acc != nil && derivesFrom(y.Call.Args[0], func(z ssa.Value) bool { return z == acc }) {
					return
				}
				found = true
				return
			}
			args := y.Call.Args
			if isAppendLike(y) {
				args = args[1:] // the accumulator itself is not a framing operand
			}
			for _, a := range args {
				rec(a, d+1)
			}
		case *ssa.Slice:
			rec(y.X, d+1)
		case *ssa.Convert:
			// a length squeezed into a narrower integer (byte(len(x))) wraps around and frames nothing
			if tb, ok := y.Type().Underlying().(*types.Basic); ok && tb.Info()&types.IsInteger != 0 {
				if sb, ok := y.X.Type().Underlying().(*types.Basic); ok && sb.Info()&types.IsInteger != 0 {
					narrow := map[types.BasicKind]bool{types.Uint8: true, types.Int8: true, types.Uint16: true, types.Int16: true, types.Int32: true, types.Uint32: true}
					if narrow[tb.Kind()] && !narrow[sb.Kind()] {
						return
					}
				}
			}
			rec(y.X, d+1)
		case *ssa.BinOp:
			rec(y.X, d+1)
			rec(y.Y, d+1)
		case *ssa.Alloc:
			for _, sv := range storedInto(y) {
				rec(sv, d+1)
			}
		case *ssa.MakeInterface:
			rec(y.X, d+1)
		}
	}
	rec(v, 0)
	return found
}

// ---------------- RESULTIDX ----------------

func ruleResultIdx(p *Prog, r *Result) {
	n := 0
	for _, fn := range p.Funcs {
		idx := 0
		allInstrs(fn, func(in ssa.Instruction) {
			st, ok := in.(*ssa.Store)
			if !ok {
				return
			}
			o, fl, base, ok := fieldOfAddr(st.Addr)
			if !ok || o == nil || o.Obj().Name() != "FunctionCallExpr" || fl != "Result" {
				return
			}
			if _, fresh := base.(*ssa.Alloc); fresh {
				return
			}
			n++
			idx++
			key := fmt.Sprintf("%s|result#%d", p.FName(fn), idx)
			// destination index: base = load of IndexAddr(FuncExprs, i)
			var di ssa.Value
			backward(base, func(x ssa.Value) bool {
				if ia, ok := x.(*ssa.IndexAddr); ok && p.derivesFromField(ia.X, "AggrPlanField", "FuncExprs", traceOpts{}) {
					di = ia.Index
					return false
				}
				return true
			})
			// source: extract 0 of Complete() on element i of Funcs
			var si ssa.Value
			backward(st.Val, func(x ssa.Value) bool {
				if c, ok := x.(*ssa.Call); ok && c.Call.IsInvoke() && c.Call.Method.Name() == "Complete" {
					backward(c.Call.Value, func(y ssa.Value) bool {
						if ia, ok := y.(*ssa.IndexAddr); ok && p.derivesFromField(ia.X, "AggrPlanField", "Funcs", traceOpts{}) {
							si = ia.Index
							return false
						}
						return true
					})
					return false
				}
				return true
			})
			okv := di != nil && si != nil && di == si
			r.add(okv, key, p.InstrPos(st), "FuncExprs[i].Result = Funcs[i].Complete() with one and the same i")
		})
	}
	r.floor("aggregate result substitutions", n, 1)
}

// concatPieces: the operands of a string concatenation in order.
func concatPieces(v ssa.Value, d int) []ssa.Value {
	if bo, ok := v.(*ssa.BinOp); ok && bo.Op == token.ADD && d < 8 {
		if b, isB := bo.Type().Underlying().(*types.Basic); isB && b.Kind() == types.String {
			return append(concatPieces(bo.X, d+1), concatPieces(bo.Y, d+1)...)
		}
	}
	return []ssa.Value{v}
}

// isTextLength: strconv.Itoa / FormatInt / AppendInt (and unsigned twins) of a value computed from len(...).
func isTextLength(p *Prog, v ssa.Value) bool {
	c, ok := v.(*ssa.Call)
	if !ok {
		return false
	}
	g := c.Call.StaticCallee()
	if g == nil {
		return false
	}
	switch p.qualName(g) {
	case "strconv.Itoa", "strconv.FormatInt", "strconv.FormatUint", "strconv.AppendInt", "strconv.AppendUint":
	default:
		return false
	}
	for _, a := range c.Call.Args {
		if bt, isB := a.Type().Underlying().(*types.Basic); !isB || bt.Info()&types.IsInteger == 0 {
			continue
		}
		if mentions(a, func(x ssa.Value) bool {
			lc, ok := x.(*ssa.Call)
			if !ok {
				return false
			}
			b, ok := lc.Call.Value.(*ssa.Builtin)
			return ok && b.Name() == "len"
		}, 6) {
			return true
		}
	}
	return false
}

func isNonDigitConst(v ssa.Value) bool {
	// append(acc, ':') passes a one-element array literal
	if sl, ok := v.(*ssa.Slice); ok {
		if al, ok := sl.X.(*ssa.Alloc); ok {
			if at, ok := deref(al.Type()).Underlying().(*types.Array); ok && at.Len() >= 1 {
				for _, ref := range *al.Referrers() {
					if ia, ok := ref.(*ssa.IndexAddr); ok {
						if i, ok := constInt(ia.Index); ok && i == 0 {
							for _, r2 := range *ia.Referrers() {
								if st, ok := r2.(*ssa.Store); ok {
									return isNonDigitConst(st.Val)
								}
							}
						}
					}
				}
			}
		}
		return false
	}
	alnum := func(b byte) bool {
		return (b >= '0' && b <= '9') || (b >= 'a' && b <= 'z') || (b >= 'A' && b <= 'Z')
	}
	if s, ok := constString(v); ok {
		return s != "" && !alnum(s[0])
	}
	if k, ok := constInt(v); ok {
		return k >= 0 && k < 256 && !alnum(byte(k))
	}
	return false
}
