package main

import (
	"fmt"
	"go/constant"
	"go/token"
	"go/types"
	"sort"
	"strings"

	"golang.org/x/tools/go/ssa"
)

func init() {
	register("OPMAPS", "StringToOperator and OperatorToString are mutually inverse (every operator's canonical rendering re-lexes to the same operator) and cover every Operator constant but Unknown", ruleOpMaps)
	register("PRECTABLE", "Token.Precedence gives the documented binding order { |,or } < { &,and } < { =,!=,^=,~=,>,>=,<,<=,in,between } < { +,- } < { *,/ } < unary, equal inside a class; exactly the binary operator spellings have a non-zero precedence; non-operator tokens have the lowest", rulePrecTable)
	register("ASSOC", "left associativity: every recursive parse of a right operand (directly or through a helper such as the BETWEEN bound parser) is started with minimum precedence = precedence of the operator just consumed + 1, and the loop stops when the next operator binds weaker than the minimum", ruleAssoc)
	register("KWTABLE", "the word classifier lower-cases the whole word with strings.ToLower before classifying, stores that text as Data, and maps every keyword to the token kind named after it (operator words in/between/and/or to OPERATOR, and they are operator spellings)", ruleKWTable)
	register("OP2TABLE", "operator tokens built by the lexer carry the text they stand for and its offset: a two-character operator c= is emitted under prev == c at offset i-1, a one-character operator/punctuation is string(char) at offset i; prev is set to the current character at the end of every iteration; the lexer scans the caller's query text unchanged", ruleOp2Table)
	register("POSPROV", "every position given to NewSyntaxError/NewExecuteError or stored in an AST/statement Pos field is -1, 0, a Token.Pos, another node's Pos/GetPos() or a parameter fed only by such values, with no arithmetic; Token.Pos is assigned only inside the lexer", rulePosProv)
}

// mapLiteral extracts the constant key/value pairs stored into a package-level map by the initializer.
func (p *Prog) mapLiteral(name string) (map[string]string, bool) {
	g := p.Global(name)
	if g == nil {
		return nil, false
	}
	init := p.Func("init")
	if init == nil {
		return nil, false
	}
	var mapV ssa.Value
	allInstrs(init, func(in ssa.Instruction) {
		if st, ok := in.(*ssa.Store); ok && st.Addr == ssa.Value(g) {
			mapV = st.Val
		}
	})
	if mapV == nil {
		return nil, false
	}
	out := map[string]string{}
	allInstrs(init, func(in ssa.Instruction) {
		mu, ok := in.(*ssa.MapUpdate)
		if !ok || mu.Map != mapV {
			return
		}
		k, kok := constRepr(mu.Key)
		v, vok := constRepr(mu.Value)
		if kok && vok {
			out[k] = v
		}
	})
	return out, len(out) > 0
}

func constRepr(v ssa.Value) (string, bool) {
	c, ok := v.(*ssa.Const)
	if !ok || c.Value == nil {
		return "", false
	}
	switch c.Value.Kind() {
	case constant.String:
		return constant.StringVal(c.Value), true
	case constant.Int:
		return c.Value.ExactString(), true
	case constant.Bool:
		return c.Value.ExactString(), true
	}
	return "", false
}

func ruleOpMaps(p *Prog, r *Result) {
	s2o, ok1 := p.mapLiteral("StringToOperator")
	o2s, ok2 := p.mapLiteral("OperatorToString")
	if !ok1 || !ok2 {
		r.undecided("anchor: StringToOperator / OperatorToString literals not found in the initializer")
		return
	}
	ops := p.typedConsts("Operator")
	for s, o := range s2o {
		// an alias spelling is fine as long as the canonical spelling of its operator parses back to the same operator
		canon, has := o2s[o]
		r.add(has && s2o[canon] == o, "s2o|"+s, "", fmt.Sprintf("StringToOperator[%q]=%s, OperatorToString[%s]=%q, StringToOperator[%q]=%s", s, o, o, canon, canon, s2o[canon]))
	}
	for o, s := range o2s {
		r.add(s2o[s] == o, "o2s|"+o, "", fmt.Sprintf("OperatorToString[%s]=%q, StringToOperator[%q]=%s", o, s, s, s2o[s]))
	}
	for v, name := range ops {
		if name == "Unknown" {
			continue
		}
		_, has := o2s[fmt.Sprint(v)]
		r.add(has, "covered|"+name, "", "every operator has a canonical spelling")
	}
	r.floor("operator spellings", len(s2o), 15)
}

// decideAtoms builds a decider from a function that knows the truth of some atoms.
func decideAtoms(know func(a Atom) (known, truth bool)) func(ssa.Value) int {
	return func(cond ssa.Value) int {
		a, ok := condAtom(cond, true)
		if !ok {
			return -1
		}
		if k, t := know(a); k {
			if t {
				return 0
			}
			return 1
		}
		// try swapped operands
		b := Atom{Op: swapOp(a.Op), X: a.Y, Y: a.X, Neg: a.Neg}
		if k, t := know(b); k {
			if t {
				return 0
			}
			return 1
		}
		return -1
	}
}

func rulePrecTable(p *Prog, r *Result) {
	fn := p.MethodByName("Token", "Precedence")
	if fn == nil {
		r.undecided("anchor: (*Token).Precedence not found")
		return
	}
	s2o, ok := p.mapLiteral("StringToOperator")
	if !ok {
		r.undecided("anchor: StringToOperator literal not found")
		return
	}
	o2s, _ := p.mapLiteral("OperatorToString")
	opTok, ok := p.constOf("OPERATOR")
	if !ok {
		r.undecided("anchor: token kind OPERATOR not found")
		return
	}
	unary, ok := p.constOf("UnaryPrec")
	if !ok {
		r.undecided("anchor: UnaryPrec not found")
		return
	}
	lowest, _ := p.constOf("LowestPrec")
	precOf := func(tp int64, data string) (vals []int64, okAll bool) {
		reach := walkAssuming(fn, decideAtoms(func(a Atom) (bool, bool) {
			if a.Op != token.EQL && a.Op != token.NEQ {
				return false, false
			}
			if isFieldLoad(a.X, "Token", "Tp") {
				if c, ok := constInt(a.Y); ok {
					return true, (c == tp) == (a.Op == token.EQL)
				}
			}
			if isFieldLoad(a.X, "Token", "Data") {
				if s, ok := constString(a.Y); ok {
					return true, (s == data) == (a.Op == token.EQL)
				}
			}
			return false, false
		}))
		okAll = true
		for _, b := range orderedBlocks(fn, reach) {
			if ret := retOf(b); ret != nil {
				if c, ok := constInt(retVal(ret, 0)); ok {
					vals = append(vals, c)
				} else {
					okAll = false
				}
			}
		}
		return
	}
	class := map[string]int{"|": 1, "or": 1, "&": 2, "and": 2,
		"=": 3, "!=": 3, "^=": 3, "~=": 3, ">": 3, ">=": 3, "<": 3, "<=": 3, "in": 3, "between": 3,
		"+": 4, "-": 4, "*": 5, "/": 5}
	got := map[string]int64{}
	var spellings []string
	for s := range s2o {
		spellings = append(spellings, s)
	}
	sort.Strings(spellings)
	for _, s := range spellings {
		vals, okAll := precOf(opTok, s)
		if !okAll || len(vals) != 1 {
			r.hit("prec|"+s, p.Pos(fn.Pos()), fmt.Sprintf("precedence of %q is not a single constant (%v)", s, vals))
			continue
		}
		got[s] = vals[0]
		if s == "!" {
			r.add(vals[0] == lowest, "prec|!", p.Pos(fn.Pos()), "`!` is unary: no binary precedence")
			continue
		}
		if _, known := class[s]; !known {
			// an alias binds like the canonical spelling of its operator
			if canon, has := o2s[s2o[s]]; has && canon != s {
				if c, k := class[canon]; k {
					class[s] = c
				}
			}
		}
		if _, known := class[s]; !known {
			r.hit("prec|"+s, p.Pos(fn.Pos()), "operator spelling unknown to the documented precedence table S-PREC")
			continue
		}
		r.add(vals[0] > lowest && vals[0] < unary, "prec|"+s, p.Pos(fn.Pos()), fmt.Sprintf("precedence %d must lie between lowest (%d) and unary (%d)", vals[0], lowest, unary))
	}
	// ordering between classes, equality within
	for _, a := range spellings {
		for _, b := range spellings {
			ca, oka := class[a]
			cb, okb := class[b]
			if !oka || !okb || a >= b {
				continue
			}
			pa, ha := got[a]
			pb, hb := got[b]
			if !ha || !hb {
				continue
			}
			okv := (ca == cb && pa == pb) || (ca < cb && pa < pb) || (ca > cb && pa > pb)
			if !okv {
				r.hit("order|"+a+"|"+b, p.Pos(fn.Pos()), fmt.Sprintf("documented binding order violated: %q has precedence %d, %q has %d", a, pa, b, pb))
			}
		}
	}
	r.ok("order|all-pairs", p.Pos(fn.Pos()), "all pairs of operator spellings compared against S-PREC")
	// a word that is not an operator spelling has the lowest precedence; a non-operator token too
	vals, _ := precOf(opTok, "\x00not-an-operator")
	okLow := len(vals) == 1 && vals[0] == lowest
	r.add(okLow, "prec|other-text", p.Pos(fn.Pos()), "unknown operator text has the lowest precedence")
	vals, _ = precOf(opTok+100, "|")
	okLow = len(vals) == 1 && vals[0] == lowest
	r.add(okLow, "prec|non-operator-token", p.Pos(fn.Pos()), "a non-operator token never has a binary precedence")
}

// ---------------- ASSOC ----------------

func ruleAssoc(p *Prog, r *Result) {
	pb := p.MethodByName("Parser", "parseBinaryExpr")
	tp := p.MethodByName("Parser", "tokPrec")
	if pb == nil || tp == nil {
		r.undecided("anchor: (*Parser).parseBinaryExpr / tokPrec not found")
		return
	}
	// symbolic offset from the consumed operator's precedence
	type sym struct {
		kind string // "oprec" | "const" | "bad"
		off  int64
	}
	var eval func(v ssa.Value, depth int) sym
	eval = func(v ssa.Value, depth int) sym {
		if depth > 6 {
			return sym{"bad", 0}
		}
		switch x := v.(type) {
		case *ssa.Const:
			if c, ok := constInt(x); ok {
				return sym{"const", c}
			}
		case *ssa.Extract:
			if c, ok := x.Tuple.(*ssa.Call); ok && c.Call.StaticCallee() == tp && x.Index == 1 {
				return sym{"oprec", 0}
			}
		case *ssa.BinOp:
			if x.Op == token.ADD {
				a, b := eval(x.X, depth+1), eval(x.Y, depth+1)
				if a.kind == "oprec" && b.kind == "const" {
					return sym{"oprec", a.off + b.off}
				}
				if b.kind == "oprec" && a.kind == "const" {
					return sym{"oprec", a.off + b.off}
				}
				if a.kind == "const" && b.kind == "const" {
					return sym{"const", a.off + b.off}
				}
			}
		case *ssa.Parameter:
			fn := x.Parent()
			idx := -1
			for i, pa := range fn.Params {
				if pa == x {
					idx = i
				}
			}
			var res *sym
			for _, caller := range p.Funcs {
				allInstrs(caller, func(in ssa.Instruction) {
					ci, ok := in.(ssa.CallInstruction)
					if !ok || ci.Common().StaticCallee() != fn {
						return
					}
					s := eval(ci.Common().Args[idx], depth+1)
					if res == nil {
						res = &s
					} else if *res != s {
						res = &sym{"bad", 0}
					}
				})
			}
			if res != nil {
				return *res
			}
		}
		return sym{"bad", 0}
	}
	n := 0
	for _, caller := range p.Funcs {
		idx := 0
		allInstrs(caller, func(in ssa.Instruction) {
			c := isStaticCallTo(in, pb)
			if c == nil {
				return
			}
			idx++
			n++
			key := fmt.Sprintf("%s|call#%d", p.FName(caller), idx)
			s := eval(c.Call.Args[len(c.Call.Args)-1], 0)
			switch s.kind {
			case "oprec":
				r.add(s.off == 1, key, p.InstrPos(c), fmt.Sprintf("right operand parsed with minimum precedence oprec%+d (must be oprec+1 for left associativity)", s.off))
			case "const":
				lowest, _ := p.constOf("LowestPrec")
				r.add(s.off == lowest+1, key, p.InstrPos(c), fmt.Sprintf("top-level expression parsed with minimum precedence %d (must be LowestPrec+1)", s.off))
			default:
				r.hit(key, p.InstrPos(c), "minimum precedence of this operand parse is not (consumed operator's precedence + 1)")
			}
		})
	}
	r.floor("calls of the binary-expression parser", n, 4)
	// loop stop: return x under oprec < prec1
	stop := false
	for _, b := range pb.Blocks {
		for si := range b.Succs {
			a, ok := edgeAtom(b, si)
			if !ok {
				continue
			}
			isOprec := func(v ssa.Value) bool {
				ex, ok := v.(*ssa.Extract)
				if !ok || ex.Index != 1 {
					return false
				}
				c, ok := ex.Tuple.(*ssa.Call)
				return ok && c.Call.StaticCallee() == tp
			}
			isMin := func(v ssa.Value) bool { pa, ok := v.(*ssa.Parameter); return ok && pa.Parent() == pb }
			if (a.Op == token.LSS && isOprec(a.X) && isMin(a.Y)) || (a.Op == token.GTR && isMin(a.X) && isOprec(a.Y)) {
				if ret := retOf(b.Succs[si]); ret != nil && isNilConst(retVal(ret, 1)) {
					stop = true
				}
			}
		}
	}
	r.add(stop, "loop-stop", p.Pos(pb.Pos()), "the operator loop returns the left operand when the next operator's precedence is below the minimum (strictly)")
}

// ---------------- KWTABLE ----------------

func ruleKWTable(p *Prog, r *Result) {
	fn := p.Func("buildToken")
	if fn == nil {
		r.undecided("anchor: buildToken not found")
		return
	}
	tt2s, ok := p.mapLiteral("TokenTypeToString")
	s2o, ok2 := p.mapLiteral("StringToOperator")
	opTok, ok3 := p.constOf("OPERATOR")
	if !ok || !ok2 || !ok3 {
		r.undecided("anchor: TokenTypeToString / StringToOperator / OPERATOR not found")
		return
	}
	// the classified word: the value compared with string constants
	var tag ssa.Value
	words := map[string]bool{}
	allInstrs(fn, func(in ssa.Instruction) {
		b, ok := in.(*ssa.BinOp)
		if !ok || b.Op != token.EQL {
			return
		}
		if s, ok := constString(b.Y); ok && s != "" {
			words[s] = true
			tag = b.X
		}
	})
	if tag == nil || len(words) < 10 {
		r.undecided("floor: keyword comparisons in buildToken = %d", len(words))
		return
	}
	// lower-casing: every non-phi source of the tag is a strings.ToLower result
	lower := true
	backward(tag, func(x ssa.Value) bool {
		switch y := x.(type) {
		case *ssa.Phi:
			return true
		case *ssa.Call:
			if p.calleeName(&y.Call) != "strings.ToLower" && !isLowerFolder(p, y.Call.StaticCallee()) {
				lower = false
			}
			return false
		default:
			lower = false
			return false
		}
	})
	r.add(lower, "lowercase", p.Pos(fn.Pos()), "the word is classified (and reported) after strings.ToLower of the whole word: keywords and operator words are case-insensitive")
	// Data of the token = the classified word
	dataOK, dataOnly := false, true
	allInstrs(fn, func(in ssa.Instruction) {
		if st, ok := in.(*ssa.Store); ok {
			if o, f, _, ok := fieldOfAddr(st.Addr); ok && o != nil && o.Obj().Name() == "Token" && f == "Data" {
				if st.Val == tag {
					dataOK = true
				} else {
					dataOnly = false
				}
			}
		}
	})
	r.add(dataOK, "data", p.Pos(fn.Pos()), "Token.Data is the case-folded word itself")
	r.add(dataOnly, "data|only", p.Pos(fn.Pos()), "no arm of the classifier rewrites Token.Data: numbers, floats and names keep the spelling the user wrote (1.50, 1e5 and 007 are not re-formatted)")
	var ws []string
	for w := range words {
		ws = append(ws, w)
	}
	sort.Strings(ws)
	for _, w := range ws {
		reach := walkAssuming(fn, decideAtoms(func(a Atom) (bool, bool) {
			if a.Op == token.EQL && a.X == tag {
				if s, ok := constString(a.Y); ok {
					return true, s == w
				}
			}
			return false, false
		}))
		kinds := map[int64]bool{}
		for _, b := range orderedBlocks(fn, reach) {
			for _, in := range b.Instrs {
				if st, ok := in.(*ssa.Store); ok {
					if o, f, _, ok := fieldOfAddr(st.Addr); ok && o != nil && o.Obj().Name() == "Token" && f == "Tp" {
						if c, ok := constInt(st.Val); ok {
							kinds[c] = true
						}
					}
				}
			}
		}
		// the default arm (number/float/name) is reachable only when no case matched; with w matched
		// exactly one kind must remain
		if len(kinds) != 1 {
			r.hit("kw|"+w, p.Pos(fn.Pos()), fmt.Sprintf("word %q does not map to exactly one token kind (%v)", w, kinds))
			continue
		}
		for k := range kinds {
			name := tt2s[fmt.Sprint(k)]
			_, isOp := s2o[w]
			okv := strings.EqualFold(name, w) || (k == opTok && isOp)
			r.add(okv, "kw|"+w, p.Pos(fn.Pos()), fmt.Sprintf("word %q -> token kind %s", w, name))
		}
	}
	// operator words are all classified
	for s := range s2o {
		isWord := true
		for _, ch := range s {
			if !(ch >= 'a' && ch <= 'z') {
				isWord = false
			}
		}
		if isWord {
			r.add(words[s], "opword|"+s, p.Pos(fn.Pos()), "operator word is recognised by the word classifier")
		}
	}
}

// ---------------- OP2TABLE ----------------

func ruleOp2Table(p *Prog, r *Result) {
	fn := p.MethodByName("Lexer", "Split")
	if fn == nil {
		r.undecided("anchor: (*Lexer).Split not found")
		return
	}
	opTok, ok := p.constOf("OPERATOR")
	if !ok {
		r.undecided("anchor: OPERATOR not found")
		return
	}
	s2o, _ := p.mapLiteral("StringToOperator")
	// the scan index i: header phi of the outermost loop; char = load of Query[i]
	loops := naturalLoops(fn)
	if len(loops) == 0 {
		r.undecided("anchor: scan loop not found in Lexer.Split")
		return
	}
	var L *Loop
	for _, l := range loops {
		if L == nil || len(l.Body) > len(L.Body) {
			L = l
		}
	}
	var char ssa.Value
	var idx ssa.Value
	allInstrs(fn, func(in ssa.Instruction) {
		var x, ix ssa.Value
		switch lk := in.(type) {
		case *ssa.Lookup:
			x, ix = lk.X, lk.Index
		case *ssa.Index:
			x, ix = lk.X, lk.Index
		default:
			return
		}
		if char != nil {
			return
		}
		if ph, ok := ix.(*ssa.Phi); ok && ph.Block() == L.Header && p.derivesFromField(x, "Lexer", "Query", traceOpts{}) {
			char, idx = in.(ssa.Value), ph
		}
	})
	if char == nil {
		r.undecided("anchor: current character load (Query[i]) not found")
		return
	}
	idxPhi := idx.(*ssa.Phi)
	backIdx := -1
	for i, pr := range L.Header.Preds {
		if L.Body[pr] {
			if backIdx >= 0 {
				r.undecided("scan loop has several back edges")
				return
			}
			backIdx = i
		}
	}
	if backIdx < 0 {
		r.undecided("scan loop back edge not found")
		return
	}
	leaves := scanLeaves(L, backIdx)
	// the start-offset variable: the header phi handed to buildToken as the position of a word
	var offPhi *ssa.Phi
	if bt := p.Func("buildToken"); bt != nil {
		for _, in := range L.Header.Instrs {
			ph, ok := in.(*ssa.Phi)
			if !ok {
				continue
			}
			for _, ref := range *ph.Referrers() {
				if c, ok := ref.(*ssa.Call); ok && c.Call.StaticCallee() == bt && len(c.Call.Args) == 2 && c.Call.Args[1] == ssa.Value(ph) {
					offPhi = ph
				}
			}
		}
	}
	if offPhi == nil {
		r.undecided("anchor: the start-offset variable passed to buildToken was not found among the scan loop's variables")
	}
	n := 0
	twoCovered := map[string]bool{}
	allInstrs(fn, func(in ssa.Instruction) {
		al, ok := in.(*ssa.Alloc)
		if !ok || typeName(al.Type()) != "Token" {
			return
		}
		var tpV, dataV, posV ssa.Value
		for _, ref := range *al.Referrers() {
			fa, ok := ref.(*ssa.FieldAddr)
			if !ok {
				continue
			}
			_, f, _, _ := fieldOfAddr(fa)
			for _, r2 := range *fa.Referrers() {
				if st, ok := r2.(*ssa.Store); ok {
					switch f {
					case "Tp":
						tpV = st.Val
					case "Data":
						dataV = st.Val
					case "Pos":
						posV = st.Val
					}
				}
			}
		}
		n++
		var classify func(dataV, posV ssa.Value, atoms []Atom, at *ssa.BasicBlock, tag string)
		classify = func(dataV, posV ssa.Value, atoms []Atom, at *ssa.BasicBlock, tag string) {
			if s, isC := constString(dataV); isC {
				key := fmt.Sprintf("tok|%q", s) + tag
				if tpc, ok := constInt(tpV); !ok || tpc != opTok {
					r.hit(key, p.InstrPos(al), "constant-text token is not an OPERATOR token")
					return
				}
				if _, isOp := s2o[s]; !isOp {
					r.hit(key, p.InstrPos(al), "operator token text is not an operator spelling")
					return
				}
				if len(s) == 2 {
					prevOK, eqOK := false, false
					for _, a := range atoms {
						if a.Op == token.EQL {
							if c, ok := constInt(a.Y); ok {
								if _, isPhi := a.X.(*ssa.Phi); isPhi && c == int64(s[0]) {
									prevOK = true
								}
								if a.X == char && c == int64(s[1]) {
									eqOK = true
								}
							}
						}
					}
					posOK := false
					if bo, ok := posV.(*ssa.BinOp); ok && bo.Op == token.SUB && bo.X == idx {
						if c, ok := constInt(bo.Y); ok && c == 1 {
							posOK = true
						}
					}
					// look-ahead form: current character s[0], next character s[1], token at the current index, and the
					// second byte is consumed (the index advances by two on every way from here to the next iteration)
					curOK, nextOK := false, false
					for _, a := range atoms {
						if a.Op == token.EQL {
							if c, ok := constInt(a.Y); ok {
								if a.X == char && c == int64(s[0]) {
									curOK = true
								}
								if isNextChar(p, a.X, idx) && c == int64(s[1]) {
									nextOK = true
								}
							}
						}
					}
					if curOK && nextOK && !(prevOK && eqOK) {
						inLoop := map[*ssa.BasicBlock]bool{}
						var fill func(b *ssa.BasicBlock)
						fill = func(b *ssa.BasicBlock) {
							if inLoop[b] || b == L.Header {
								return
							}
							inLoop[b] = true
							for _, sc := range b.Succs {
								fill(sc)
							}
						}
						fill(at)
						nl, consumed := 0, true
						for _, lf := range leaves {
							if !inLoop[lf.pred] {
								continue
							}
							nl++
							if iv := lf.val[idxPhi]; iv.base != idx || iv.off != 2 {
								consumed = false
							}
						}
						twoCovered[s] = true
						r.ok(key+"|chars", p.InstrPos(al), fmt.Sprintf("emitted only when the current character is %q and the look-ahead character is %q", s[0], s[1]))
						r.add(posV == idx, key+"|pos", p.InstrPos(al), "an operator recognised by look-ahead starts at the current index")
						r.add(nl > 0 && consumed, key+"|consumed", p.InstrPos(al), "the second byte of an operator recognised by look-ahead is skipped: the index advances by two on every way to the next iteration")
						return
					}
					if prevOK && eqOK {
						twoCovered[s] = true
					}
					r.add(prevOK && eqOK, key+"|chars", p.InstrPos(al), fmt.Sprintf("emitted only when the previous character is %q and the current one is %q", s[0], s[1]))
					r.add(posOK, key+"|pos", p.InstrPos(al), "a two-character operator starts one byte before the current index")
				} else {
					eqOK := false
					for _, a := range atoms {
						if a.Op == token.EQL && a.X == char {
							if c, ok := constInt(a.Y); ok && len(s) == 1 && c == int64(s[0]) {
								eqOK = true
							}
						}
					}
					r.add(eqOK, key+"|chars", p.InstrPos(al), "emitted only when the current character is that operator")
					r.add(posV == idx, key+"|pos", p.InstrPos(al), "a one-character operator is at the current index")
				}
				return
			}
			// Data = string(char)
			if cv, ok := dataV.(*ssa.Convert); ok && cv.X == char {
				key := fmt.Sprintf("tok|string(char)#%d", n) + tag
				r.add(posV == idx, key, p.InstrPos(al), "a single-character token carries the current character and the current index")
				return
			}
			// Data = string(prev) + "=": the two-character operators built by one shared arm
			if bo, ok := dataV.(*ssa.BinOp); ok && bo.Op == token.ADD {
				if cv, ok := bo.X.(*ssa.Convert); ok {
					if _, isPhi := cv.X.(*ssa.Phi); isPhi {
						if tail, isC := constString(bo.Y); isC && len(tail) == 1 {
							key := fmt.Sprintf("tok|string(prev)+%q#%d", tail, n) + tag
							eqOK := false
							for _, a := range atoms {
								if a.Op == token.EQL && a.X == char {
									if c, ok := constInt(a.Y); ok && c == int64(tail[0]) {
										eqOK = true
									}
								}
							}
							// the previous characters under which this arm is reached
							chars, closed := prevCharsInto(at, cv.X)
							spell := true
							for _, c := range chars {
								sp := string(rune(c)) + tail
								if _, isOp := s2o[sp]; !isOp {
									spell = false
								}
								twoCovered[sp] = true
							}
							posOK := false
							if b2, ok := posV.(*ssa.BinOp); ok && b2.Op == token.SUB && b2.X == idx {
								if c, ok := constInt(b2.Y); ok && c == 1 {
									posOK = true
								}
							}
							r.add(eqOK && closed && spell && len(chars) > 0, key+"|chars", p.InstrPos(al), fmt.Sprintf("emitted only when the current character is %q and the previous one is one of %q, each giving an operator spelling", tail, chars))
							r.add(posOK, key+"|pos", p.InstrPos(al), "a two-character operator starts one byte before the current index")
							return
						}
					}
				}
			}
			// anything else must be text cut out of the query (words, numbers, quoted literals: WORDRESET)
			if dataV != nil && p.derivesFromField(dataV, "Lexer", "Query", traceOpts{IntoReturns: true, MaxDepth: 2}) {
				// ... and reports the recorded start offset of the pending text, the variable buildToken receives for words
				if offPhi != nil {
					r.add(posV == ssa.Value(offPhi), fmt.Sprintf("tok|cut#%d|pos", n)+tag, p.InstrPos(al), "a token whose text is cut out of the query reports the recorded start offset of that text (the variable passed to buildToken), not the slice start or the scan index")
				}
				return
			}
			r.hit(fmt.Sprintf("tok|unclassified#%d", n)+tag, p.InstrPos(al), "a token literal in the scanner is neither a constant operator, string(char), string(prev)+c, nor text cut out of the query")
		}
		// one literal fed by locals merged from several arms (`opData, opPos := "=", i; switch prev { ... }`): each arm on its own
		if dph, ok := dataV.(*ssa.Phi); ok {
			pph, _ := posV.(*ssa.Phi)
			for k, de := range dph.Edges {
				pred := dph.Block().Preds[k]
				pe := posV
				if pph != nil && pph.Block() == dph.Block() {
					pe = pph.Edges[k]
				}
				atoms := append(append([]Atom{}, dominatingAtoms(pred)...), edgeAtoms(pred, dph.Block())...)
				classify(de, pe, atoms, pred, fmt.Sprintf("/arm%d", k+1))
			}
			return
		}
		classify(dataV, posV, dominatingAtoms(al.Block()), al.Block(), "")
	})
	r.floor("token literals in Lexer.Split", n, 10)
	// every two-character operator spelling of the operator table is produced by some arm
	var missing []string
	for sp := range s2o {
		if len(sp) == 2 && !(sp[0] >= 'a' && sp[0] <= 'z') && !twoCovered[sp] {
			missing = append(missing, sp)
		}
	}
	sort.Strings(missing)
	r.add(len(missing) == 0, "tok|two-char-coverage", p.Pos(fn.Pos()), fmt.Sprintf("every two-character operator of the operator table is emitted as one token by some arm (missing: %v)", missing))
	// prev := char at the end of every iteration
	var prev *ssa.Phi
	for _, lf := range leaves {
		for h, a := range lf.val {
			if a.base == char && a.off == 0 {
				prev = h
			}
		}
	}
	if prev == nil {
		r.hit("prev", p.Pos(fn.Pos()), "no loop-carried `previous character` variable that receives the current character")
	} else {
		// the characters the scanner compares the previous character with
		tested := map[int64]bool{}
		allInstrs(fn, func(in ssa.Instruction) {
			if bo, ok := in.(*ssa.BinOp); ok && (bo.Op == token.EQL || bo.Op == token.NEQ) {
				x, y := bo.X, bo.Y
				if y == ssa.Value(prev) {
					x, y = y, x
				}
				if x == ssa.Value(prev) {
					if c, ok := constInt(y); ok {
						tested[c] = true
					}
				}
			}
		})
		okAll := true
		for _, lf := range leaves {
			a := lf.val[prev]
			if a.base == char && a.off == 0 {
				continue
			}
			// an arm that consumed two bytes as one token may leave a constant no arm compares with
			if c, ok := constInt(a.base); ok && !tested[c+a.off] && lf.val[idxPhi].off == 2 {
				continue
			}
			okAll = false
		}
		r.add(okAll, "prev", p.InstrPos(prev), "on every way back to the loop header the previous-character variable is the character just scanned (no iteration skips the update); after an operator consumed by look-ahead it is a constant that no arm tests")
	}
	// every character that is not a blank, a quote or part of a word becomes (part of) a token: for each character
	// constant the scanner distinguishes, outside a literal, every way round the loop builds a token - except for the
	// first character of a two-character operator directly followed by its second character
	{
		var strFlag *ssa.Phi
		for _, in := range L.Header.Instrs {
			if ph, ok := in.(*ssa.Phi); ok {
				if bt, isB := ph.Type().Underlying().(*types.Basic); isB && bt.Kind() == types.Bool {
					strFlag = ph
				}
			}
		}
		chars := map[int64]bool{}
		allInstrs(fn, func(in ssa.Instruction) {
			if bo, ok := in.(*ssa.BinOp); ok && bo.Op == token.EQL && bo.X == char {
				if c, ok := constInt(bo.Y); ok {
					chars[c] = true
				}
			}
		})
		isBlank := func(c int64) bool {
			return c == ' ' || c == '\t' || c == '\n' || c == '\v' || c == '\f' || c == '\r'
		}
		// the scanner alone decides where a word begins and ends: the word classifier takes the word as it is. Any
		// trimming there (strings.TrimSpace also removes the multi-byte Unicode blanks, which the byte-wise scanner
		// can never treat as separators) changes the text without moving the offset that was recorded for it
		if bt := p.Func("buildToken"); bt != nil {
			var trims []string
			for f := range p.Reach([]*ssa.Function{bt}, nil) {
				if !p.InPkg(f) {
					continue
				}
				allInstrs(f, func(in ssa.Instruction) {
					if c, ok := in.(*ssa.Call); ok {
						n := p.calleeName(&c.Call)
						if strings.HasPrefix(n, "strings.Trim") || n == "strings.Fields" || strings.HasPrefix(n, "bytes.Trim") {
							trims = append(trims, n+" at "+p.InstrPos(in))
						}
					}
				})
			}
			sort.Strings(trims)
			var missing []string
			for _, b := range []int64{' ', '\t', '\n', '\v', '\f', '\r'} {
				if !chars[b] {
					missing = append(missing, fmt.Sprintf("%q", rune(b)))
				}
			}
			// ... and folds its case without touching bytes that are not letters: strings.ToLower / ToUpper go through
			// strings.Map, which rewrites every byte that is not valid UTF-8 as U+FFFD (three bytes that are not in
			// the query, and two different words become one name), so they are applied only to valid UTF-8
			foldBad := ""
			for f := range p.Reach([]*ssa.Function{bt}, nil) {
				if !p.InPkg(f) {
					continue
				}
				allInstrs(f, func(in ssa.Instruction) {
					c, ok := in.(*ssa.Call)
					if !ok {
						return
					}
					n := p.calleeName(&c.Call)
					if n != "strings.ToLower" && n != "strings.ToUpper" && n != "strings.Map" && n != "strings.ToTitle" {
						return
					}
					guarded := false
					for _, a := range dominatingAtoms(in.Block()) {
						if vc, ok := a.X.(*ssa.Call); ok && p.calleeName(&vc.Call) == "unicode/utf8.ValidString" {
							if bv, isB := constBool(a.Y); isB && ((a.Op == token.EQL) == bv) {
								guarded = true
							}
						}
					}
					if !guarded {
						foldBad = n + " at " + p.InstrPos(in)
					}
				})
			}
			// ... and where it folds rune by rune itself, a byte is copied as it is only when it really is an invalid
			// byte: the decoder answers U+FFFD with width 1 for those, and U+FFFD with width 3 for a genuine
			// replacement character in the text
			for f := range p.Reach([]*ssa.Function{bt}, nil) {
				if !p.InPkg(f) {
					continue
				}
				folds := false
				allInstrs(f, func(in ssa.Instruction) {
					if c, ok := in.(*ssa.Call); ok && p.calleeName(&c.Call) == "unicode.ToLower" {
						folds = true
					}
				})
				if !folds {
					continue
				}
				allInstrs(f, func(in ssa.Instruction) {
					c, ok := in.(*ssa.Call)
					if !ok || p.calleeName(&c.Call) != "(*strings.Builder).WriteByte" {
						return
					}
					width1 := false
					for _, a := range dominatingAtoms(in.Block()) {
						if a.Op != token.EQL {
							continue
						}
						if k, ok := constInt(a.Y); ok && k == 1 {
							if ex, ok := a.X.(*ssa.Extract); ok && ex.Index == 1 {
								if dc, ok := ex.Tuple.(*ssa.Call); ok && strings.HasPrefix(p.calleeName(&dc.Call), "unicode/utf8.DecodeRune") {
									width1 = true
								}
							}
						}
					}
					if !width1 && foldBad == "" {
						foldBad = "a byte copy at " + p.InstrPos(in) + " that is not behind `decoded width == 1` (a genuine U+FFFD would lose two of its three bytes)"
					}
				})
			}
			r.add(foldBad == "", "fold-valid", p.Pos(fn.Pos()), firstNonEmpty(map[bool]string{true: "the word is case-folded by " + foldBad + " (an invalid byte must stay as it is, and only an invalid byte)"}[foldBad != ""], "a word is case-folded by the strings package only when it is valid UTF-8"))
			r.add(len(trims) == 0 && len(missing) == 0, "blanks", p.Pos(fn.Pos()), fmt.Sprintf("the six ASCII blanks separate words in the scanner (not separators: %v) and the word classifier does not trim the word it is given (trimming calls: %v): a character removed from a word's text leaves the word's recorded offset on that character", missing, trims))
		}
		var cs []int64
		for c := range chars {
			if !isBlank(c) && c != '\'' && c != '"' && c != '`' {
				cs = append(cs, c)
			}
		}
		sort.Slice(cs, func(i, j int) bool { return cs[i] < cs[j] })
		for _, c := range cs {
			for _, nextEq := range []bool{true, false} {
				// does some way round the loop build no token?
				silent := false
				// facts about merged locals along the way taken: 0 false, 1 true, 2 nil, 3 not nil
				type envT map[ssa.Value]int8
				valOf := func(env envT, v ssa.Value) (int8, bool) {
					if bv, ok := constBool(v); ok {
						if bv {
							return 1, true
						}
						return 0, true
					}
					if isNilConst(v) {
						return 2, true
					}
					if _, ok := v.(*ssa.Alloc); ok {
						return 3, true
					}
					if bo, ok := v.(*ssa.BinOp); ok && (bo.Op == token.EQL || bo.Op == token.NEQ) && bo.X == char {
						if k, isC := constInt(bo.Y); isC {
							if (k == c) == (bo.Op == token.EQL) {
								return 1, true
							}
							return 0, true
						}
					}
					x, ok := env[v]
					return x, ok
				}
				npaths := 0
				var walk func(b, from *ssa.BasicBlock, seen bool, env envT)
				walk = func(b, from *ssa.BasicBlock, seen bool, env envT) {
					npaths++
					if npaths > 20000 {
						silent = true
						return
					}
					if from != nil {
						ne := envT{}
						for k, v := range env {
							ne[k] = v
						}
						for _, in := range b.Instrs {
							ph, ok := in.(*ssa.Phi)
							if !ok {
								break
							}
							for i, pr := range b.Preds {
								if pr == from {
									if x, ok := valOf(env, ph.Edges[i]); ok {
										ne[ph] = x
									} else {
										delete(ne, ph)
									}
								}
							}
						}
						env = ne
					}
					for _, in := range b.Instrs {
						if al, ok := in.(*ssa.Alloc); ok && typeName(deref(al.Type())) == "Token" {
							seen = true
						}
					}
					take := func(sc *ssa.BasicBlock) {
						if sc == L.Header {
							if !seen {
								silent = true
							}
							return
						}
						if !L.Body[sc] {
							return
						}
						walk(sc, b, seen, env)
					}
					f := ifOf(b)
					if f == nil {
						for _, sc := range b.Succs {
							take(sc)
						}
						return
					}
					a, ok := condAtom(f.Cond, true)
					decided := -1
					if ok && (a.Op == token.EQL || a.Op == token.NEQ) {
						if k, isC := constInt(a.Y); isC {
							switch {
							case a.X == char:
								if (k == c) == (a.Op == token.EQL) {
									decided = 0
								} else {
									decided = 1
								}
							case isNextChar(p, a.X, idx):
								if k == '=' {
									if nextEq == (a.Op == token.EQL) {
										decided = 0
									} else {
										decided = 1
									}
								}
							}
						}
						if bv, isB := constBool(a.Y); isB {
							if strFlag != nil && a.X == ssa.Value(strFlag) {
								// outside a literal
								if ((a.Op == token.EQL) == bv) == false {
									decided = 0
								} else {
									decided = 1
								}
							} else if x, known := valOf(env, a.X); known && x <= 1 {
								if ((x == 1) == bv) == (a.Op == token.EQL) {
									decided = 0
								} else {
									decided = 1
								}
							}
						}
						if isNilConst(a.Y) {
							if x, known := valOf(env, a.X); known && x >= 2 {
								if (x == 2) == (a.Op == token.EQL) {
									decided = 0
								} else {
									decided = 1
								}
							}
						}
					}
					switch decided {
					case 0:
						take(b.Succs[0])
					case 1:
						take(b.Succs[1])
					default:
						take(b.Succs[0])
						take(b.Succs[1])
					}
				}
				walk(L.Header, nil, false, envT{})
				_, twoChar := s2o[string(rune(c))+"="]
				exempt := nextEq && twoChar
				if c == '=' {
					// `=` closes a two-character operator or stands alone: its own arm is decided by the previous character
					exempt = false
				}
				key := fmt.Sprintf("emit|%q|next=%v", rune(c), map[bool]string{true: "'='", false: "other"}[nextEq])
				if exempt {
					r.ok(key, p.Pos(fn.Pos()), "first character of a two-character operator: the token is built when the `=` is scanned")
					continue
				}
				r.add(!silent, key, p.Pos(fn.Pos()), fmt.Sprintf("outside a literal the character %q builds a token on every way round the loop (a character that is silently dropped changes the statement: `key *= 'a'` read as `key = 'a'`)", rune(c)))
			}
		}
	}
	// the lexer scans the caller's text unchanged
	for _, nm := range []string{"NewLexer", "NewParser", "NewOptimizer"} {
		f := p.Func(nm)
		if f == nil {
			r.undecided("anchor: %s not found", nm)
			continue
		}
		okv := false
		allInstrs(f, func(in ssa.Instruction) {
			if st, ok := in.(*ssa.Store); ok {
				if _, fl, _, ok := fieldOfAddr(st.Addr); ok && fl == "Query" && len(f.Params) > 0 && st.Val == ssa.Value(f.Params[0]) {
					okv = true
				}
			}
		})
		r.add(okv, "query|"+nm, p.Pos(f.Pos()), nm+" keeps the caller's query text unchanged (offsets are offsets into what the caller passed)")
	}
	if nl, np := p.Func("NewLexer"), p.Func("NewParser"); nl != nil && np != nil {
		okv := false
		allInstrs(np, func(in ssa.Instruction) {
			if c := isStaticCallTo(in, nl); c != nil && c.Call.Args[0] == ssa.Value(np.Params[0]) {
				okv = true
			}
		})
		r.add(okv, "query|NewParser->NewLexer", p.Pos(np.Pos()), "the parser lexes exactly the text it was given")
		// every other place that hands query text to the parser/lexer or keeps it: identity only
		isQueryText := func(v ssa.Value) bool {
			v = stripConv(v)
			if pa, ok := v.(*ssa.Parameter); ok {
				bt, isB := pa.Type().Underlying().(*types.Basic)
				return isB && bt.Kind() == types.String
			}
			_, fl, _, ok := loadedField(v)
			return ok && fl == "Query"
		}
		// a function takes part in the query pipeline when it can hold query text: a string parameter, or a receiver
		// with a Query field (a lexer made elsewhere - to ask how a name would be read - lexes no query)
		holdsQuery := func(f *ssa.Function) bool {
			for _, pa := range f.Params {
				if bt, isB := pa.Type().Underlying().(*types.Basic); isB && bt.Kind() == types.String {
					return true
				}
				if st, ok := deref(pa.Type()).Underlying().(*types.Struct); ok {
					for i := 0; i < st.NumFields(); i++ {
						if st.Field(i).Name() == "Query" {
							return true
						}
					}
				}
			}
			return false
		}
		nq := 0
		for _, f := range p.Funcs {
			qi := 0
			allInstrs(f, func(in ssa.Instruction) {
				switch x := in.(type) {
				case *ssa.Store:
					if _, fl, _, ok := fieldOfAddr(x.Addr); ok && fl == "Query" {
						nq++
						qi++
						r.add(isQueryText(x.Val), fmt.Sprintf("query|store|%s#%d", p.FName(f), qi), p.InstrPos(in), "the query text kept for positions and messages is the caller's text itself (a parameter or another Query field), not a trimmed or rebuilt copy")
					}
				case *ssa.Call:
					g := x.Call.StaticCallee()
					if g != nil && (g == nl || g == np || g == p.Func("NewOptimizer")) && len(x.Call.Args) > 0 && holdsQuery(f) {
						nq++
						qi++
						r.add(isQueryText(x.Call.Args[0]), fmt.Sprintf("query|pass|%s->%s#%d", p.FName(f), g.Name(), qi), p.InstrPos(in), "the text handed on for lexing/parsing is the caller's text itself")
					}
				}
			})
		}
		r.floor("places that keep or pass on the query text", nq, 5)
		lenOK := false
		allInstrs(nl, func(in ssa.Instruction) {
			if st, ok := in.(*ssa.Store); ok {
				if _, fl, _, ok := fieldOfAddr(st.Addr); ok && fl == "Length" {
					if lv := lenOf(st.Val); lv != nil && lv == ssa.Value(nl.Params[0]) {
						lenOK = true
					}
				}
			}
		})
		r.add(lenOK, "query|Length", p.Pos(nl.Pos()), "Lexer.Length is the length of the query text")
	}
}

// ---------------- POSPROV ----------------

func rulePosProv(p *Prog, r *Result) {
	ctors := map[*ssa.Function]bool{}
	for _, nm := range []string{"NewSyntaxError", "NewExecuteError"} {
		if f := p.Func(nm); f != nil {
			ctors[f] = true
		} else {
			r.undecided("anchor: %s not found", nm)
		}
	}
	lexerFns := map[string]bool{}
	for _, fn := range p.Funcs {
		root := fn
		for root.Parent() != nil {
			root = root.Parent()
		}
		if d := p.FuncDecl(root); d != nil {
			if strings.HasSuffix(p.Fset.Position(d.Pos()).Filename, "lexer.go") {
				lexerFns[p.FName(fn)] = true
			}
		}
	}
	// position-carrying struct types: package structs with an int field named Pos
	posTypes := map[string]bool{}
	sc := p.Types.Scope()
	for _, nm := range sc.Names() {
		if tn, ok := sc.Lookup(nm).(*types.TypeName); ok {
			if st, ok := tn.Type().Underlying().(*types.Struct); ok {
				for i := 0; i < st.NumFields(); i++ {
					if st.Field(i).Name() == "Pos" {
						posTypes[nm] = true
					}
				}
			}
		}
	}
	var check func(v ssa.Value, depth int, seen map[ssa.Value]bool) string
	check = func(v ssa.Value, depth int, seen map[ssa.Value]bool) string {
		if v == nil || seen[v] {
			return ""
		}
		seen[v] = true
		if depth > 8 {
			return "provenance chain too deep"
		}
		switch x := v.(type) {
		case *ssa.Const:
			if c, ok := constInt(x); ok && (c == -1 || c == 0) {
				return ""
			}
			return fmt.Sprintf("constant position %s (only -1 and 0 are meaningful)", x.Value)
		case *ssa.Phi:
			for _, e := range x.Edges {
				if m := check(e, depth, seen); m != "" {
					return m
				}
			}
			return ""
		case *ssa.UnOp:
			if x.Op == token.MUL {
				if o, f, _, ok := loadedField(x); ok && o != nil && f == "Pos" && posTypes[o.Obj().Name()] {
					return ""
				}
				if al, ok := x.X.(*ssa.Alloc); ok {
					for _, sv := range storedInto(al) {
						if m := check(sv, depth+1, seen); m != "" {
							return m
						}
					}
					return ""
				}
				if o, f, _, ok := loadedField(x); ok && o != nil {
					return fmt.Sprintf("position read from %s.%s, which is not a token/node position", o.Obj().Name(), f)
				}
			}
			return "position computed by " + x.String()
		case *ssa.Field:
			if o, f, _, ok := loadedField(x); ok && o != nil && f == "Pos" && posTypes[o.Obj().Name()] {
				return ""
			}
			return "position read from a non-position field"
		case *ssa.Call:
			if x.Call.IsInvoke() && x.Call.Method.Name() == "GetPos" {
				return ""
			}
			if f := x.Call.StaticCallee(); f != nil && f.Name() == "GetPos" {
				return ""
			}
			// a package helper returning a position (`p.curPos()`: the current token's offset or -1): every return is checked
			if f := x.Call.StaticCallee(); f != nil && p.InPkg(f) && len(f.Blocks) > 0 && f.Signature.Results().Len() == 1 {
				nret := 0
				for _, b := range f.Blocks {
					if ret := retOf(b); ret != nil && len(ret.Results) == 1 {
						nret++
						if m := check(retVal(ret, 0), depth+1, seen); m != "" {
							return m + " (returned by " + f.Name() + ")"
						}
					}
				}
				if nret > 0 {
					return ""
				}
			}
			return "position produced by call " + callDesc(p, x)
		case *ssa.Parameter:
			fn := x.Parent()
			idx := -1
			for i, pa := range fn.Params {
				if pa == x {
					idx = i
				}
			}
			msg := ""
			ncall := 0
			for _, caller := range p.Funcs {
				allInstrs(caller, func(in ssa.Instruction) {
					ci, ok := in.(ssa.CallInstruction)
					if !ok || ci.Common().StaticCallee() != fn || msg != "" {
						return
					}
					ncall++
					if m := check(ci.Common().Args[idx], depth+1, seen); m != "" {
						msg = m + " (passed at " + p.InstrPos(in) + ")"
					}
				})
			}
			if ncall == 0 && fn.Object() != nil && fn.Object().Exported() {
				return "" // public API parameter
			}
			return msg
		case *ssa.BinOp:
			return "arithmetic on a position (" + x.Op.String() + ")"
		case *ssa.Convert:
			return check(x.X, depth, seen)
		case *ssa.ChangeType:
			return check(x.X, depth, seen)
		}
		return "position of unknown provenance: " + v.String()
	}
	nErr, nStore, nTok := 0, 0, 0
	perFn := map[string]int{}
	for _, fn := range p.Funcs {
		allInstrs(fn, func(in ssa.Instruction) {
			if c, ok := in.(*ssa.Call); ok && ctors[c.Call.StaticCallee()] {
				nErr++
				perFn[p.FName(fn)]++
				key := fmt.Sprintf("err|%s#%d", p.FName(fn), perFn[p.FName(fn)])
				m := check(c.Call.Args[0], 0, map[ssa.Value]bool{})
				r.add(m == "", key, p.InstrPos(c), firstNonEmpty(m, "position is -1, 0 or a token/node start"))
			}
			if st, ok := in.(*ssa.Store); ok {
				o, f, _, ok := fieldOfAddr(st.Addr)
				if !ok || o == nil || f != "Pos" || !posTypes[o.Obj().Name()] {
					return
				}
				if o.Obj().Name() == "Token" {
					nTok++
					r.add(lexerFns[p.FName(fn)], fmt.Sprintf("tokpos|%s", p.FName(fn)), p.InstrPos(st), "Token.Pos is assigned only by the lexer")
					return
				}
				if o.Obj().Name() == "SyntaxError" || o.Obj().Name() == "ExecuteError" {
					return // the constructors' own stores: checked at the call sites
				}
				nStore++
				perFn["store:"+p.FName(fn)]++
				key := fmt.Sprintf("store|%s|%s#%d", p.FName(fn), o.Obj().Name(), perFn["store:"+p.FName(fn)])
				m := check(st.Val, 0, map[ssa.Value]bool{})
				r.add(m == "", key, p.InstrPos(st), firstNonEmpty(m, "node position copied from a token/node"))
			}
		})
	}
	r.note("error_sites", nErr)
	r.note("node_pos_stores", nStore)
	r.note("token_pos_stores", nTok)
	r.floor("error construction sites", nErr, 100)
	r.floor("stores to node Pos fields", nStore, 30)
}

// prevCharsInto: the constants c such that block b is entered over the true edge of `prev == c`
// (a multi-value switch case); closed is false when some way into b is not such an edge.
func prevCharsInto(b *ssa.BasicBlock, prev ssa.Value) (chars []int64, closed bool) {
	closed = true
	seen := map[*ssa.BasicBlock]bool{}
	var rec func(x *ssa.BasicBlock, d int)
	rec = func(x *ssa.BasicBlock, d int) {
		if seen[x] || d > 8 {
			return
		}
		seen[x] = true
		if len(x.Preds) == 0 {
			closed = false
		}
		for _, pr := range x.Preds {
			f := ifOf(pr)
			if f != nil && pr.Succs[0] == x {
				if bo, ok := f.Cond.(*ssa.BinOp); ok && bo.Op == token.EQL && bo.X == prev {
					if c, ok := constInt(bo.Y); ok {
						chars = append(chars, c)
						continue
					}
				}
			}
			if len(pr.Succs) == 1 {
				rec(pr, d+1)
				continue
			}
			closed = false
		}
	}
	rec(b, 0)
	sort.Slice(chars, func(i, j int) bool { return chars[i] < chars[j] })
	return
}

// isLowerFolder: a package function string -> string whose every result is strings.ToLower of its parameter or a
// text it builds itself while folding runes with unicode.ToLower (a fold that leaves invalid bytes alone).
func isLowerFolder(p *Prog, g *ssa.Function) bool {
	if g == nil || !p.InPkg(g) || len(g.Params) != 1 || g.Signature.Results().Len() != 1 || len(g.Blocks) == 0 {
		return false
	}
	folds := false
	allInstrs(g, func(in ssa.Instruction) {
		if c, ok := in.(*ssa.Call); ok && p.calleeName(&c.Call) == "unicode.ToLower" {
			folds = true
		}
	})
	ok := true
	n := 0
	for _, b := range g.Blocks {
		ret := retOf(b)
		if ret == nil {
			continue
		}
		n++
		c, isC := retVal(ret, 0).(*ssa.Call)
		if !isC {
			ok = false
			continue
		}
		switch nm := p.calleeName(&c.Call); {
		case nm == "strings.ToLower" && len(c.Call.Args) == 1 && c.Call.Args[0] == ssa.Value(g.Params[0]):
		case nm == "(*strings.Builder).String" && folds:
		case nm == "string" && folds:
		default:
			ok = false
		}
	}
	return ok && n > 0
}
