package main

import (
	"fmt"
	"go/token"
	"go/types"
	"strings"

	"golang.org/x/tools/go/ssa"
)

func init() {
	register("FILTERED", "in every plan type whose Next/Batch reads storage: Next returns a pair only under the true edge of FilterExec.Filter applied to a pair built from that same key; every element appended to the slice Batch returns is appended under the true edge of the FilterBatch result element with the same index, and comes from the chunk that was passed to FilterBatch", ruleFiltered)
	register("NOROWDROP", "a loop that walks a batch fetched from a child/storage (indexing it by its induction variable) may leave early only by returning an error or on the limit-count condition (current >= Count/Limit): any other early exit drops rows already consumed from the child", ruleNoRowDrop)
	register("ADJUSTCALL", "every scan Batch calls ctx.AdjustChunkCache on all success paths with the index slice that received exactly one append per chosen row; the appended index is cumulative across fetch windows (carried by the outer loop, advanced once per examined row), not a window-local or constant value", ruleAdjustCall)
	register("MGETSORT", "the Keys of every MultiGetPlan are sorted (sort.Strings / slices.Sort on the same slice, before the plan is returned) and nothing else stores to Keys: point reads come out of Go maps in random order otherwise", ruleMGetSort)
	register("GETNIL", "whether a point read found a pair is decided by comparing the value with nil, never by its length: a stored pair with an empty value is a pair", ruleGetNil)
	register("BYTESFRESH", "append on a []byte only extends buffers allocated by the library itself (make/literal/nil/previous append of such), never a slice obtained from evaluated values, which may be the storage's own memory", ruleBytesFresh)
	register("CACHECOPY", "the chunk field cache never shares a slice with an evaluation result: a slice returned from a cache hit and a slice stored into the cache are fresh copies (make+copy), because vectorised operators overwrite their operand slices in place", ruleCacheCopy)
}

// ---- helpers ----

// dependsOn: target is among the transitive operands of v (within a function), depth-bounded.
func dependsOn(v ssa.Value, target ssa.Value, depth int) bool {
	seen := map[ssa.Value]bool{}
	var rec func(x ssa.Value, d int) bool
	rec = func(x ssa.Value, d int) bool {
		if x == nil || seen[x] {
			return false
		}
		seen[x] = true
		if x == target {
			return true
		}
		if d == 0 {
			return false
		}
		in, ok := x.(ssa.Instruction)
		if !ok {
			return false
		}
		for _, op := range in.Operands(nil) {
			if *op != nil && rec(*op, d-1) {
				return true
			}
		}
		if al, ok := x.(*ssa.Alloc); ok {
			for _, sv := range storedInto(al) {
				if rec(sv, d-1) {
					return true
				}
			}
		}
		return false
	}
	return rec(v, depth)
}

// readerPlanMethods: plan types with reader sites in Next or Batch.
func (p *Prog) readerPlans() []*types.Named {
	plans, _, _ := p.planTypes()
	m := p.storage()
	var out []*types.Named
	for _, t := range plans {
		has := false
		for _, mn := range []string{"Next", "Batch"} {
			if f := p.Method(t, mn); f != nil {
				for _, s := range m.ByFn[f] {
					if !s.Mut {
						has = true
					}
				}
			}
		}
		if has {
			out = append(out, t)
		}
	}
	return out
}

func isStaticCallTo(in ssa.Instruction, f *ssa.Function) *ssa.Call {
	c, ok := in.(*ssa.Call)
	if ok && f != nil && c.Call.StaticCallee() == f {
		return c
	}
	return nil
}

func extractOf(c *ssa.Call, idx int) ssa.Value {
	if c.Referrers() == nil {
		return nil
	}
	for _, r := range *c.Referrers() {
		if ex, ok := r.(*ssa.Extract); ok && ex.Index == idx {
			return ex
		}
	}
	return nil
}

// trueEdgeDominates: the block x is only reachable through an edge on which boolean value v is true.
func trueEdgeDominates(v ssa.Value, x *ssa.BasicBlock) bool {
	fn := x.Parent()
	for _, b := range fn.Blocks {
		f := ifOf(b)
		if f == nil {
			continue
		}
		for i := 0; i < 2; i++ {
			a, ok := edgeAtom(b, i)
			if !ok {
				continue
			}
			isTrue := false
			if a.X == v {
				if bv, isB := constBool(a.Y); isB && ((a.Op == token.EQL && bv) || (a.Op == token.NEQ && !bv)) {
					isTrue = true
				}
			}
			if isTrue && edgeDominates(b, i, x) {
				return true
			}
		}
	}
	return false
}

// appendsInto returns the append calls that (transitively through phis/appends/slices) build v.
func appendsInto(v ssa.Value) []*ssa.Call {
	var out []*ssa.Call
	seen := map[ssa.Value]bool{}
	var rec func(x ssa.Value)
	rec = func(x ssa.Value) {
		if x == nil || seen[x] {
			return
		}
		seen[x] = true
		switch y := x.(type) {
		case *ssa.Phi:
			for _, e := range y.Edges {
				rec(e)
			}
		case *ssa.Slice:
			rec(y.X)
		case *ssa.Call:
			if b, ok := y.Call.Value.(*ssa.Builtin); ok && b.Name() == "append" {
				out = append(out, y)
				rec(y.Call.Args[0])
			}
		}
	}
	rec(v)
	return out
}

// appendedElems returns the element values stored into the variadic slice of an append call.
func appendedElems(c *ssa.Call) []ssa.Value {
	if len(c.Call.Args) < 2 {
		return nil
	}
	arg := c.Call.Args[1]
	if sl, ok := arg.(*ssa.Slice); ok {
		if al, ok := sl.X.(*ssa.Alloc); ok {
			return storedInto(al)
		}
	}
	return []ssa.Value{arg}
}

// sliceRoot follows a slice value back to its allocation roots.
func sliceRoots(v ssa.Value) map[ssa.Value]bool {
	roots := map[ssa.Value]bool{}
	seen := map[ssa.Value]bool{}
	var rec func(x ssa.Value)
	rec = func(x ssa.Value) {
		if x == nil || seen[x] {
			return
		}
		seen[x] = true
		switch y := x.(type) {
		case *ssa.Phi:
			for _, e := range y.Edges {
				rec(e)
			}
		case *ssa.Slice:
			rec(y.X)
		case *ssa.Call:
			if b, ok := y.Call.Value.(*ssa.Builtin); ok && b.Name() == "append" {
				rec(y.Call.Args[0])
				return
			}
			if isAppendLike(y) || isSlicesPassThrough(y) {
				rec(y.Call.Args[0])
				return
			}
			roots[x] = true
		case *ssa.ChangeType:
			rec(y.X)
		case *ssa.Convert:
			rec(y.X)
		default:
			roots[x] = true
		}
	}
	rec(v)
	return roots
}

func sharesRoot(a, b ssa.Value) bool {
	ra, rb := sliceRoots(a), sliceRoots(b)
	for k := range ra {
		if rb[k] {
			return true
		}
	}
	return false
}

// ---------------- FILTERED ----------------

func ruleFiltered(p *Prog, r *Result) {
	filterFn := p.MethodByName("FilterExec", "Filter")
	filterBatchFn := p.MethodByName("FilterExec", "FilterBatch")
	if filterFn == nil || filterBatchFn == nil {
		r.undecided("anchor: (*FilterExec).Filter / FilterBatch not found")
		return
	}
	rp := p.readerPlans()
	r.note("reader_plans", func() []string {
		var s []string
		for _, t := range rp {
			s = append(s, t.Obj().Name())
		}
		return s
	}())
	r.floor("plan types reading storage in Next/Batch", len(rp), 4)
	for _, t := range rp {
		// Next
		if fn := p.Method(t, "Next"); fn != nil {
			n := 0
			for _, b := range fn.Blocks {
				ret := retOf(b)
				if ret == nil || len(ret.Results) < 2 || isNilConst(retVal(ret, 0)) {
					continue
				}
				n++
				key := fmt.Sprintf("%s|return#%d", p.FName(fn), n)
				okv, why := false, "no FilterExec.Filter call whose true result dominates this return"
				allInstrs(fn, func(in ssa.Instruction) {
					c := isStaticCallTo(in, filterFn)
					if c == nil || okv {
						return
					}
					bv := extractOf(c, 0)
					if bv == nil || !trueEdgeDominates(bv, b) {
						return
					}
					// the filtered pair is built from the returned key (and value)
					kvp := c.Call.Args[1]
					if !dependsOn(kvp, retVal(ret, 0), 4) {
						why = "the pair given to Filter is not built from the returned key"
						return
					}
					if !dependsOn(kvp, retVal(ret, 1), 4) {
						why = "the pair given to Filter is not built from the returned value"
						return
					}
					okv = true
				})
				if !okv {
					// a filter that is the constant `true` accepts every pair: a return under a test that the filter's
					// expression is a *BoolExpr whose Bool is true needs no evaluation
					for _, a := range dominatingAtoms(b) {
						bv, isB := constBool(a.Y)
						if !isB || ((a.Op == token.EQL) != bv) {
							continue
						}
						if p.derivesFromField(a.X, "BoolExpr", "Bool", traceOpts{IntoReturns: true, MaxDepth: 2}) && p.isTrueOnlyUnder(a.X, "BoolExpr", "Bool") {
							okv = true
						}
					}
				}
				r.add(okv, key, p.InstrPos(ret), "a pair is returned only if the filter accepted that pair: "+map[bool]string{true: "ok", false: why}[okv])
			}
			if n == 0 {
				r.hit(p.FName(fn)+"|no-row-return", p.Pos(fn.Pos()), "Next never returns a pair")
			}
		}
		// Batch
		if fn := p.Method(t, "Batch"); fn != nil {
			var fbCalls []*ssa.Call
			allInstrs(fn, func(in ssa.Instruction) {
				if c := isStaticCallTo(in, filterBatchFn); c != nil {
					fbCalls = append(fbCalls, c)
				}
			})
			n := 0
			seenApp := map[*ssa.Call]bool{}
			for _, b := range fn.Blocks {
				ret := retOf(b)
				if ret == nil || len(ret.Results) < 1 || isNilConst(retVal(ret, 0)) {
					continue
				}
				for _, app := range appendsInto(retVal(ret, 0)) {
					if seenApp[app] {
						continue
					}
					seenApp[app] = true
					n++
					key := fmt.Sprintf("%s|append#%d", p.FName(fn), n)
					okv, why := false, "append to the returned slice is not under the true edge of a FilterBatch result element"
					for _, c := range fbCalls {
						matchs := extractOf(c, 0)
						if matchs == nil {
							continue
						}
						// find a dominating true edge on a load of matchs[i]
						var idx ssa.Value
						for _, bb := range fn.Blocks {
							for si := 0; si < len(bb.Succs) && ifOf(bb) != nil; si++ {
								a, ok := edgeAtom(bb, si)
								if !ok {
									continue
								}
								bv, isB := constBool(a.Y)
								if !isB || !((a.Op == token.EQL && bv) || (a.Op == token.NEQ && !bv)) {
									continue
								}
								ld, isLd := a.X.(*ssa.UnOp)
								if !isLd {
									continue
								}
								ia, isIA := ld.X.(*ssa.IndexAddr)
								if !isIA || !derivesFrom(ia.X, func(x ssa.Value) bool { return x == matchs }) {
									continue
								}
								if edgeDominates(bb, si, app.Block()) {
									idx = ia.Index
								}
							}
						}
						if idx == nil {
							continue
						}
						elems := appendedElems(app)
						if len(elems) != 1 {
							why = "append adds several elements per match"
							continue
						}
						ld, isLd := elems[0].(*ssa.UnOp)
						var ia *ssa.IndexAddr
						if isLd {
							ia, _ = ld.X.(*ssa.IndexAddr)
						}
						if ia == nil {
							why = "appended element is not an element of the filtered chunk"
							continue
						}
						if ia.Index != idx {
							why = "appended element's index differs from the index of the match flag tested"
							continue
						}
						if !sharesRoot(ia.X, c.Call.Args[1]) {
							why = "appended element does not come from the chunk passed to FilterBatch"
							continue
						}
						okv = true
					}
					r.add(okv, key, p.InstrPos(app), "rows enter the batch result only if FilterBatch accepted them: "+map[bool]string{true: "ok", false: why}[okv])
				}
			}
			if n == 0 {
				r.hit(p.FName(fn)+"|no-append", p.Pos(fn.Pos()), "Batch never appends a row to its result")
			}
		}
	}
}

// ---------------- NOROWDROP ----------------

var limitFields = map[string]bool{"Count": true, "Limit": true}

func isFetchCall(p *Prog, v ssa.Value) bool {
	ex, ok := v.(*ssa.Extract)
	var c *ssa.Call
	if ok {
		c, _ = ex.Tuple.(*ssa.Call)
		if ex.Index != 0 {
			return false
		}
	} else {
		c, _ = v.(*ssa.Call)
	}
	if c == nil {
		return false
	}
	if c.Call.IsInvoke() {
		tn := typeName(c.Call.Value.Type())
		return (tn == "Plan" || tn == "FinalPlan") && c.Call.Method.Name() == "Batch"
	}
	f := c.Call.StaticCallee()
	if f == nil || !p.InPkg(f) {
		return false
	}
	// package functions returning a batch: ([]KVPair|[][]Column|[]bool, error)
	res := f.Signature.Results()
	if res.Len() != 2 || !isErrorType(res.At(1).Type()) {
		return false
	}
	return isBatchSliceType(res.At(0).Type())
}

func isBatchSliceType(t types.Type) bool {
	sl, ok := t.Underlying().(*types.Slice)
	if !ok {
		return false
	}
	switch e := sl.Elem().(type) {
	case *types.Named:
		return e.Obj().Name() == "KVPair"
	case *types.Slice:
		return typeName(e.Elem()) == "Column" || e.Elem().String() == "any" || e.Elem().String() == "interface{}"
	case *types.Basic:
		return e.Kind() == types.Bool
	}
	return false
}

func isFetched(p *Prog, v ssa.Value) bool {
	return derivesFromNoElem(v, func(x ssa.Value) bool {
		if isFetchCall(p, x) {
			return true
		}
		if pa, ok := x.(*ssa.Parameter); ok && isBatchSliceType(pa.Type()) {
			return true
		}
		return false
	})
}

// derivesFromNoElem follows only slice-preserving steps (phi, reslice, conversions).
func derivesFromNoElem(v ssa.Value, pred func(ssa.Value) bool) bool {
	seen := map[ssa.Value]bool{}
	var rec func(x ssa.Value) bool
	rec = func(x ssa.Value) bool {
		if x == nil || seen[x] {
			return false
		}
		seen[x] = true
		if pred(x) {
			return true
		}
		switch y := x.(type) {
		case *ssa.Phi:
			for _, e := range y.Edges {
				if rec(e) {
					return true
				}
			}
		case *ssa.Slice:
			return rec(y.X)
		case *ssa.ChangeType:
			return rec(y.X)
		}
		return false
	}
	return rec(v)
}

func ruleNoRowDrop(p *Prog, r *Result) {
	plans, finals, err := p.planTypes()
	if err != nil {
		r.undecided("%v", err)
		return
	}
	nLoops := 0
	for _, t := range append(append([]*types.Named{}, plans...), finals...) {
		for _, fn := range p.methodsOf(t) {
			loops := naturalLoops(fn)
			li := 0
			for _, L := range loops {
				// does the loop index a fetched slice by its induction variable?
				var fetched ssa.Value
				for _, b := range orderedBlocks(fn, L.Body) {
					for _, in := range b.Instrs {
						ia, ok := in.(*ssa.IndexAddr)
						if !ok {
							continue
						}
						if !isFetched(p, ia.X) {
							continue
						}
						// index is a header phi or header phi + const
						idx := ia.Index
						if bo, ok := idx.(*ssa.BinOp); ok && bo.Op == token.ADD {
							idx = bo.X
						}
						if ph, ok := idx.(*ssa.Phi); ok && ph.Block() == L.Header {
							fetched = ia.X
						}
					}
				}
				if fetched == nil {
					continue
				}
				nLoops++
				li++
				bad := ""
				for _, b := range orderedBlocks(fn, L.Body) {
					for si, s := range b.Succs {
						if L.Body[s] {
							continue
						}
						if b == L.Header {
							continue // loop condition / range exhaustion
						}
						if returnsNonNilErrorFrom(s) {
							continue
						}
						a, ok := edgeAtom(b, si)
						if ok && isLimitReached(a) {
							continue
						}
						bad = fmt.Sprintf("early exit at %s drops the rest of a fetched batch (exit is neither an error return nor the limit-count condition)", p.InstrPos(b.Instrs[len(b.Instrs)-1]))
					}
				}
				key := fmt.Sprintf("%s|loop#%d", p.FName(fn), li)
				r.add(bad == "", key, p.InstrPos(L.Header.Instrs[len(L.Header.Instrs)-1]), "loop over fetched batch: "+firstNonEmpty(bad, "no row-dropping exit"))
			}
		}
	}
	r.note("loops_over_fetched_batches", nLoops)
	r.floor("loops over fetched batches", nLoops, 8)
}

// isLimitReached: atom compares a receiver field with a receiver field named Count/Limit (current >= Count).
func isLimitReached(a Atom) bool {
	_, fx, _, okx := loadedField(a.X)
	_, fy, _, oky := loadedField(a.Y)
	if !okx || !oky {
		return false
	}
	if limitFields[fy] && (a.Op == token.GEQ || a.Op == token.GTR) {
		return true
	}
	if limitFields[fx] && (a.Op == token.LEQ || a.Op == token.LSS) {
		return true
	}
	return false
}

// ---------------- ADJUSTCALL / IDXVARIANT ----------------

func ruleAdjustCall(p *Prog, r *Result) {
	adj := p.MethodByName("ExecuteCtx", "AdjustChunkCache")
	if adj == nil {
		r.undecided("anchor: (*ExecuteCtx).AdjustChunkCache not found")
		return
	}
	rp := p.readerPlans()
	n := 0
	for _, t := range rp {
		fn := p.Method(t, "Batch")
		if fn == nil {
			continue
		}
		n++
		var calls []*ssa.Call
		allInstrs(fn, func(in ssa.Instruction) {
			if c := isStaticCallTo(in, adj); c != nil {
				calls = append(calls, c)
			}
		})
		key := p.FName(fn)
		if len(calls) == 0 {
			r.hit(key+"|adjust-call", p.Pos(fn.Pos()), "scan Batch never calls AdjustChunkCache: alias columns cached for rejected rows stay in the chunk cache")
			continue
		}
		// every success return is dominated by a call
		okAll := true
		for _, b := range fn.Blocks {
			ret := retOf(b)
			if ret == nil || isNilConst(retVal(ret, 0)) {
				continue
			}
			dom := false
			for _, c := range calls {
				if instrDominates(c, ret) {
					dom = true
				}
			}
			if !dom {
				okAll = false
			}
		}
		r.add(okAll, key+"|adjust-call", p.InstrPos(calls[0]), "every success return is preceded by AdjustChunkCache")
		// the index slice: one append per chosen row, in the same block as the row append
		idxSlice := calls[0].Call.Args[1]
		apps := appendsInto(idxSlice)
		if len(apps) == 0 {
			r.hit(key+"|index-append", p.InstrPos(calls[0]), "the slice given to AdjustChunkCache never receives an index")
			continue
		}
		for ai, app := range apps {
			k2 := fmt.Sprintf("%s|index#%d", key, ai+1)
			elems := appendedElems(app)
			if len(elems) != 1 {
				r.hit(k2, p.InstrPos(app), "index append adds several values")
				continue
			}
			// row append in the same block
			sameBlockRow := false
			for _, in := range app.Block().Instrs {
				if c, ok := in.(*ssa.Call); ok && c != app {
					if b, ok := c.Call.Value.(*ssa.Builtin); ok && b.Name() == "append" && isBatchSliceType(c.Type()) {
						sameBlockRow = true
					}
				}
			}
			if !sameBlockRow {
				r.hit(k2, p.InstrPos(app), "index is not appended together with the chosen row (one index per chosen row)")
				continue
			}
			msg := cumulativeIndex(fn, app, elems[0])
			r.add(msg == "", k2, p.InstrPos(app), "index appended for a chosen row must count examined rows across all fetch windows of the call: "+firstNonEmpty(msg, "ok"))
		}
	}
	r.floor("scan Batch methods", n, 4)
}

// cumulativeIndex checks that v (the appended index) is a loop-carried counter of the
// innermost loop containing the append, whose value on entry to that loop is itself carried
// by the enclosing loop (not a constant), and which is incremented on every path through
// the inner loop body.
func cumulativeIndex(fn *ssa.Function, app *ssa.Call, v ssa.Value) string {
	if _, isC := v.(*ssa.Const); isC {
		return "the appended index is a constant"
	}
	loops := naturalLoops(fn)
	var inner *Loop
	for _, L := range loops {
		if L.Body[app.Block()] && (inner == nil || len(L.Body) < len(inner.Body)) {
			inner = L
		}
	}
	if inner == nil {
		return "the index append is not inside a loop"
	}
	ph, ok := v.(*ssa.Phi)
	if !ok || ph.Block() != inner.Header {
		return "the appended index is not a counter carried by the loop over the examined rows"
	}
	// entry value(s) and back-edge value(s)
	var entry, back []ssa.Value
	for i, e := range ph.Edges {
		if inner.Body[ph.Block().Preds[i]] {
			back = append(back, e)
		} else {
			entry = append(entry, e)
		}
	}
	for _, e := range entry {
		if _, isC := e.(*ssa.Const); isC {
			// constant on entry is fine only if there is no enclosing loop
			for _, L := range loops {
				if L != inner && L.Body[inner.Header] {
					return "the counter restarts from a constant for every fetch window (window-local index), but the chunk cache accumulates across windows"
				}
			}
		}
	}
	for _, e := range back {
		bo, ok := e.(*ssa.BinOp)
		if !ok || bo.Op != token.ADD {
			// allow phi merging of increments: every incoming must be an increment
			if ph2, ok := e.(*ssa.Phi); ok {
				for _, e2 := range ph2.Edges {
					b2, ok := e2.(*ssa.BinOp)
					if !ok || b2.Op != token.ADD || b2.X != ssa.Value(ph) {
						return "the counter is not advanced on every path through the loop body (e.g. only for matching rows)"
					}
				}
				continue
			}
			return "the counter is not advanced once per examined row"
		}
		if bo.X != ssa.Value(ph) {
			return "the counter is not advanced from its previous value"
		}
		if c, ok := constInt(bo.Y); !ok || c != 1 {
			return "the counter is not advanced by exactly one per examined row"
		}
	}
	if len(back) == 0 {
		return "the counter is never advanced"
	}
	return ""
}

// ---------------- MGETSORT ----------------

func ruleMGetSort(p *Prog, r *Result) {
	n := 0
	for _, fn := range p.Funcs {
		allInstrs(fn, func(in ssa.Instruction) {
			st, ok := in.(*ssa.Store)
			if !ok {
				return
			}
			o, f, base, ok := fieldOfAddr(st.Addr)
			if !ok || o == nil || o.Obj().Name() != "MultiGetPlan" || f != "Keys" {
				return
			}
			n++
			key := fmt.Sprintf("%s|Keys-store#%d", p.FName(fn), n)
			if _, isAlloc := base.(*ssa.Alloc); !isAlloc {
				r.hit(key, p.InstrPos(in), "Keys of an existing MultiGetPlan is overwritten (order no longer guaranteed)")
				return
			}
			sorted := false
			allInstrs(fn, func(in2 ssa.Instruction) {
				c, ok := in2.(*ssa.Call)
				if !ok {
					return
				}
				nm := p.calleeName(&c.Call)
				if nm != "sort.Strings" && nm != "slices.Sort" && nm != "sort.Sort" && nm != "sort.Stable" {
					if f := c.Call.StaticCallee(); f == nil || f.Origin() == nil || p.qualName(f.Origin()) != "slices.Sort" {
						return
					}
				}
				if len(c.Call.Args) > 0 && (c.Call.Args[0] == st.Val || sharesRoot(c.Call.Args[0], st.Val)) && instrDominates(c, st) {
					sorted = true
				}
			})
			r.add(sorted, key, p.InstrPos(in), "the key list stored into MultiGetPlan.Keys must have been sorted on every path")
			// duplicates removed after sorting (recognised idiom: slices.Compact on the sorted list)
			dedup := false
			backward(st.Val, func(x ssa.Value) bool {
				if c, ok := x.(*ssa.Call); ok && isCompactCall(c) {
					dedup = true
					return false
				}
				return true
			})
			if c, ok := st.Val.(*ssa.Call); ok && isCompactCall(c) {
				dedup = true
			}
			if !dedup {
				// second recognised idiom: a `seen` map - every append of a key is guarded by a failed
				// comma-ok lookup of that same key
				apps := appendsInto(st.Val)
				all := len(apps) > 0
				for _, app := range apps {
					elems := appendedElems(app)
					guarded := false
					for _, a := range dominatingAtoms(app.Block()) {
						ex, ok := a.X.(*ssa.Extract)
						if !ok || ex.Index != 1 {
							continue
						}
						lk, ok := ex.Tuple.(*ssa.Lookup)
						if !ok || !lk.CommaOk {
							continue
						}
						bv, isB := constBool(a.Y)
						if !isB || ((a.Op == token.EQL) == bv) {
							continue // must be "not present"
						}
						for _, e := range elems {
							if lk.Index == e {
								guarded = true
							}
						}
					}
					if !guarded {
						all = false
					}
				}
				dedup = all
			}
			r.add(dedup, key+"|dedup", p.InstrPos(in), "the sorted key list is compacted (slices.Compact) so that a key listed twice is read - and returned - once")
			// Compact only removes adjacent duplicates: it must see the sorted list
			var compact *ssa.Call
			backward(st.Val, func(x ssa.Value) bool {
				if c, ok := x.(*ssa.Call); ok && isCompactCall(c) {
					compact = c
					return false
				}
				return true
			})
			if compact != nil {
				after := false
				allInstrs(fn, func(in2 ssa.Instruction) {
					c, ok := in2.(*ssa.Call)
					if !ok {
						return
					}
					nm := p.calleeName(&c.Call)
					if nm != "sort.Strings" && nm != "slices.Sort" && nm != "sort.Sort" && nm != "sort.Stable" {
						if f := c.Call.StaticCallee(); f == nil || f.Origin() == nil || p.qualName(f.Origin()) != "slices.Sort" {
							return
						}
					}
					if len(c.Call.Args) > 0 && len(compact.Call.Args) > 0 && (c.Call.Args[0] == compact.Call.Args[0] || sharesRoot(c.Call.Args[0], compact.Call.Args[0])) && instrDominates(c, compact) {
						after = true
					}
				})
				r.add(after, key+"|dedup-after-sort", p.InstrPos(compact), "slices.Compact removes adjacent duplicates only: the list is sorted before it is compacted")
			}
			// every length recorded next to Keys in the same literal is the length of the stored list
			for _, ref := range *base.(*ssa.Alloc).Referrers() {
				fa, ok := ref.(*ssa.FieldAddr)
				if !ok {
					continue
				}
				_, fname, _, _ := fieldOfAddr(fa)
				for _, r2 := range *fa.Referrers() {
					st2, ok := r2.(*ssa.Store)
					if !ok || st2 == st {
						continue
					}
					if lv := lenOf(st2.Val); lv != nil {
						r.add(lv == st.Val, key+"|len|"+fname, p.InstrPos(st2), "a length stored next to Keys ("+fname+") is the length of the list stored into Keys (the plans index Keys up to it)")
						// ... and stays it: the number of keys to look up is not the number of rows a consumer wants
						// (an absent or filtered key yields no row), so nothing shortens it later
						other := ""
						for _, g := range p.Funcs {
							allInstrs(g, func(in3 ssa.Instruction) {
								st3, ok := in3.(*ssa.Store)
								if !ok || st3 == st2 {
									return
								}
								if o3, f3, _, ok := fieldOfAddr(st3.Addr); ok && o3 != nil && o3.Obj().Name() == "MultiGetPlan" && f3 == fname {
									other = p.FName(g) + " at " + p.InstrPos(st3)
								}
							})
						}
						r.add(other == "", key+"|len|"+fname+"|only-at-construction", p.InstrPos(st2), firstNonEmpty(map[bool]string{true: fname + " is rewritten by " + other}[other != ""], fname+" is written only where the plan is built"))
					}
				}
			}
		})
	}
	r.floor("stores to MultiGetPlan.Keys", n, 1)
}

// ---------------- GETNIL ----------------

func ruleGetNil(p *Prog, r *Result) {
	m := p.storage()
	n := 0
	for _, s := range m.Sites {
		if s.Method != "Storage.Get" {
			continue
		}
		c, ok := s.Instr.(*ssa.Call)
		if !ok {
			continue
		}
		n++
		key := fmt.Sprintf("%s|Get#%d", p.FName(s.Fn), n)
		val := extractOf(c, 0)
		if val == nil {
			r.ok(key, p.InstrPos(c), "value unused")
			continue
		}
		bad := ""
		nilTested := false
		for _, ref := range *val.Referrers() {
			switch x := ref.(type) {
			case *ssa.BinOp:
				if (x.Op == token.EQL || x.Op == token.NEQ) && (isNilConst(x.X) || isNilConst(x.Y)) {
					nilTested = true
				}
			case *ssa.Call:
				if b, ok := x.Call.Value.(*ssa.Builtin); ok && b.Name() == "len" {
					// len(val) used in a branch condition
					for _, r2 := range *x.Referrers() {
						if bo, ok := r2.(*ssa.BinOp); ok {
							for _, r3 := range *bo.Referrers() {
								if _, isIf := r3.(*ssa.If); isIf {
									bad = "presence of the pair is decided by len(value) at " + p.InstrPos(bo) + ": an empty stored value is treated as missing"
								}
							}
						}
					}
				}
			}
		}
		if bad == "" && !nilTested {
			bad = "the result of Get is never compared with nil (missing key not distinguished)"
		}
		r.add(bad == "", key, p.InstrPos(c), firstNonEmpty(bad, "found/missing decided by nil test"))
	}
	r.floor("Storage.Get sites", n, 2)
}

// ---------------- BYTESFRESH ----------------

func ruleBytesFresh(p *Prog, r *Result) {
	n := 0
	for _, fn := range p.Funcs {
		idx := 0
		allInstrs(fn, func(in ssa.Instruction) {
			c, ok := in.(*ssa.Call)
			if !ok {
				return
			}
			b, ok := c.Call.Value.(*ssa.Builtin)
			if !ok || b.Name() != "append" {
				return
			}
			sl, ok := c.Type().Underlying().(*types.Slice)
			if !ok {
				return
			}
			if bt, ok := sl.Elem().(*types.Basic); !ok || bt.Kind() != types.Uint8 {
				return
			}
			n++
			idx++
			key := fmt.Sprintf("%s|append-bytes#%d", p.FName(fn), idx)
			fresh := true
			for root := range sliceRoots(c.Call.Args[0]) {
				switch x := root.(type) {
				case *ssa.MakeSlice, *ssa.Alloc:
				case *ssa.Const:
					if !x.IsNil() {
						fresh = false
					}
				default:
					fresh = false
				}
			}
			r.add(fresh, key, p.InstrPos(c), "append extends a buffer the library allocated itself (not a slice that may alias stored keys/values)")
		})
	}
	r.note("byte_appends", n)
	r.floor("append sites on []byte", n, 2)
}

// ---------------- CACHECOPY ----------------

func ruleCacheCopy(p *Prog, r *Result) {
	get := p.MethodByName("ExecuteCtx", "GetChunkFieldResult")
	set := p.MethodByName("ExecuteCtx", "SetChunkFieldResult")
	if get == nil || set == nil {
		r.undecided("anchor: ExecuteCtx.GetChunkFieldResult/SetChunkFieldResult not found")
		return
	}
	isFreshCopy := func(v ssa.Value) bool {
		ok := true
		for root := range sliceRoots(v) {
			if _, isMk := root.(*ssa.MakeSlice); !isMk {
				ok = false
			}
		}
		return ok
	}
	n := 0
	for _, fn := range p.Funcs {
		allInstrs(fn, func(in ssa.Instruction) {
			if c := isStaticCallTo(in, get); c != nil {
				n++
				key := p.FName(fn) + "|cache-hit"
				cached := extractOf(c, 0)
				bad := ""
				if cached != nil {
					for _, b := range fn.Blocks {
						if ret := retOf(b); ret != nil && len(ret.Results) > 0 {
							if derivesFromNoElem(retVal(ret, 0), func(x ssa.Value) bool { return x == cached }) {
								bad = "the cached chunk itself is returned at " + p.InstrPos(ret) + " (callers overwrite their operand slices in place and would corrupt the cache)"
							}
						}
					}
				}
				r.add(bad == "", key, p.InstrPos(c), firstNonEmpty(bad, "cache hit returns a fresh copy"))
			}
			if c := isStaticCallTo(in, set); c != nil {
				n++
				key := p.FName(fn) + "|cache-store"
				chunk := c.Call.Args[len(c.Call.Args)-1]
				r.add(isFreshCopy(chunk), key, p.InstrPos(c), "the slice stored into the chunk cache must be a fresh copy, not the evaluation result that is returned to (and overwritten by) the caller")
			}
		})
	}
	r.floor("chunk cache get/set sites", n, 2)
}

// isAppendLike: a library function of the form AppendX(dst []T, ...) []T (strconv.AppendInt,
// fmt.Appendf, ...): it extends and returns its first argument like the append builtin.
func isAppendLike(c *ssa.Call) bool {
	f := c.Call.StaticCallee()
	if f == nil || f.Pkg == nil || len(c.Call.Args) == 0 {
		return false
	}
	if !strings.HasPrefix(f.Name(), "Append") {
		return false
	}
	res := f.Signature.Results()
	if res.Len() != 1 {
		return false
	}
	return types.Identical(res.At(0).Type(), c.Call.Args[0].Type())
}

// isSlicesPassThrough: slices.Compact / Clip / Grow ...: return (a reslice of) their first argument.
func isSlicesPassThrough(c *ssa.Call) bool {
	f := c.Call.StaticCallee()
	if f == nil || len(c.Call.Args) == 0 {
		return false
	}
	o := f
	if f.Origin() != nil {
		o = f.Origin()
	}
	if o.Pkg == nil || o.Pkg.Pkg.Path() != "slices" {
		return false
	}
	switch o.Name() {
	case "Compact", "CompactFunc", "Clip", "Grow":
		return types.Identical(c.Type(), c.Call.Args[0].Type())
	}
	return false
}

func isCompactCall(c *ssa.Call) bool {
	f := c.Call.StaticCallee()
	if f == nil {
		return false
	}
	o := f
	if f.Origin() != nil {
		o = f.Origin()
	}
	return o.Pkg != nil && o.Pkg.Pkg.Path() == "slices" && o.Name() == "Compact"
}

// isTrueOnlyUnder: the Boolean v can be true only when a loaded field owner.field is true: v is
// that load, a phi of it with false, or the result of a package helper whose result has this form.
func (p *Prog) isTrueOnlyUnder(v ssa.Value, owner, field string) bool {
	var rec func(x ssa.Value, d int) bool
	rec = func(x ssa.Value, d int) bool {
		if d > 5 {
			return false
		}
		if bv, ok := constBool(x); ok {
			return !bv
		}
		if isFieldLoad(x, owner, field) {
			return true
		}
		switch y := x.(type) {
		case *ssa.Phi:
			for _, e := range y.Edges {
				if !rec(e, d+1) {
					return false
				}
			}
			return true
		case *ssa.Call:
			g := y.Call.StaticCallee()
			if g == nil || !p.InPkg(g) || len(g.Blocks) == 0 {
				return false
			}
			for _, b := range g.Blocks {
				if ret := retOf(b); ret != nil {
					if len(ret.Results) != 1 || !rec(retVal(ret, 0), d+1) {
						return false
					}
				}
			}
			return true
		}
		return false
	}
	return rec(v, 0)
}
